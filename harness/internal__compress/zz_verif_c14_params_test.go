//go:build verif

package compress

import (
	"bytes"
	"fmt"
	"io"
	"strings"
	"testing"

	"github.com/imroc/req/v3/internal/verifc14"
	"github.com/imroc/req/v3/internal/verifh"
)

// TestVerif_C14_params: the codecs' PARAMETER space. Whatever a conforming encoder may pick -
// level / quality, window up to the format's (library's) limit, single-segment zstd frames,
// check sums on or off, optional gzip header fields, sync flushes inside the stream, padding with
// skippable frames - the reader NewCompressReader builds must deliver exactly the payload. The
// real encoders produce the bodies (all block types, real long-distance matches); the model is
// the lazy reader over a codec that round-trips (`delivered_original`, `read_size_independent`,
// `unzstd_any_window`, `unzstd_single_segment_any_size`); multi-megabyte cases are judged by the
// oracle alone (their hex rendering would not fit a driver line).
func TestVerif_C14_params(t *testing.T) {
	s := verifh.New(t, "C14", "params",
		"bodies from the REAL encoders with drawn parameters: gzip / raw deflate {level 0,1,3,-1,6,9,HuffmanOnly} x gzip header {FEXTRA 0..299 B, FNAME, FCOMMENT, MTIME, OS} x 0-3 sync flushes x 1-3 members; brotli {quality 0..11} x {lgwin auto, 10..24} x flushes; zstd {fastest, default, better, best} x window 2^10..2^25 (thorough: ..2^29, the decoder's bound) x {streamed with window descriptor, ONE single-segment frame} x {content check sum on, off} x {no entropy coding, all-literal entropy coding, lower-memory encoder} x padding with a skippable frame; payload {empty, tiny, text, random, 40..130 KiB, long-distance repeat up to the window}; plus every zstd window exponent 10..25 once with a payload that repeats at half the window, and 12 MiB payloads (16 MiB window streamed; one single-segment frame) - thorough: up to 64 MiB / 2^27; stream intact or cut; underlying chunking x 1-4 cycling Read sizes (0 included). Model: c14reader (lazy reader over the round-tripping codec); oracle: intact => payload + EOF, cut => read error after a prefix (brotli: known class); non-trivial = payload not empty")
	r := s.Rand()
	hist := map[string]int{}
	count := func(k string) { s.Count(k); hist[k]++ }
	maxLog := verifh.N(verifc14.ZstdMaxLogQuick, verifc14.ZstdMaxLogThorough)
	type pcase struct {
		alg, kind, desc string
		payload, wire   []byte
		big             bool
	}
	var cases []pcase
	// 1. drawn parameters
	n := verifh.N(260, 12000)
	for i := 0; i < n; i++ {
		alg := verifc14.Algs[i%4]
		pc := r.Intn(5)
		var p []byte
		if pc == 4 && r.Intn(2) == 0 {
			p = verifc14.LongRepeat(r, 2048<<uint(r.Intn(8))) // 2 KiB .. 256 KiB
		} else {
			p = verifc14.Payload(r, pc)
		}
		w, desc := verifc14.CompressP(r, alg, p, maxLog)
		kind := "valid"
		lastStart := 0 // where the last gzip member starts: a cut AT a member boundary is a valid, shorter stream
		if alg == "gzip" && r.Intn(4) == 0 {
			for k := 1 + r.Intn(2); k > 0; k-- {
				p2 := verifc14.Payload(r, r.Intn(4))
				w2, d2 := verifc14.CompressP(r, "gzip", p2, maxLog)
				lastStart = len(w)
				p, w, desc = append(append([]byte(nil), p...), p2...), append(append([]byte(nil), w...), w2...), desc+" + "+d2
			}
			kind = "multi"
		}
		if r.Intn(6) == 0 && len(w)-lastStart >= 2 {
			kind = "trunc" // strictly inside the (last) member / frame
			w = w[:lastStart+1+r.Intn(len(w)-lastStart-1)]
		}
		cases = append(cases, pcase{alg: alg, kind: kind, desc: desc, payload: p, wire: w})
	}
	// 2. every zstd window exponent, with a payload whose second half repeats the first at a
	// distance of half the window (small windows) or 1 MiB
	for lw := 10; lw <= maxLog; lw++ {
		half := 1 << uint(lw-1)
		if half > 1<<20 {
			half = 1 << 20
		}
		p := verifc14.LongRepeat(r, 2*half)
		for _, single := range []bool{false, true} {
			cases = append(cases, pcase{alg: "zstd", kind: "window", desc: fmt.Sprintf("zstd window=2^%d single=%v", lw, single),
				payload: p, wire: verifc14.CompressZstd(p, lw, single), big: len(p) > 64<<10})
		}
	}
	// 3. multi-megabyte payloads behind windows larger than any stock encoder level uses
	type bigSpec struct {
		mib, lw int
		single  bool
	}
	bigs := []bigSpec{{12, 24, false}, {12, 24, true}}
	if verifh.N(0, 1) == 1 {
		bigs = append(bigs, bigSpec{24, 25, false}, bigSpec{40, 26, true}, bigSpec{64, 27, false}, bigSpec{9, 29, false}, bigSpec{17, 24, true})
	}
	for _, b := range bigs {
		p := verifc14.LongRepeat(r, b.mib<<20)
		cases = append(cases, pcase{alg: "zstd", kind: "big", desc: fmt.Sprintf("zstd %d MiB window=2^%d single=%v", b.mib, b.lw, b.single),
			payload: p, wire: verifc14.CompressZstd(p, b.lw, b.single), big: true})
	}
	for i, c := range cases {
		sizes := verifc14.Sizes(r)
		chunk := 0
		if r.Intn(2) == 0 {
			chunk = 1 + r.Intn(40)
		}
		if len(c.wire) > 8192 {
			if chunk > 0 {
				chunk *= 997
			}
			sizes = []int{verifh.Pick(r, []int{512, 4099, 65536, 200003, 1 << 20})}
			if r.Intn(2) == 0 {
				sizes = append(sizes, 0)
			}
		}
		src := &verifc14.Src{Data: c.wire, Fin: io.EOF, Chunk: chunk}
		id := fmt.Sprintf("%s/%s#%d", c.alg, c.kind, i)
		human := fmt.Sprintf("%s [%s] payload=%dB wire=%dB chunk=%d reads=%v", c.kind, c.desc, len(c.payload), len(c.wire), chunk, sizes)
		var got string
		var raw []byte
		if p, bad := verifh.Safely(func() {
			rd := NewCompressReader(src, c.alg)
			got, raw = c14RunScript(rd, c.payload, -1, sizes, []int{5})
			rd.Close()
		}); bad {
			s.Crash(id, human, p, "")
			continue
		}
		var gotData, gotTerm string
		fmt.Sscanf(got, "data=%s t=%s", &gotData, &gotTerm)
		ok, class := true, ""
		switch c.kind {
		case "trunc":
			ok = strings.HasPrefix(gotTerm, "err") && bytes.HasPrefix(c.payload, raw) || gotTerm == "eof" && bytes.Equal(raw, c.payload)
			if !ok && c.alg == "br" && gotTerm == "eof" && bytes.HasPrefix(c.payload, raw) {
				class = "br-truncated-eof"
			}
		default:
			ok = bytes.Equal(raw, c.payload) && gotTerm == "eof"
		}
		if !ok {
			human += fmt.Sprintf(" :: read as %d bytes + %s", len(raw), gotTerm)
		}
		count(c.alg + ":" + c.kind)
		count("end:" + gotTerm)
		if strings.Contains(c.desc, "single=true") {
			count("zstd:single-segment")
		}
		if strings.Contains(c.desc, "padding=") {
			count("zstd:padding")
		}
		if strings.Contains(c.desc, "FEXTRA") {
			count("gzip:FEXTRA")
		}
		if c.big || c.kind == "trunc" || len(c.payload) > 64<<10 {
			// oracle-judged: the payload does not fit a driver line / the model of a cut stream
			// needs the library's verdict (lane readers does that under the same schedule)
			if c.big {
				count("big")
			}
			s.Observe(id, ok, class, true, human, got[:min(len(got), 120)])
			continue
		}
		count("model-judged")
		line := "c14reader lazy ok " + verifh.Hex(string(c.payload)) + " eof -1 " + verifh.IntList(sizes) + " 5"
		s.Case(line, got, ok, class, len(c.payload) > 0, human)
	}
	for _, k := range []string{"gzip:valid", "gzip:multi", "deflate:valid", "br:valid", "zstd:valid", "zstd:window", "zstd:big", "zstd:single-segment",
		"zstd:padding", "gzip:FEXTRA", "model-judged", "big", "end:eof"} {
		if hist[k] == 0 {
			t.Errorf("bucket %s not reached", k)
		}
	}
	s.Finish()
}
