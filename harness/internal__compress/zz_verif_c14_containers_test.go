//go:build verif

package compress

import (
	"bytes"
	"fmt"
	"io"
	"strings"
	"testing"
	"time"

	"github.com/imroc/req/v3/internal/verifc14"
	"github.com/imroc/req/v3/internal/verifh"
)

// TestVerif_C14_containers: the Lean model's encoders (gzip members with every header-field
// combination around stored DEFLATE blocks, raw stored streams, the zlib wrapper) produce the
// bodies; GzipReader / DeflateReader read them - intact, cut, damaged, followed by garbage,
// ended by a framing error - under generated input chunking and Read sizes (zero-length reads
// included); what they deliver (every byte, and the final error class) is compared with the
// model's decoder and judged by the property oracle.
func TestVerif_C14_containers(t *testing.T) {
	s := verifh.New(t, "C14", "containers",
		"bodies ENCODED BY THE MODEL (c14enc): gzip members {FTEXT, FHCRC, FEXTRA 0..300 B, FNAME / FCOMMENT 0..511 B, random MTIME/XFL/OS} x payload {empty, tiny, text, random, 65534..131070 B} x random split into stored blocks (empty blocks, 65535-byte blocks) x {1 member, 2-3 members, no member (empty body), cut inside a member (header / trailer / anywhere), message ended by the framing layer at a member boundary or inside, 1-9 stray bytes, >=10 garbage bytes, a bare second header, bit flip in magic|flags / optional fields / block header+LEN+NLEN / DEFLATE part / CRC+ISIZE, FNAME of 510..700 bytes}; raw stored DEFLATE {valid, + trailing bytes, cut, empty body, zlib-wrapped (RFC 9110 deflate), a gzip member, bit flip, framing error}; zstd frames {single-segment / window descriptor 1 KiB..1 MiB, Frame_Content_Size absent / 1 / 2 / 4 / 8 bytes, Content_Checksum, zero Dictionary_ID field, unused bit} x raw blocks (empty, up to 128 KiB) x {1 frame, 2-3 frames, skippable frames before / between / after / only, no frame, cut (header / check sum / anywhere), 1-3 stray bytes, >=4 garbage bytes, bit flip with and without check sum and in the header, wrong Frame_Content_Size, reserved bit, non-zero dictionary id, Window_Descriptor over its WHOLE range (exponent 0..16 in ordinary frames; 2 MiB..480 MiB with any mantissa, exactly 2^29 = the largest accepted, the seven descriptors just above 2^29 and everything up to 2^41: refused - the model's startBlocks decides), window >= 2^30, block larger than the window, block of 128 KiB + 1..3 after one of exactly 128 KiB, framing error at a frame boundary / inside}; read through compress.NewCompressReader over a body delivering 1..40-byte or unbounded chunks with 1-4 cycling Read sizes from {0, 1, 2, 3, 7, 13, 16, 97, 512, 4099, 65536, 200003}. Answer = all bytes delivered + final error class, compared with the model decoder (c14dec: Auto.mean of the gzip / deflate automaton); oracle: intact => payload + EOF, cut / garbage / framing error / wrong trailer => error after a prefix of the payload, bit flip under CRC => error or the payload; non-trivial = the body is not empty")
	r := s.Rand()
	hist := map[string]int{}
	count := func(k string) { s.Count(k); hist[k]++ }
	streams, err := verifc14.GenStreams(r, verifh.N(700, 40000), verifh.N(6, 60))
	if err != nil {
		t.Fatalf("infra: model encoder: %v", err)
	}
	zs, err := verifc14.GenZStreams(r, verifh.N(400, 20000), verifh.N(3, 30))
	if err != nil {
		t.Fatalf("infra: model encoder: %v", err)
	}
	streams = append(streams, zs...)
	type run struct {
		st    verifc14.FStream
		sizes []int
		chunk int
		data  []byte
		term  string
		line  string
	}
	var runs []*run
	for i, st := range streams {
		sizes := verifc14.Sizes(r)
		chunk := 0
		if r.Intn(2) == 0 {
			chunk = 1 + r.Intn(40)
		}
		if len(st.Wire) > 8192 && chunk > 0 {
			chunk *= 997
		}
		x := &run{st: st, sizes: sizes, chunk: chunk}
		src := &verifc14.Src{Data: append([]byte(nil), st.Wire...), Fin: st.Fin, Chunk: chunk}
		id := fmt.Sprintf("%s/%s#%d", st.Fmt, st.Kind, i)
		if p, bad := verifh.Safely(func() {
			rd := NewCompressReader(src, st.Fmt)
			x.term = "-"
			limit := 6*(len(st.Wire)+len(st.Payload)) + 4096
			for k := 0; k < limit; k++ {
				buf := make([]byte, sizes[k%len(sizes)])
				n, err := rd.Read(buf)
				if n < 0 || n > len(buf) {
					x.term = "bad-count"
					break
				}
				x.data = append(x.data, buf[:n]...)
				if err != nil {
					x.term = verifc14.Term(err)
					break
				}
			}
			// and nothing after the end: the same error again, no data
			if x.term != "-" {
				buf := make([]byte, 8)
				if n, err := rd.Read(buf); n != 0 || verifc14.Term(err) != x.term {
					x.term += fmt.Sprintf("!then(%d,%s)", n, verifc14.Term(err))
				}
			}
			rd.Close()
		}); bad {
			s.Crash(id, id, p, "")
			continue
		}
		// gzip / deflate: the model's INCREMENTAL reader (Auto.reader / pull) is read with the same sizes
		x.line = "c14dec " + st.Fmt + " " + verifh.Hex(string(st.Wire)) + " " + verifc14.Term(st.Fin) + " " + verifh.IntList(sizes)
		runs = append(runs, x)
	}
	// which streams leave the modelled subset (a flipped BTYPE makes a Huffman block)?
	lines := make([]string, len(runs))
	for i, x := range runs {
		lines[i] = x.line
	}
	model, err := verifh.RunModel(lines)
	if err != nil {
		t.Fatalf("infra: model: %v", err)
	}
	for i, x := range runs {
		st := x.st
		ok, why := true, ""
		switch {
		case st.Intact:
			if !bytes.Equal(x.data, st.Payload) || x.term != "eof" {
				ok, why = false, fmt.Sprintf("intact stream read as %d bytes + %s, payload is %d bytes", len(x.data), x.term, len(st.Payload))
			}
		case st.MustErr:
			if !strings.HasPrefix(x.term, "err") || strings.Contains(x.term, "!") {
				ok, why = false, fmt.Sprintf("read as %d bytes + %s: no (sticky) read error", len(x.data), x.term)
			} else if !bytes.HasPrefix(st.Payload, x.data) {
				ok, why = false, "bytes that are not the payload's before the error"
			}
		case st.ErrOrOK:
			if !(strings.HasPrefix(x.term, "err") && !strings.Contains(x.term, "!")) && !(x.term == "eof" && bytes.Equal(x.data, st.Payload)) {
				ok, why = false, fmt.Sprintf("damaged stream read as %d bytes + %s: neither an error nor the payload", len(x.data), x.term)
			}
		}
		human := fmt.Sprintf("%s %s payload=%dB wire=%dB chunk=%d reads=%v fin=%s -> %dB %s", st.Fmt, st.Kind, len(st.Payload), len(st.Wire), x.chunk, x.sizes, verifc14.Term(st.Fin), len(x.data), x.term)
		if !ok {
			human += " :: " + why
		}
		count(st.Fmt + ":" + st.Kind)
		count("end:" + x.term)
		for _, z := range x.sizes {
			if z == 0 {
				count("zero-length-read")
				break
			}
		}
		if len(st.Payload) > 65535 {
			count("multi-block-forced")
		}
		impl := "data=" + verifh.Hex(string(x.data)) + " t=" + x.term
		if model[i] == "unmodelled" {
			count("unmodelled")
			s.Observe(fmt.Sprintf("%s/%s#%d", st.Fmt, st.Kind, i), ok, "", true, human+" (outside the modelled subset: oracle only)", impl[:min(len(impl), 200)])
			continue
		}
		count("model-judged")
		class := ""
		if st.Fmt == "zstd" && st.Fin != io.EOF && x.term == "eof" {
			// klauspost zstd frameDec.reset turns the source's io.ErrUnexpectedEOF into io.EOF where a frame
			// may start (permanent known finding; the model reports the source's error)
			if _, _, rt := verifc14.RefRaw("zstd", st.Wire, st.Fin); rt == "eof" {
				class = "zstd-source-error-at-frame-boundary"
			}
		}
		s.Case(x.line, impl, ok, class, len(st.Wire) > 0, human)
	}
	need := []string{"model-judged", "zero-length-read", "multi-block-forced", "end:eof", "end:err1", "end:err2"}
	for _, k := range []string{"valid", "multi", "empty", "trunc", "trunc-multi", "boundary-srcerr", "inside-srcerr", "stray", "garbage", "hdr-only", "flip", "flip-trailer", "longname", "zero-isize"} {
		need = append(need, "gzip:"+k)
	}
	for _, k := range []string{"valid", "trail", "trunc", "empty", "zlib", "gzip", "flip", "srcerr"} {
		need = append(need, "deflate:"+k)
	}
	for _, k := range []string{"valid", "multi", "skip", "skip-only", "empty", "trunc", "trunc-multi", "stray", "garbage", "flip-sum", "flip-nosum", "flip-hdr", "fcs-wrong", "reserved-bit", "dict", "big-window", "block-gt-window", "block-gt-128k", "boundary-srcerr", "inside-srcerr", "window-large", "window-max", "window-above"} {
		need = append(need, "zstd:"+k)
	}
	for _, k := range need {
		if hist[k] == 0 {
			t.Errorf("bucket %s not reached", k)
		}
	}
	_ = io.EOF
	s.Finish()
}

// c14CloseWait: a Close that has not returned after this long is waiting for the body (it
// normally takes microseconds).
const c14CloseWait = 3 * time.Second

// TestVerif_C14_close: Close of the four wrappers must reach the body underneath - after any
// sequence of reads (of any size, zero included) and closes, on intact and on damaged streams.
// Observed: how often the underlying Body.Close was called; for GzipReader also that a Read
// after Close returns fs.ErrClosed and no data. Model: Req.Client.CompressClose.runOps closeOf.
func TestVerif_C14_close(t *testing.T) {
	s := verifh.New(t, "C14", "close",
		"alg {gzip, deflate, br, zstd} x stream {valid tiny..>64KiB, truncated, not that format, empty} x operation sequences of length 1..8 over {Read(n) n from 0..65536, Close} (close first, close after a partial read, after the end, repeated closes); answer = number of calls of the underlying Body.Close; model = runOps closeOf (c14close); oracle: once Close was called the underlying body is closed, a Read never closes it; non-trivial = the sequence contains a Close")
	r := s.Rand()
	hist := map[string]int{}
	count := func(k string) { s.Count(k); hist[k]++ }
	for i, n := 0, verifh.N(600, 30000); i < n; i++ {
		alg := verifc14.Algs[i%4]
		pc := 1 + r.Intn(3)
		if r.Intn(12) == 0 {
			pc = 4
		}
		p := verifc14.Payload(r, pc)
		w := verifc14.Compress(alg, p)
		kind := "valid"
		switch r.Intn(6) {
		case 0:
			w, kind = w[:r.Intn(len(w))], "trunc"
		case 1:
			w, kind = p, "wrongfmt"
		case 2:
			w, kind = nil, "empty"
		}
		src := &verifc14.Src{Data: w, Fin: io.EOF}
		if r.Intn(2) == 0 {
			src.Chunk = 1 + r.Intn(64)
		}
		var ops, trace []string
		sawClose, readBeforeClose := false, false
		bad := ""
		if ptext, panicked := verifh.Safely(func() {
			rd := NewCompressReader(src, alg)
			for k := 1 + r.Intn(8); k > 0; k-- {
				if r.Intn(3) == 0 {
					rd.Close()
					ops = append(ops, "c")
					trace = append(trace, "Close")
					sawClose = true
					if alg == "gzip" {
						buf := make([]byte, 16)
						if n, err := rd.Read(buf); n != 0 || verifc14.Term(err) != "err3" {
							bad = fmt.Sprintf("GzipReader: Read after Close returned %d bytes, %v", n, err)
						}
						ops = append(ops, "r")
						trace = append(trace, "Read(16)")
					}
				} else {
					sz := verifh.Pick(r, []int{0, 1, 7, 100, 4096, 65536})
					closesBefore := src.Closes
					rd.Read(make([]byte, sz))
					if src.Closes != closesBefore {
						bad = "a Read closed the underlying body"
					}
					ops = append(ops, "r")
					trace = append(trace, fmt.Sprintf("Read(%d)", sz))
					if !sawClose {
						readBeforeClose = true
					}
				}
			}
		}); panicked {
			s.Crash(fmt.Sprintf("close#%d", i), alg+" "+strings.Join(trace, " "), ptext, "")
			continue
		}
		ok := bad == "" && (!sawClose || src.Closes >= 1)
		class := ""
		readThenClose := false
		for k, seenRead := 0, false; k < len(ops); k++ {
			if ops[k] == "r" {
				seenRead = true
			} else if seenRead {
				readThenClose = true
			}
		}
		if alg == "deflate" && readThenClose {
			// DeflateReader.Close closes only the flate reader once a Read happened (repaired in /repo by 1ae1001)
			class = "deflate-close-leaves-body-open"
		}
		human := fmt.Sprintf("%s %s payload=%dB wire=%dB chunk=%d: %s -> Body.Close called %d times", alg, kind, len(p), len(w), src.Chunk, strings.Join(trace, " "), src.Closes)
		if bad != "" {
			human += " :: " + bad
		} else if !ok {
			human += " :: Close did not close the underlying body"
		}
		count(alg)
		count("kind:" + kind)
		if sawClose {
			count("closed")
			if readBeforeClose {
				count("close-after-read")
			} else {
				count("close-first")
			}
		}
		s.Case("c14close "+alg+" "+strings.Join(ops, ","), fmt.Sprintf("body=%d waits=0", src.Closes), ok, class, sawClose, human)
	}
	// a body whose peer has stopped sending: Close must not wait for it
	rnd := make([]byte, 300000)
	r.Read(rnd)
	for _, alg := range verifc14.Algs {
		w := verifc14.Compress(alg, rnd)
		for _, script := range [][]string{{"c"}, {"r", "c"}, {"r", "r", "c", "c"}} {
			src := verifc14.NewStallSrc(w[:len(w)/2])
			waits := 0
			var trace []string
			if ptext, panicked := verifh.Safely(func() {
				rd := NewCompressReader(src, alg)
				for _, op := range script {
					if op == "r" {
						sz := verifh.Pick(r, []int{1, 100, 2000})
						rd.Read(make([]byte, sz))
						trace = append(trace, fmt.Sprintf("Read(%d)", sz))
						continue
					}
					done := make(chan struct{})
					go func() { rd.Close(); close(done) }()
					select {
					case <-done:
					case <-time.After(c14CloseWait):
						waits = 1
						src.Close() // let it go: the wrapper never got as far as Body.Close
						<-done
					}
					trace = append(trace, "Close")
				}
			}); panicked {
				s.Crash("stalled "+alg, alg+" "+strings.Join(trace, " "), ptext, "")
				continue
			}
			n := src.NCloses()
			class := ""
			hasRead := script[0] == "r"
			switch {
			case alg == "zstd" && hasRead:
				class = "zstd-close-waits-for-body" // fixes/C14-6
			case alg == "deflate" && hasRead:
				class = "deflate-close-leaves-body-open"
			}
			ok := waits == 0 && n >= 1
			human := fmt.Sprintf("%s over a STALLED body (%d bytes delivered, then silence): %s -> Close waited for the body: %v, Body.Close called %d times", alg, len(w)/2, strings.Join(trace, " "), waits == 1, n)
			count("stalled")
			if waits == 1 {
				n-- // the harness's own rescue Close
				count("stalled:close-blocked")
			}
			s.Case("c14close "+alg+" "+strings.Join(script, ","), fmt.Sprintf("body=%d waits=%d", n, waits), ok, class, true, human)
		}
	}
	for _, k := range []string{"gzip", "deflate", "br", "zstd", "closed", "close-after-read", "close-first", "kind:valid", "kind:trunc", "kind:wrongfmt", "kind:empty", "stalled"} {
		if hist[k] == 0 {
			t.Errorf("bucket %s not reached", k)
		}
	}
	s.Finish()
}
