//go:build verif

package compress

import (
	"bytes"
	"fmt"
	"io"
	"strconv"
	"strings"
	"testing"

	"github.com/imroc/req/v3/internal/ascii"
	"github.com/imroc/req/v3/internal/verifc14"
	"github.com/imroc/req/v3/internal/verifh"
)

// c14RunScript drives a reader the way the driver lane `c14reader` does.
func c14RunScript(rd io.ReadCloser, expect []byte, closeAfter int, sizes, extra []int) (canon string, raw []byte) {
	var data []byte
	term := "-"
	limit := 4*len(expect) + 4096
	if closeAfter >= 0 {
		limit = closeAfter
	}
	for i := 0; i < limit; i++ {
		buf := make([]byte, sizes[i%len(sizes)])
		for j := range buf {
			buf[j] = 0xAA // dirty buffer
		}
		n, err := rd.Read(buf)
		if n < 0 || n > len(buf) {
			return "bad-count", nil
		}
		data = append(data, buf[:n]...)
		if err != nil {
			term = verifc14.Term(err)
			break
		}
	}
	if closeAfter >= 0 {
		rd.Close()
	}
	var after []string
	for _, n := range extra {
		buf := make([]byte, n)
		k, err := rd.Read(buf)
		after = append(after, verifh.Hex(string(buf[:k]))+":"+verifc14.Term(err))
	}
	d := verifh.Hex(string(data))
	if strings.HasPrefix(term, "err") {
		// how much a decoder hands out before it reports an error depends on how its input
		// arrives; the property is about the error. Garbage is judged by the oracle (rawData).
		d = "partial"
	}
	if closeAfter > 0 {
		if bytes.HasPrefix(expect, data) {
			d = "prefix"
		} else {
			d = "notprefix"
		}
		term = "*" // whether the end was reached within j reads depends on how short the reads are
	}
	a := "-"
	if len(after) > 0 {
		a = strings.Join(after, ",")
	}
	return "data=" + d + " t=" + term + " after=" + a, data
}

// ---------------------------------------------------------------- lanes

// TestVerif_C14_select: NewCompressReader's selection vs the model's `select` (exact,
// case-sensitive) and the EqualFold test used by the gzip branch.
func TestVerif_C14_select(t *testing.T) {
	s := verifh.New(t, "C14", "select",
		"Content-Encoding tokens: the four supported, case variants, x- aliases, lists, padded, identity, empty, random token strings; answer = concrete reader type built by compress.NewCompressReader (or nil) + ascii.EqualFold(token,\"gzip\"); non-trivial = token derived from a supported one")
	r := s.Rand()
	hist := map[string]int{}
	count := func(k string) { s.Count(k); hist[k]++ }
	base := []string{"gzip", "deflate", "br", "zstd", "identity", "compress", "x-gzip", "x-deflate", "", "*", "gzip, br", "br, gzip", "gzip,gzip", " gzip", "gzip ", "gzip;q=1", "GZIP", "Gzip", "gZip", "BR", "Br", "ZSTD", "Deflate", "zst", "brotli", "gz", "gźip", "gzip\x00", "Kzip"}
	n := verifh.N(1500, 50000)
	for i := 0; i < n; i++ {
		var tok string
		derived := false
		switch {
		case i < len(base):
			tok = base[i]
			derived = true
		case r.Intn(3) == 0: // mutate the case of a supported token
			b := []byte(verifh.Pick(r, verifc14.Algs))
			for j := range b {
				if r.Intn(3) == 0 {
					b[j] ^= 0x20
				}
			}
			tok = string(b)
			derived = true
		case r.Intn(3) == 0: // edit a supported token
			b := []byte(verifh.Pick(r, verifc14.Algs))
			switch r.Intn(4) {
			case 0:
				b = append(b, byte(r.Intn(256)))
			case 1:
				b = b[:len(b)-1]
			case 2:
				b[r.Intn(len(b))] = byte(r.Intn(256))
			default:
				b = append([]byte{byte(32 + r.Intn(90))}, b...)
			}
			tok = string(b)
			derived = true
		case r.Intn(2) == 0:
			tok = verifh.Pick(r, verifc14.Algs) + verifh.Pick(r, []string{",", ", ", ";"}) + verifh.Pick(r, verifc14.Algs)
			derived = true
		default:
			tok = verifh.RandBytes(r, r.Intn(9), "gzipdeflatbrs-GZ, ")
		}
		var got string
		body := io.NopCloser(bytes.NewReader(nil))
		var rd CompressReader
		if p, bad := verifh.Safely(func() { rd = NewCompressReader(body, tok) }); bad {
			s.Crash("select "+verifh.Hex(tok), tok, p, "")
			continue
		}
		switch x := rd.(type) {
		case nil:
			got = "none"
		case *GzipReader:
			got = "gzip"
		case *DeflateReader:
			got = "deflate"
		case *BrotliReader:
			got = "br"
		case *ZstdReader:
			got = "zstd"
		default:
			got = fmt.Sprintf("other:%T", x)
		}
		if rd != nil && rd.GetUnderlyingBody() != body {
			got += "!body"
		}
		count("sel:" + got)
		fold := "0"
		if ascii.EqualFold(tok, "gzip") {
			fold = "1"
			count("fold")
		}
		// the list of codings the value denotes (RFC 9110 5.6.1: comma-separated, optional white space,
		// empty elements ignored), computed here with the standard library and by the model
		// (Req.Compress.Lines.codings): whatever gets a reader, or passes the EqualFold test, must be
		// ONE coding as it stands (Req.Props.C14Lines.decoded_is_single_coding)
		var codings []string
		for _, e := range strings.Split(tok, ",") {
			if e = strings.Trim(e, " \t"); e != "" {
				codings = append(codings, e)
			}
		}
		single := len(codings) == 1 && codings[0] == tok
		ok := !(rd != nil || fold == "1") || single
		if len(codings) > 1 {
			count("codings>1")
		}
		human := fmt.Sprintf("NewCompressReader(%q) -> %s", tok, got)
		if !ok {
			human += fmt.Sprintf(" :: decoded although the value denotes the codings %q", codings)
		}
		s.Case("c14select "+verifh.Hex(tok), got+" fold="+fold+" codings="+verifh.HexList(codings), ok, "", derived, human)
	}
	for _, k := range []string{"sel:gzip", "sel:deflate", "sel:br", "sel:zstd", "sel:none", "fold", "codings>1"} {
		if hist[k] == 0 {
			t.Errorf("bucket %s not reached", k)
		}
	}
	s.Finish()
}

type c14Stream struct {
	alg     string
	kind    string // valid | trunc | flip | trail | multi | wrongfmt | zlib | empty | srcerr
	payload []byte
	wire    []byte
	fin     error
}

// TestVerif_C14_readers: each lazy reader of internal/compress on valid, truncated, bit-flipped,
// trailing-garbage, foreign-format and multi-member streams, read with generated buffer sizes,
// with reads after the end / after Close; vs the model's lazy-reader automaton over the
// reference library's whole-input result, plus the property oracle.
func TestVerif_C14_readers(t *testing.T) {
	s := verifh.New(t, "C14", "readers",
		"alg x payload class {empty,tiny,text,random,>64KiB} x stream {valid, truncated at EVERY offset of small streams + random offsets, bit-flip, trailing garbage, foreign format, zlib-wrapped deflate, multi-member gzip, empty body, body ending in a framing error} x underlying chunking x 1-4 cycling Read sizes from {1..65536} x {read to end, +reads after end, Close before/after j reads (gzip)}; model = lazy reader over the reference library's (ctor result, output, end); oracle: valid => exact payload+EOF, truncated => error (never clean EOF), nothing after the end, same error again")
	r := s.Rand()
	hist := map[string]int{}
	count := func(k string) { s.Count(k); hist[k]++ }
	var streams []c14Stream
	add := func(st c14Stream) { streams = append(streams, st) }
	// exhaustive truncation of small streams
	for _, alg := range verifc14.Algs {
		for _, pc := range []int{0, 1, 2} {
			p := verifc14.Payload(r, pc)
			if pc == 2 && len(p) > 160 {
				p = p[:160]
			}
			w := verifc14.Compress(alg, p)
			add(c14Stream{alg, "valid", p, w, io.EOF})
			for cut := 1; cut < len(w); cut++ {
				add(c14Stream{alg, "trunc", p, w[:cut], io.EOF})
			}
		}
	}
	n := verifh.N(2000, 150000)
	for i := 0; i < n; i++ {
		alg := verifh.Pick(r, verifc14.Algs)
		pc := r.Intn(4)
		if r.Intn(60) == 0 {
			pc = 4
		}
		p := verifc14.Payload(r, pc)
		w := verifc14.Compress(alg, p)
		switch r.Intn(10) {
		case 0, 1, 2:
			add(c14Stream{alg, "valid", p, w, io.EOF})
		case 3:
			if len(w) < 2 { // brotli of the empty payload is one byte: no strict non-empty prefix
				add(c14Stream{alg, "valid", p, w, io.EOF})
			} else {
				add(c14Stream{alg, "trunc", p, w[:1+r.Intn(len(w)-1)], io.EOF})
			}
		case 4:
			f := append([]byte(nil), w...)
			f[r.Intn(len(f))] ^= 1 << uint(r.Intn(8))
			add(c14Stream{alg, "flip", p, f, io.EOF})
		case 5:
			add(c14Stream{alg, "trail", p, append(append([]byte(nil), w...), []byte(verifh.RandBytes(r, 1+r.Intn(9), ""))...), io.EOF})
		case 6:
			other := verifh.Pick(r, verifc14.Algs)
			if other == alg {
				add(c14Stream{alg, "wrongfmt", p, p, io.EOF}) // not compressed at all
			} else {
				add(c14Stream{alg, "wrongfmt", p, verifc14.Compress(other, p), io.EOF})
			}
		case 7:
			if alg == "gzip" {
				p2 := verifc14.Payload(r, r.Intn(4))
				add(c14Stream{alg, "multi", append(append([]byte(nil), p...), p2...), append(append([]byte(nil), w...), verifc14.Compress("gzip", p2)...), io.EOF})
			} else if alg == "deflate" {
				add(c14Stream{alg, "zlib", p, verifc14.Compress("zlib", p), io.EOF})
			} else {
				add(c14Stream{alg, "empty", nil, nil, io.EOF})
			}
		case 8:
			add(c14Stream{alg, "srcerr", p, w[:r.Intn(len(w))], io.ErrUnexpectedEOF})
		default:
			add(c14Stream{alg, "empty", nil, nil, io.EOF})
		}
	}
	for i, st := range streams {
		sizes := verifc14.Sizes(r)
		chunk := 0
		if r.Intn(2) == 0 {
			chunk = 1 + r.Intn(40)
		}
		// the reference: the library used directly under the SAME schedule (input chunking and
		// Read sizes) - on corrupted streams a decoder's verdict may depend on it
		open, out, term := verifc14.RefSched(st.alg, st.wire, st.fin, chunk, sizes)
		var extra []int
		for k := r.Intn(4); k > 0; k-- {
			extra = append(extra, 1+r.Intn(64))
		}
		if open != "ok" && r.Intn(2) == 0 {
			extra = append(extra, 0) // a constructor error is sticky for empty buffers too
		}
		closeAfter := -1
		if st.alg == "gzip" && r.Intn(5) == 0 && len(out) <= 8192 {
			closeAfter = r.Intn(3)
			if len(extra) == 0 {
				extra = []int{1 + r.Intn(9)}
			}
		}
		src := &verifc14.Src{Data: append([]byte(nil), st.wire...), Fin: st.fin, Chunk: chunk}
		var got string
		var raw []byte
		id := fmt.Sprintf("%s/%s#%d", st.alg, st.kind, i)
		human := fmt.Sprintf("%s %s payload=%dB wire=%dB sizes=%v closeAfter=%d extra=%v ref=(%s,%dB,%s)", st.alg, st.kind, len(st.payload), len(st.wire), sizes, closeAfter, extra, open, len(out), term)
		if p, bad := verifh.Safely(func() {
			rd := NewCompressReader(src, st.alg)
			got, raw = c14RunScript(rd, out, closeAfter, sizes, extra)
			rd.Close()
		}); bad {
			class := ""
			if open == "panic" && st.alg == "br" {
				// the brotli library itself panics on this stream under this schedule (used directly,
				// no imroc/req code): third-party defect, reachable through BrotliReader
				class = "br-library-panic"
				human += " wire=" + verifh.Hex(string(st.wire)) + fmt.Sprintf(" chunk=%d", chunk)
			}
			s.Crash(id, human, p, class)
			count("panic")
			continue
		}
		if open == "panic" {
			s.Observe(id, false, "", true, human+" :: the reference library panicked but the reader under test did not", got)
			continue
		}
		// property oracle (independent of the model): parse `got`
		ok := true
		var gotData, gotTerm string
		fmt.Sscanf(got, "data=%s t=%s", &gotData, &gotTerm)
		if closeAfter < 0 {
			switch st.kind {
			case "valid", "multi":
				ok = gotData == verifh.Hex(string(st.payload)) && gotTerm == "eof"
			case "trunc":
				// a strict, non-empty prefix of a single-member stream: never a clean end
				// admissible: a read error after a prefix of the payload, or exactly the payload
				ok = strings.HasPrefix(gotTerm, "err") && bytes.HasPrefix(st.payload, raw) ||
					gotTerm == "eof" && bytes.Equal(raw, st.payload)
			case "srcerr":
				ok = strings.HasPrefix(gotTerm, "err")
			case "zlib":
				// RFC 9110 "deflate" is zlib-wrapped; deflate_reader.go expects a raw stream: the zlib
				// header is not a valid raw-deflate block, so the caller gets an error, not garbage
				// (a foreign format without magic bytes - "wrongfmt" - may be a valid stream by accident)
				ok = strings.HasPrefix(gotTerm, "err") || gotData == verifh.Hex(string(st.payload))
			case "flip":
				if st.alg == "gzip" || st.alg == "zstd" { // formats with an integrity check
					ok = strings.HasPrefix(gotTerm, "err") || gotData == verifh.Hex(string(st.payload))
				}
			}
			// nothing after the end
			if i := strings.Index(got, " after="); i >= 0 && got[i+7:] != "-" {
				for _, a := range strings.Split(got[i+7:], ",") {
					if a != "_:"+gotTerm {
						ok = false
					}
				}
			}
		}
		count(st.alg + ":" + st.kind)
		count("end:" + gotTerm)
		if open != "ok" {
			count("ctor-error")
		}
		if closeAfter >= 0 {
			count("close")
		}
		class := ""
		switch {
		case st.alg == "br" && st.kind == "trunc" && term == "eof":
			// andybalholm/brotli v1.1.1 Reader.Read proxies the source's io.EOF whenever all input
			// so far was consumed, finished stream or not: the library itself reports a clean end
			class = "br-truncated-eof"
		case st.alg == "zstd" && st.kind == "srcerr" && gotTerm == "eof":
			// klauspost/compress zstd frameDec.reset maps io.ErrUnexpectedEOF from the source to
			// io.EOF when it strikes exactly at a frame boundary (offset 0 included); the reference
			// (verifc14.RefSched) and the model report the source's failure, as ZstdReader does once
			// fixes/C14-12 is applied - the clean EOF of the unpatched reader is the known finding
			class = "zstd-source-error-at-frame-boundary"
		case st.alg == "br" && strings.HasPrefix(term, "err") && len(extra) > 0 && closeAfter < 0:
			// the library is not sticky (error, then io.EOF) and BrotliReader.berr is never set
			class = "br-not-sticky"
		}
		kind := "lazy"
		if st.alg == "br" {
			kind = "lazykeep" // BrotliReader records every error itself (fixes/C14-4)
		}
		line := "c14reader " + kind + " " + open + " " + verifh.Hex(string(out)) + " " + term + " " + strconv.Itoa(closeAfter) + " " + verifh.IntList(sizes) + " " + verifh.IntList(extra)
		if len(out) > 8192 { // keep driver lines small: judge the big ones in Go against the reference
			want := "data=" + verifh.Hex(string(out)) + " t=" + term
			if strings.HasPrefix(term, "err") {
				want = "data=partial t=" + term
			}
			okBig := ok && strings.HasPrefix(got, want+" ")
			s.Observe(id, okBig, class, true, human, c14Short(got))
			count("big")
			continue
		}
		s.Case(line, got, ok, class, st.kind != "empty", human+" -> "+c14Short(got))
	}
	for _, alg := range verifc14.Algs {
		for _, k := range []string{"valid", "trunc", "flip", "trail", "wrongfmt", "srcerr"} {
			if hist[alg+":"+k] == 0 {
				t.Errorf("bucket %s:%s not reached", alg, k)
			}
		}
	}
	for _, k := range []string{"gzip:multi", "deflate:zlib", "end:eof", "end:err1", "end:err2", "ctor-error", "close", "big"} {
		if hist[k] == 0 {
			t.Errorf("bucket %s not reached", k)
		}
	}
	s.Finish()
}

func c14Short(s string) string {
	if len(s) > 120 {
		return s[:120] + "…"
	}
	return s
}

// TestVerif_C14_overlap: several lazy readers open at the same time (as on a multiplexed
// HTTP/2 or HTTP/3 connection), driven by one generated operation sequence: open a reader over
// a fresh stream, Read n bytes from one of the open readers, Close one (possibly a second and
// third time, possibly before the first Read or mid-stream). Each reader must deliver exactly
// ITS payload (a prefix of it at every moment, all of it at EOF) whatever the others do -
// nothing shared between responses may leak through the wrappers (pools, sticky fields).
func TestVerif_C14_overlap(t *testing.T) {
	s := verifh.New(t, "C14", "overlap",
		"operation sequences over up to 4 simultaneously open lazy readers (all four codecs mixed; payloads tiny..>64KiB, all distinct): open / read n (n from 1..65536) / close (repeated closes, closes before the first read and mid-stream) / drain; oracle per reader: every byte delivered is the next byte of ITS OWN payload, EOF only after the whole payload, no data after Close for gzip (fs.ErrClosed); non-trivial = a sequence in which at least two readers were open together")
	r := s.Rand()
	hist := map[string]int{}
	count := func(k string) { s.Count(k); hist[k]++ }
	type open struct {
		alg     string
		payload []byte
		rd      CompressReader
		got     int // bytes delivered so far
		closed  int
		done    bool
	}
	n := verifh.N(150, 6000)
	for sc := 0; sc < n; sc++ {
		var live []*open
		maxLive, doubleClose, bad := 0, false, ""
		var trace []string
		ops := 20 + r.Intn(120)
		step := func(o *open, size int) {
			buf := make([]byte, size)
			k, err := o.rd.Read(buf)
			if o.closed > 0 {
				if k != 0 || err == nil {
					if o.alg == "gzip" && bad == "" {
						bad = fmt.Sprintf("%s reader #%d: Read after Close returned %d bytes, err=%v", o.alg, o.got, k, err)
					}
				}
				return
			}
			if k > 0 {
				if o.got+k > len(o.payload) || !bytes.Equal(buf[:k], o.payload[o.got:o.got+k]) {
					if bad == "" {
						bad = fmt.Sprintf("%s reader (payload %dB): bytes %d..%d are not its own payload's", o.alg, len(o.payload), o.got, o.got+k)
					}
				}
				o.got += k
			}
			if err != nil {
				o.done = true
				if (err != io.EOF || o.got != len(o.payload)) && bad == "" {
					bad = fmt.Sprintf("%s reader (payload %dB): ended after %d bytes with %v", o.alg, len(o.payload), o.got, err)
				}
			}
		}
		ptext, panicked := verifh.Safely(func() {
			for i := 0; i < ops && bad == ""; i++ {
				switch k := r.Intn(10); {
				case len(live) == 0 || (k < 2 && len(live) < 4):
					alg := verifh.Pick(r, verifc14.Algs)
					if r.Intn(2) == 0 {
						alg = "gzip"
					}
					pc := 1 + r.Intn(3)
					if r.Intn(15) == 0 {
						pc = 4
					}
					p := verifc14.Payload(r, pc)
					src := &verifc14.Src{Data: verifc14.Compress(alg, p), Fin: io.EOF}
					if r.Intn(2) == 0 {
						src.Chunk = 1 + r.Intn(64)
					}
					live = append(live, &open{alg: alg, payload: p, rd: NewCompressReader(src, alg)})
					trace = append(trace, fmt.Sprintf("open#%d(%s,%dB)", len(live)-1, alg, len(p)))
				case k < 8:
					j := r.Intn(len(live))
					o := live[j]
					if o.done && o.closed == 0 {
						break
					}
					size := verifh.Pick(r, []int{1, 2, 7, 16, 100, 512, 4096, 65536})
					step(o, size)
					trace = append(trace, fmt.Sprintf("read#%d(%d)", j, size))
				default:
					j := r.Intn(len(live))
					o := live[j]
					o.rd.Close()
					o.closed++
					if o.closed > 1 {
						doubleClose = true
					}
					trace = append(trace, fmt.Sprintf("close#%d", j))
					if r.Intn(3) == 0 { // typical: explicit Close + deferred Close
						o.rd.Close()
						o.closed++
						doubleClose = true
						trace = append(trace, fmt.Sprintf("close#%d", j))
					}
					if r.Intn(2) == 0 {
						live = append(live[:j], live[j+1:]...)
					}
				}
				if len(live) > maxLive {
					maxLive = len(live)
				}
			}
			// drain what is still open, alternately
			for progress := true; progress && bad == ""; {
				progress = false
				for _, o := range live {
					if !o.done && o.closed == 0 {
						step(o, verifh.Pick(r, []int{3, 64, 1000, 65536}))
						progress = true
					}
				}
			}
			for _, o := range live {
				o.rd.Close()
			}
		})
		id := fmt.Sprintf("overlap#%d", sc)
		tr := strings.Join(trace, " ")
		if len(tr) > 600 {
			tr = tr[:600] + "…"
		}
		if panicked {
			s.Crash(id, tr, ptext, "")
			continue
		}
		if maxLive >= 2 {
			count("overlapping")
		}
		if doubleClose {
			count("double-close")
		}
		human := tr
		if bad != "" {
			human = bad + " :: " + tr
		}
		s.Observe(id, bad == "", "", maxLive >= 2, human, bad)
	}
	for _, k := range []string{"overlapping", "double-close"} {
		if hist[k] == 0 {
			t.Errorf("bucket %s not reached", k)
		}
	}
	s.Finish()
}
