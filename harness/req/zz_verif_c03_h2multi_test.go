//go:build verif

package req

// C03 — HTTP/2, two CONCURRENT streams on one connection: one of them (the victim) is cut — reset
// with any error code, ended short of its declared length, or over-long — while the frames of the
// other one (the survivor) are interleaved with the victim's in a generated order. The survivor's
// outcome must be exactly what it is without the cut (Props/C03H2M.lean: h2_cut_isolated).

import (
	"bytes"
	"fmt"
	"io"
	"net"
	"strconv"
	"strings"
	"sync"
	"testing"
	"time"

	"github.com/imroc/req/v3/internal/verifh"
	xhttp2 "golang.org/x/net/http2"
	"golang.org/x/net/http2/hpack"
)

// c03H2MStep: one frame of the interleaved script; who = "a" (victim) | "b" (survivor) | "c" (connection).
type c03H2MStep struct {
	who string
	fr  c03H2Fr
}

type c03H2MPeer struct {
	ln     net.Listener
	mu     sync.Mutex
	script []c03H2MStep
	conns  int
	live   []net.Conn
	ids    map[string]uint32 // path -> stream id of the pair
}

func newC03H2MPeer(t testing.TB) *c03H2MPeer {
	ln, err := net.Listen("tcp", "127.0.0.1:0")
	if err != nil {
		t.Fatalf("listen: %v", err)
	}
	p := &c03H2MPeer{ln: ln}
	go func() {
		for {
			c, err := ln.Accept()
			if err != nil {
				return
			}
			p.mu.Lock()
			p.conns++
			p.live = append(p.live, c)
			p.mu.Unlock()
			go p.serve(c)
		}
	}()
	return p
}

func (p *c03H2MPeer) reset(script []c03H2MStep) {
	p.mu.Lock()
	for _, c := range p.live {
		c.Close()
	}
	p.live, p.conns, p.script, p.ids = nil, 0, script, map[string]uint32{}
	p.mu.Unlock()
}

func (p *c03H2MPeer) serve(c net.Conn) {
	defer c.Close()
	c.SetDeadline(time.Now().Add(20 * time.Second))
	preface := make([]byte, len(xhttp2.ClientPreface))
	if _, err := io.ReadFull(c, preface); err != nil || string(preface) != xhttp2.ClientPreface {
		return
	}
	fr := xhttp2.NewFramer(c, c)
	fr.ReadMetaHeaders = hpack.NewDecoder(4096, nil)
	fr.WriteSettings()
	var hbuf bytes.Buffer
	enc := hpack.NewEncoder(&hbuf)
	writeH := func(id uint32, fields [][2]string, es bool) {
		hbuf.Reset()
		for _, kv := range fields {
			enc.WriteField(hpack.HeaderField{Name: kv[0], Value: kv[1]})
		}
		fr.WriteHeaders(xhttp2.HeadersFrameParam{StreamID: id, BlockFragment: hbuf.Bytes(), EndHeaders: true, EndStream: es})
	}
	complete := func(id uint32) {
		writeH(id, [][2]string{{":status", "200"}, {"content-length", strconv.Itoa(len(c03Second))}}, false)
		fr.WriteData(id, true, []byte(c03Second))
	}
	for {
		f, err := fr.ReadFrame()
		if err != nil {
			return
		}
		switch f := f.(type) {
		case *xhttp2.SettingsFrame:
			if !f.IsAck() {
				fr.WriteSettingsAck()
			}
		case *xhttp2.PingFrame:
			if !f.IsAck() {
				fr.WritePing(true, f.Data)
			}
		case *xhttp2.MetaHeadersFrame:
			path := f.PseudoValue("path")
			if path != "/a" && path != "/b" {
				complete(f.StreamID) // warm-up and follow-up requests
				continue
			}
			p.mu.Lock()
			if _, dup := p.ids[path]; dup {
				p.mu.Unlock()
				complete(f.StreamID) // (a replayed request of the pair)
				continue
			}
			p.ids[path] = f.StreamID
			both := len(p.ids) == 2
			ida, idb := p.ids["/a"], p.ids["/b"]
			script := p.script
			p.mu.Unlock()
			if !both {
				continue
			}
			for _, st := range script {
				id := ida
				if st.who == "b" {
					id = idb
				}
				switch st.fr.kind {
				case "H":
					writeH(id, st.fr.fields, st.fr.es)
				case "D":
					fr.WriteData(id, st.fr.es, st.fr.data)
				case "R":
					fr.WriteRSTStream(id, xhttp2.ErrCode(st.fr.code))
				case "G":
					last := ida
					if idb > last {
						last = idb
					}
					fr.WriteGoAway(last, xhttp2.ErrCode(st.fr.code), nil)
				case "S":
					time.Sleep(time.Duration(st.fr.ms) * time.Millisecond)
				}
			}
		}
	}
}

// c03H2MLine renders the interleaved script as the event list of lane c03h2m.
func c03H2MLine(script []c03H2MStep, ida, idb uint32) string {
	var evs []string
	for _, st := range script {
		one := c03H2Events([]c03H2Fr{st.fr}, 0)
		if one == "none" {
			continue
		}
		switch st.who {
		case "a":
			evs = append(evs, strconv.Itoa(int(ida))+"@"+one)
		case "b":
			evs = append(evs, strconv.Itoa(int(idb))+"@"+one)
		default:
			last := ida
			if idb > last {
				last = idb
			}
			evs = append(evs, "C@G;"+strconv.Itoa(int(last))+";"+strconv.Itoa(int(st.fr.code)))
		}
	}
	return strings.Join(evs, "|")
}

func TestVerif_C03_h2multi(t *testing.T) {
	s := verifh.New(t, "C03", "h2multi",
		"real client forced to HTTP/2; after a warm-up request two requests run CONCURRENTLY on the one pooled connection against a frame-script peer that interleaves the frames of both streams in a generated order (per-stream order kept): "+
			"the survivor gets a complete response (with/without content-length, 1-3 DATA frames, optional trailers); the victim gets its HEADERS, a prefix of its body and is then cut — RST_STREAM with every code 0..13 (PROTOCOL_ERROR marks the connection doNotReuse), END_STREAM short of the declared length, more DATA than declared — or completes (control); "+
			"sometimes a graceful GOAWAY(NO_ERROR, last = highest id) in between; then a follow-up request. MODEL-judged (lane c03h2m = Req.C03.H2M.run, the multi-stream model of h2_cut_isolated): outcome of each stream (status + body / fail) and the dials after the follow-up. "+
			"Second opinion (Go oracle): the survivor is delivered complete and true whatever happens to the victim; a cut victim fails; the follow-up succeeds. non-trivial = the victim is cut")
	r := s.Rand()
	peer := newC03H2MPeer(t)
	defer func() { peer.ln.Close(); peer.reset(nil) }()
	base := "http://" + peer.ln.Addr().String()
	n := verifh.N(60, 600)
	reached := map[string]int{}
	failures := 0
	for i := 0; i < n && failures < 12; i++ {
		bodyA := verifh.RandBytes(r, 1+r.Intn(200), "abcdefghijklmnopqrstuvwxyz")
		bodyB := verifh.RandBytes(r, 1+r.Intn(200), "ABCDEFGHIJKLMNOPQRSTUVWXYZ")
		// survivor: complete
		scB := c03H2Scenario{body: bodyB, declared: len(bodyB), send: len(bodyB), frames: 1 + r.Intn(3), ending: "end-stream", complete: true, closeAt: -1, trailers: r.Intn(4) == 0}
		if r.Intn(3) == 0 {
			scB.declared = -1
		}
		// victim
		scA := c03H2Scenario{body: bodyA, declared: len(bodyA), send: len(bodyA), frames: 1 + r.Intn(3), ending: "end-stream", complete: true, closeAt: -1}
		kind := "complete"
		switch i % 6 {
		case 0, 1, 2:
			scA.ending, scA.send, scA.complete, scA.code = "rst", r.Intn(len(bodyA)+1), false, uint32(i/6%14)
			if r.Intn(4) == 0 {
				scA.send = 0
			}
			if r.Intn(3) == 0 {
				scA.declared = -1
			}
			kind = "rst-code-" + strconv.Itoa(int(scA.code))
			reached["rst"]++
		case 3:
			scA.send, scA.complete = r.Intn(len(bodyA)), false
			kind = "short-end-stream"
		case 4:
			scA.extra, scA.complete = 1+r.Intn(9), false
			kind = "overlong"
		}
		var script []c03H2MStep
		pa, pb := c03H2Plan(scA), c03H2Plan(scB)
		goaway := r.Intn(6) == 0
		for len(pa)+len(pb) > 0 {
			if goaway && r.Intn(len(pa)+len(pb)+1) == 0 {
				script = append(script, c03H2MStep{who: "c", fr: c03H2Fr{kind: "G", code: 0}})
				goaway = false
			}
			if len(pb) == 0 || (len(pa) > 0 && r.Intn(2) == 0) {
				script = append(script, c03H2MStep{who: "a", fr: pa[0]})
				pa = pa[1:]
			} else {
				script = append(script, c03H2MStep{who: "b", fr: pb[0]})
				pb = pb[1:]
			}
		}
		peer.reset(script)
		c := C().EnableForceHTTP2().EnableH2C().SetTimeout(10 * time.Second).DisableAutoDecode()
		if w, err := c.R().Get(base + "/warm"); err != nil || w.String() != c03Second {
			s.Count("skipped:warm-up-failed")
			c.GetTransport().CloseIdleConnections()
			continue
		}
		var wg sync.WaitGroup
		var fa, fb c03First
		wg.Add(2)
		go func() { defer wg.Done(); fa = c03DoFirstX(c, "GET", base+"/a", false, &c03Caller{mode: "auto"}) }()
		go func() { defer wg.Done(); fb = c03DoFirstX(c, "GET", base+"/b", false, &c03Caller{mode: "auto"}) }()
		wg.Wait()
		next, err2 := c.R().Get(base + "/next")
		nextOK := err2 == nil && next != nil && next.String() == c03Second
		peer.mu.Lock()
		dials, ida, idb := peer.conns, peer.ids["/a"], peer.ids["/b"]
		peer.mu.Unlock()
		c.GetTransport().CloseIdleConnections()
		if ida == 0 || idb == 0 || dials == 0 {
			s.Count("skipped:pair-not-on-one-connection")
			continue
		}
		render := func(f c03First) string {
			if f.ok {
				return "ok status=" + strconv.Itoa(f.status) + " body=" + verifh.Hex(string(f.body))
			}
			return "fail"
		}
		impl := "a=" + render(fa) + " b=" + render(fb) + " dials=" + strconv.Itoa(dials)
		ok, why := true, ""
		if !fb.ok || string(fb.body) != bodyB {
			ok, why = false, "the surviving stream was not delivered complete and true: "+fb.err
		}
		if scA.complete && (!fa.ok || string(fa.body) != bodyA) {
			ok, why = false, "complete response of the other stream reported as failure: "+fa.err
		}
		if !scA.complete && fa.ok {
			ok, why = false, "the cut stream was reported as success"
		}
		if !nextOK {
			ok, why = false, "the follow-up request failed"
		}
		if !ok {
			failures++
		}
		reached[kind]++
		s.Count("victim:" + kind)
		s.Count("dials:" + strconv.Itoa(dials))
		if ida < idb {
			s.Count("victim-first")
		} else {
			s.Count("survivor-first")
		}
		human := fmt.Sprintf("h2multi victim(%d)=%s sent=%d/%d survivor(%d) %d bytes in %d frames, %d script steps -> %s", ida, kind, scA.send, len(bodyA), idb, len(bodyB), scB.frames, len(script), c04Short(impl))
		if why != "" {
			human += " ORACLE: " + why
		}
		s.Case("c03h2m "+strconv.Itoa(int(ida))+" "+strconv.Itoa(int(idb))+" "+c03H2MLine(script, ida, idb), impl, ok, "", !scA.complete, human)
	}
	s.Finish()
	if failures >= 12 {
		return
	}
	for _, need := range []string{"complete", "rst", "rst-code-0", "rst-code-1", "rst-code-8", "short-end-stream", "overlong"} {
		if reached[need] == 0 {
			t.Errorf("C03/h2multi never reached %q", need)
		}
	}
}
