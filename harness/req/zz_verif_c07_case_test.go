//go:build verif

package req

// C07 round 5 — digestcase: the digest challenge from the header value to the first hash.
//
// digestpos compares parseChallenge with the model byte by byte; what happens AFTER a challenge was
// accepted — newCredentials, authorize, the hash constructor looked up for HA1 / HA2 / the response /
// the user hash — was not driven. This lane runs the real createDigestAuth on challenges in which
// every token the client compares (scheme, parameter names, algorithm, qop options, charset,
// userhash) appears in its exact spelling and in case variants (lower, upper, title, swapped,
// mixed), bare and quoted, alone and in lists of several challenges, and compares the outcome with
// the Lean model C07.DigestAlg.answer (theorem digest_never_nil_hash: whatever selectQop accepts has
// a hash constructor): error class, or length of the response digest (which constructor ran) + the
// qop used. A recovered panic (nil constructor) is a disagreement with the model.

import (
	"fmt"
	"net/http"
	"net/url"
	"regexp"
	"strings"
	"testing"

	"github.com/imroc/req/v3/internal/verifh"
)

func c07TokenCases(tok string) []string {
	if tok == "" {
		return []string{""}
	}
	seen := map[string]bool{}
	var out []string
	add := func(v string) {
		if !seen[v] {
			seen[v] = true
			out = append(out, v)
		}
	}
	add(tok)
	add(strings.ToLower(tok))
	add(strings.ToUpper(tok))
	add(strings.ToUpper(tok[:1]) + strings.ToLower(tok[1:]))
	b := []byte(tok)
	for i, c := range b {
		switch {
		case c >= 'a' && c <= 'z':
			b[i] = c - 32
		case c >= 'A' && c <= 'Z':
			b[i] = c + 32
		}
	}
	add(string(b))
	// alternate case
	b = []byte(strings.ToLower(tok))
	for i := range b {
		if i%2 == 0 && b[i] >= 'a' && b[i] <= 'z' {
			b[i] -= 32
		}
	}
	add(string(b))
	// only the suffix after the last '-' in another case
	if k := strings.LastIndexByte(tok, '-'); k >= 0 {
		add(tok[:k] + strings.ToUpper(tok[k:]))
		add(strings.ToLower(tok[:k]) + tok[k:])
	}
	return out
}

var c07RespRe = regexp.MustCompile(`response="([0-9a-f]*)"`)
var c07QopRe = regexp.MustCompile(`, qop=([^,]*)`)

func TestVerif_C07_digestcase(t *testing.T) {
	s := verifh.New(t, "C07", "digestcase",
		"WWW-Authenticate digest challenges with every compared token in its exact spelling and in case variants (lower, upper, title, swapped, alternating, suffix only): scheme Digest; parameter names realm / nonce / algorithm / qop / charset / userhash / opaque; algorithm in {absent, MD5, MD5-sess, SHA-256, SHA-256-sess, SHA-512-256, SHA-512-256-sess, SHA-512, SHA-1, SHA256} bare and quoted; qop in {absent, auth, auth-int, 'auth,auth-int', 'auth-int, auth'}; charset UTF-8; userhash true/false; single challenges and lists of two (an unanswerable one first); the real createDigestAuth (parseChallenge + newCredentials + authorize with the hash look-up of credentials.h) vs Lean C07.DigestAlg.answer on: error class, or length of the response digest + qop used; a recovered panic is a disagreement; every case non-trivial")
	r := s.Rand()
	u, _ := url.Parse("http://verif.invalid/dir/index.html?x=1")
	run := func(v string, human string) {
		ans := ""
		ptxt, pan := verifh.Safely(func() {
			resp := &http.Response{StatusCode: 401, Header: http.Header{}, Request: &http.Request{Method: "GET", URL: u}}
			resp.Header.Set("Www-Authenticate", v)
			auth, err := createDigestAuth(resp, "user", "pass")
			switch {
			case err == errDigestBadChallenge:
				ans = "bad"
			case err == errDigestCharset:
				ans = "charset"
			case err == errDigestAlgNotSupported:
				ans = "alg"
			case err == errDigestQopNotSupported:
				ans = "qop"
			case err != nil:
				ans = "other-error"
			default:
				m := c07RespRe.FindStringSubmatch(auth)
				q := c07QopRe.FindStringSubmatch(auth)
				qop := "-"
				if q != nil {
					qop = q[1]
				}
				if m == nil {
					ans = "ok no-response-parameter"
				} else {
					ans = fmt.Sprintf("ok %d %s", len(m[1]), qop)
				}
			}
		})
		line := "c07digestuse " + verifh.Hex(v)
		if pan {
			s.Count("panic")
			s.Case(line, "panic: "+truncate(ptxt, 1500), false, "", true, human)
			return
		}
		s.Count(strings.SplitN(ans, " ", 2)[0])
		s.Case(line, ans, true, "", true, human+" -> "+ans)
	}
	algs := []string{"", "MD5", "MD5-sess", "SHA-256", "SHA-256-sess", "SHA-512-256", "SHA-512-256-sess", "SHA-512", "SHA-1", "SHA256"}
	qops := []string{"", "auth", "auth-int", "auth,auth-int", "auth-int, auth"}
	build := func(scheme, realmK, nonceK, algK, alg string, algQuoted bool, qopK, qop string, extra string) string {
		v := scheme + " " + realmK + "=\"r\", " + nonceK + "=\"n\""
		if alg != "" {
			if algQuoted {
				v += ", " + algK + "=\"" + alg + "\""
			} else {
				v += ", " + algK + "=" + alg
			}
		}
		if qop != "" {
			v += ", " + qopK + "=\"" + qop + "\""
		}
		return v + extra
	}
	// (1) every algorithm spelling x every qop spelling
	for _, alg := range algs {
		for _, av := range c07TokenCases(alg) {
			for _, qop := range qops {
				for qi, qv := range c07TokenCases(qop) {
					if !verifh.Thorough() && qi > 3 {
						continue
					}
					for _, quoted := range []bool{false, true} {
						v := build("Digest", "realm", "nonce", "algorithm", av, quoted, "qop", qv, "")
						s.Count("alg-x-qop")
						run(v, fmt.Sprintf("algorithm %q (of %q, quoted=%v), qop %q (of %q): %q", av, alg, quoted, qv, qop, v))
					}
				}
			}
		}
	}
	// (2) scheme and parameter-name spellings, charset / userhash values
	for _, sc := range c07TokenCases("Digest") {
		for _, alg := range []string{"MD5", "md5", "SHA-256-sess", "sha-256-SESS"} {
			for _, names := range [][4]string{{"realm", "nonce", "algorithm", "qop"}, {"REALM", "NONCE", "ALGORITHM", "QOP"}, {"Realm", "Nonce", "Algorithm", "Qop"}, {"rEALM", "nONCE", "aLGORITHM", "qOP"}} {
				for _, extra := range []string{"", ", charset=UTF-8", ", charset=utf-8", ", CHARSET=Utf-8", ", charset=\"UTF-8\"", ", charset=latin1", ", userhash=true", ", userhash=TRUE", ", USERHASH=True", ", userhash=false", ", opaque=\"o\", OPAQUE2=x"} {
					v := build(sc, names[0], names[1], names[2], alg, false, names[3], verifh.Pick(r, []string{"auth", "auth", "AUTH", "Auth", ""}), extra)
					s.Count("names")
					run(v, fmt.Sprintf("scheme %q, names %v, algorithm %q, extra %q: %q", sc, names, alg, extra, v))
				}
			}
		}
	}
	// (3) lists of two challenges: the first cannot be answered (or can, in another spelling)
	for _, a1 := range []string{"md5", "MD5", "SHA-1", "sha-256", "SHA-512-256-SESS", "Md5-Sess"} {
		for _, a2 := range []string{"MD5", "md5", "SHA-256", "Sha-256", "SHA-256-sess", "sha-512-256"} {
			for _, q2 := range []string{"", "auth", "AUTH", "auth-int"} {
				v := build("Digest", "realm", "nonce", "algorithm", a1, false, "qop", "auth", "") + ", " +
					build("digest", "realm", "nonce", "algorithm", a2, false, "qop", q2, "")
				s.Count("lists")
				run(v, fmt.Sprintf("two challenges, algorithms %q then %q (qop %q): %q", a1, a2, q2, v))
				v = "Basic realm=\"b\", " + v
				run(v, fmt.Sprintf("Basic + two digest challenges, algorithms %q then %q (qop %q): %q", a1, a2, q2, v))
			}
		}
	}
	s.Finish()
}
