//go:build verif

package req

// C19 lane `life`: a clone uses ITS OWN transport resources, whenever in the original's life it is
// taken. Protocols HTTP/1.1, HTTP/1.1 over TLS, HTTP/2 over TLS, h2c × the clone is taken BEFORE or
// AFTER the original's first request over that protocol (lazily created connection pools, fired
// sync.Once's, running dump goroutines exist only after it) × clone or clone of clone × a feature
// changed on the copy afterwards:
//   dial       the copy gets its own dial function: its request must use it (and a connection of its own),
//              the original's requests must not,
//   dump       original dumps to b0 (sync or async); the copy is pointed at b1: each request is dumped to
//              its own client's writer only; DisableDumpAll on one side leaves the other side dumping
//              (and not hanging: enough requests follow to fill an async dump queue),
//   tls        the original skips verification; the copy switches verification on again: its request
//              must fail while the original's still succeeds,
//   closeidle  CloseIdleConnections on the copy does not close the original's connection,
//   proxy      (HTTP/1.1) the copy gets a proxy: only its requests go through it.
// Judged by a Go-side oracle (which client's resource served each request).

import (
	"bytes"
	"context"
	"fmt"
	"net"
	"net/http"
	"net/http/httptest"
	"strings"
	"sync"
	"sync/atomic"
	"testing"
	"time"

	"github.com/imroc/req/v3/internal/verifh"
)

type c19LockedBuf struct {
	mu sync.Mutex
	b  bytes.Buffer
}

func (l *c19LockedBuf) Write(p []byte) (int, error) {
	l.mu.Lock()
	defer l.mu.Unlock()
	return l.b.Write(p)
}

func (l *c19LockedBuf) String() string {
	l.mu.Lock()
	defer l.mu.Unlock()
	return l.b.String()
}

// waitFor polls until the buffer contains s (async dumps are written by another goroutine)
func (l *c19LockedBuf) waitFor(s string, d time.Duration) bool {
	deadline := time.Now().Add(d)
	for {
		if strings.Contains(l.String(), s) {
			return true
		}
		if time.Now().After(deadline) {
			return false
		}
		time.Sleep(5 * time.Millisecond)
	}
}

// c19DisableDump calls DisableDumpAll but gives up after 3 s: stopping a dumper whose queue is full and
// whose writer goroutine does not exist blocks forever (Dumper.Stop sends on the queue).
func c19DisableDump(c *Client) bool {
	if c == nil || c.Dump == nil {
		return true
	}
	done := make(chan struct{})
	go func() {
		defer close(done)
		c.DisableDumpAll()
	}()
	select {
	case <-done:
		return true
	case <-time.After(3 * time.Second):
		return false
	}
}

type c19Dialer struct {
	n atomic.Int32
}

func (d *c19Dialer) dial(ctx context.Context, network, addr string) (net.Conn, error) {
	d.n.Add(1)
	return (&net.Dialer{Timeout: 5 * time.Second}).DialContext(ctx, network, addr)
}

type c19Proto struct {
	name    string
	url     func(p *c19Peers) string
	prep    func(c *Client)
	setDial func(c *Client, d *c19Dialer)
	proto   string
	tls     bool
}

func c19Protos() []c19Proto {
	plain := func(c *Client, d *c19Dialer) { c.SetDial(d.dial) }
	return []c19Proto{
		{"h1", func(p *c19Peers) string { return p.h1.URL }, func(c *Client) {}, plain, "HTTP/1.1", false},
		{"h1-tls", func(p *c19Peers) string { return p.h1s.URL }, func(c *Client) { c.EnableInsecureSkipVerify() }, plain, "HTTP/1.1", true},
		{"h2-tls", func(p *c19Peers) string { return p.h2.URL }, func(c *Client) { c.EnableInsecureSkipVerify() }, plain, "HTTP/2.0", true},
		{"h2c", func(p *c19Peers) string { return p.h2c.URL }, func(c *Client) { c.EnableH2C().EnableForceHTTP2() },
			func(c *Client, d *c19Dialer) { c.SetDialTLS(d.dial) }, "HTTP/2.0", false},
	}
}

type c19Sent struct {
	resp  *Response
	err   error
	hung  bool
	addr  string // the peer's view of the connection the request arrived on
	proto string
}

// c19Send fires one GET with a marker header and gives up after 15 s (a request blocked on a dead
// dump queue never returns by itself).
func c19Send(c *Client, url, marker string) c19Sent {
	ch := make(chan c19Sent, 1)
	go func() {
		ctx, cancel := context.WithTimeout(context.Background(), 20*time.Second)
		defer cancel()
		resp, err := c.R().SetContext(ctx).SetHeader("X-Marker", marker).Get(url)
		s := c19Sent{resp: resp, err: err}
		if err == nil && resp != nil && resp.Response != nil {
			s.addr = resp.Header.Get("X-Verif-Remote")
			s.proto = resp.Proto
		}
		ch <- s
	}()
	select {
	case s := <-ch:
		return s
	case <-time.After(15 * time.Second):
		return c19Sent{hung: true, err: fmt.Errorf("request %q did not return within 15 s", marker)}
	}
}

func TestVerif_C19_life(t *testing.T) {
	s := verifh.New(t, "C19", "life",
		"end-to-end: protocols HTTP/1.1, HTTP/1.1+TLS, HTTP/2+TLS, h2c × Clone taken before / after the original's first request over that protocol × clone / clone of clone × feature changed on the copy afterwards (own dial function; dump writer, sync and async, DisableDumpAll on either side followed by 8 requests on the other; TLS verification switched on again; CloseIdleConnections; proxy): every request must be served by the resources of the client it was sent from (its dial function and connection, its dump writer, its TLS settings, its proxy), and none may hang; judged by a Go-side oracle")
	p := c19NewPeers()
	defer p.close()
	var proxyHits atomic.Int32
	proxy := httptest.NewServer(http.HandlerFunc(func(rw http.ResponseWriter, r *http.Request) {
		proxyHits.Add(1)
		rw.Header().Set("X-Verif-Remote", "proxy")
		rw.Write([]byte("proxied"))
	}))
	defer proxy.Close()
	fresh := func() *Client { c := C(); c.SetLogger(nil); c.SetTimeout(15 * time.Second); return c }
	seq := 0
	nFail, nChecks := 0, 0
	obs := func(id string, ok bool, detail string) {
		s.Observe(id, ok, "", true, id, detail)
		s.Count("check")
		nChecks++
		if !ok {
			s.Count("failed")
			nFail++
		}
	}
	for _, pr := range c19Protos() {
		for _, after := range []bool{false, true} {
			for depth := 1; depth <= 2; depth++ {
				pr, after, depth := pr, after, depth
				when := "clone-before-first-request"
				if after {
					when = "clone-after-first-request"
				}
				base := fmt.Sprintf("%s/%s/depth%d/", pr.name, when, depth)
				url := pr.url(p)
				mk := func() string { seq++; return fmt.Sprintf("mk%dz", seq) }
				// take the copy at the chosen point of the original's life
				setup := func(conf func(c *Client)) (c, cc *Client, first c19Sent) {
					c = fresh()
					pr.prep(c)
					conf(c)
					if after {
						first = c19Send(c, url, mk())
					}
					cc = c
					for i := 0; i < depth; i++ {
						cc = cc.Clone()
					}
					return
				}
				done := func(cs ...*Client) {
					for _, c := range cs {
						c.Transport.CloseIdleConnections()
						if !c19DisableDump(c) {
							obs(base+"cleanup/DisableDumpAll-returns", false, "DisableDumpAll did not return within 3 s (the dumper's queue is full and nothing reads it)")
						}
					}
				}
				feature := func(name string, f func(id string)) {
					if nFail >= 10 {
						// enough failing inputs to report; every further failing scenario costs seconds of waiting
						s.Count("skipped-after-10-failures")
						return
					}
					s.Begin(base+name, base+name)
					ptxt, panicked := verifh.Safely(func() { f(base + name) })
					if panicked {
						s.Crash(base+name, base+name, ptxt, "")
					}
					s.Count("feature:" + name)
				}

				feature("dial", func(id string) {
					d0, d1 := &c19Dialer{}, &c19Dialer{}
					c, cc, first := setup(func(c *Client) { pr.setDial(c, d0) })
					defer done(c, cc)
					if after && first.err != nil {
						obs(id+"/first", false, fmt.Sprintf("the original's first request failed: %v", first.err))
						return
					}
					pr.setDial(cc, d1)
					n0 := d0.n.Load()
					r1 := c19Send(cc, url, mk())
					obs(id+"/copy-uses-own-dial", r1.err == nil && d1.n.Load() >= 1 && d0.n.Load() == n0 && r1.proto == pr.proto,
						fmt.Sprintf("copy's request: err=%v proto=%q; copy's dial function called %d times (want >= 1), original's %d more times (want 0)", r1.err, r1.proto, d1.n.Load(), d0.n.Load()-n0))
					if after {
						obs(id+"/copy-has-own-connection", r1.err == nil && r1.addr != first.addr,
							fmt.Sprintf("original's first request arrived from %s, the copy's from %s (must differ)", first.addr, r1.addr))
					}
					n1 := d1.n.Load()
					r0 := c19Send(c, url, mk())
					obs(id+"/original-keeps-own-dial", r0.err == nil && d1.n.Load() == n1 && r0.addr != r1.addr,
						fmt.Sprintf("original's request: err=%v from %s (copy's came from %s); copy's dial function called %d more times (want 0)", r0.err, r0.addr, r1.addr, d1.n.Load()-n1))
				})

				for _, async := range []bool{false, true} {
					async := async
					mode := "dump-sync"
					if async {
						mode = "dump-async"
					}
					for _, who := range []string{"copy-disables", "original-disables"} {
						who := who
						feature(mode+"/"+who, func(id string) {
							b0, b1 := &c19LockedBuf{}, &c19LockedBuf{}
							c, cc, first := setup(func(c *Client) {
								c.SetCommonDumpOptions(&DumpOptions{Output: b0, RequestHeader: true, ResponseHeader: true, Async: async}).EnableDumpAll()
							})
							defer done(c, cc)
							if after && first.err != nil {
								obs(id+"/first", false, fmt.Sprintf("the original's first request failed: %v", first.err))
								return
							}
							cc.EnableDumpAllTo(b1)
							m1, m0 := mk(), mk()
							r1 := c19Send(cc, url, m1)
							r0 := c19Send(c, url, m0)
							ok1 := b1.waitFor(m1, 5*time.Second)
							ok0 := b0.waitFor(m0, 5*time.Second)
							time.Sleep(20 * time.Millisecond)
							obs(id+"/each-dumps-to-its-own-writer", r1.err == nil && r0.err == nil && ok1 && ok0 && !strings.Contains(b0.String(), m1) && !strings.Contains(b1.String(), m0),
								fmt.Sprintf("copy's request err=%v in its writer=%v in the original's=%v; original's request err=%v in its writer=%v in the copy's=%v",
									r1.err, ok1, strings.Contains(b0.String(), m1), r0.err, ok0, strings.Contains(b1.String(), m0)))
							// one side stops dumping; the other keeps dumping and keeps working
							off, on, bon := cc, c, b0
							if who == "original-disables" {
								off, on, bon = c, cc, b1
							}
							if !c19DisableDump(off) {
								obs(id+"/DisableDumpAll-returns", false, "DisableDumpAll did not return within 3 s (the dumper's queue is full and nothing reads it)")
								return
							}
							allOK, detail := true, ""
							for i := 0; i < 8; i++ {
								m := mk()
								r := c19Send(on, url, m)
								got := r.err == nil && bon.waitFor(m, 5*time.Second)
								if !got {
									allOK = false
									detail = fmt.Sprintf("request %d of the side that still dumps: err=%v hung=%v dumped=%v", i+1, r.err, r.hung, strings.Contains(bon.String(), m))
									break
								}
							}
							obs(id+"/other-side-keeps-dumping", allOK, detail)
							m := mk()
							r := c19Send(off, url, m)
							time.Sleep(20 * time.Millisecond)
							obs(id+"/disabled-side-is-silent", r.err == nil && !strings.Contains(b0.String(), m) && !strings.Contains(b1.String(), m),
								fmt.Sprintf("request of the side that disabled dump: err=%v, dumped to original's writer=%v, to copy's=%v", r.err, strings.Contains(b0.String(), m), strings.Contains(b1.String(), m)))
						})
					}
				}

				if pr.tls {
					feature("tls", func(id string) {
						c, cc, first := setup(func(c *Client) {})
						defer done(c, cc)
						if after && first.err != nil {
							obs(id+"/first", false, fmt.Sprintf("the original's first request failed: %v", first.err))
							return
						}
						cc.DisableInsecureSkipVerify()
						r1 := c19Send(cc, url, mk())
						r0 := c19Send(c, url, mk())
						obs(id+"/copy-verifies-again", r1.err != nil && !r1.hung && r0.err == nil,
							fmt.Sprintf("copy (verification on, unknown CA) err=%v (want a certificate error); original (verification off) err=%v (want none)", r1.err, r0.err))
					})
				}

				feature("closeidle", func(id string) {
					c, cc, first := setup(func(c *Client) {})
					defer done(c, cc)
					if after && first.err != nil {
						obs(id+"/first", false, fmt.Sprintf("the original's first request failed: %v", first.err))
						return
					}
					a := c19Send(c, url, mk())
					b := c19Send(cc, url, mk())
					cc.Transport.CloseIdleConnections()
					time.Sleep(10 * time.Millisecond)
					a2 := c19Send(c, url, mk())
					obs(id+"/original-connection-survives", a.err == nil && b.err == nil && a2.err == nil && a.addr == a2.addr && a.addr != b.addr,
						fmt.Sprintf("original %s then %s (same connection wanted), copy %s (another one); errs %v %v %v", a.addr, a2.addr, b.addr, a.err, b.err, a2.err))
				})

				if pr.name == "h1" {
					feature("proxy", func(id string) {
						c, cc, first := setup(func(c *Client) {})
						defer done(c, cc)
						if after && first.err != nil {
							obs(id+"/first", false, fmt.Sprintf("the original's first request failed: %v", first.err))
							return
						}
						cc.SetProxyURL(proxy.URL)
						h0 := proxyHits.Load()
						r0 := c19Send(c, url, mk())
						h1 := proxyHits.Load()
						r1 := c19Send(cc, url, mk())
						h2 := proxyHits.Load()
						obs(id+"/only-the-copy-uses-its-proxy", r0.err == nil && r1.err == nil && h1 == h0 && h2 == h1+1,
							fmt.Sprintf("proxy hits: %d by the original's request (want 0), %d by the copy's (want 1); errs %v %v", h1-h0, h2-h1, r0.err, r1.err))
					})
				}
				s.Count("when:" + when)
			}
		}
	}
	if nFail == 0 && nChecks < 240 {
		t.Errorf("lane life made only %d checks (expected >= 240): scenarios are being skipped", nChecks)
	}
	s.Finish()
}
