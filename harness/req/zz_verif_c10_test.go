//go:build verif

package req

// C10 — retry.  The real Request.Do / Request.Send run against a scripted http.RoundTripper
// installed in-package as the client's transport; retry conditions, retry hooks, interval
// functions, request middleware and request-level response middleware are logging stubs whose
// behaviour comes from a small table that the Lean driver interprets identically.  The event
// log, every attempt's decoded wire request and the final (resp, err) are compared with the
// model (`c10run`), and an oracle written independently of the model checks the property
// clauses on the same run.

import (
	"bytes"
	"context"
	"errors"
	"fmt"
	"hash/fnv"
	"io"
	"mime"
	"mime/multipart"
	"net"
	"net/http"
	"net/url"
	"os"
	"path/filepath"
	"sort"
	"strconv"
	"strings"
	"sync"
	"syscall"
	"testing"
	"time"

	"github.com/imroc/req/v3/internal/verifh"
)

// ---------------------------------------------------------------------------- scripted pieces

type c10Err struct {
	kind    string // t d c b w e a<i>
	attempt int
	wrap    error
}

func (e *c10Err) Error() string { return "c10-" + e.kind + "-" + strconv.Itoa(e.attempt) }
func (e *c10Err) Unwrap() error { return e.wrap }

// Timeout: the tag must not hide what kind of error it carries from code that asks the net.Error
// way (`interface{ Timeout() bool }`, os.IsTimeout) instead of errors.Is.
func (e *c10Err) Timeout() bool {
	var t interface{ Timeout() bool }
	return e.wrap != nil && errors.As(e.wrap, &t) && t.Timeout()
}

// c10Ctx is the request's context: the harness decides when and how it becomes done
// (cancelled by the caller, or its deadline passed).
type c10Ctx struct {
	context.Context
	mu   sync.Mutex
	done chan struct{}
	err  error
}

func newC10Ctx() *c10Ctx                { return &c10Ctx{Context: context.Background(), done: make(chan struct{})} }
func (c *c10Ctx) Done() <-chan struct{} { return c.done }
func (c *c10Ctx) Err() error {
	c.mu.Lock()
	defer c.mu.Unlock()
	return c.err
}
func (c *c10Ctx) finish(err error) {
	c.mu.Lock()
	defer c.mu.Unlock()
	if c.err == nil {
		c.err = err
		close(c.done)
	}
}

type c10KV struct {
	k  string
	vs []string
}

type c10File struct {
	param, name, ctype, kind, content string // kind: b(ytes) p(ath) s(eeker) r(eader, not rewindable)
}

type c10Case struct {
	clientOps, reqOps []string // setter tokens (see Req/Driver/L/C10.lean)
	conds             []string // predicate of condition stub <index>
	hooks             []string // action of hook stub <index>
	after             []string // "fails when" predicate of request-level response middleware <index>
	script            []string
	cCookies          [][2]string
	cHeaders          []c10KV
	cForm             []c10KV
	cQuery            []c10KV
	allowGet          bool
	method, url       string
	cookies           [][2]string
	headers           []c10KV
	form              []c10KV
	ordered           [][2]string
	query             []c10KV
	multipart         bool
	files             []c10File
	body              string // n | b<text> | u<text> | m<value> | r<text>
	trace, dump       bool
	useSend           bool
	// a sibling configured AFTER the request under test got its own setters and before it is
	// sent (1: another c.R() with request-level setters, 2: a c.Clone() with client-level
	// setters); it must not influence the request under test, so it is not part of the model line
	sibKind int
	sibOps  []string
	// URL building (round 4): `url` is the RawURL handed to Send — it may hold {placeholders} and a
	// query string, and (urlKind "s") lack the scheme or (urlKind "r") be relative to baseURL
	urlKind                 string
	pathParams, cPathParams [][2]string
	baseURL, scheme         string
	// further Do calls on the SAME Request object: per re-send the setter calls (n=, i=) made
	// before it; RetryAttempt and the request state are whatever the previous call left
	resend [][]string
	// the interval function cancels the request's context when called with this attempt number (0: never)
	ivx int
	// the lane can observe the dump / trace of the returned response ("1") or not ("-": scripted transport)
	obsDump, obsTrace string
	// the response body cannot be observed: a HEAD request answered by a real server
	noBodyObs bool
	// … not the function itself: another goroutine, while the wait that follows is in progress
	// (same observable behaviour: the model line is the same)
	ivxWait bool
	// round 5: the body KIND changes while the call is in flight — an OnBeforeRequest middleware
	// installs an io.Reader body (`R<text>@<j>`) or a non-rewindable file reader (`F<text>@<j>`) when
	// it sees attempt number j (hooks do the same with actions R<hex> / F<hex>)
	pre string
	// round 5: how script position k is REALISED by the scripted transport — "<cause>/<ctx>" with a
	// real error value of that kind (net/http's Client.Timeout error, a dial timeout of package
	// net, a connection reset, the context's own errors) and the state the request's context is
	// left in; "" = the plain realisation of the symbol
	real []string
	// multipart written through a pipe (EnableForceChunkedEncoding) instead of a buffer: same wire content
	chunked bool
	// round 6: the client's OBSERVATION switches next to trace / dump above — EnableDebugLog and
	// DevMode (= EnableDumpAll + EnableDebugLog + EnableTraceAll).  They must not change a single
	// call of the retry machinery.  Unless a generator fixes them (obsSet) every case of every lane
	// draws them from a hash of its own content and the session seed (assignObservers).
	debug, dev, obsSet bool
}

// obsTok: <debugLog><devMode><trace><dump> for the model line.
func (tc *c10Case) obsTok() string {
	b := func(v bool) string {
		if v {
			return "1"
		}
		return "0"
	}
	return b(tc.debug) + b(tc.dev) + b(tc.trace) + b(tc.dump)
}

func (tc *c10Case) obsHuman() string {
	var on []string
	for _, p := range []struct {
		v bool
		n string
	}{{tc.debug, "DebugLog"}, {tc.dev, "DevMode"}, {tc.trace, "trace"}, {tc.dump, "dump"}} {
		if p.v {
			on = append(on, p.n)
		}
	}
	if len(on) == 0 {
		return "observers=none"
	}
	return "observers=" + strings.Join(on, "+")
}

// assignObservers: half of all cases run unobserved, a quarter with the debug log on, a quarter
// in DevMode — decided by the case's own content and VERIF_SEED, so that every block of every lane
// (exhaustive ones included) is crossed with the switches and a different half is watched under
// every seed.
func (tc *c10Case) assignObservers() {
	if tc.obsSet {
		return
	}
	tc.obsSet = true
	h := fnv.New32a()
	h.Write([]byte(tc.line("", "", nil)))
	h.Write([]byte(os.Getenv("VERIF_SEED")))
	switch (h.Sum32() >> 3) % 4 {
	case 1:
		tc.debug = true
	case 2:
		tc.dev = true
	}
}

// c10Sink swallows what the observers write (debug lines, the client-level dump); the dumper
// writes from its own goroutine.
type c10Sink struct {
	mu    sync.Mutex
	lines int
	bytes int
}

func (k *c10Sink) Write(p []byte) (int, error) {
	k.mu.Lock()
	k.bytes += len(p)
	k.mu.Unlock()
	return len(p), nil
}
func (k *c10Sink) Errorf(string, ...interface{}) {}
func (k *c10Sink) Warnf(string, ...interface{})  {}
func (k *c10Sink) Debugf(string, ...interface{}) {
	k.mu.Lock()
	k.lines++
	k.mu.Unlock()
}

// brokenContract: an upload whose caller-written GetFileContent hands out the same NON-seekable
// reader every time: retries upload an empty part (the caller's side of the contract; modelled,
// exempt from the "all attempts identical" oracles).
func (tc *c10Case) brokenContract() bool {
	for _, f := range tc.files {
		if f.kind == "q" {
			return true
		}
	}
	return false
}

// c10Shared is a caller-owned reader handed out by GetFileContent on every call: Close does nothing.
type c10Shared struct{ io.ReadSeeker }

func (c10Shared) Close() error { return nil }

// dynamic: the retry option / context is edited while the call is in flight, or the Request is re-sent.
func (tc *c10Case) dynamic() bool {
	if len(tc.resend) > 0 || tc.ivx > 0 {
		return true
	}
	for _, l := range [][]string{tc.conds, tc.after} {
		for _, p := range l {
			if strings.Contains(p, "~") {
				return true
			}
		}
	}
	for _, h := range tc.hooks {
		if h[0] == 'C' || h[0] == 'I' || h[0] == 'X' {
			return true
		}
	}
	return false
}

func c10Pairs(l [][2]string) string {
	if len(l) == 0 {
		return "-"
	}
	out := make([]string, len(l))
	for i, p := range l {
		out[i] = verifh.Hex(p[0]) + ":" + verifh.Hex(p[1])
	}
	return strings.Join(out, ";")
}

func c10Multi(l []c10KV) string {
	if len(l) == 0 {
		return "-"
	}
	out := make([]string, len(l))
	for i, e := range l {
		vs := make([]string, len(e.vs))
		for j, v := range e.vs {
			vs[j] = verifh.Hex(v)
		}
		out[i] = verifh.Hex(e.k) + ":" + strings.Join(vs, ",")
	}
	return strings.Join(out, ";")
}

func c10Toks(l []string) string {
	if len(l) == 0 {
		return "-"
	}
	return strings.Join(l, ",")
}

func c10Obs(v string) string {
	if v == "1" {
		return "1"
	}
	return "-"
}

func c10JSON(v string) string { return `{"k":"` + v + `"}` }
func c10XML(v string) string  { return `<k>` + v + `</k>` }

// line renders the case for the driver; obs are the observed interval durations.
func (tc *c10Case) line(lane, mask string, obs []int64) string {
	files := "-"
	if len(tc.files) > 0 {
		fs := make([]string, len(tc.files))
		for i, f := range tc.files {
			fs[i] = strings.Join([]string{verifh.Hex(f.param), verifh.Hex(f.name), verifh.Hex(f.ctype), f.kind, verifh.Hex(f.content)}, ":")
		}
		files = strings.Join(fs, ";")
	}
	body := "n"
	switch tc.body[0] {
	case 'b', 'u', 'r':
		body = tc.body[:1] + verifh.Hex(tc.body[1:])
	case 'm':
		body = "m" + verifh.Hex(c10JSON(tc.body[1:])) + ":" + verifh.Hex(c10XML(tc.body[1:]))
	}
	ob := "-"
	if len(obs) > 0 {
		o := make([]string, len(obs))
		for i, d := range obs {
			o[i] = strconv.FormatInt(d, 10)
		}
		ob = strings.Join(o, ",")
	}
	b2 := func(b bool) string {
		if b {
			return "1"
		}
		return "0"
	}
	ivx := "-"
	if tc.ivx > 0 {
		ivx = strconv.Itoa(tc.ivx)
	}
	pre := "-"
	if tc.pre != "" {
		body, at, _ := strings.Cut(tc.pre[1:], "@")
		pre = tc.pre[:1] + verifh.Hex(body) + "@" + at
	}
	urlT, rawQ := tc.urlTemplate()
	script := make([]string, len(tc.script))
	sets := make([]string, len(tc.script))
	for i, o := range tc.script {
		var set string
		script[i], set, _ = strings.Cut(o, "^")
		if script[i][0] == 'r' { // round 7: the body fails while roundTrip auto-reads it = the model's badBody (response + error)
			script[i] = "b" + script[i][1:]
		}
		sets[i] = "-"
		if set != "" {
			var ps []string
			for _, p := range strings.Split(set, "+") {
				n, v, _ := strings.Cut(p, ":")
				ps = append(ps, verifh.Hex(n)+":"+verifh.Hex(v))
			}
			sets[i] = strings.Join(ps, "+")
		}
	}
	return strings.Join([]string{lane, mask, c10Toks(tc.clientOps), c10Toks(tc.reqOps), c10Toks(tc.conds), c10Toks(tc.hooks),
		c10Toks(tc.after), c10Toks(script), ob,
		c10Pairs(tc.cCookies), c10Multi(tc.cHeaders), c10Multi(tc.cForm), c10Multi(tc.cQuery), b2(tc.allowGet),
		verifh.Hex(tc.method), urlT, c10Pairs(tc.cookies), c10Multi(tc.headers), c10Multi(tc.form),
		c10Pairs(tc.ordered), c10Multi(tc.query), b2(tc.multipart), files, body, tc.resendTok(), ivx,
		c10Pairs(rawQ), c10Pairs(tc.pathParams), c10Pairs(tc.cPathParams), verifh.Hex(tc.baseURL), verifh.Hex(tc.scheme), c10Toks(sets), c10Obs(tc.obsDump), c10Obs(tc.obsTrace), map[bool]string{true: "-", false: "1"}[tc.noBodyObs], pre, tc.obsTok()}, " ")
}

// urlTemplate splits the RawURL of the case into what the model is given: how it starts, the path
// as literal pieces and {placeholders}, and the query string written in it.
func (tc *c10Case) urlTemplate() (string, [][2]string) {
	u := tc.url
	var rawQ [][2]string
	if i := strings.Index(u, "?"); i >= 0 {
		for _, p := range strings.Split(u[i+1:], "&") {
			k, v, _ := strings.Cut(p, "=")
			k, _ = url.QueryUnescape(k)
			v, _ = url.QueryUnescape(v)
			rawQ = append(rawQ, [2]string{k, v})
		}
		u = u[:i]
	}
	head := "r"
	switch tc.urlKind {
	case "":
		i := strings.Index(u, "://") + 3
		j := strings.Index(u[i:], "/")
		if j < 0 {
			j = len(u) - i
		}
		head, u = "a"+verifh.Hex(u[:i+j]), u[i+j:]
	case "s":
		j := strings.Index(u, "/")
		if j < 0 {
			j = len(u)
		}
		head, u = "s"+verifh.Hex(u[:j]), u[j:]
	}
	var segs []string
	for u != "" {
		i := strings.Index(u, "{")
		j := strings.Index(u, "}")
		if i < 0 || j < i {
			segs = append(segs, "l"+verifh.Hex(u))
			break
		}
		if i > 0 {
			segs = append(segs, "l"+verifh.Hex(u[:i]))
		}
		segs = append(segs, "p"+verifh.Hex(u[i+1:j]))
		u = u[j+1:]
	}
	return head + "|" + c10Toks(segs), rawQ
}

func (tc *c10Case) resendTok() string {
	if len(tc.resend) == 0 {
		return "-"
	}
	out := make([]string, len(tc.resend))
	for i, ops := range tc.resend {
		out[i] = "_"
		if len(ops) > 0 {
			out[i] = strings.Join(ops, ",")
		}
	}
	return strings.Join(out, ";")
}

// c10Wire decodes what the transport was handed into the canonical form the model prints.
func c10Wire(r *http.Request, body []byte, hasBody bool, atOrigin bool) string {
	target := r.URL.Scheme + "://" + r.URL.Host + r.URL.Path
	if atOrigin { // the server side of a real round trip: drop what the transport itself adds
		target = "http://" + r.Host + r.URL.Path
	}
	multi := func(m map[string][]string, skip string) string {
		keys := make([]string, 0, len(m))
		for k, vs := range m {
			if k != skip && len(vs) > 0 {
				keys = append(keys, k)
			}
		}
		sort.Strings(keys)
		l := make([]c10KV, len(keys))
		for i, k := range keys {
			l[i] = c10KV{k, m[k]}
		}
		return c10Multi(l)
	}
	hdr := r.Header.Clone()
	if atOrigin {
		for _, k := range []string{"User-Agent", "Accept-Encoding", "Content-Length", "Connection"} {
			hdr.Del(k)
		}
	}
	ct := hdr.Get("Content-Type")
	mt, params, _ := mime.ParseMediaType(ct)
	if mt == "multipart/form-data" {
		hdr.Set("Content-Type", "multipart/form-data; boundary=B")
	}
	q, _ := url.ParseQuery(r.URL.RawQuery)
	var cks [][2]string
	for _, c := range r.Cookies() {
		cks = append(cks, [2]string{c.Name, c.Value})
	}
	b := "n"
	switch {
	case !hasBody:
	case mt == "application/x-www-form-urlencoded":
		var kvs [][2]string
		if len(body) > 0 {
			for _, p := range strings.Split(string(body), "&") {
				k, v, _ := strings.Cut(p, "=")
				k, _ = url.QueryUnescape(k)
				v, _ = url.QueryUnescape(v)
				kvs = append(kvs, [2]string{k, v})
			}
		}
		b = "f" + c10Pairs(kvs)
	case mt == "multipart/form-data":
		mr := multipart.NewReader(bytes.NewReader(body), params["boundary"])
		var fields [][2]string
		var files []string
		for {
			p, err := mr.NextRawPart()
			if err != nil {
				if err != io.EOF {
					files = append(files, "!"+verifh.Hex(err.Error()))
				}
				break
			}
			data, _ := io.ReadAll(p)
			if p.FileName() == "" {
				fields = append(fields, [2]string{p.FormName(), string(data)})
			} else {
				files = append(files, strings.Join([]string{verifh.Hex(p.FormName()), verifh.Hex(p.FileName()), verifh.Hex(p.Header.Get("Content-Type")), verifh.Hex(string(data))}, ":"))
			}
		}
		sort.SliceStable(fields, func(i, j int) bool { return fields[i][0] < fields[j][0] })
		fs := "-"
		if len(files) > 0 {
			fs = strings.Join(files, ";")
		}
		b = "p" + c10Pairs(fields) + "/" + fs
	default:
		b = "r" + verifh.Hex(string(body))
	}
	return strings.Join([]string{"m=" + verifh.Hex(r.Method), "u=" + verifh.Hex(target),
		"q=" + multi(q, ""), "h=" + multi(hdr, "Cookie"), "c=" + c10Pairs(cks), "b=" + b}, "&")
}

// c10Run is one execution of the real code.
type c10Run struct {
	tc      *c10Case
	log     []string
	wires   []string // canonical wire request per attempt
	obs     []int64  // observed interval durations
	iter    int      // loop iterations started (calls of the request middleware stub)
	req     *Request
	cancel  context.CancelFunc
	ctx     *c10Ctx
	closers []io.Closer
	final   string
	maxRetr int
	enabled bool
	// structured facts for the independent oracle
	ivAtt       []int // attempt argument of every interval call
	lastXAtt    int   // X-Attempt of the returned response (-1: no HTTP response)
	mutated     bool  // a hook with a non-noop action ran
	runaway     bool
	kept        string       // K token: what the returned response still holds
	keptBad     string       // oracle: an observable of the returned response that is not the last attempt's
	sendIter0   int          // x.iter when the Do call in progress began
	lastTrace   *clientTrace // e2e: the trace object of the last attempt
	wrappedRO   *retryOption // the retry option whose interval function is currently observed
	sendStart   []int        // index into log where each Do call begins
	sendStartRA []int        // RetryAttempt when each Do call begins
	sendWires   []int        // len(wires) when each Do call begins
	unrepAt     int          // len(wires) when a callback installed an unreplayable body / upload, +1 (0: never)
	client      *Client
	sink        *c10Sink // what the observers wrote
}

// stopObservers ends the client-level dumper goroutine DevMode started.
func (x *c10Run) stopObservers() {
	if x.client != nil && x.tc.dev {
		x.client.DisableDumpAll()
	}
}

// install: a middleware / hook changes the KIND of the body while the call is in flight.
func (x *c10Run) install(kind byte, text string) {
	x.mutated = true
	switch kind {
	case 'R':
		x.req.SetBody(bytes.NewBufferString(text))
	case 'F':
		x.req.SetFileReader("hp", "h.txt", bytes.NewBufferString(text))
	default:
		panic("c10: bad install " + string(kind))
	}
	if x.unrepAt == 0 {
		x.unrepAt = len(x.wires) + 1
	}
}

func (x *c10Run) outcome(i int) string {
	if i < len(x.tc.script) {
		o, _, _ := strings.Cut(x.tc.script[i], "^")
		return o
	}
	return "c" // every generated script ends with c; this is only reached by a runaway loop
}

func (x *c10Run) RoundTrip(r *http.Request) (*http.Response, error) {
	k := x.iter - 1
	var body []byte
	hasBody := r.Body != nil && r.Body != http.NoBody
	if hasBody {
		body, _ = io.ReadAll(r.Body)
		r.Body.Close()
	}
	x.wires = append(x.wires, c10Wire(r, body, hasBody, false))
	x.log = append(x.log, "W"+strconv.Itoa(x.req.RetryAttempt)+"["+x.wires[len(x.wires)-1]+"]")
	if k >= len(x.tc.script)+3 || len(x.wires) > 40 {
		x.runaway = true
		panic("c10: runaway retry loop")
	}
	o := x.outcome(k)
	// responses and errors are tagged with the RetryAttempt of the attempt that produced them
	// (= the pass index k as long as the Request is sent once; a re-sent Request goes on counting)
	ra := x.req.RetryAttempt
	if k < len(x.tc.real) && x.tc.real[k] != "" {
		cause, cs, _ := strings.Cut(x.tc.real[k], "/")
		switch cs {
		case "canceled":
			x.ctx.finish(context.Canceled)
		case "expired":
			x.ctx.finish(context.DeadlineExceeded)
		}
		if cause != "none" {
			kind := map[string]string{"transport": "t", "clientTimeout": "d", "netTimeout": "d", "ctxDeadline": "d", "ctxCanceled": "c"}[cause]
			return nil, &c10Err{kind, ra, c10RealErr(cause)}
		}
		o = "s" + strings.TrimLeft(o, "sL") // the response itself; the context has been dealt with
	}
	switch o[0] {
	case 't':
		return nil, &c10Err{"t", ra, nil}
	case 'd':
		return nil, &c10Err{"d", ra, context.DeadlineExceeded}
	case 'c':
		x.cancel()
		return nil, &c10Err{"c", ra, context.Canceled}
	case 'z':
		return nil, &c10Err{"w", ra, nil}
	case 'D': // the deadline of the request's own context passes during this attempt
		x.ctx.finish(context.DeadlineExceeded)
		return nil, &c10Err{"d", ra, context.DeadlineExceeded}
	case 'L': // the response arrives, then the caller cancels the context
		x.ctx.finish(context.Canceled)
	case 'T': // a transport error that has nothing to do with the context; the caller cancels right after
		x.ctx.finish(context.Canceled)
		return nil, &c10Err{"t", ra, nil}
	}
	code, _ := strconv.Atoi(o[1:])
	content := "ok"
	if o[0] == 'b' {
		content = "bad:" + strconv.Itoa(ra)
	}
	hdr := http.Header{"X-Attempt": {strconv.Itoa(ra)}, "Content-Type": {"application/json"}}
	if k < len(x.tc.script) {
		c10SetCookies(hdr, x.tc.script[k])
	}
	if o[0] == 'r' {
		// round 7: the header arrived, the body breaks off while the library auto-reads it
		// (Response.ToBytes inside Client.roundTrip records the error in resp.Err)
		return &http.Response{StatusCode: code, Status: strconv.Itoa(code) + " X", Proto: "HTTP/1.1", ProtoMajor: 1, ProtoMinor: 1,
			Header:        hdr,
			ContentLength: 64, Body: io.NopCloser(io.MultiReader(strings.NewReader(c10PartialBody), &c10FailReader{&c10Err{"b", ra, nil}})), Request: r}, nil
	}
	return &http.Response{StatusCode: code, Status: strconv.Itoa(code) + " X", Proto: "HTTP/1.1", ProtoMajor: 1, ProtoMinor: 1,
		Header:        hdr,
		ContentLength: int64(len(content)), Body: io.NopCloser(strings.NewReader(content)), Request: r}, nil
}

// c10PartialBody is what arrives of a response body that breaks off (script token r<code>).
const c10PartialBody = "part"

type c10FailReader struct{ err error }

func (f *c10FailReader) Read([]byte) (int, error) { return 0, f.err }

// ---- error kinds x context states (round 5)

var c10Causes = []string{"none", "transport", "clientTimeout", "netTimeout", "ctxDeadline", "ctxCanceled"}
var c10CtxStates = []string{"alive", "canceled", "expired"}

var (
	c10RealOnce          sync.Once
	c10ClientTimeoutErr  error
	c10DialTimeoutErr    error
	c10RealErrsCollected string
)

// c10RealErr hands out a REAL error value of the kind: what net/http returns when Client.Timeout
// fires, what package net returns for a dial that times out — produced once against a loopback
// listener that never answers — a connection reset, and the context's own errors as the
// transports wrap them.
func c10RealErr(cause string) error {
	c10RealOnce.Do(func() {
		ln, err := net.Listen("tcp", "127.0.0.1:0")
		if err != nil {
			c10RealErrsCollected = "listen: " + err.Error()
			return
		}
		defer ln.Close()
		go func() {
			for {
				c, err := ln.Accept()
				if err != nil {
					return
				}
				defer c.Close() // held open, never answered
			}
		}()
		_, c10ClientTimeoutErr = (&http.Client{Timeout: 30 * time.Millisecond}).Get("http://" + ln.Addr().String() + "/")
		_, c10DialTimeoutErr = (&net.Dialer{Timeout: time.Nanosecond}).Dial("tcp", ln.Addr().String())
	})
	switch cause {
	case "transport":
		return &net.OpError{Op: "read", Net: "tcp", Err: syscall.ECONNRESET}
	case "clientTimeout":
		return c10ClientTimeoutErr
	case "netTimeout":
		return c10DialTimeoutErr
	case "ctxDeadline":
		return &url.Error{Op: "Post", URL: "http://c10.test/", Err: context.DeadlineExceeded}
	case "ctxCanceled":
		return &url.Error{Op: "Post", URL: "http://c10.test/", Err: context.Canceled}
	}
	return nil
}

// c10AttSym: the script symbol of an attempt of that cause that leaves the context in that state
// (the harness's own table; the model's is Req.RetryKinds.Att.outcome, compared through `c10kind`).
func c10AttSym(cause, ctx string, code int) string {
	switch {
	case cause == "none" && ctx == "alive":
		return "s" + strconv.Itoa(code)
	case cause == "none":
		return "L" + strconv.Itoa(code)
	case cause == "ctxCanceled":
		return "c"
	case cause == "transport" && ctx == "alive":
		return "t"
	case cause == "transport":
		return "T"
	case cause == "ctxDeadline":
		return "D"
	case ctx == "alive":
		return "d"
	}
	return "D"
}

func c10Coherent(cause, ctx string) bool {
	return (cause != "ctxDeadline" || ctx == "expired") && (cause != "ctxCanceled" || ctx == "canceled")
}

// c10SetCookies adds the Set-Cookie headers a script token asks for (`…^name:value+name:`; an
// empty value expires the cookie).
func c10SetCookies(h http.Header, tok string) {
	_, set, _ := strings.Cut(tok, "^")
	if set == "" {
		return
	}
	for _, p := range strings.Split(set, "+") {
		n, v, _ := strings.Cut(p, ":")
		if v == "" {
			h.Add("Set-Cookie", n+"=gone; Max-Age=0; Path=/")
		} else {
			h.Add("Set-Cookie", n+"="+v+"; Path=/")
		}
	}
}

func c10ErrTok(err error) string {
	if err == nil {
		return "-"
	}
	var e *c10Err
	if errors.As(err, &e) {
		return e.kind
	}
	return "?"
}

func c10View(resp *Response) string {
	switch {
	case resp == nil:
		return "nil"
	case resp.Response == nil:
		return "nohttp"
	}
	return strconv.Itoa(resp.StatusCode)
}

func (x *c10Run) obsTok(resp *Response, errTok string) string {
	return strconv.Itoa(x.req.RetryAttempt) + "/" + c10View(resp) + "/" + errTok
}

// pred evaluates a behaviour-table predicate on what a callback can see.
func (x *c10Run) pred(p string, resp *Response, hasErr bool) bool {
	p, _, _ = strings.Cut(p, "~")
	n, _ := strconv.Atoi(p[1:])
	switch p[0] {
	case 'E':
		return hasErr
	case 'T':
		return true
	case 'F':
		return false
	case 'G':
		return resp != nil && resp.Response != nil && resp.StatusCode >= n
	case 'Q':
		return resp != nil && resp.Response != nil && resp.StatusCode == n
	case 'L':
		return x.req.RetryAttempt < n
	}
	panic("c10: bad predicate " + p)
}

// edit performs an in-flight edit `c<k>` (SetRetryCount), `i<src>` (SetRetry…Interval), `x`
// (cancel the context), optionally only `@<j>`: when the callback sees attempt number j —
// through resp.Request, as a caller's callback would.
func (x *c10Run) edit(e string, resp *Response) {
	if e == "" {
		return
	}
	r := x.req
	if resp != nil && resp.Request != nil {
		r = resp.Request
	}
	body, at, has := strings.Cut(e, "@")
	if has {
		if j, _ := strconv.Atoi(at); j != r.RetryAttempt {
			return
		}
	}
	switch body[0] {
	case 'c':
		k, _ := strconv.Atoi(body[1:])
		r.SetRetryCount(k)
		x.wrapInterval(false) // SetRetryCount creates the option (default interval) when there was none
	case 'i':
		x.applyOps([]string{"i=" + body[1:]}, nil, r)
		x.wrapInterval(true)
	case 'x':
		x.cancel()
	default:
		panic("c10: bad edit " + e)
	}
}

func c10EditOf(tok string) string {
	_, e, _ := strings.Cut(tok, "~")
	return e
}

func (x *c10Run) condStub(id int) RetryConditionFunc {
	return func(resp *Response, err error) bool {
		res := x.pred(x.tc.conds[id], resp, err != nil)
		x.log = append(x.log, "C"+strconv.Itoa(id)+"@"+x.obsTok(resp, c10ErrTok(err))+"="+map[bool]string{true: "1", false: "0"}[res])
		x.edit(c10EditOf(x.tc.conds[id]), resp)
		return res
	}
}

// wrapInterval makes the installed interval function observable: its answer is logged and
// checked, and 0 is slept.  Called again whenever an edit may have installed another function.
func (x *c10Run) wrapInterval(force bool) {
	ro := x.req.retryOption
	if ro == nil || ro.GetRetryInterval == nil || (!force && ro == x.wrappedRO) {
		return
	}
	x.wrappedRO = ro
	orig := ro.GetRetryInterval
	ro.GetRetryInterval = func(resp *Response, attempt int) time.Duration {
		d := orig(resp, attempt)
		x.obs = append(x.obs, int64(d))
		x.ivAtt = append(x.ivAtt, attempt)
		x.log = append(x.log, "I"+strconv.Itoa(attempt)+"@"+c10View(resp)+"="+strconv.FormatInt(int64(d), 10))
		if x.tc.ivx > 0 && x.tc.ivx == attempt {
			if x.tc.ivxWait { // cancelled by the caller while the loop is waiting: the timer is far away
				go func() { time.Sleep(time.Millisecond); x.cancel() }()
				return 400 * time.Millisecond
			}
			x.cancel() // the interval function itself cancels the context
		}
		if x.ctx.Err() != nil {
			// the wait must end through ctx.Done(): keep the timer well away so that the
			// run is deterministic (zero intervals with a done context: lane ctxdone)
			return 200 * time.Millisecond
		}
		return 0
	}
}

func (x *c10Run) hookStub(id int) RetryHookFunc {
	return func(resp *Response, err error) {
		x.log = append(x.log, "H"+strconv.Itoa(id)+"@"+x.obsTok(resp, c10ErrTok(err)))
		a := x.tc.hooks[id]
		if a == "N" {
			return
		}
		switch a[0] {
		case 'C', 'I', 'X': // edits the retry option / cancels the context, leaves the request alone
			x.edit(strings.ToLower(a[:1])+a[1:], resp)
			return
		}
		x.mutated = true
		if a[0] == 'B' {
			x.req.SetBodyBytes([]byte(verifh.UnHex(a[1:])))
			return
		}
		if a[0] == 'R' || a[0] == 'F' {
			x.install(a[0], verifh.UnHex(a[1:]))
			return
		}
		k, v, _ := strings.Cut(a[1:], ":")
		k, v = verifh.UnHex(k), verifh.UnHex(v)
		switch a[0] {
		case 'H':
			x.req.SetHeader(k, v)
		case 'K':
			x.req.SetCookies(&http.Cookie{Name: k, Value: v})
		case 'Q':
			x.req.SetQueryParam(k, v)
		}
	}
}

// stubInterval: the stubs numbered 100 and up are "Retry-After style" — they read the response
// they are handed (which must be the response of the attempt just made).
// Those numbered 200 and up have STATE: a schedule that is consumed one step per call (the
// answer depends on how many interval calls the run has made so far) — whoever calls the
// interval function once more than the loop needs shifts every later answer.
func (x *c10Run) stubInterval(id int) GetRetryIntervalFunc {
	return func(resp *Response, attempt int) time.Duration {
		d := id*1000 + attempt
		if id >= 200 {
			d += 13 * len(x.ivAtt)
		} else if id >= 100 && resp != nil && resp.Response != nil {
			d += 7 * resp.StatusCode
		}
		return time.Duration(d)
	}
}

func (x *c10Run) applyOps(ops []string, c *Client, r *Request) {
	for _, op := range ops {
		arg := op[2:]
		n, _ := strconv.Atoi(arg)
		switch op[:2] {
		case "n=":
			if r != nil {
				r.SetRetryCount(n)
			} else {
				c.SetCommonRetryCount(n)
			}
		case "i=":
			var f GetRetryIntervalFunc
			v, _ := strconv.Atoi(arg[1:])
			switch arg[0] {
			case 'f':
				f = x.stubInterval(v)
			case 'x':
				if r != nil {
					r.SetRetryFixedInterval(time.Duration(v))
				} else {
					c.SetCommonRetryFixedInterval(time.Duration(v))
				}
			case 'b':
				a, b, _ := strings.Cut(arg[1:], ":")
				mn, _ := strconv.ParseInt(a, 10, 64)
				mx, _ := strconv.ParseInt(b, 10, 64)
				if r != nil {
					r.SetRetryBackoffInterval(time.Duration(mn), time.Duration(mx))
				} else {
					c.SetCommonRetryBackoffInterval(time.Duration(mn), time.Duration(mx))
				}
			}
			if f != nil {
				if r != nil {
					r.SetRetryInterval(f)
				} else {
					c.SetCommonRetryInterval(f)
				}
			}
		case "sh":
			if r != nil {
				r.SetRetryHook(x.hookStub(n))
			} else {
				c.SetCommonRetryHook(x.hookStub(n))
			}
		case "ah":
			if r != nil {
				r.AddRetryHook(x.hookStub(n))
			} else {
				c.AddCommonRetryHook(x.hookStub(n))
			}
		case "sc":
			if r != nil {
				r.SetRetryCondition(x.condStub(n))
			} else {
				c.SetCommonRetryCondition(x.condStub(n))
			}
		case "ac":
			if r != nil {
				r.AddRetryCondition(x.condStub(n))
			} else {
				c.AddCommonRetryCondition(x.condStub(n))
			}
		default:
			panic("c10: bad op " + op)
		}
	}
}

// build configures a real client and request as the case says.
func (x *c10Run) build(dir string) (*Client, *Request) {
	tc := x.tc
	tc.assignObservers()
	c := C()
	x.client = c
	x.sink = &c10Sink{}
	c.SetLogger(x.sink)
	if tc.debug {
		c.EnableDebugLog()
	}
	if tc.dev {
		c.getDumpOptions().Output = x.sink
		c.DevMode()
	}
	c.httpClient.Transport = x
	c.AllowGetMethodPayload = tc.allowGet
	c.SetJsonUnmarshal(func(data []byte, v interface{}) error {
		if s := string(data); strings.HasPrefix(s, "bad:") {
			k, _ := strconv.Atoi(s[4:])
			return &c10Err{"b", k, nil}
		}
		return nil
	})
	c.OnBeforeRequest(func(_ *Client, r *Request) error {
		x.iter++
		x.log = append(x.log, "B"+strconv.Itoa(r.RetryAttempt))
		if x.outcome(x.iter-1) == "e" {
			return &c10Err{"e", r.RetryAttempt, nil}
		}
		if p := tc.pre; p != "" {
			body, at, _ := strings.Cut(p[1:], "@")
			if j, _ := strconv.Atoi(at); j == r.RetryAttempt {
				x.install(p[0], body)
			}
		}
		return nil
	})
	hasZ := false
	for _, o := range tc.script {
		hasZ = hasZ || o == "z"
	}
	if hasZ { // the usual wrapper: hand back (nil, err) when the inner round trip failed
		c.WrapRoundTripFunc(func(rt RoundTripper) RoundTripFunc {
			return func(r *Request) (*Response, error) {
				resp, err := rt.RoundTrip(r)
				var e *c10Err
				if errors.As(err, &e) && e.kind == "w" {
					return nil, err
				}
				return resp, err
			}
		})
	}
	if tc.trace {
		c.EnableTraceAll()
	}
	if tc.dump {
		c.EnableDumpEachRequest()
	}
	if len(tc.cCookies) > 0 {
		for _, p := range tc.cCookies {
			c.SetCommonCookies(&http.Cookie{Name: p[0], Value: p[1]})
		}
	}
	for _, e := range tc.cHeaders {
		c.SetCommonHeader(e.k, e.vs[0])
	}
	if len(tc.cForm) > 0 {
		vals := url.Values{}
		for _, e := range tc.cForm {
			vals[e.k] = e.vs
		}
		c.SetCommonFormDataFromValues(vals)
	}
	for _, e := range tc.cQuery {
		for _, v := range e.vs {
			c.AddCommonQueryParam(e.k, v)
		}
	}
	for _, p := range tc.cPathParams {
		c.SetCommonPathParam(p[0], p[1])
	}
	if tc.baseURL != "" {
		c.SetBaseURL(tc.baseURL)
	}
	if tc.scheme != "" {
		c.SetScheme(tc.scheme)
	}
	c.SetXmlMarshal(func(v interface{}) ([]byte, error) { return []byte(c10XML(v.(map[string]string)["k"])), nil })
	x.applyOps(tc.clientOps, c, nil)

	if len(tc.reqOps) > 0 {
		// a sibling request of the same client gets the same request-level setters first: they
		// must act on ITS copy of the policy only (R() clones), never reach the request under test
		decoy := &c10Run{tc: tc}
		decoy.req = c.R()
		decoy.applyOps(tc.reqOps, nil, decoy.req)
	}
	r := c.R()
	x.req = r
	x.ctx = newC10Ctx()
	x.cancel = func() { x.ctx.finish(context.Canceled) }
	r.SetContext(x.ctx)
	for _, p := range tc.cookies {
		r.SetCookies(&http.Cookie{Name: p[0], Value: p[1]})
	}
	for _, e := range tc.headers {
		if e.k == HeaderOderKey {
			r.SetHeaderOrder(e.vs...)
			continue
		}
		r.SetHeader(e.k, e.vs[0])
	}
	for _, p := range tc.pathParams {
		r.SetPathParam(p[0], p[1])
	}
	if len(tc.form) > 0 {
		vals := url.Values{}
		for _, e := range tc.form {
			vals[e.k] = e.vs
		}
		r.SetFormDataFromValues(vals)
	}
	for _, p := range tc.ordered {
		r.SetOrderedFormData(p[0], p[1])
	}
	for _, e := range tc.query {
		for _, v := range e.vs {
			r.AddQueryParam(e.k, v)
		}
	}
	if tc.multipart {
		r.EnableForceMultipart()
	}
	if tc.chunked {
		r.EnableForceChunkedEncoding()
	}
	for i, f := range tc.files {
		content := f.content
		switch f.kind {
		case "b":
			if f.ctype == "" {
				r.SetFileBytes(f.param, f.name, []byte(content))
			} else {
				r.SetFileUpload(FileUpload{ParamName: f.param, FileName: f.name, ContentType: f.ctype,
					GetFileContent: func() (io.ReadCloser, error) { return io.NopCloser(strings.NewReader(content)), nil }})
			}
		case "p":
			d := filepath.Join(dir, strconv.Itoa(i))
			os.MkdirAll(d, 0o755)
			p := filepath.Join(d, f.name)
			if err := os.WriteFile(p, []byte(content), 0o644); err != nil {
				panic(err)
			}
			r.SetFile(f.param, p)
		case "k": // SetFileUpload, GetFileContent hands out the SAME seekable reader every time
			sh := c10Shared{strings.NewReader(content)}
			r.SetFileUpload(FileUpload{ParamName: f.param, FileName: f.name, ContentType: f.ctype,
				GetFileContent: func() (io.ReadCloser, error) { return sh, nil }})
		case "q": // … the same reader, not seekable
			sh := io.NopCloser(bytes.NewBufferString(content))
			r.SetFileUpload(FileUpload{ParamName: f.param, FileName: f.name, ContentType: f.ctype,
				GetFileContent: func() (io.ReadCloser, error) { return sh, nil }})
		case "s":
			r.SetFileReader(f.param, f.name, strings.NewReader(content))
		case "r":
			r.SetFileReader(f.param, f.name, bytes.NewBufferString(content))
		case "o": // an open *os.File: io.Seeker AND io.Closer, closed by the attempt that reads it
			d := filepath.Join(dir, strconv.Itoa(i))
			os.MkdirAll(d, 0o755)
			p := filepath.Join(d, f.name)
			if err := os.WriteFile(p, []byte(content), 0o644); err != nil {
				panic(err)
			}
			fh, err := os.Open(p)
			if err != nil {
				panic(err)
			}
			x.closers = append(x.closers, fh)
			r.SetFileReader(f.param, f.name, fh)
		}
	}
	switch tc.body[0] {
	case 'b':
		if len(tc.body)%2 == 0 {
			r.SetBodyString(tc.body[1:])
		} else {
			r.SetBodyBytes([]byte(tc.body[1:]))
		}
	case 'u':
		s := tc.body[1:]
		r.SetBody(func() (io.ReadCloser, error) { return io.NopCloser(strings.NewReader(s)), nil })
	case 'm':
		r.SetBody(map[string]string{"k": tc.body[1:]})
	case 'r':
		r.SetBody(bytes.NewBufferString(tc.body[1:]))
	}
	for i, p := range tc.after {
		i, p := i, p
		r.OnAfterResponse(func(_ *Client, resp *Response) error {
			var e error
			if resp != nil {
				e = resp.Err
			}
			x.log = append(x.log, "A"+strconv.Itoa(i)+"@"+x.obsTok(resp, c10ErrTok(e)))
			x.edit(c10EditOf(p), resp)
			if x.pred(p, resp, e != nil) {
				return &c10Err{"a" + strconv.Itoa(i), x.req.RetryAttempt, nil}
			}
			return nil
		})
	}
	// result targets: Response.result / Response.error are bound on every attempt with a result state
	r.SetSuccessResult(&struct{}{})
	r.SetErrorResult(&struct{}{})
	x.applyOps(tc.reqOps, nil, r)
	switch tc.sibKind {
	case 1:
		sib := &c10Run{tc: tc}
		sib.req = c.R()
		sib.applyOps(tc.sibOps, nil, sib.req)
	case 2:
		sib := &c10Run{tc: tc}
		cc := c.Clone()
		sib.req = cc.R()
		sib.applyOps(tc.sibOps, cc, nil)
	}
	if ro := r.retryOption; ro != nil {
		x.enabled = true
		x.maxRetr = ro.MaxRetries
	}
	x.wrapInterval(true) // observe the installed interval function, do not sleep
	return c, r
}

func (x *c10Run) exec(dir string) {
	_, r := x.build(dir)
	defer x.stopObservers()
	defer x.cancel()
	defer func() {
		for _, c := range x.closers {
			c.Close()
		}
	}()
	x.lastXAtt = -1
	for si := 0; si <= len(x.tc.resend); si++ {
		if si > 0 {
			// the same Request object again: a fresh context, the caller's setter calls, Do
			x.log = append(x.log, x.final, x.kept)
			x.ctx = newC10Ctx()
			r.SetContext(x.ctx)
			x.applyOps(x.tc.resend[si-1], nil, r)
			newIv := false
			for _, op := range x.tc.resend[si-1] {
				newIv = newIv || strings.HasPrefix(op, "i=")
			}
			x.wrapInterval(newIv) // a freshly installed interval function must be observed too
		}
		x.sendStart = append(x.sendStart, len(x.log))
		x.sendStartRA = append(x.sendStartRA, r.RetryAttempt)
		x.sendWires = append(x.sendWires, len(x.wires))
		x.sendIter0 = x.iter
		if x.execOne(r) {
			break
		}
	}
}

// execOne is one call of Do / Send; it reports whether the call panicked.
func (x *c10Run) execOne(r *Request) bool {
	var resp *Response
	x.lastXAtt = -1
	_, panicked := verifh.Safely(func() {
		if x.tc.useSend {
			resp, _ = r.Send(x.tc.method, x.tc.url)
		} else {
			r.Method = x.tc.method
			r.RawURL = x.tc.url
			resp = r.Do()
		}
	})
	x.kept = "K-"
	switch {
	case panicked:
		x.final = "panic"
	case resp == nil:
		x.final = "nil-response"
	case resp.Err == errRetryableWithUnReplayableBody:
		x.final = "refused"
	default:
		x.observeKept(resp)
		rs := "-/nohttp"
		if resp.Response != nil {
			rs = resp.Header.Get("X-Attempt") + "/" + strconv.Itoa(resp.StatusCode)
			x.lastXAtt, _ = strconv.Atoi(resp.Header.Get("X-Attempt"))
		}
		es := "-"
		if resp.Err != nil {
			var e *c10Err
			if errors.As(resp.Err, &e) {
				es = strconv.Itoa(e.attempt) + "/" + e.kind
			} else if resp.Err == context.Canceled || resp.Err == context.DeadlineExceeded {
				// ctx.Err() itself: handed back by the wait step, after RetryAttempt++
				es = strconv.Itoa(r.RetryAttempt-1) + "/x"
			} else {
				es = "?/" + verifh.Hex(resp.Err.Error())
			}
		}
		x.final = "R" + rs + ":" + es
	}
	return panicked
}

func (x *c10Run) answer() string {
	return strings.Join(append(append([]string{}, x.log...), x.final, x.kept), " ")
}

// observeKept looks at the response Do handed back the way a caller does: its body
// (Bytes/String), its bound result / error result, and — where the lane can see them — the dump
// and the trace reachable through it.  All of it must still be what the LAST attempt buffered
// (K token: 1 kept, 0 wiped, - nothing to observe, ? something else).
func (x *c10Run) observeKept(resp *Response) {
	src := ""
	if passes := x.iter - x.sendIter0; passes >= 1 {
		src = x.outcome(x.iter - 1)
		if src == "e" { // a request middleware failed: resp is what the previous pass left
			src = ""
			if passes >= 2 && resp.Response != nil {
				src = x.outcome(x.iter - 2)
			}
		}
	}
	if resp.Response == nil {
		src = ""
	}
	b, rs := "-", "-"
	if src != "" && (src[0] == 's' || src[0] == 'b' || src[0] == 'r' || src[0] == 'L') {
		exp := "ok"
		if x.tc.noBodyObs {
			exp = ""
		}
		if src[0] == 'b' {
			exp = "bad:" + resp.Header.Get("X-Attempt")
		}
		if src[0] == 'r' {
			exp = c10PartialBody
		}
		switch got := string(resp.body); {
		case x.tc.noBodyObs:
		case got == exp && resp.String() == exp:
			b = "1"
		case got == "":
			b = "0"
		default:
			b = "?"
		}
		if code, _ := strconv.Atoi(src[1:]); src[0] != 'b' && src[0] != 'r' && ((code >= 200 && code < 300) || code >= 400) {
			rs = "0"
			if (resp.result != nil && resp.SuccessResult() != nil) || (resp.error != nil && resp.ErrorResult() != nil) {
				rs = "1"
			}
		}
	}
	d, t := "-", "-"
	if x.tc.obsDump == "1" {
		switch n := strings.Count(resp.Dump(), " HTTP/1.1\r\n"); {
		case n == 1:
			d = "1"
		case resp.Dump() == "":
			d = "0"
		default:
			d = "?"
		}
	}
	if x.tc.obsTrace == "1" {
		t = "0"
		if x.lastTrace != nil && resp.Request.trace == x.lastTrace {
			t = "1"
		}
	}
	x.kept = "K" + b + rs + d + t
	if last := x.outcome(x.iter - 1); last != "e" && strings.ContainsAny(x.kept, "0?") {
		x.keptBad = fmt.Sprintf("the response finally returned is not the last attempt's any more: %s (body %q, result %v/%v) after outcome %s", x.kept, string(resp.body), resp.result != nil, resp.error != nil, last)
	}
}

// c10JarNames: the cookie names the script's responses set (they live in the jar, not in the request).
func (tc *c10Case) jarNames() map[string]bool {
	names := map[string]bool{}
	for _, o := range tc.script {
		if _, set, ok := strings.Cut(o, "^"); ok {
			for _, p := range strings.Split(set, "+") {
				n, _, _ := strings.Cut(p, ":")
				names[n] = true
			}
		}
	}
	return names
}

// c10SplitJar takes the cookies of a canonical wire request apart: the request as req built it
// (jar cookies removed) and the cookies that came out of the jar, in wire order.
func c10SplitJar(wire string, names map[string]bool) (string, string) {
	i := strings.Index(wire, "&c=")
	j := strings.Index(wire, "&b=")
	if len(names) == 0 || i < 0 || j < i || wire[i+3:j] == "-" {
		return wire, ""
	}
	var own, jar []string
	for _, p := range strings.Split(wire[i+3:j], ";") {
		n, _, _ := strings.Cut(p, ":")
		if names[verifh.UnHex(n)] {
			jar = append(jar, p)
		} else {
			own = append(own, p)
		}
	}
	c := "-"
	if len(own) > 0 {
		c = strings.Join(own, ";")
	}
	return wire[:i+3] + c + wire[j:], strings.Join(jar, ";")
}

// jarOracle: what the jar must hold before each script position — the Set-Cookies of the responses
// so far, a new name appended, a known name replaced in place, an expired one removed (written
// without the model; one origin, path /).
func (tc *c10Case) jarOracle() []string {
	type ck struct{ n, v string }
	var jar []ck
	out := make([]string, len(tc.script)+1)
	render := func() string {
		ps := make([]string, len(jar))
		for i, c := range jar {
			ps[i] = verifh.Hex(c.n) + ":" + verifh.Hex(c.v)
		}
		return strings.Join(ps, ";")
	}
	for i, o := range tc.script {
		out[i] = render()
		if _, set, ok := strings.Cut(o, "^"); ok {
			for _, p := range strings.Split(set, "+") {
				n, v, _ := strings.Cut(p, ":")
				idx := -1
				for k, c := range jar {
					if c.n == n {
						idx = k
					}
				}
				switch {
				case v == "" && idx >= 0:
					jar = append(jar[:idx], jar[idx+1:]...)
				case v == "":
				case idx >= 0:
					jar[idx].v = v
				default:
					jar = append(jar, ck{n, v})
				}
			}
		}
	}
	out[len(tc.script)] = render()
	return out
}

// checkJar: every attempt's request minus the jar's cookies is compared by the caller; here the
// jar part of wire number i (= script position i: one wire per pass unless a middleware failed,
// which the jar cases do not script) must be exactly what the origin has stored so far.
func (x *c10Run) checkJar() (bool, string) {
	names := x.tc.jarNames()
	if len(names) == 0 {
		return true, ""
	}
	want := x.tc.jarOracle()
	for i, w := range x.wires {
		_, jar := c10SplitJar(w, names)
		if i < len(want) && jar != want[i] {
			return false, fmt.Sprintf("attempt %d carries the jar cookies [%s], the origin has stored [%s]", i, jar, want[i])
		}
	}
	return true, ""
}

// oracle checks the property clauses directly on the run, without the model.
func (x *c10Run) oracle() (ok bool, why string) {
	tc := x.tc
	fail := func(s string) (bool, string) { return false, s }
	if x.keptBad != "" {
		return fail(x.keptBad)
	}
	// a body that cannot be sent again, installed by a callback while the call was in flight: the
	// attempt that reads it is the last one
	if x.unrepAt > 0 && len(x.wires) > x.unrepAt {
		return fail(fmt.Sprintf("%d attempts although an unreplayable body / upload was installed in flight before attempt %d went out", len(x.wires), x.unrepAt-1))
	}
	if tc.dynamic() {
		return x.oracleDyn()
	}
	if x.final == "refused" {
		if len(x.wires) != 0 {
			return fail("refused but something was sent")
		}
		return true, ""
	}
	if x.final == "panic" || x.final == "nil-response" || x.runaway {
		return fail("call did not return normally: " + x.final)
	}
	// an unreplayable body must fail up front when retries are enabled
	if x.enabled && x.maxRetr != 0 && tc.body[0] == 'r' {
		return fail("unreplayable body not refused up front")
	}
	// bound
	if x.maxRetr >= 0 && len(x.wires) > x.maxRetr+1 {
		return fail(fmt.Sprintf("%d attempts with MaxRetries=%d", len(x.wires), x.maxRetr))
	}
	if !x.enabled && len(x.wires) > 1 {
		return fail("retried without a retry option")
	}
	// every attempt identical unless a hook edited the request — apart from the cookies the origin
	// itself has stored in the jar meanwhile, which must be exactly those
	if !x.mutated && !tc.brokenContract() {
		names := tc.jarNames()
		w0, _ := c10SplitJar(x.wires0(), names)
		for i := 1; i < len(x.wires); i++ {
			if wi, _ := c10SplitJar(x.wires[i], names); wi != w0 {
				return fail(fmt.Sprintf("attempt %d differs from attempt 0", i))
			}
		}
	}
	if ok, why := x.checkJar(); !ok {
		return fail(why)
	}
	// interval function once per retry with attempt numbers 1,2,…
	retries := x.iter - 1
	lastOut := ""
	if x.iter >= 1 && x.iter-1 < len(tc.script) {
		lastOut = tc.script[x.iter-1]
	}
	ctxDoneLast := lastOut == "D" || lastOut == "T" || (lastOut != "" && lastOut[0] == 'L')
	// a wait that finds the context done follows one more round of hooks + interval call
	if x.enabled && len(x.ivAtt) != retries && !(ctxDoneLast && len(x.ivAtt) == retries+1) {
		return fail(fmt.Sprintf("%d interval calls for %d retries", len(x.ivAtt), retries))
	}
	for i, a := range x.ivAtt {
		if a != i+1 {
			return fail(fmt.Sprintf("interval call %d got attempt %d", i, a))
		}
	}
	// hooks: every registration runs once per retry (an id registered m times runs m times per retry)
	perRetry := map[int]int{}
	for _, l := range x.log {
		if l[0] == 'H' {
			id, _ := strconv.Atoi(l[1:strings.Index(l, "@")])
			perRetry[id]++
		}
	}
	for id, n := range perRetry {
		if rounds := len(x.ivAtt); rounds == 0 || n%rounds != 0 {
			return fail(fmt.Sprintf("hook %d ran %d times for %d retries (%d interval calls)", id, n, retries, rounds))
		}
	}
	// the script decides: nothing after a cancelled context; with no condition configured the
	// default rule (retry iff an error occurred) must be followed
	noConds := true
	for _, op := range append(append([]string{}, tc.clientOps...), tc.reqOps...) {
		if strings.HasPrefix(op, "sc") || strings.HasPrefix(op, "ac") {
			noConds = false
		}
	}
	last := x.iter - 1
	for k := 0; k <= last && k < len(tc.script); k++ {
		o := tc.script[k]
		if k < last && (o == "c" || o == "e" || o == "D" || o == "T" || o[0] == 'L') {
			return fail(fmt.Sprintf("attempt after outcome %s of iteration %d (context done / middleware error)", o, k))
		}
		if noConds && x.enabled && x.unrepAt == 0 && o != "c" && o != "e" && o != "D" && o != "T" && o[0] != 'L' {
			abort := false
			for _, p := range tc.after {
				// the stub predicates only read status / error presence / attempt number
				isErr := o[0] != 's'
				st := 0
				if o[0] == 's' || o[0] == 'b' || o[0] == 'r' {
					st, _ = strconv.Atoi(o[1:])
				}
				n, _ := strconv.Atoi(p[1:])
				switch p[0] {
				case 'E':
					abort = abort || isErr
				case 'T':
					abort = true
				case 'G':
					abort = abort || (st != 0 && st >= n)
				case 'Q':
					abort = abort || (st != 0 && st == n)
				case 'L':
					abort = abort || k < n
				}
			}
			room := x.maxRetr < 0 || k < x.maxRetr
			want := !abort && room && o[0] != 's'
			if want != (k < last) {
				return fail(fmt.Sprintf("default rule: iteration %d outcome %s: further attempt=%v, expected %v", k, o, k < last, want))
			}
		}
	}
	// the result is the last attempt's
	if last >= 0 && last < len(tc.script) {
		o := tc.script[last]
		if (o[0] == 's' || o[0] == 'b' || o[0] == 'r' || o[0] == 'L') && x.lastXAtt != last {
			return fail(fmt.Sprintf("returned response is from attempt %d, last attempt was %d", x.lastXAtt, last))
		}
		if o[0] == 's' && len(tc.after) == 0 && !strings.HasSuffix(x.final, ":-") {
			return fail("last attempt succeeded but an error was returned: " + x.final)
		}
		if o[0] == 'r' && len(tc.after) == 0 && !strings.HasSuffix(x.final, ":"+strconv.Itoa(last)+"/b") {
			return fail("the body of the last attempt broke off but the error returned is not that attempt's body error: " + x.final)
		}
		if (o == "t" || o == "d" || o == "c" || o == "z") && !strings.HasSuffix(x.final, ":"+strconv.Itoa(last)+"/"+map[string]string{"t": "t", "d": "d", "c": "c", "z": "w"}[o]) {
			// a failing response middleware may replace nothing: resp.Err keeps the round-trip error
			return fail("returned error is not the last attempt's: " + x.final)
		}
	}
	return true, ""
}

// oracleDyn judges runs in which the retry option is edited in flight, the context is cancelled
// by a callback, or the Request is sent again.  It replays the event log with the edits the
// case's stubs perform (the model is not consulted): a further attempt may only follow a pass
// whose check — made after that pass's response middleware — finds a retry option, and a count
// that is negative or still ABOVE the attempt counter; never after a callback cancelled the
// context; all attempts of one Do are identical unless a hook edited the request.
func (x *c10Run) oracleDyn() (bool, string) {
	tc := x.tc
	fail := func(s string) (bool, string) { return false, s }
	if x.runaway {
		return fail("runaway retry loop")
	}
	enabled, count := x.enabled, x.maxRetr
	apply := func(e string, attempt int) (cancel bool) {
		if e == "" {
			return false
		}
		body, at, has := strings.Cut(e, "@")
		if has {
			if j, _ := strconv.Atoi(at); j != attempt {
				return false
			}
		}
		switch body[0] {
		case 'c':
			count, _ = strconv.Atoi(body[1:])
			enabled = true
		case 'i':
			if !enabled {
				count = 0
			}
			enabled = true
		case 'x':
			return true
		}
		return false
	}
	for si, start := range x.sendStart {
		end, final, wEnd := len(x.log), x.final, len(x.wires)
		if si+1 < len(x.sendStart) {
			end, final, wEnd = x.sendStart[si+1]-2, x.log[x.sendStart[si+1]-2], x.sendWires[si+1] // … final, K token
		}
		if si > 0 {
			for _, op := range tc.resend[si-1] {
				if strings.HasPrefix(op, "n=") {
					apply("c"+op[2:], 0)
				} else {
					apply("i", 0)
				}
			}
		}
		if final == "panic" || final == "nil-response" {
			return fail("call did not return normally: " + final)
		}
		if final == "refused" {
			if end != start {
				return fail("refused but something happened")
			}
			continue
		}
		if enabled && count != 0 && tc.body[0] == 'r' {
			return fail("unreplayable body not refused up front")
		}
		toks := x.log[start:end]
		checked := false
		var enAt bool
		var cntAt, ra int
		cancelled := false
		check := func() {
			if !checked {
				checked, enAt, cntAt = true, enabled, count
			}
		}
		for i, tk := range toks {
			attempt := 0
			if at := strings.Index(tk, "@"); at >= 0 {
				attempt, _ = strconv.Atoi(strings.SplitN(tk[at+1:], "/", 2)[0])
			}
			switch tk[0] {
			case 'B':
				if i > 0 {
					check()
					if cancelled {
						return fail(fmt.Sprintf("send %d: attempt after a callback cancelled the context (pass with RetryAttempt %d)", si, ra))
					}
					if !enAt || (cntAt >= 0 && ra >= cntAt) {
						return fail(fmt.Sprintf("send %d: a further attempt follows the pass with RetryAttempt %d although the check of that pass found enabled=%v count=%d", si, ra, enAt, cntAt))
					}
				}
				ra, _ = strconv.Atoi(tk[1:])
				checked, cancelled = false, false
			case 'A':
				id, _ := strconv.Atoi(tk[1:strings.Index(tk, "@")])
				cancelled = apply(c10EditOf(tc.after[id]), attempt) || cancelled
			case 'C':
				check()
				id, _ := strconv.Atoi(tk[1:strings.Index(tk, "@")])
				cancelled = apply(c10EditOf(tc.conds[id]), attempt) || cancelled
			case 'H':
				check()
				id, _ := strconv.Atoi(tk[1:strings.Index(tk, "@")])
				if a := tc.hooks[id]; a[0] == 'C' || a[0] == 'I' || a[0] == 'X' {
					cancelled = apply(strings.ToLower(a[:1])+a[1:], attempt) || cancelled
				}
			case 'I':
				check()
				iv, _ := strconv.Atoi(tk[1:strings.Index(tk, "@")])
				if tc.ivx > 0 && iv == tc.ivx {
					cancelled = true
				}
			}
		}
		if !x.mutated && !tc.brokenContract() {
			names := tc.jarNames()
			for i := x.sendWires[si] + 1; i < wEnd; i++ {
				a, _ := c10SplitJar(x.wires[i], names)
				b, _ := c10SplitJar(x.wires[x.sendWires[si]], names)
				if a != b {
					return fail(fmt.Sprintf("send %d: attempt %d differs from the first attempt of the call", si, i-x.sendWires[si]))
				}
			}
		}
	}
	if ok, why := x.checkJar(); !ok {
		return fail(why)
	}
	return true, ""
}

func (x *c10Run) wires0() string {
	if len(x.wires) == 0 {
		return ""
	}
	return x.wires[0]
}

// ---------------------------------------------------------------------------- classification

var c10Bits = []string{"c10-cookie-dup", "c10-form-dup", "c10-afterresponse-overwrites-err", "c10-nil-resp-retry", "c10-filereader-not-rewound", "c10-unreplayable-retried-in-flight", "c10-wiped-before-wait"}

type c10Rec struct {
	tc       *c10Case
	obs      []int64
	impl     string
	ok       bool
	why      string
	nontriv  bool
	relevant []int // defect bits this input can exercise
}

func (tc *c10Case) relevantBits() []int {
	var r []int
	if len(tc.cCookies) > 0 {
		r = append(r, 0)
	}
	if len(tc.cForm) > 0 {
		r = append(r, 1)
	}
	if len(tc.after) > 0 {
		r = append(r, 2)
	}
	for _, o := range tc.script {
		if o == "z" {
			r = append(r, 3)
			break
		}
	}
	for _, f := range tc.files {
		if f.kind == "s" || f.kind == "r" || f.kind == "o" {
			r = append(r, 4)
			break
		}
	}
	// retries switched on in flight + a body Do would have refused
	if tc.dynamic() {
		unrep := tc.body[0] == 'r'
		for _, f := range tc.files {
			unrep = unrep || f.kind == "r" || f.kind == "o"
		}
		if unrep {
			// first: for a non-rewindable upload the pre-C10-6 code (bit 4, fixed in /repo) would
			// show the same symptom, and the smallest explanation found first names the class
			r = append([]int{5}, r...)
		}
	}
	return r
}

// c10Finish asks the model (repaired behaviour) about every case; where the implementation
// disagrees it asks the model again with each subset of the known defects switched back on:
// the case is classed as a known finding only when the implementation behaves EXACTLY like the
// model with some of those defects (class = the first one), so any other deviation still alarms.
func c10Finish(s *verifh.Session, recs []c10Rec) {
	lines := make([]string, len(recs))
	for i, r := range recs {
		lines[i] = r.tc.line("c10run", "1111111", r.obs)
	}
	class := make([]string, len(recs))
	var ans []string
	if len(lines) > 0 {
		var err error
		ans, err = verifh.RunModel(lines)
		if err == nil {
			type probe struct {
				rec  int
				mask string
				off  int
			}
			var probes []probe
			var plines []string
			for i, r := range recs {
				if ans[i] == r.impl || len(r.relevant) == 0 {
					continue
				}
				for sub := 1; sub < 1<<len(r.relevant); sub++ {
					m := []byte("1111111")
					off := 0
					for j, b := range r.relevant {
						if sub&(1<<j) != 0 {
							m[b] = '0'
							off++
						}
					}
					probes = append(probes, probe{i, string(m), off})
					plines = append(plines, r.tc.line("c10run", string(m), r.obs))
				}
			}
			if len(plines) > 0 {
				pans, err := verifh.RunModel(plines)
				if err == nil {
					best := map[int]probe{}
					for j, p := range probes {
						if pans[j] != recs[p.rec].impl {
							continue
						}
						if b, ok := best[p.rec]; !ok || p.off < b.off {
							best[p.rec] = p
						}
					}
					for i, p := range best {
						class[i] = c10Bits[strings.IndexByte(p.mask, '0')]
						s.Count("as-found:" + class[i])
					}
				}
			}
		}
	}
	// verifh reports only the first few mismatches of a lane: put the cases that are NOT
	// explained by a known defect first so that they can never be crowded out.
	order := make([]int, 0, len(recs))
	for pass := 0; pass < 2; pass++ {
		for i, r := range recs {
			unexplained := class[i] == "" && (!r.ok || (ans != nil && ans[i] != r.impl))
			if unexplained == (pass == 0) {
				order = append(order, i)
			}
		}
	}
	for _, i := range order {
		r := recs[i]
		human := fmt.Sprintf("%s clientOps=%v reqOps=%v conds=%v hooks=%v after=%v script=%v %s %s body=%q files=%d -> %s",
			r.tc.obsHuman(), r.tc.clientOps, r.tc.reqOps, r.tc.conds, r.tc.hooks, r.tc.after, r.tc.script, r.tc.method, r.tc.url, r.tc.body, len(r.tc.files), c10Short(r.impl))
		if r.tc.sibKind != 0 {
			human = fmt.Sprintf("sibling(kind %d, configured after the request under test)=%v ", r.tc.sibKind, r.tc.sibOps) + human
		}
		if !r.ok {
			human = "ORACLE: " + r.why + " | " + human
		}
		s.Case(lines[i], r.impl, r.ok, class[i], r.nontriv, human)
	}
	s.Finish()
}

func c10Short(a string) string {
	var out []string
	for _, t := range strings.Split(a, " ") {
		if t[0] == 'W' {
			t = t[:strings.Index(t, "[")]
		}
		out = append(out, t)
	}
	return strings.Join(out, " ")
}

func c10Exec(tc *c10Case, dir string) c10Rec {
	x := &c10Run{tc: tc}
	x.exec(dir)
	ok, why := x.oracle()
	return c10Rec{tc: tc, obs: x.obs, impl: x.answer(), ok: ok, why: why, nontriv: x.iter >= 2, relevant: tc.relevantBits()}
}

// ---------------------------------------------------------------------------- generators

var c10Alphabet = []string{"s200", "s503", "t", "c", "z", "e", "b500", "d", "D", "L503", "s404", "b200", "s301", "s429", "L200", "T", "r300", "r200", "r503"}

func c10Simple() *c10Case {
	return &c10Case{allowGet: true, method: "GET", url: "http://c10.test/p", body: "n"}
}

// TestVerif_C10_loop: the retry loop itself — every outcome sequence up to a depth bound x
// retry counts x policy configurations, on a plain request; then random policies.
func TestVerif_C10_loop(t *testing.T) {
	s := verifh.New(t, "C10", "loop",
		"exhaustive: outcome sequences over {200,503,transport error,cancelled,(nil,err) wrapper,middleware error,bad body,deadline error,deadline of the request context passed,response then cancel} up to depth 3 (quick) / 5 (thorough), over a 4-symbol alphabet up to depth 6, x MaxRetries {-1,0,1,2,5,unset} x policy {default rule, one condition, two conditions, request-level response middleware}; then random client/request Set/Add op lists (conditions, hooks, interval functions incl. fixed/backoff/default), random failing response middleware; SIBLINGS: 0..9 client-level Add calls (slice capacities with and without spare room) x a second request of the same client / a Client.Clone configured with its own Add/Set calls after the request under test and before it is sent; ERROR KIND x CONTEXT STATE: exhaustive scripts over {t,d,T,D,c,L503,s503,s200} and every coherent (cause in {none,transport,Client.Timeout,net timeout,ctx deadline,ctx cancel}, context in {alive,canceled,expired}) pair alone and in pairs with REAL error values of that kind, x counts x policies; c10kind lines tie the cause/context table and errors.Is; non-trivial = at least one retry")
	r := s.Rand()
	dir := t.TempDir()
	var recs []c10Rec
	type pol struct {
		name              string
		clientOps, reqOps []string
		conds, hooks      []string
		after             []string
	}
	pols := []pol{
		{"default", []string{"i=f1"}, nil, nil, nil, nil},
		{"cond-5xx", []string{"i=f1", "ac0"}, []string{"ah0"}, []string{"G500"}, []string{"N"}, nil},
		{"two-conds", []string{"ac0", "ah0"}, []string{"i=x7", "ac1", "ah1"}, []string{"E", "Q429"}, []string{"N", "N"}, nil},
		{"after-ok", nil, []string{"i=f2", "ah0"}, nil, []string{"N"}, []string{"F"}},
		{"after-fails", []string{"i=f1"}, nil, nil, nil, []string{"F", "Q503"}},
	}
	counts := []string{"", "n=-1", "n=0", "n=1", "n=2", "n=5"}
	var seqs [][]string
	var gen func(alpha []string, depth int, cur []string)
	gen = func(alpha []string, depth int, cur []string) {
		if len(cur) > 0 {
			seqs = append(seqs, append(append([]string{}, cur...), "c"))
		}
		if len(cur) == depth {
			return
		}
		for _, a := range alpha {
			gen(alpha, depth, append(cur, a))
		}
	}
	gen(c10Alphabet[:10], verifh.N(3, 4), nil)
	gen([]string{"s200", "s503", "t", "c"}, verifh.N(4, 6), nil)
	// error KIND of the attempt x STATE of the request's context when the decision is made: a
	// transport error / an error matching DeadlineExceeded (the client's per-attempt timeout, a dial
	// or TLS timeout) with the context alive (t, d), the same with the context done (T, D), the
	// context's own cancellation (c), a response with the context done (L) — the decision must read
	// the context, never the kind of the error
	gen([]string{"t", "d", "T", "D", "c", "L503", "s503", "s200"}, verifh.N(2, 3), nil)
	// round 7: WHERE an attempt fails after the response header arrived — in the decoder (b: the
	// unmarshal middleware) or already while roundTrip auto-reads the body (r: the body breaks off;
	// the error lives in resp.Err only until roundTrip hands it out as err) x result state of the
	// status (2xx / 4xx-5xx: parseResponseBody meets the error again; 3xx: nothing else does)
	gen([]string{"r300", "r200", "r503", "b500", "s300", "s200", "t"}, verifh.N(2, 3), nil)
	seen := map[string]bool{}
	for _, sq := range seqs {
		key := strings.Join(sq, ",")
		if seen[key] {
			continue
		}
		seen[key] = true
		for pi, p := range pols {
			for ci, cnt := range counts {
				// quick tier: thin the long tail deterministically
				if !verifh.Thorough() && len(sq) > 3 && (len(key)+pi+ci)%3 != 0 {
					continue
				}
				tc := c10Simple()
				tc.script = sq
				tc.clientOps = append([]string{}, p.clientOps...)
				tc.reqOps = append([]string{}, p.reqOps...)
				tc.conds, tc.hooks, tc.after = p.conds, p.hooks, p.after
				if cnt != "" {
					if (pi+ci)%2 == 0 {
						tc.clientOps = append(tc.clientOps, cnt)
					} else {
						tc.reqOps = append(tc.reqOps, cnt)
					}
				}
				tc.useSend = (pi+ci)%2 == 0
				rec := c10Exec(tc, dir)
				recs = append(recs, rec)
				s.Count("policy:" + p.name)
				s.Count("count:" + cnt)
			}
		}
	}
	s.Count("exhaustive-cases")
	// error KIND x context STATE with REAL error values: every coherent (cause, context state)
	// pair, alone and followed by a second one, x counts x policies; the model is given the script
	// symbols its own table (`c10kind` = Att.outcome) assigns, the scripted transport returns the
	// real errors — a decision that reads "looks like a deadline" off the error instead of asking
	// the context shows here
	{
		type att struct{ cause, ctx string }
		var atts []att
		b2 := func(b bool) string { return map[bool]string{true: "1", false: "0"}[b] }
		for _, ca := range c10Causes {
			for _, cs := range c10CtxStates {
				code := 503
				e := c10RealErr(ca)
				if ca != "none" && e == nil {
					t.Fatalf("no real error value for cause %s (%s)", ca, c10RealErrsCollected)
				}
				impl := c10AttSym(ca, cs, code) + " dl=" + b2(errors.Is(e, context.DeadlineExceeded)) + " cn=" + b2(errors.Is(e, context.Canceled)) + " coh=" + b2(c10Coherent(ca, cs))
				s.Case("c10kind "+ca+" "+cs+" "+strconv.Itoa(code), impl, true, "", true, "attempt cause="+ca+" context="+cs+" -> "+impl)
				s.Count("kind:" + ca)
				if c10Coherent(ca, cs) {
					atts = append(atts, att{ca, cs})
				}
			}
		}
		var seqs2 [][]att
		for _, a := range atts {
			seqs2 = append(seqs2, []att{a})
			for _, b := range atts {
				seqs2 = append(seqs2, []att{a, b})
			}
		}
		for qi, sq := range seqs2 {
			for pi, p := range pols {
				for ci, cnt := range counts {
					if !verifh.Thorough() && len(sq) > 1 && (qi+pi+ci)%3 != 0 {
						continue
					}
					tc := c10Simple()
					for _, a := range sq {
						tc.script = append(tc.script, c10AttSym(a.cause, a.ctx, 503))
						tc.real = append(tc.real, a.cause+"/"+a.ctx)
					}
					tc.script = append(tc.script, "c")
					tc.clientOps = append([]string{}, p.clientOps...)
					tc.reqOps = append([]string{}, p.reqOps...)
					tc.conds, tc.hooks, tc.after = p.conds, p.hooks, p.after
					if cnt != "" {
						tc.reqOps = append(tc.reqOps, cnt)
					}
					tc.useSend = (pi+ci)%2 == 1
					recs = append(recs, c10Exec(tc, dir))
					s.Count("kinds-real")
				}
			}
		}
	}
	// Set vs Add, systematically: every client-level op list x request-level op list of length
	// <= 2 over {Set, Add} x two stubs, once for conditions and once for hooks
	var opLists [][]string
	for _, kind := range []string{"c", "h"} {
		base := []string{"s" + kind + "0", "a" + kind + "0", "s" + kind + "1", "a" + kind + "1"}
		opLists = [][]string{nil}
		for _, a := range base {
			opLists = append(opLists, []string{a})
			for _, b := range base {
				opLists = append(opLists, []string{a, b})
			}
		}
		for _, co := range opLists {
			for _, ro := range opLists {
				tc := c10Simple()
				tc.conds = []string{"G500", "E"}
				tc.hooks = []string{"N", "N"}
				tc.clientOps = append([]string{"n=3", "i=f1"}, co...)
				tc.reqOps = append([]string{}, ro...)
				if kind == "h" {
					tc.script = []string{"t", "t", "s200", "c"}
				} else {
					tc.script = []string{"s503", "t", "s404", "s200", "c"}
				}
				recs = append(recs, c10Exec(tc, dir))
				s.Count("setadd:" + kind)
			}
		}
	}
	// Siblings: the client-level condition/hook lists get 0..9 entries (len 3,5,6,7,9 leave spare
	// capacity in the slice), the request under test adds its own, THEN a sibling — another
	// request of the same client, or a clone of the client — adds/sets its own, then the request
	// under test is sent: it must run with exactly its own policy.
	for k := 0; k <= 9; k++ {
		for _, sk := range []int{1, 2} {
			for v := 0; v < 4; v++ {
				tc := c10Simple()
				// stubs 0..k-1 client level (never ask / noop), k = the request's own, k+1 = the sibling's
				tc.clientOps = []string{"n=3", "i=f1"}
				for i := 0; i < k; i++ {
					tc.conds = append(tc.conds, "F")
					tc.hooks = append(tc.hooks, "N")
					tc.clientOps = append(tc.clientOps, "ac"+strconv.Itoa(i), "ah"+strconv.Itoa(i))
				}
				own, sib := []string{"G500", "F", "G500", "Q200"}[v], []string{"F", "T", "Q404", "G500"}[v]
				tc.conds = append(tc.conds, own, sib)
				tc.hooks = append(tc.hooks, "N", "H"+verifh.Hex("X-Sibling")+":"+verifh.Hex("1"))
				tc.reqOps = []string{"ac" + strconv.Itoa(k), "ah" + strconv.Itoa(k)}
				tc.sibKind = sk
				tc.sibOps = []string{"ac" + strconv.Itoa(k+1), "ah" + strconv.Itoa(k+1)}
				if v == 3 {
					tc.sibOps = []string{"sc" + strconv.Itoa(k+1), "sh" + strconv.Itoa(k+1), "n=0"}
				}
				tc.script = []string{"s503", "s503", "s200", "c"}
				recs = append(recs, c10Exec(tc, dir))
				s.Count("sibling-systematic")
			}
		}
	}
	// interval sources at both levels: function, fixed, backoff, default
	ivs := []string{"", "i=f1", "i=x5", "i=b100:100000", "i=b100000000:2000000000"}
	for _, ci := range ivs {
		for _, ri := range ivs {
			tc := c10Simple()
			tc.clientOps = []string{"n=2"}
			if ci != "" {
				tc.clientOps = append(tc.clientOps, ci)
			}
			if ri != "" {
				tc.reqOps = []string{ri}
			}
			tc.script = []string{"t", "t", "t", "c"}
			recs = append(recs, c10Exec(tc, dir))
			s.Count("interval-source")
		}
	}
	// DYNAMIC (round 4): the retry option is edited while the call is in flight — SetRetryCount
	// from a hook / a condition / a request-level response middleware, to a value below, at or
	// above the attempt counter, on every call or at one attempt number —, on a request whose
	// count starts unset / negative / positive.  The script keeps asking for retries.
	fail8 := []string{"s503", "t", "s503", "t", "s503", "t", "s503", "t", "s200", "c"}
	for _, n0 := range []string{"", "n=-1", "n=1", "n=2", "n=5"} {
		for _, who := range []string{"hook", "cond", "after"} {
			for _, k := range []int{-1, 0, 1, 2, 3, 7} {
				for _, at := range []int{-1, 0, 1, 2, 3} {
					tc := c10Simple()
					tc.script = fail8
					tc.conds, tc.hooks = []string{"T"}, []string{"N"}
					tc.clientOps = []string{"i=f1"}
					if n0 != "" {
						tc.clientOps = append(tc.clientOps, n0)
					}
					tc.reqOps = []string{"ac0", "ah0"}
					e := "c" + strconv.Itoa(k)
					if at >= 0 {
						e += "@" + strconv.Itoa(at)
					}
					switch who {
					case "hook":
						tc.hooks[0] = "C" + e[1:]
					case "cond":
						tc.conds[0] = "T~" + e
					default:
						tc.after = []string{"F~" + e}
					}
					tc.useSend = (k+at)%2 == 0
					recs = append(recs, c10Exec(tc, dir))
					s.Count("dyn:count-by-" + who)
				}
			}
		}
	}
	// … a response middleware that switches retries ON for a request that has no retry option
	for _, e := range []string{"c2", "c-1@0", "c1@0", "ix3", "c3@1"} {
		tc := c10Simple()
		tc.script = []string{"t", "t", "d", "t", "t", "s200", "c"}
		tc.after = []string{"F~" + e}
		recs = append(recs, c10Exec(tc, dir))
		s.Count("dyn:enabled-in-flight")
	}
	// … a callback cancels the request's context: response middleware, condition, hook, the
	// interval function itself; bounded and unbounded counts
	for _, n0 := range []string{"n=-1", "n=5"} {
		for _, who := range []string{"hook", "cond", "after", "ivl", "wait"} {
			for _, at := range []int{-1, 0, 1, 2, 3} {
				if ((who == "ivl" || who == "wait") && at < 1) || (who == "hook" && at == 0) {
					continue
				}
				tc := c10Simple()
				tc.script = fail8
				tc.conds, tc.hooks = []string{"T"}, []string{"N", "N"}
				tc.clientOps = []string{"i=x0", n0, "ah1"}
				tc.reqOps = []string{"ac0", "ah0"}
				e := "x"
				if at >= 0 {
					e += "@" + strconv.Itoa(at)
				}
				switch who {
				case "hook":
					tc.hooks[0] = "X" + e[1:]
				case "cond":
					tc.conds[0] = "T~" + e
				case "after":
					tc.after = []string{"F~" + e}
				default:
					tc.ivx, tc.ivxWait = at, who == "wait"
				}
				recs = append(recs, c10Exec(tc, dir))
				s.Count("dyn:cancel-by-" + who)
			}
		}
	}
	// … a hook installs another interval function: the same retry's wait already uses it
	for _, iv := range []string{"x5", "f3", "b100:100000", "x0"} {
		for _, at := range []string{"", "@1", "@2"} {
			tc := c10Simple()
			tc.script = fail8
			tc.hooks = []string{"I" + iv + at, "N"}
			tc.clientOps = []string{"n=3", "i=f1", "ah1"}
			tc.reqOps = []string{"ah0"}
			recs = append(recs, c10Exec(tc, dir))
			s.Count("dyn:interval-by-hook")
		}
	}
	// RE-SEND: the same Request object is sent again (RetryAttempt is not reset by Do), after
	// setter calls that give it a count below / at / above the retries already used
	long := []string{"s503", "t", "s503", "s200", "s503", "s503", "t", "s200", "t", "s503", "s503", "s503", "s200", "s503", "c", "c", "c", "c"}
	for _, n1 := range []string{"", "n=0", "n=1", "n=2", "n=3", "n=-1"} {
		for _, again := range [][][]string{{{}}, {{"n=0"}}, {{"n=1"}}, {{"n=2"}}, {{"n=5"}}, {{"n=-1"}}, {{"n=1"}, {"n=4"}}, {{"i=x3"}}, {{"n=1", "i=f2"}}, {{}, {}}} {
			tc := c10Simple()
			tc.script = long
			tc.conds, tc.hooks = []string{"G500", "E"}, []string{"N"}
			tc.clientOps = []string{"i=f1", "ac0"}
			tc.reqOps = []string{"ac1", "ah0"}
			if n1 != "" {
				tc.reqOps = append(tc.reqOps, n1)
			}
			tc.resend = again
			tc.useSend = len(again) == 2
			recs = append(recs, c10Exec(tc, dir))
			s.Count("dyn:resend")
		}
	}
	// OBSERVERS (round 6): every setting of {DebugLog, DevMode, trace, dump} x every interval source
	// (pure function, Retry-After style, a function with STATE, fixed, backoff, default) at either
	// level x the ways a retry comes about and ends (default rule, conditions + hooks incl. one that
	// edits the request, a wait the context interrupts, an interval function that cancels, a re-sent
	// Request, an interval function installed in flight).  Watching must not add or remove a single
	// call of a condition, a hook or the interval function: the event log is compared call for call
	// with the model, whose answer does not depend on the switches (observers_do_not_call_policy),
	// and the stateful function's answers expose any extra call to the oracle too.
	for osw := 0; osw < 16; osw++ {
		for _, iv := range []string{"", "i=f1", "i=f100", "i=f200", "i=x3", "i=b100:100000"} {
			for lvl := 0; lvl < 2; lvl++ {
				for sc := 0; sc < 6; sc++ {
					if !verifh.Thorough() && (osw+sc+lvl)%2 != 0 && osw != 1 && osw != 2 {
						continue
					}
					tc := c10Simple()
					tc.debug, tc.dev, tc.trace, tc.dump, tc.obsSet = osw&1 != 0, osw&2 != 0, osw&4 != 0, osw&8 != 0, true
					ops := []string{"n=" + []string{"2", "-1", "5", "-1", "2", "3"}[sc]}
					if iv != "" {
						ops = append(ops, iv)
					}
					switch sc {
					case 0: // default rule, two retries
						tc.script = []string{"t", "t", "s200", "c"}
					case 1: // conditions + hooks, one of them edits the request; three retries
						tc.script = []string{"s503", "s503", "t", "s200", "c"}
						tc.conds, tc.hooks = []string{"G500", "E"}, []string{"N", "H" + verifh.Hex("X-H") + ":" + verifh.Hex("1")}
						ops = append(ops, "ac0", "ac1", "ah0", "ah1")
					case 2: // the context is done when the second wait begins
						tc.script = []string{"t", "T", "s200", "c"}
						tc.hooks = []string{"N"}
						ops = append(ops, "ah0")
					case 3: // the interval function cancels the context when asked about retry 2
						tc.script = []string{"t", "t", "t", "t", "c"}
						tc.ivx = 2
					case 4: // the same Request sent again with a higher count
						tc.script = []string{"t", "t", "t", "t", "s200", "c", "c"}
						tc.resend = [][]string{{"n=4"}}
					case 5: // a hook installs a function with state at retry 1
						tc.script = []string{"s503", "s503", "s503", "s200", "c"}
						tc.conds, tc.hooks = []string{"G500"}, []string{"If201@1"}
						ops = append(ops, "ac0", "ah0")
					}
					if lvl == 0 {
						tc.clientOps = ops
					} else {
						tc.reqOps = ops
					}
					tc.useSend = (osw+sc)%2 == 0
					recs = append(recs, c10Exec(tc, dir))
					s.Count("observers:" + tc.obsTok())
					s.Count("observers-block")
				}
			}
		}
	}
	// random policies
	n := verifh.N(2500, 120000)
	for i := 0; i < n; i++ {
		tc := c10Simple()
		c10RandPolicy(r, tc)
		tc.script = c10RandScript(r, 7)
		c10RandDynamic(r, tc)
		tc.useSend = r.Intn(2) == 0
		if r.Intn(4) == 0 {
			tc.method = verifh.Pick(r, []string{"POST", "PUT", "DELETE", "HEAD"})
		}
		if r.Intn(5) == 0 {
			tc.body = "b" + verifh.RandBytes(r, 1+r.Intn(8), "abcdefgh")
		}
		rec := c10Exec(tc, dir)
		recs = append(recs, rec)
	}
	reached := map[string]int{}
	for _, rc := range recs {
		toks := strings.Split(rc.impl, " ")
		fin := toks[len(toks)-2] // the last token is the K token
		switch {
		case fin == "panic":
			s.Count("final:panic")
		case fin == "refused":
			s.Count("final:refused")
		case strings.HasSuffix(fin, ":-"):
			s.Count("final:ok")
		default:
			s.Count("final:error")
		}
		nW := 0
		for _, tk := range toks {
			switch tk[0] {
			case 'W':
				nW++
			case 'C':
				s.Count("event:cond")
			case 'H':
				s.Count("event:hook")
			case 'I':
				s.Count("event:interval")
			case 'A':
				s.Count("event:after")
			}
		}
		s.Count("attempts:" + strconv.Itoa(nW))
		if nW >= 5 {
			reached["attempts>=5"]++
		}
		for _, tk := range toks {
			reached["event:"+tk[:1]]++
		}
		if fin == "panic" || strings.HasSuffix(fin, ":-") {
			reached["final:ok-or-panic"]++
		}
	}
	// the lane must not pass vacuously
	for _, need := range []string{"attempts>=5", "event:B", "event:W", "event:C", "event:H", "event:I", "event:A", "final:ok-or-panic"} {
		if reached[need] == 0 {
			t.Errorf("generator never reached bucket %s", need)
		}
	}
	c10Finish(s, recs)
}

func c10RandScript(r interface{ Intn(int) int }, maxLen int) []string {
	n := 1 + r.Intn(maxLen-1)
	var sq []string
	for i := 0; i < n; i++ {
		switch r.Intn(10) {
		case 0, 1, 2:
			sq = append(sq, "t")
		case 3, 4:
			sq = append(sq, "s503")
		case 5:
			sq = append(sq, "s200")
		default:
			sq = append(sq, c10Alphabet[r.Intn(len(c10Alphabet))])
		}
	}
	return append(sq, "c")
}

// c10RandPolicy draws client- and request-level Set/Add op lists over shared stub tables.
func c10RandPolicy(r interface{ Intn(int) int }, tc *c10Case) {
	preds := []string{"E", "T", "F", "G500", "G400", "Q503", "Q429", "Q200", "L1", "L2", "L3"}
	acts := []string{"N", "N", "N", "H" + verifh.Hex("X-Retry") + ":" + verifh.Hex("yes"), "K" + verifh.Hex("hk") + ":" + verifh.Hex("1"), "Q" + verifh.Hex("rq") + ":" + verifh.Hex("2")}
	nC, nH := r.Intn(4), r.Intn(4)
	if r.Intn(4) == 0 { // longer client-level lists: slice capacities with spare room
		nC, nH = 3+r.Intn(6), 3+r.Intn(6)
	}
	for i := 0; i < nC; i++ {
		tc.conds = append(tc.conds, preds[r.Intn(len(preds))])
	}
	for i := 0; i < nH; i++ {
		tc.hooks = append(tc.hooks, acts[r.Intn(len(acts))])
	}
	mk := func(level int) []string {
		var ops []string
		k := r.Intn(5)
		for i := 0; i < k; i++ {
			switch r.Intn(9) {
			case 0, 1:
				ops = append(ops, "n="+[]string{"-1", "0", "1", "2", "5", "3"}[r.Intn(6)])
			case 2:
				switch r.Intn(4) {
				case 0:
					id := 1 + level*10 + r.Intn(6)
					if id%10 > 3 { // a function with state (a schedule consumed per call)
						id += 200
					}
					ops = append(ops, "i=f"+strconv.Itoa(id))
				case 1:
					ops = append(ops, "i=x"+strconv.Itoa(r.Intn(50)))
				case 2:
					mn := 1 + r.Intn(1000)
					ops = append(ops, fmt.Sprintf("i=b%d:%d", mn, mn+1+r.Intn(100000)))
				default:
					ops = append(ops, fmt.Sprintf("i=b%d:%d", 100000000, 2000000000))
				}
			case 3:
				if nC > 0 {
					ops = append(ops, "sc"+strconv.Itoa(r.Intn(nC)))
				}
			case 4, 5:
				if nC > 0 {
					ops = append(ops, "ac"+strconv.Itoa(r.Intn(nC)))
				}
			case 6:
				if nH > 0 {
					ops = append(ops, "sh"+strconv.Itoa(r.Intn(nH)))
				}
			default:
				if nH > 0 {
					ops = append(ops, "ah"+strconv.Itoa(r.Intn(nH)))
				}
			}
		}
		return ops
	}
	tc.clientOps = mk(0)
	if nC > 4 || nH > 4 {
		for i := 0; i < nC-1; i++ {
			tc.clientOps = append(tc.clientOps, "ac"+strconv.Itoa(i))
		}
		for i := 0; i < nH-1; i++ {
			tc.clientOps = append(tc.clientOps, "ah"+strconv.Itoa(i))
		}
	}
	tc.reqOps = mk(1)
	if r.Intn(3) == 0 {
		tc.sibKind = 1 + r.Intn(2)
		tc.sibOps = mk(1)
		if nC > 0 {
			tc.sibOps = append(tc.sibOps, "ac"+strconv.Itoa(r.Intn(nC)))
		}
		if nH > 0 {
			tc.sibOps = append(tc.sibOps, "ah"+strconv.Itoa(r.Intn(nH)))
		}
	}
	// make sure retries are usually enabled and an interval is usually installed (the default
	// interval is observed too, but not slept: the harness wraps the installed function)
	if r.Intn(8) != 0 {
		tc.reqOps = append(tc.reqOps, "n="+[]string{"-1", "1", "2", "5", "2", "3"}[r.Intn(6)])
	}
	if r.Intn(3) == 0 {
		for i := 0; i < 1+r.Intn(2); i++ {
			tc.after = append(tc.after, []string{"F", "F", "F", "Q503", "E", "L1", "Q200"}[r.Intn(7)])
		}
	}
}

// c10RandDynamic makes some random cases dynamic: a stub edits the retry option or cancels the
// context in flight, the interval function cancels, the Request is sent again.
func c10RandDynamic(r interface{ Intn(int) int }, tc *c10Case) {
	c10RandEdits(r, tc, 4)
	c10RandResend(r, tc)
}

func c10RandEdits(r interface{ Intn(int) int }, tc *c10Case, oneIn int) {
	if r.Intn(oneIn) == 0 {
		edits := []string{"c0", "c1", "c2", "c3", "c-1", "c1@2", "c0@1", "c2@3", "c5@1", "x@2", "x@1", "x", "ix4", "if7@1", "ib50:9000@2"}
		e := edits[r.Intn(len(edits))]
		switch r.Intn(4) {
		case 0:
			if len(tc.hooks) > 0 {
				tc.hooks[r.Intn(len(tc.hooks))] = strings.ToUpper(e[:1]) + e[1:]
			}
		case 1:
			if len(tc.conds) > 0 {
				tc.conds[r.Intn(len(tc.conds))] += "~" + e
			}
		case 2:
			if len(tc.after) == 0 {
				tc.after = []string{"F"}
			}
			tc.after[r.Intn(len(tc.after))] += "~" + e
		default:
			tc.ivx = 1 + r.Intn(3)
		}
	}
}

func c10RandResend(r interface{ Intn(int) int }, tc *c10Case) {
	if r.Intn(8) == 0 {
		for i := 0; i <= r.Intn(2); i++ {
			var ops []string
			if r.Intn(3) != 0 {
				ops = append(ops, "n="+[]string{"-1", "0", "1", "2", "3", "5"}[r.Intn(6)])
			}
			if r.Intn(4) == 0 {
				ops = append(ops, "i="+[]string{"x2", "f5", "b10:1000"}[r.Intn(3)])
			}
			tc.resend = append(tc.resend, ops)
			tc.script = append(tc.script, c10RandScript(r, 4)...) // every send ends at a "c" at the latest
		}
	}
}

// ---------------------------------------------------------------------------- wire lane

const c10Alnum = "abcdefghijklmnopqrstuvwxyz0123456789"

func c10Word(r interface{ Intn(int) int }, special bool) string {
	n := 1 + r.Intn(6)
	b := make([]byte, 0, n+2)
	for i := 0; i < n; i++ {
		b = append(b, c10Alnum[r.Intn(len(c10Alnum))])
	}
	s := string(b)
	if special && r.Intn(3) == 0 {
		s += []string{" x", "&y", "=z", "%41", "+p", "é", "a/b?c"}[r.Intn(7)]
	}
	return s
}

// c10Text asserts the law the model's `detect` parameter is instantiated with: on the
// generator's alphabet http.DetectContentType answers text/plain, and application/octet-stream
// as soon as the sniffed buffer contains a NUL (the zero padding of a short upload).
func c10Text(s string) string {
	if ct := http.DetectContentType([]byte(s)); ct != "text/plain; charset=utf-8" {
		panic("c10: generator produced non-text content: " + ct)
	}
	if len(s) < 512 {
		if ct := http.DetectContentType(append([]byte(s), make([]byte, 512-len(s))...)); ct != "application/octet-stream" {
			panic("c10: padded sniff buffer detected as " + ct)
		}
	}
	return s
}

func c10HasKV(l []c10KV, k string) bool {
	for _, e := range l {
		if e.k == k {
			return true
		}
	}
	return false
}

// c10SetKV: a later Set call for the same key replaces the earlier one.
func c10SetKV(l []c10KV, k, v string) []c10KV {
	for i, e := range l {
		if e.k == k {
			l[i].vs = []string{v}
			return l
		}
	}
	return append(l, c10KV{k, []string{v}})
}

// c10RandShape draws client- and request-level cookies / headers / query / form data and a body.
func c10RandShape(r interface{ Intn(int) int }, tc *c10Case, origin string, scripted bool) (mode string) {
	tc.method = []string{"POST", "POST", "POST", "POST", "PUT", "PATCH", "DELETE", "GET", "GET", "HEAD", "OPTIONS", "POST"}[r.Intn(12)]
	tc.allowGet = r.Intn(7) != 0
	// URL: absolute / relative to Client.BaseURL / without scheme (Client.SetScheme), with
	// {placeholders} filled at request level, client level, both (the request wins) or not at
	// all, and a query string of its own in front of the parameters
	path := "/" + c10Word(r, false)
	if r.Intn(3) == 0 {
		names := []string{"id", "name", "zz"}
		used := map[string]bool{}
		for i := 0; i <= r.Intn(2); i++ {
			n := names[r.Intn(3)]
			path += []string{"/", "/v-", "/x/"}[r.Intn(3)] + "{" + n + "}"
			if used[n] { // the same placeholder twice: filled alike
				continue
			}
			used[n] = true
			switch r.Intn(5) {
			case 0:
				tc.pathParams = append(tc.pathParams, [2]string{n, c10Word(r, true)})
			case 1:
				tc.cPathParams = append(tc.cPathParams, [2]string{n, c10Word(r, true)})
			case 2:
				tc.pathParams = append(tc.pathParams, [2]string{n, c10Word(r, true)})
				tc.cPathParams = append(tc.cPathParams, [2]string{n, "client-" + c10Word(r, false)})
			case 3:
				tc.pathParams = append(tc.pathParams, [2]string{n, c10Word(r, false)})
			}
		}
		if r.Intn(2) == 0 {
			path += "/" + c10Word(r, false)
		}
	}
	if r.Intn(4) == 0 {
		path += "?" + []string{"uq", "rq", "cq"}[r.Intn(3)] + "=" + url.QueryEscape(c10Word(r, true))
		if r.Intn(2) == 0 {
			path += "&uq2=" + url.QueryEscape(c10Word(r, false))
		}
	}
	switch k := r.Intn(10); {
	case k == 0 || k == 1:
		tc.urlKind = "r"
		tc.baseURL = origin + []string{"", "/base", "/b/v1"}[r.Intn(3)]
		tc.url = path
		if r.Intn(3) == 0 {
			tc.url = path[1:] // no leading slash: one is inserted
		}
	case k == 2 && scripted:
		tc.urlKind, tc.scheme = "s", "http"
		tc.url = strings.TrimPrefix(origin, "http://") + path
	default:
		tc.url = origin + path
	}
	if r.Intn(5) >= 2 {
		for i := 0; i < 1+r.Intn(2); i++ {
			tc.cCookies = append(tc.cCookies, [2]string{"c" + strconv.Itoa(i), c10Word(r, false)})
		}
	}
	for i := 0; i < r.Intn(3); i++ {
		tc.cookies = append(tc.cookies, [2]string{"r" + strconv.Itoa(i), c10Word(r, false)})
	}
	shared := r.Intn(3) == 0
	if r.Intn(2) == 0 {
		tc.cHeaders = append(tc.cHeaders, c10KV{"X-C1", []string{c10Word(r, false)}})
	}
	if shared {
		tc.cHeaders = append(tc.cHeaders, c10KV{"X-Shared", []string{"client"}})
		tc.headers = append(tc.headers, c10KV{"X-Shared", []string{"request"}})
	}
	if r.Intn(8) == 0 {
		tc.cHeaders = append(tc.cHeaders, c10KV{"Content-Type", []string{"text/x-client"}})
	}
	if r.Intn(2) == 0 {
		tc.headers = append(tc.headers, c10KV{"X-R1", []string{c10Word(r, false) + " v"}})
	}
	if r.Intn(7) == 0 {
		tc.headers = append(tc.headers, c10KV{"Content-Type", []string{[]string{"application/octet-stream", "text/x-req"}[r.Intn(2)]}})
	}
	if scripted && r.Intn(8) == 0 {
		// SetHeaderOrder: the order keys travel in r.Headers under a magic key, up to the transport
		tc.headers = append(tc.headers, c10KV{HeaderOderKey, [][]string{{"x-r1", "cookie", "x-c1"}, {"content-type"}, {"x-shared", "x-c1", "accept"}}[r.Intn(3)]})
	}
	if r.Intn(2) == 0 {
		tc.cQuery = append(tc.cQuery, c10KV{"cq", []string{c10Word(r, true)}})
		if r.Intn(2) == 0 {
			tc.cQuery = append(tc.cQuery, c10KV{"sq", []string{"client1", "client2"}})
			if r.Intn(2) == 0 {
				tc.query = append(tc.query, c10KV{"sq", []string{c10Word(r, true)}})
			}
		}
	}
	if r.Intn(2) == 0 {
		vs := []string{c10Word(r, true)}
		if r.Intn(3) == 0 {
			vs = append(vs, c10Word(r, false))
		}
		tc.query = append(tc.query, c10KV{"rq", vs})
	}
	form := func(prefix string) []c10KV {
		var l []c10KV
		for i := 0; i < 1+r.Intn(2); i++ {
			vs := []string{c10Word(r, true)}
			if r.Intn(3) == 0 {
				vs = append(vs, c10Word(r, true))
			}
			l = append(l, c10KV{prefix + strconv.Itoa(i), vs})
		}
		return l
	}
	tc.body = "n"
	m := r.Intn(12)
	switch m {
	case 0:
		mode = "none"
	case 1, 2:
		mode = "bytes"
		tc.body = "b" + c10Text(c10Word(r, true))
	case 3:
		mode = "getbody"
		tc.body = "u" + c10Text(c10Word(r, true))
	case 4:
		mode = "marshal"
		tc.body = "m" + c10Word(r, false)
		switch r.Intn(5) {
		case 0: // an XML content type in force: the XML marshaller is used, on every attempt
			mode = "marshal-xml"
			tc.headers = c10SetKV(tc.headers, "Content-Type", "application/xml")
		case 1:
			if !c10HasKV(tc.headers, "Content-Type") {
				mode = "marshal-xml"
			}
			tc.cHeaders = c10SetKV(tc.cHeaders, "Content-Type", "text/xml; charset=utf-8")
		}
	case 5:
		mode = "reader"
		tc.body = "r" + c10Text(c10Word(r, true))
	case 6, 7:
		mode = "form"
		tc.form = form("f")
		if r.Intn(4) == 0 {
			tc.body = "b" + c10Text(c10Word(r, false)) // the form wins
		}
	case 8:
		mode = "ordered"
		for i := 0; i < 1+r.Intn(3); i++ {
			tc.ordered = append(tc.ordered, [2]string{[]string{"z", "a", "m"}[r.Intn(3)], c10Word(r, true)})
		}
	case 9, 10:
		mode = "multipart-files"
		for i := 0; i < 1+r.Intn(3); i++ {
			f := c10File{param: "p" + strconv.Itoa(i), name: "f" + strconv.Itoa(i) + ".txt", content: c10Text(strings.Repeat(c10Word(r, true), 1+r.Intn(3)))}
			// content SOURCES: a fresh reader per call (b, p reopens), the same seekable reader
			// (s through SetFileReader, k through a caller-written GetFileContent), the same reader
			// that cannot be rewound (r, o: refused when retries are on; q: caller-written)
			switch k := r.Intn(30); {
			case k < 6:
				f.kind = "b"
				if r.Intn(3) == 0 {
					f.ctype = "application/x-custom"
				}
			case k < 12:
				f.kind = "p"
			case k < 17:
				f.kind = "s"
			case k < 20:
				f.kind = "r"
			case k < 23:
				f.kind = "o"
			case k < 28:
				f.kind = "k"
				if r.Intn(4) == 0 {
					f.ctype = "application/x-custom"
				}
			default:
				f.kind = "q"
			}
			if r.Intn(12) == 0 {
				f.content = c10Text(strings.Repeat("0123456789abcdef", 40)) // longer than the 512-byte sniff
			}
			tc.files = append(tc.files, f)
		}
		tc.multipart = true
		switch r.Intn(3) {
		case 0:
			tc.form = form("f")
		case 1:
			tc.ordered = append(tc.ordered, [2]string{"o", c10Word(r, true)})
		}
	default:
		mode = "multipart-fields"
		tc.multipart = true
		tc.form = form("f")
	}
	// buffered or streamed (a pipe written by a goroutine, chunked on the wire): same content
	tc.chunked = tc.multipart && r.Intn(3) == 0
	// client-level form data (merged once; since /repo c422765 also into multipart requests)
	if r.Intn(3) == 0 {
		tc.cForm = form([]string{"cf", "f"}[r.Intn(2)])
	}
	tc.trace = r.Intn(3) == 0
	tc.dump = r.Intn(3) == 0
	tc.useSend = r.Intn(2) == 0
	return mode
}

// TestVerif_C10_wire: what successive attempts put on the wire, over request shapes.
func TestVerif_C10_wire(t *testing.T) {
	s := verifh.New(t, "C10", "wire",
		"random request shapes: client- and request-level cookies, headers (shared keys, Content-Type at either level), query (request key overriding a client key, multi-valued), form data (map and ordered, client-level merge, values with characters that need escaping), bodies (none, bytes/string, GetBody func, marshalled map, io.Reader), multipart (fields only; files from bytes / path / seekable reader / non-rewindable reader, explicit and sniffed part content types, > 512-byte files), methods incl. payload-forbidden ones, trace and dump on; x retry count {-1,0,1,2,5} at either level x scripts of 1-4 failing outcomes then success; some hooks edit the request; FILE CONTENT SOURCES (fresh reader per call, reopened path, SetFileReader seeker / non-rewindable / closer, caller-written GetFileContent handing out the same seekable / non-seekable reader) x buffered or streamed (pipe, chunked) multipart x retries, systematically and at random; BODY KIND CHANGED IN FLIGHT: an io.Reader body or a non-rewindable file reader installed by an OnBeforeRequest middleware at attempt 0/1/2 or by a retry hook, over 5 request shapes x counts incl. -1, payload-forbidden methods included; every attempt's decoded wire request is compared with the model and with attempt 0; non-trivial = at least one retry")
	r := s.Rand()
	dir := t.TempDir()
	var recs []c10Rec
	hist := map[string]int{}
	count := func(k string) { s.Count(k); hist[k]++ }
	add := func(tc *c10Case, mode string) {
		d, _ := os.MkdirTemp(dir, "c")
		rec := c10Exec(tc, d)
		os.RemoveAll(d)
		recs = append(recs, rec)
		count("mode:" + mode)
		toks := strings.Split(rec.impl, " ")
		nW := 0
		for _, tk := range toks {
			if tk[0] == 'W' {
				nW++
			}
		}
		if nW > 3 {
			nW = 3
		}
		count(fmt.Sprintf("attempts:%d%s", nW, map[bool]string{true: "+", false: ""}[nW == 3]))
		if toks[len(toks)-2] == "refused" {
			count("refused")
		}
		if nW >= 2 {
			count("retried:" + mode)
		}
	}
	// the decide'd counter-examples of Req/Props/C10.lean, replayed on the code
	for _, w := range c10Witnesses() {
		add(w, "witness")
	}
	// retries switched ON while the call is in flight (a response middleware calls SetRetryCount
	// on resp.Request) for a request whose body cannot be replayed: Do could not refuse it up
	// front — there was nothing to retry then
	// (also under a payload-forbidden method: the body is never sent, the request stays flagged)
	for bi, body := range []string{"rdata-from-a-reader", "file:r", "file:o", "bbytes", "rdata-from-a-reader", "rdata-from-a-reader", "file:r"} {
		for _, n0 := range []string{"", "n=0"} {
			for _, e := range []string{"c2", "c-1", "c1@0"} {
				tc := &c10Case{allowGet: bi != 5, method: []string{"POST", "POST", "POST", "POST", "OPTIONS", "GET", "HEAD"}[bi], url: "http://c10.test/up", body: "n", after: []string{"F~" + e},
					script: []string{"t", "t", "s200", "c"}}
				if n0 != "" {
					tc.reqOps = []string{n0, "i=x0"}
				}
				if strings.HasPrefix(body, "file:") {
					tc.multipart = true
					tc.files = []c10File{{param: "p0", name: "f0.txt", kind: body[5:], content: c10Text("upload-content")}}
				} else {
					tc.body = body
				}
				add(tc, "enabled-in-flight")
			}
		}
	}
	// file content SOURCES x retries x buffered / streamed multipart, systematically: every source
	// kind alone and next to a second upload, sniffed and explicit part type, short and > 512 bytes
	for _, kind := range []string{"b", "p", "s", "k", "q", "r", "o"} {
		for _, chunked := range []bool{false, true} {
			for _, cnt := range []string{"n=2", "n=-1", "n=0", ""} {
				for v := 0; v < 3; v++ {
					tc := &c10Case{allowGet: true, method: "POST", url: "http://c10.test/up", body: "n", multipart: true, chunked: chunked,
						script: []string{"t", "s503", "t", "s200", "c"}, conds: []string{"E", "G500"}}
					if cnt != "" {
						tc.reqOps = []string{cnt, "i=x0", "ac0", "ac1"}
					}
					f := c10File{param: "p0", name: "f0.txt", kind: kind, content: c10Text("content-of-the-upload")}
					switch v {
					case 1:
						f.content = c10Text(strings.Repeat("0123456789abcdef", 200)) // 3200 bytes: past the 512-byte sniff
						if kind == "b" || kind == "k" || kind == "q" {
							f.ctype = "application/x-custom"
						}
					case 2:
						tc.files = append(tc.files, c10File{param: "first", name: "a.txt", kind: "b", content: c10Text("first-upload")})
						tc.form = []c10KV{{"f0", []string{"v"}}}
					}
					tc.files = append(tc.files, f)
					add(tc, "sources:"+kind)
					count(fmt.Sprintf("sources:chunked=%v", chunked))
				}
			}
		}
	}
	// the body KIND changes while the call is in flight: an io.Reader body / a non-rewindable file
	// reader installed by an OnBeforeRequest middleware at attempt j, or by a retry hook — Do's
	// up-front check has passed, the loop's own check must stop the retries after the attempt that
	// read it (without bound otherwise for a negative count)
	for _, shape := range []string{"n", "bbytes-body", "ufrom-getbody", "form", "fields"} {
		for _, inst := range []string{"hR", "hF", "pR@0", "pR@1", "pR@2", "pF@0", "pF@1"} {
			for _, cnt := range []string{"n=-1", "n=2", "n=5", "n=1"} {
				if inst == "pR@0" && shape[0] == 'b' {
					continue // r.Body still holds the bytes set before: the sniffed Content-Type is theirs (not modelled)
				}
				tc := &c10Case{allowGet: true, method: []string{"POST", "PUT", "PATCH"}[len(recs)%3], url: "http://c10.test/kind", body: "n",
					script: []string{"t", "s503", "t", "t", "s200", "c"}, conds: []string{"E", "G500"}, reqOps: []string{cnt, "i=x0", "ac0", "ac1"}}
				switch shape {
				case "form":
					tc.form = []c10KV{{"f0", []string{"v"}}}
				case "fields":
					tc.multipart = true
					tc.form = []c10KV{{"f0", []string{"v"}}}
				default:
					tc.body = shape
				}
				text := c10Text("installed-in-flight")
				if inst[0] == 'h' {
					tc.hooks = []string{inst[1:2] + verifh.Hex(text)}
					tc.reqOps = append(tc.reqOps, "ah0")
				} else {
					tc.pre = inst[1:2] + text + inst[2:]
				}
				add(tc, "kind-changed")
				count("kind-changed:" + inst)
			}
		}
	}
	n := verifh.N(3000, 150000)
	for i := 0; i < n; i++ {
		tc := &c10Case{}
		mode := c10RandShape(r, tc, "http://c10.test", true)
		cnt := "n=" + []string{"-1", "0", "1", "2", "5", "2", "2", "5"}[r.Intn(8)]
		iv := []string{"i=f1", "i=x0", "i=x3", "i=f2", "i=f100", "i=f101", "i=f200", "i=f201"}[r.Intn(8)]
		if r.Intn(2) == 0 {
			tc.clientOps = []string{cnt, iv}
		} else {
			tc.reqOps = []string{iv, cnt}
		}
		fails := r.Intn(4)
		if r.Intn(3) == 0 {
			// condition-driven retries on status codes
			tc.conds = []string{"G500"}
			tc.reqOps = append(tc.reqOps, "ac0")
			for j := 0; j < fails; j++ {
				tc.script = append(tc.script, []string{"s503", "s500", "b502", "r503"}[r.Intn(4)])
			}
		} else {
			for j := 0; j < fails; j++ {
				tc.script = append(tc.script, []string{"t", "t", "d", "b500", "z", "r300", "r200"}[r.Intn(7)])
			}
		}
		tc.script = append(tc.script, []string{"s200", "s200", "s404", "t", "T", "s200"}[r.Intn(6)], "c")
		if r.Intn(5) == 0 {
			// the origin sets / replaces / expires cookies: the jar's cookies go out with the NEXT attempt
			for j, o := range tc.script {
				if (o[0] == 's' || o[0] == 'b' || o[0] == 'r') && r.Intn(3) != 0 {
					tc.script[j] = o + "^" + []string{"sid:a" + strconv.Itoa(j), "sid:b" + strconv.Itoa(j) + "+t:1", "t:", "t:2+u:x", "sid:"}[r.Intn(5)]
					count("jar:set-cookie")
				}
			}
		}
		if r.Intn(8) == 0 && tc.body[0] != 'r' && len(tc.files) == 0 {
			// the same Request once more (state carried over: headers, cookies, form data).  Not
			// with file uploads: rewinding / reopening them is keyed on RetryAttempt > 0, so a re-send
			// after a call without retries uploads drained or closed files — no retry is involved,
			// outside C10 (see notes, observations)
			tc.resend = [][]string{{}}
			if r.Intn(2) == 0 {
				tc.resend = [][]string{{"n=" + []string{"0", "1", "3"}[r.Intn(3)]}}
			}
			tc.script = append(tc.script, []string{"t", "s503"}[r.Intn(2)], "s200", "c", "c")
			count("resend")
		}
		if tc.urlKind != "" {
			count("url:" + tc.urlKind)
		}
		if strings.Contains(tc.url, "{") {
			count("url:placeholder")
		}
		if strings.Contains(tc.url, "?") {
			count("url:raw-query")
		}
		if tc.multipart && len(tc.cForm) > 0 {
			count("multipart+clientform")
		}
		for _, h := range tc.headers {
			if h.k == HeaderOderKey {
				count("header-order")
			}
		}
		if r.Intn(6) == 0 {
			acts := []string{"N", "H" + verifh.Hex("X-Retry") + ":" + verifh.Hex("yes"), "K" + verifh.Hex("hk") + ":" + verifh.Hex("1"), "Q" + verifh.Hex("rq") + ":" + verifh.Hex("h")}
			if tc.body[0] == 'b' && len(tc.form) == 0 && len(tc.cForm) == 0 {
				acts = append(acts, "B"+verifh.Hex("hooked"))
			}
			tc.hooks = []string{acts[r.Intn(len(acts))]}
			tc.reqOps = append(tc.reqOps, "ah0")
		}
		if r.Intn(10) == 0 {
			tc.after = []string{"F"}
		}
		// the body kind changed in flight, on random shapes (not where a marshalled / reader body
		// decides what is sent: see the notes), payload-forbidden methods included
		if len(tc.hooks) == 0 && len(tc.resend) == 0 &&
			(tc.body[0] == 'n' || tc.body[0] == 'b' || tc.body[0] == 'u') && r.Intn(8) == 0 {
			text := c10Text(c10Word(r, true))
			kind := []string{"R", "F"}[r.Intn(2)]
			if r.Intn(2) == 0 {
				tc.hooks = []string{kind + verifh.Hex(text)}
				tc.reqOps = append(tc.reqOps, "ah0")
			} else {
				j := r.Intn(3)
				if j == 0 && kind == "R" && tc.body[0] == 'b' {
					j = 1
				}
				tc.pre = kind + text + "@" + strconv.Itoa(j)
			}
			count("kind-changed:random")
		}
		if tc.chunked {
			count("multipart:streamed")
		}
		for _, f := range tc.files {
			count("file-kind:" + f.kind)
		}
		// the retry option edited / the context cancelled in flight, on real request shapes
		c10RandEdits(r, tc, 8)
		if tc.dynamic() {
			count("dynamic")
		}
		add(tc, mode)
	}
	for _, need := range []string{"retried:bytes", "retried:form", "retried:ordered", "retried:multipart-files", "retried:multipart-fields", "retried:getbody", "retried:marshal", "retried:marshal-xml", "retried:none", "refused", "mode:reader",
		"url:r", "url:s", "url:placeholder", "url:raw-query", "multipart+clientform", "header-order", "jar:set-cookie", "resend",
		"retried:sources:k", "retried:sources:q", "retried:sources:s", "retried:sources:p", "retried:sources:b", "sources:chunked=true", "retried:kind-changed", "kind-changed:random", "multipart:streamed", "file-kind:k", "file-kind:q"} {
		if hist[need] == 0 {
			t.Errorf("generator never reached bucket %s", need)
		}
	}
	c10Finish(s, recs)
}

// c10Witnesses: fixed cases — the counter-examples proved for the code as found
// (Req/Props/C10.lean, `asFound_*`) and the non-vacuity examples.
func c10Witnesses() []*c10Case {
	return []*c10Case{
		// cookie duplication (DESIGN §5 row 2)
		{allowGet: true, method: "GET", url: "http://c10.test/w", body: "n", reqOps: []string{"n=2", "i=x0"},
			cCookies: [][2]string{{"a", "1"}}, script: []string{"t", "t", "s200", "c"}},
		// form duplication (row 3)
		{allowGet: true, method: "POST", url: "http://c10.test/w", body: "n", reqOps: []string{"n=1", "i=x0"},
			cForm: []c10KV{{"k", []string{"v"}}}, script: []string{"t", "s200", "c"}},
		// response middleware erases the error (row 4)
		{allowGet: true, method: "GET", url: "http://c10.test/w", body: "n", reqOps: []string{"n=2", "i=x0"},
			after: []string{"F"}, script: []string{"t", "t", "s200", "c"}},
		// (nil, err) wrapper with a retry due (row 6)
		{allowGet: true, method: "GET", url: "http://c10.test/w", body: "n", reqOps: []string{"n=1", "i=x0"},
			script: []string{"z", "s200", "c"}},
		// unreplayable body refused up front / sent once without retries
		{allowGet: true, method: "POST", url: "http://c10.test/w", body: "rdata", reqOps: []string{"n=1", "i=x0"}, script: []string{"t", "s200", "c"}},
		{allowGet: true, method: "POST", url: "http://c10.test/w", body: "rdata", script: []string{"t", "c"}},
		// unbounded for a negative count
		{allowGet: true, method: "GET", url: "http://c10.test/w", body: "n", clientOps: []string{"n=-1", "i=x0"},
			script: []string{"t", "t", "t", "t", "t", "t", "t", "t", "t", "t", "t", "t", "s200", "c"}},
	}
}

// ---------------------------------------------------------------------------- backoff lane

// TestVerif_C10_backoff: the real backoffInterval (in-package) on (min, max, attempt) triples
// around every boundary; the observed interval is checked against the model's bounds.
func TestVerif_C10_backoff(t *testing.T) {
	s := verifh.New(t, "C10", "backoff",
		"grid of (min,max,attempt): min in {0,1,2,3,7,100,1e6,1e8,1e9,2^40,2^52,2^53-1,-1,-5} and random, max in {0..5, min-1, min, min+1, 2min-1, 2min, 2min+1, 1e9, 2e9, 2^53-1, -1} and random, attempt in {0,1,2,3,5,10,30,31,52,53,62,63,64,100,1023,1024,5000} and random; each triple drawn 3 times (different jitter); the real function's result or panic is judged by the model (membership in [half, 2*half)) and by the stated bounds; non-trivial = no panic and half > 1")
	r := s.Rand()
	mins := []int64{0, 1, 2, 3, 7, 100, 1e6, 1e8, 1e9, 1 << 40, 1 << 52, 1<<53 - 1, -1, -5}
	atts := []int{0, 1, 2, 3, 5, 10, 30, 31, 52, 53, 62, 63, 64, 100, 1023, 1024, 5000}
	type rec struct {
		mn, mx  int64
		att     int
		obs     string
		impl    string
		ok      bool
		nontriv bool
	}
	var recs []rec
	run := func(mn, mx int64, att int) {
		var d time.Duration
		_, panicked := verifh.Safely(func() { d = backoffInterval(time.Duration(mn), time.Duration(mx))(nil, att) })
		rc := rec{mn: mn, mx: mx, att: att, ok: true}
		if panicked {
			rc.obs, rc.impl = "p", "panic"
			s.Count("panic")
		} else {
			rc.obs, rc.impl = strconv.FormatInt(int64(d), 10), "ok"
			s.Count("ok")
		}
		// the property's own reading of "within its configured bounds"
		if mn > 0 && mx >= 2 && mn <= mx && att >= 1 {
			s.Count("in-domain")
			if panicked || int64(d) > mx || int64(d) < 0 || (2*mn <= mx && int64(d) < mn) {
				rc.ok = false
			}
			rc.nontriv = !panicked && int64(d) > 1
		}
		recs = append(recs, rc)
	}
	for _, mn := range mins {
		maxs := []int64{0, 1, 2, 3, 4, 5, mn - 1, mn, mn + 1, 2*mn - 1, 2 * mn, 2*mn + 1, 1e9, 2e9, 1<<53 - 1, -1}
		for _, mx := range maxs {
			if mx >= 1<<53 || mn >= 1<<53 {
				continue
			}
			for _, a := range atts {
				for k := 0; k < 3; k++ {
					run(mn, mx, a)
				}
			}
		}
	}
	n := verifh.N(4000, 300000)
	for i := 0; i < n; i++ {
		mn := int64(r.Intn(1 << uint(1+r.Intn(40))))
		var mx int64
		switch r.Intn(4) {
		case 0:
			mx = mn + int64(r.Intn(5)) - 2
		case 1:
			mx = 2*mn + int64(r.Intn(5)) - 2
		default:
			mx = mn + int64(r.Intn(1<<uint(1+r.Intn(42))))
		}
		run(mn, mx, r.Intn(70))
	}
	nIn, nBoundary := 0, 0
	for _, rc := range recs {
		if rc.nontriv {
			nIn++
		}
		if rc.mn == 0 || rc.mx < 2 {
			nBoundary++
		}
	}
	if nIn == 0 || nBoundary == 0 {
		t.Errorf("generator never reached the in-domain (%d) / excluded-boundary (%d) triples", nIn, nBoundary)
	}
	// classification: repaired model (guard) first, then the code as found
	line := func(g string, rc rec) string {
		return fmt.Sprintf("c10backoff %s %d %d %d %s", g, rc.mn, rc.mx, rc.att, rc.obs)
	}
	lines := make([]string, len(recs))
	for i, rc := range recs {
		lines[i] = line("1", rc)
	}
	class := make([]string, len(recs))
	ans, err := verifh.RunModel(lines)
	if err == nil {
		var idx []int
		var pl []string
		for i, rc := range recs {
			if ans[i] != rc.impl {
				idx = append(idx, i)
				pl = append(pl, line("0", rc))
			}
		}
		if len(pl) > 0 {
			if pa, err := verifh.RunModel(pl); err == nil {
				for j, i := range idx {
					if pa[j] == recs[i].impl {
						class[i] = "c10-backoff-panic"
						s.Count("as-found:c10-backoff-panic")
					}
				}
			}
		}
	}
	for pass := 0; pass < 2; pass++ {
		for i, rc := range recs {
			unexplained := class[i] == "" && (!rc.ok || (ans != nil && ans[i] != rc.impl))
			if unexplained == (pass == 0) {
				s.Case(lines[i], rc.impl, rc.ok, class[i], rc.nontriv, fmt.Sprintf("backoffInterval(%d,%d)(nil,%d) -> %s", rc.mn, rc.mx, rc.att, rc.obs))
			}
		}
	}
	s.Finish()
}

// ---------------------------------------------------------------------------- context done + zero interval

type c10CountRT struct {
	ctx       context.Context
	block     bool // wait for the context's deadline inside the round trip
	status    int  // 0: fail with the context's error; else answer with that status
	cancel    func()
	started   int
	afterDone int // round trips begun with a context that was already done
}

func (c *c10CountRT) RoundTrip(r *http.Request) (*http.Response, error) {
	c.started++
	if c.ctx.Err() != nil {
		c.afterDone++
	}
	if c.started > 200 {
		panic("c10: runaway retry loop")
	}
	if c.block {
		<-c.ctx.Done()
	}
	if c.status != 0 {
		if c.cancel != nil {
			c.cancel() // the caller cancels once the response is there
		}
		return &http.Response{StatusCode: c.status, Status: strconv.Itoa(c.status) + " X", Proto: "HTTP/1.1", ProtoMajor: 1, ProtoMinor: 1,
			Header: http.Header{}, Body: io.NopCloser(strings.NewReader("ok")), Request: r}, nil
	}
	if err := c.ctx.Err(); err != nil {
		return nil, err
	}
	return nil, errors.New("c10: transport error")
}

// TestVerif_C10_ctxdone: "a further attempt is made exactly when the context is not cancelled"
// for contexts that are done WITHOUT the round-trip error being context.Canceled — a passed
// deadline, or a cancel after the response — combined with retry intervals of zero and below,
// where there is nothing to wait for.  The installed interval function is NOT wrapped here.
// A zero timer and ctx.Done() may both be ready in the wait's select, which then picks at
// random: a few stray attempts are tolerated, going on with a dead context is not.
func TestVerif_C10_ctxdone(t *testing.T) {
	s := verifh.New(t, "C10", "ctxdone",
		"context done by deadline (already expired / expiring during the first attempt) or cancelled after a response, x interval source {fixed 0, fixed -1ns, function returning 0, backoff(0,1s), backoff(1ns,1ns), fixed 1ns, fixed 2ms, default} at client or request level x MaxRetries {-1,3,40} x {default rule, condition always}; oracle: at most 4 round trips begin after the context is done, the loop ends, the error is the context's; non-trivial = the deadline/cancel arrived and a retry was due")
	type iv struct {
		name string
		set  func(c *Client, r *Request)
	}
	zero := func(resp *Response, attempt int) time.Duration { return 0 }
	ivs := []iv{
		{"fixed0-req", func(c *Client, r *Request) { r.SetRetryFixedInterval(0) }},
		{"fixed0-client", func(c *Client, r *Request) { c.SetCommonRetryFixedInterval(0) }},
		{"fixed-neg", func(c *Client, r *Request) { r.SetRetryFixedInterval(-1) }},
		{"fn0-req", func(c *Client, r *Request) { r.SetRetryInterval(zero) }},
		{"fn0-client", func(c *Client, r *Request) { c.SetCommonRetryInterval(zero) }},
		{"backoff0", func(c *Client, r *Request) { r.SetRetryBackoffInterval(0, time.Second) }},
		{"backoff1ns", func(c *Client, r *Request) { c.SetCommonRetryBackoffInterval(1, 1) }},
		{"fixed1ns", func(c *Client, r *Request) { r.SetRetryFixedInterval(1) }},
		{"fixed2ms", func(c *Client, r *Request) { r.SetRetryFixedInterval(2 * time.Millisecond) }},
		{"default", func(c *Client, r *Request) {}},
	}
	reps := verifh.N(2, 40)
	for rep := 0; rep < reps; rep++ {
		for _, v := range ivs {
			for _, n := range []int{-1, 3, 40} {
				for mode := 0; mode < 3; mode++ { // 0 expired before the call, 1 expires during attempt 1, 2 cancel after a 503
					for _, always := range []bool{false, true} {
						if mode == 2 && !always {
							continue // a 503 is only retried under a condition
						}
						id := fmt.Sprintf("%s n=%d mode=%d always=%v", v.name, n, mode, always)
						var ctx context.Context
						var cancel context.CancelFunc
						rt := &c10CountRT{}
						switch mode {
						case 0:
							ctx, cancel = context.WithDeadline(context.Background(), time.Now().Add(-time.Second))
						case 1:
							ctx, cancel = context.WithTimeout(context.Background(), 3*time.Millisecond)
							rt.block = true
						default:
							ctx, cancel = context.WithCancel(context.Background())
							rt.status, rt.cancel = 503, cancel
						}
						rt.ctx = ctx
						c := C()
						c.httpClient.Transport = rt
						hooks := 0
						var resp *Response
						_, panicked := verifh.Safely(func() {
							r := c.R().SetContext(ctx)
							if rep%2 == 0 {
								r.SetRetryCount(n)
							} else {
								c.SetCommonRetryCount(n)
								r = c.R().SetContext(ctx)
							}
							v.set(c, r)
							if rep%2 == 1 { // client-level settings reach requests created afterwards
								r = c.R().SetContext(ctx)
								if v.name != "fixed0-client" && v.name != "fn0-client" && v.name != "backoff1ns" {
									v.set(c, r)
								}
							}
							r.AddRetryHook(func(*Response, error) { hooks++ })
							if always {
								r.AddRetryCondition(func(*Response, error) bool { return true })
							}
							resp = r.Do()
							_ = resp
						})
						cancel()
						ok, why := true, ""
						switch {
						case panicked:
							ok, why = false, fmt.Sprintf("retry loop did not end: %d round trips, %d of them begun with a done context", rt.started, rt.afterDone)
						case rt.afterDone > 4+map[int]int{0: 1}[mode]:
							ok, why = false, fmt.Sprintf("%d round trips begun after the context was done (%d in all, %d hook calls, RetryAttempt=%d, MaxRetries=%d)", rt.afterDone, rt.started, hooks, resp.Request.RetryAttempt, n)
						case resp == nil || resp.Err == nil || !(errors.Is(resp.Err, context.DeadlineExceeded) || errors.Is(resp.Err, context.Canceled)):
							ok, why = false, fmt.Sprintf("returned error is not the context's: %v", resp.Err)
						case mode == 2 && (resp.Response == nil || resp.StatusCode != 503 || string(resp.body) != "ok" || resp.String() != "ok"):
							// the wait was interrupted: the 503 just received goes back to the caller, complete
							ok, why = false, fmt.Sprintf("the response returned after the interrupted wait is not the complete last attempt's: status %v body %q", resp.Response != nil, string(resp.body))
						}
						if mode == 2 && ok {
							s.Count("returned-complete-after-interrupted-wait")
						}
						s.Count("mode:" + strconv.Itoa(mode))
						s.Count("interval:" + v.name)
						if rt.afterDone > map[int]int{0: 1}[mode] {
							s.Count("stray-attempts")
						}
						s.Observe(id+fmt.Sprintf(" rep=%d", rep), ok, "", hooks >= 1, id+fmt.Sprintf(" -> %d round trips, %d after done, %d hook calls", rt.started, rt.afterDone, hooks), why)
					}
				}
			}
		}
	}
	s.Finish()
}
