//go:build verif

package req

// Lanes bytes and prec of C20: basic and bearer credentials as an origin receives them.
//
//   bytes  the byte-position matrix: every byte value at every position of user, password and
//          token, through the request-level and the client-level setters, HTTP/1.1 and HTTP/2;
//          the model (Req.Auth.wireBasic / wireBearer: field transport + server-side decoding)
//          predicts refused / unreadable / the recovered strings.
//   prec   which credential a request carries when several are configured (request level,
//          client level, URL user information; Basic and Bearer mixed): model Req.Auth.effective.

import (
	"fmt"
	"net/http"
	"net/url"
	"strings"
	"testing"
	"time"

	"github.com/imroc/req/v3/internal/verifh"
)

// c20Recovered: what the origin makes of the single request it saw ("refused" = it saw none
// and the caller got an error).
func c20Recovered(seen []c20Seen, err error, basic bool) string {
	switch {
	case len(seen) == 0 && err != nil:
		return "refused"
	case len(seen) != 1:
		return fmt.Sprintf("anomaly requests=%d err=%v", len(seen), err)
	case seen[0].injected:
		return "anomaly injected-header"
	case !seen[0].hasAuth:
		return "none"
	}
	v := seen[0].auth
	if basic {
		hr := &http.Request{Header: http.Header{"Authorization": {v}}}
		if u, p, ok := hr.BasicAuth(); ok {
			return "some:" + verifh.Hex(u) + ":" + verifh.Hex(p)
		}
		return "none"
	}
	if len(v) >= 7 && strings.EqualFold(v[:7], "bearer ") {
		return "some:" + verifh.Hex(v[7:])
	}
	return "none"
}

func TestVerif_C20_bytes(t *testing.T) {
	s := verifh.New(t, "C20", "bytes",
		"byte-position matrix: every byte value 0..255 x position {alone, first, middle, last} x field {user, password, token}, plus multi-byte injections (CRLF + header line, CRLFCRLF + request line, NUL runs, leading/trailing SP/HTAB runs), through SetBasicAuth / SetCommonBasicAuth / SetBearerAuthToken / SetCommonBearerAuthToken to an HTTP/1.1 origin (all) and an HTTP/2 origin (quick: controls, SP, HTAB, DEL, quote, colon, backslash, 0x80, 0xff and every 7th value; thorough: all); answer = refused (the call fails, the origin sees nothing) | none (the origin cannot read the credential) | the recovered strings; oracle: never an injected header line; non-trivial = every case")
	type cs struct {
		basic      bool
		user, pass string // pass = token for bearer
		tag        string
	}
	place := func(b byte, pos int) string {
		switch pos {
		case 0:
			return string([]byte{b})
		case 1:
			return string([]byte{b, 'x', 'y'})
		case 2:
			return string([]byte{'x', b, 'y'})
		}
		return string([]byte{'x', 'y', b})
	}
	posName := []string{"alone", "first", "middle", "last"}
	var all []cs
	for b := 0; b < 256; b++ {
		for pos := 0; pos < 4; pos++ {
			v := place(byte(b), pos)
			all = append(all, cs{true, v, "pwd", "user:" + posName[pos]}, cs{true, "usr", v, "pass:" + posName[pos]}, cs{false, "", v, "token:" + posName[pos]})
		}
	}
	for _, v := range []string{"a\r\nX-Injected: 1", "a\r\n\r\nGET /x HTTP/1.1\r\nX-Injected: 1\r\n\r\n", "a\nX-Injected: 1", "a\rX-Injected: 1", "\x00\x00", "tok \t ", " \t tok", " ", "\t", "", "a\r\n b"} {
		all = append(all, cs{true, v, "pwd", "user:multi"}, cs{true, "usr", v, "pass:multi"}, cs{false, "", v, "token:multi"})
	}
	// scheme-like credentials, each at the request level and at the client level (the level is
	// the parity of the index)
	if len(all)%2 == 1 {
		all = append(all, cs{false, "", "tok", "token:multi"})
	}
	for _, v := range c20SchemeLike {
		all = append(all, cs{false, "", v, "token:scheme-like"}, cs{false, "", v, "token:scheme-like"}, cs{true, "usr", v, "pass:scheme-like"}, cs{true, v, "pwd", "user:scheme-like"})
	}
	interesting := func(c cs) bool {
		if verifh.Thorough() || strings.HasSuffix(c.tag, ":multi") || strings.HasSuffix(c.tag, ":scheme-like") {
			return true
		}
		v := c.pass
		if strings.HasPrefix(c.tag, "user:") {
			v = c.user
		}
		for i := 0; i < len(v); i++ {
			b := v[i]
			if b < 33 || b == 127 || b == '"' || b == ':' || b == '\\' || b == 0x80 || b == 0xff || (b%7 == 0 && b != 'x' && b != 'y') {
				return true
			}
		}
		return false
	}
	for _, h2 := range []bool{false, true} {
		o := c20NewOrigin(h2)
		c := C().SetTimeout(20 * time.Second)
		proto := "h1"
		if h2 {
			c.EnableInsecureSkipVerify().EnableForceHTTP2()
			proto = "h2"
		} else {
			c.EnableForceHTTP1()
		}
		for i, k := range all {
			if h2 && !interesting(k) {
				continue
			}
			caseID := o.begin(c20Script{firstStatus: 200, firstBody: "ok"})
			client := i%2 == 1
			cc := c
			if client {
				cc = c.Clone()
			}
			rq := cc.R().SetHeader("X-Verif-Case", caseID)
			switch {
			case k.basic && client:
				cc.SetCommonBasicAuth(k.user, k.pass)
			case k.basic:
				rq.SetBasicAuth(k.user, k.pass)
			case client:
				cc.SetCommonBearerAuthToken(k.pass)
			default:
				rq.SetBearerAuthToken(k.pass)
			}
			var resp *Response
			id := fmt.Sprintf("%s basic=%v client=%v user=%q secret=%q", proto, k.basic, client, k.user, k.pass)
			if p, pan := verifh.Safely(func() { resp, _ = rq.Get(o.srv.URL + "/wire") }); pan {
				s.Crash(id, id, p, "")
				continue
			}
			if client {
				cc.GetTransport().CloseIdleConnections()
			}
			seen := o.requests()
			impl := c20Recovered(seen, resp.Err, k.basic)
			s.Count(proto + ":" + k.tag)
			s.Count(proto + ":" + strings.SplitN(impl, ":", 2)[0])
			ok := !strings.HasPrefix(impl, "anomaly")
			line := "c20wirebearer " + proto + " " + verifh.Hex(k.pass)
			if k.basic {
				line = "c20wirebasic " + proto + " " + verifh.Hex(k.user) + " " + verifh.Hex(k.pass)
			}
			s.Case(line, impl, ok, "", true, id+" -> "+impl)
		}
		c.GetTransport().CloseIdleConnections()
		o.srv.Close()
	}
	s.Finish()
}

func TestVerif_C20_prec(t *testing.T) {
	s := verifh.New(t, "C20", "prec",
		"which Authorization value goes out when several credentials are configured: any subset of {request-level Basic, request-level Bearer (either order: the later setter replaces), client-level Basic, client-level Bearer (either order), user information in the URL (user only / user:password, with ':' '@' '/' '%' and non-ASCII percent-encoded by net/url)} over HTTP/1.1 and HTTP/2; answer = the value the origin received; model = Req.Auth.effective + field transport; oracle: exactly one Authorization value arrives; non-trivial = at least two sources configured")
	r := s.Rand()
	for _, h2 := range []bool{false, true} {
		o := c20NewOrigin(h2)
		base := C().SetTimeout(20 * time.Second)
		proto := "h1"
		if h2 {
			base.EnableInsecureSkipVerify().EnableForceHTTP2()
			proto = "h2"
		} else {
			base.EnableForceHTTP1()
		}
		n := verifh.N(400, 8000)
		for i := 0; i < n; i++ {
			caseID := o.begin(c20Script{firstStatus: 200, firstBody: "ok"})
			cc := base.Clone()
			rq := cc.R().SetHeader("X-Verif-Case", caseID)
			text := func() string {
				v, _ := c20Text(r, true)
				for !c20HeaderSafe(v) || len(v) > 300 {
					v, _ = c20Text(r, true)
				}
				return v
			}
			opt := func(p *string) string {
				if p == nil {
					return "."
				}
				return verifh.Hex(*p)
			}
			var reqLevel, clientLevel, urlUser *string
			urlPass := ""
			sources := 0
			// client level
			if r.Intn(2) == 0 {
				sources++
				steps := []int{r.Intn(2)}
				if r.Intn(3) == 0 {
					steps = append(steps, r.Intn(2))
				}
				for _, st := range steps {
					if st == 0 {
						u, p := text(), text()
						cc.SetCommonBasicAuth(u, p)
						v := "Basic " + basicAuth(u, p)
						clientLevel = &v
					} else {
						tk := text()
						cc.SetCommonBearerAuthToken(tk)
						v := "Bearer " + tk
						clientLevel = &v
					}
				}
				s.Count("client-level")
			}
			// request level
			if r.Intn(2) == 0 {
				sources++
				steps := []int{r.Intn(2)}
				if r.Intn(3) == 0 {
					steps = append(steps, r.Intn(2))
				}
				for _, st := range steps {
					if st == 0 {
						u, p := text(), text()
						rq.SetBasicAuth(u, p)
						v := "Basic " + basicAuth(u, p)
						reqLevel = &v
					} else {
						tk := text()
						rq.SetBearerAuthToken(tk)
						v := "Bearer " + tk
						reqLevel = &v
					}
				}
				s.Count("request-level")
			}
			target := o.srv.URL + "/prec"
			if r.Intn(2) == 0 {
				sources++
				u := verifh.Pick(r, []string{"alice", "a:b", "a@b", "a/b", "ü", "a b", "100%", ""})
				pu, _ := url.Parse(target)
				if r.Intn(3) == 0 {
					pu.User = url.User(u)
				} else {
					urlPass = verifh.Pick(r, []string{"secret", "p:w", "p@ss", "p/w?x#y", "pä", "", "%41"})
					pu.User = url.UserPassword(u, urlPass)
				}
				urlUser = &u
				target = pu.String()
				s.Count("url-userinfo")
			}
			var resp *Response
			id := fmt.Sprintf("%s request=%q client=%q url=%q", proto, c20Opt(reqLevel), c20Opt(clientLevel), target)
			if p, pan := verifh.Safely(func() { resp, _ = rq.Get(target) }); pan {
				s.Crash(id, id, p, "")
				continue
			}
			cc.GetTransport().CloseIdleConnections()
			seen := o.requests()
			var impl string
			switch {
			case len(seen) == 0 && resp.Err != nil:
				impl = "refused"
			case len(seen) != 1:
				impl = fmt.Sprintf("anomaly requests=%d err=%v", len(seen), resp.Err)
			case !seen[0].hasAuth:
				impl = "none"
			default:
				impl = "some:" + verifh.Hex(seen[0].auth) // several values would be joined with NUL: never equal to the model's
			}
			s.Count(fmt.Sprintf("%s:sources=%d", proto, sources))
			s.Count(proto + ":" + strings.SplitN(impl, ":", 2)[0])
			line := fmt.Sprintf("c20effective %s %s %s %s %s", proto, opt(reqLevel), opt(clientLevel), opt(urlUser), verifh.Hex(urlPass))
			s.Case(line, impl, !strings.HasPrefix(impl, "anomaly"), "", sources >= 2, id+" -> "+impl)
		}
		base.GetTransport().CloseIdleConnections()
		o.srv.Close()
	}
	s.Finish()
}
