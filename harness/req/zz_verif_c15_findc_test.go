//go:build verif

package req

import (
	"fmt"
	"math/rand"
	"strings"
	"testing"

	"github.com/imroc/req/v3/internal/charsets"
	"github.com/imroc/req/v3/internal/verifh"
	htmlcharset "golang.org/x/net/html/charset"
)

var c15SoupFrags = []string{"<script>", "</script>", "</script ", "<sCrIpT", "<!--", "-->", "--!>", "<!-", "--", "-", "!", "<title>", "</title>", "<textarea>", "</TEXTAREA >",
	"<style>", "</style/>", "<plaintext>", "<noscript>", "</noscript>", "<iframe>", "<xmp>", "</xmp/>", "<noembed>", "<noframes>", "<meta", "<META", "<meta/", " charset=", " CHARSET = ", "charset", `"gbk"`, "'big5'",
	"shift_jis", "gbk", ">", "/>", "/", "=", " http-equiv=", "content-type", `"Content-Type"`, " content=", `"text/html; charset=euc-kr"`, "'text/html;charset=koi8-r'", "<", "</", "</>", "<?", "?>",
	"<!DOCTYPE html>", "<!doctype", "<![CDATA[", "]]>", "\r\n", "\r", "\t", "\f", " ", "\x00", "A", "<a href=x>", "</a>", "</a x='", "utf-16le", "utf-8", "x-user-defined", "replacement", "utf-1",
	"<!--<script>", "<script><!--", "<script><!--<script>", "</3>", "<3", `"`, "'", "<meta charset=gbk", "<meta charset=\"big5\">", "<b>", "x", "<script", " src=", "<title", "<!>", "<!->", "<!-->", "<!--->"}

// c15GenMarkup: a document as a sequence of CONSTRUCTS whose inner pieces are drawn from pools that
// drive the tokenizer into its deep states (script escapes and double escapes, comment dash counting,
// raw-text end-tag matching, quoted attribute values holding markup, bogus comments), each possibly
// holding a decoy declaration, with real declarations in between.
func c15GenMarkup(r *rand.Rand) string {
	label := func() string {
		return verifh.Pick(r, []string{"gbk", "big5", "shift_jis", "euc-kr", "koi8-r", "windows-1251", "utf-16le", "utf-8", "x-bogus", "GBK", " gbk ", "utf-1", "iso-8859-1", "latin1", "gb2312", ""})
	}
	meta := func() string {
		l := label()
		return verifh.Pick(r, []string{
			"<meta charset=" + l + ">", `<meta charset="` + l + `">`, "<meta charset='" + l + "'/>", "<META CHARSET=" + l + " >", "<meta charset = " + l + " x>", "<meta x=1 charset=" + l + ">",
			"<meta charset=x-bogus charset=" + l + ">", `<meta http-equiv=content-type content="text/html; charset=` + l + `">`, `<meta content="a; charset=` + l + `" http-equiv="Content-Type">`,
			`<meta content="charset=` + l + `">`, `<meta content='charset="` + l + `"' http-equiv=content-type>`, `<meta http-equiv=refresh content="charset=` + l + `">`,
			`<meta charset=x-bogus content="charset=` + l + `">`, `<meta content="charset=` + l + `" charset=x-bogus>`, `<meta content="charset=` + l + `" charset=big5>`,
			"<meta/charset=" + l + ">", "<meta charset=" + l + "/>", "<meta =charset=" + l + ">", "<meta charset" + " =\r\n" + l + ">", "<metax charset=" + l + ">", "<meta\tcharset=" + l + "\f>",
			"<meta a/charset=" + l + ">", "<meta charset charset=" + l + ">", "<meta charset x charset=" + l + ">", `<meta http-equiv content="charset=` + l + `" http-equiv=content-type>`,
			`<meta charset=` + l + ` content="charset=big5" http-equiv=content-type>`, `<meta content="charset=` + l + `" content="charset=big5" http-equiv=content-type>`,
			"<meta charset=" + l + " charset>", "<meta x/charset=\"" + l + "\"/>", "<meta x =y charset=" + l + ">", "<meta x= y charset=" + l + ">", "<meta x charset=" + l + ">",
			`<meta content="charset charset= ` + l + `;x" http-equiv="CONTENT-TYPE">`, `<meta http-equiv="content-type" http-equiv=x content="charset=` + l + `">`,
		})
	}
	inner := func(pool []string, n int) string {
		var sb strings.Builder
		for k := 0; k < n; k++ {
			if r.Intn(6) == 0 {
				sb.WriteString(meta())
			} else {
				sb.WriteString(verifh.Pick(r, pool))
			}
		}
		return sb.String()
	}
	scriptPool := []string{"<!-- -->", "<!--x-->", "<!---->", "<!----><script>", "<!--<script></script>", "<!--<script>-->", "--><script>", "<!--<", "<!--</script", "<!--<script </script>", "<!--<script>--></script>",
		"<!--<script/--></script>", "<!--<scriptx></script>", "<!--<script>-></script>", "<!--<script>--x></script>", "<!--<script><</script>x</script>", "<!---<script>", "<!--<3", "<!--<-", "x", " ", "<!--", "-->", "--", "-", "->", ">", "<", "</", "<script", "<script>", "<SCRIPT ", "<scriptx", "<s", "<scrip", "</script", "</script>", "</SCRIPT >", "</scriptx", "</scrip", "</script/", "!", "<!", "<!-", "var a='<'", "<a>", "--!>", "<!--<script>", "</script"}
	commentPool := []string{"x", " ", "-", "--", "---", "!", "--!", ">", "->", "<", "<!--", "--!-", "--!x", "-!>"}
	rawPool := []string{"x", " ", "<", "</", "</t", "</titl", "</titlex>", "</title", "<b>", "</b>", "&lt;", "</style", "</textarea", "</xmp", "<!--", "-->", "</TITLE", "</ title>"}
	attrPool := []string{" a=b", " a='>'", ` b=">"`, " c", " =d", " e = f", "/", " g=h/", ` i="<meta charset=gbk>"`, " j='", ` k="`, "\tl=m", "\r\nn", " o=>", " p=\"q\"r", " s=t=u", " charset=big5", " =", " '", ` "`}
	var sb strings.Builder
	for k := 0; k < 1+r.Intn(7); k++ {
		switch r.Intn(14) {
		case 0, 1:
			sb.WriteString(verifh.Pick(r, []string{"<script", "<SCRIPT", "<script type=x", "<script/"}) + verifh.Pick(r, []string{">", " >", "/>"}) + inner(scriptPool, r.Intn(9)) + verifh.Pick(r, []string{"</script>", "</script>", "</script >", "</SCRIPT/>", "</script x='>'>", "</script x='>", `</script x=">`, ""}))
		case 2, 3:
			sb.WriteString("<!--" + inner(commentPool, r.Intn(6)) + verifh.Pick(r, []string{"-->", "--!>", "->", ">", "--", ""}))
		case 4, 5:
			tag := verifh.Pick(r, []string{"title", "textarea", "style", "xmp", "iframe", "noembed", "noframes", "noscript", "TITLE", "Style"})
			sb.WriteString("<" + tag + verifh.Pick(r, []string{">", " a=b>", "/>"}) + inner(rawPool, r.Intn(6)) + verifh.Pick(r, []string{"</" + tag + ">", "</" + tag + ">", "</" + strings.ToUpper(tag) + " >", "</" + tag + "/>", "</" + tag, "</" + tag + "x>", "</" + tag + " x='>", "</" + tag + ` x=">`, "</" + tag + " x=>", ""}))
		case 6:
			sb.WriteString(verifh.Pick(r, []string{"<?", "<!x", "</3", "<!DOCTYPE", "<!doctype html", "<![CDATA[", "<!", "<!-", "</"}) + inner([]string{"x", " ", "-", "--", "]]", "?", "<", "'", `"`}, r.Intn(4)) + verifh.Pick(r, []string{">", "?>", "]]>", ""}))
		case 7, 8:
			sb.WriteString(verifh.Pick(r, []string{"<a", "<div", "</a", "<b", "<m", "<met", "<meta"}) + inner(attrPool, r.Intn(5)) + verifh.Pick(r, []string{">", "/>", " >", ""}))
		case 9:
			sb.WriteString(verifh.Pick(r, []string{"text", "<", "< meta charset=gbk>", "<3", "a<b", "<>", "</>", "<plaintext>", "\x00", "\r\n"}))
		default:
			sb.WriteString(meta())
		}
		if r.Intn(5) < 2 {
			sb.WriteString(verifh.Pick(r, []string{"<meta charset=gbk>", "'><meta charset=big5>", `"><meta charset=euc-kr>`, "--><meta charset=koi8-r>", "</script><meta charset=gbk>", "<!><meta charset=gbk>", "<!>x<meta charset=big5>"}))
		}
	}
	doc := strings.ReplaceAll(sb.String(), "&", "+")
	if r.Intn(3) == 0 && len(doc) > 0 {
		doc = doc[:r.Intn(len(doc)+1)]
	}
	return doc
}

// TestVerif_C15_findc: charsets.FindEncoding against the Lean model with the CONCRETE prescan
// automaton and label table — every cut of a declaration, and adversarial markup.
func TestVerif_C15_findc(t *testing.T) {
	s := verifh.New(t, "C15", "findc",
		"(constructs) documents built from 1..7 constructs — script elements whose content is drawn from a pool of escape / double-escape / end-tag pieces, comments with dash / bang pieces, raw-text elements with near-miss end "+
			"tags, bogus comments, tags with attribute pieces (quoted values holding markup, '=' keys, '/'), stray '<', plaintext — each possibly holding a decoy declaration, real declarations (23 meta spellings: attribute order, "+
			"duplicates, pragma before/after/missing, content+charset conflicts, 16 labels) in between, one third truncated at a random offset; (cuts) generated pages (20 charsets x meta charset / http-equiv in 6+5 spellings / conflicting / decoys / BOM) cut at EVERY offset from two bytes before each declaration's '<' to two bytes after its '>', "+
			"and at offsets 0..4 of a byte-order mark; (soup) 2..24 fragments out of 90 (script / comment / raw-text / plaintext openers and closers in odd spellings, meta pieces, quotes, '<' '</' '<?' '<!' bogus comments, "+
			"DOCTYPE, CDATA, CR LF FF NUL, labels incl. the truncated 'utf-1'); (mutated) valid pages with 1..3 bytes of the head changed / deleted; (bytes) random strings over a markup-heavy alphabet. No '&' (entity "+
			"unescaping is outside the model). Answer: 'none' or the canonical name of the encoding FindEncoding applies. Oracle on (cuts): the verdict on a prefix is none or the verdict on the whole page. "+
			"non-trivial = an encoding is found")
	r := s.Rand()
	cnt := c15NewCounter(s)
	find := func(content string) string {
		e, name := charsets.FindEncoding([]byte(content))
		if e == nil {
			return "none"
		}
		return verifh.Hex(name)
	}
	emit := func(kind, content string, ok bool, why string) {
		impl := "crash"
		ptxt, panicked := verifh.Safely(func() { impl = find(content) })
		if panicked {
			impl = "panic:" + ptxt
		}
		if impl == "none" {
			cnt.count(kind + ":nothing")
		} else {
			cnt.count(kind + ":found")
		}
		human := fmt.Sprintf("%s FindEncoding(%s) = %s", kind, c15Short(content), verifh.UnHex(strings.TrimPrefix(impl, "none")))
		if !ok {
			human += " ORACLE: " + why
		}
		s.Case("c15findc "+verifh.Hex(content), impl, ok, "", impl != "none", human)
	}
	// ---- every cut of a declaration
	for i := 0; i < verifh.N(70, 1200); i++ {
		cs := verifh.Pick(r, c15Charsets)
		site := verifh.Pick(r, []string{"metacharset", "metacharset", "metahttpequiv", "metahttpequiv", "conflict-meta", "decoy"})
		b := c15MakeBody(r, cs, site, 80+r.Intn(300), verifh.Pick(r, []int{0, 0, 30, 90}))
		body := strings.ReplaceAll(b.body, "&", "+")
		whole := find(body)
		cuts := map[int]bool{}
		for _, d := range b.decls {
			for m := d.start - 2; m <= d.end+2; m++ {
				if m >= 0 && m <= len(body) {
					cuts[m] = true
				}
			}
		}
		if b.bom != "" {
			for m := 0; m <= 4 && m <= len(body); m++ {
				cuts[m] = true
			}
		}
		for m := range cuts {
			v := find(body[:m])
			ok := v == "none" || v == whole
			emit("cuts", body[:m], ok, fmt.Sprintf("the first %d bytes select %s, the whole page selects %s: a third outcome", m, verifh.UnHex(v), verifh.UnHex(strings.TrimPrefix(whole, "none"))))
		}
		emit("cuts", body, true, "")
	}
	// ---- adversarial markup
	for i := 0; i < verifh.N(2500, 40000); i++ {
		var sb strings.Builder
		for k := 0; k < 2+r.Intn(23); k++ {
			sb.WriteString(verifh.Pick(r, c15SoupFrags))
		}
		emit("soup", sb.String(), true, "")
	}
	for i := 0; i < verifh.N(5000, 80000); i++ {
		emit("constructs", c15GenMarkup(r), true, "")
	}
	for i := 0; i < verifh.N(600, 10000); i++ {
		cs := verifh.Pick(r, c15Charsets[:20])
		b := c15MakeBody(r, cs, verifh.Pick(r, []string{"metacharset", "metahttpequiv", "conflict-meta", "decoy"}), verifh.Pick(r, []int{60, 100, 300}), 0)
		bb := []byte(b.body)
		for k := 0; k < 1+r.Intn(3) && len(bb) > 0; k++ {
			at := r.Intn(min(len(bb), 120))
			switch r.Intn(3) {
			case 0:
				bb[at] = byte(r.Intn(256))
			case 1:
				bb[at] = verifh.Pick(r, []byte{'<', '>', '"', '\'', '=', ' ', '-', '/', '!', '\r', '\t'})
			default:
				bb = append(bb[:at], bb[at+1:]...)
			}
		}
		emit("mutated", strings.ReplaceAll(string(bb), "&", "+"), true, "")
	}
	for i := 0; i < verifh.N(600, 10000); i++ {
		emit("bytes", verifh.RandBytes(r, r.Intn(80), "<<<>>/!-=\"' \tmetacharsetgbkMETAscriptSCRIPTtitle?hpequivcon;"), true, "")
	}
	cnt.must(t, "cuts:found", "cuts:nothing", "constructs:found", "constructs:nothing", "soup:found", "soup:nothing", "mutated:found", "mutated:nothing", "bytes:nothing")
	s.Finish()
}

// TestVerif_C15_labels: htmlcharset.Lookup against the model's label table.
func TestVerif_C15_labels(t *testing.T) {
	s := verifh.New(t, "C15", "labels",
		"every label of the model's WHATWG table (228) x spellings: as is, upper case, mixed case, surrounded by space / tab / CR LF / VT / FF, with a trailing ';' / NUL / quote, with an inner space, first or last byte dropped, "+
			"a byte doubled; plus 70 names that are NOT WHATWG labels (IANA / MIME / vendor names, near misses) and labels with bytes >= 0x80. Answer: canonical name or none. non-trivial = a name is found")
	r := s.Rand()
	cnt := c15NewCounter(s)
	ans, err := verifh.RunModel([]string{"c15labels"})
	if err != nil || len(ans) != 1 {
		t.Fatalf("driver: %v", err)
	}
	labels := verifh.UnHexList(ans[0])
	if len(labels) < 200 {
		t.Fatalf("model table has only %d labels", len(labels))
	}
	others := []string{"ibm437", "cp437", "cp1252 ", "latin-1", "utf-32", "ucs-2", "iso-8859-11x", "unicode", "ansi_x3.4-1968", "us-ascii", "ascii", "utf-7", "utf7", "cesu-8", "ebcdic-cp-us", "ibm037", "cp037",
		"hz-gb-2312", "iso-2022-kr", "iso-2022-cn", "x-gbk", "gb_2312", "big5-hkscs", "big-5", "sjis", "x-sjis", "ms932", "cp932", "cp936", "cp949", "cp950", "euc_jp", "eucjp", "euc_kr", "koi8", "koi8_r", "koi8-ru",
		"mac", "macroman", "x-mac-roman", "windows1252", "win1252", "windows-1252x", "windows-125", "windows-12520", "iso8859_1", "iso-8859-1 1", "l1", "l2", "l9", "latin9", "", " ", "utf", "utf-", "utf-1", "utf-16", "utf-16le",
		"utf16", "utf-16 le", "utf_8", "utf 8", "u8", "none", "binary", "x-user-defined", "replacement", "csiso2022kr", "iso-10646-ucs-2", "gbk\xff", "gb\xc3\xa9", "\xa0gbk", "big5\x85"}
	spell := func(l string) []string {
		mixed := []byte(l)
		for i := range mixed {
			if r.Intn(2) == 0 && 'a' <= mixed[i] && mixed[i] <= 'z' {
				mixed[i] -= 32
			}
		}
		out := []string{l, strings.ToUpper(l), string(mixed), " " + l + " ", "\t" + l, l + "\r\n", "\v" + l + "\f", l + ";", l + "\x00", `"` + l + `"`}
		if len(l) > 1 {
			k := 1 + r.Intn(len(l)-1)
			out = append(out, l[:k]+" "+l[k:], l[1:], l[:len(l)-1], l[:k]+l[k-1:])
		}
		return out
	}
	for _, l := range append(labels, others...) {
		for _, sp := range spell(l) {
			e, name := htmlcharset.Lookup(sp)
			impl := "none"
			if e != nil {
				impl = verifh.Hex(name)
				cnt.count("found")
			} else {
				cnt.count("not-a-label")
			}
			s.Case("c15label "+verifh.Hex(sp), impl, true, "", e != nil, fmt.Sprintf("htmlcharset.Lookup(%q) = %q", sp, name))
		}
	}
	cnt.must(t, "found", "not-a-label")
	s.Finish()
}
