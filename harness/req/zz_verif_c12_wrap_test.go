//go:build verif

package req

// Lane c12wrap (loopback, in-package): a FAMILY of clients — the original, its clones, clones
// of clones — with MIDDLEWARE installed at any point of their lives: transport level
// (Transport.WrapRoundTrip / WrapRoundTripFunc, and the client features built on it:
// SetCommonHeaderOrder, SetCommonPseudoHeaderOder — ImpersonateChrome/Firefox/Safari are
// SetTLSFingerprint plus exactly these two) and client level (Client.WrapRoundTrip /
// WrapRoundTripFunc), interleaved with Clone() and with every per-client setting the
// property speaks about: forced version (EnableForceHTTP1/2/3, DisableForceHttpVersion),
// EnableHTTP3, TLS trust roots (replaced by SetTLSClientConfig or changed in place through
// GetTLSClientConfig()), proxy (SetProxyURL / SetProxy(nil)). Requests are REAL requests
// (Client.R().Get) — they pass Request.do, the client chain, http.Client, Transport.RoundTrip,
// the transport chain — and each needs a new connection (every member's idle connections are
// closed first). At the end every member makes one more request.
//
// Compared with Req.Pool.Wrap.wstep (driver lane c12wrap; theorems clone_chain_targets_clone,
// request_governed_by_own_settings, request_passes_own_wrappers, middleware_transparent): a
// request issued on a member is dispatched under THAT member's forced version, trust roots
// and proxy — the innermost closure of a chain rebuilt by Clone refers to the copy — and
// passes that member's wrappers, outermost first.

import (
	"context"
	"crypto/tls"
	"fmt"
	"net/http"
	"strings"
	"sync"
	"testing"
	"time"

	"github.com/imroc/req/v3/internal/verifh"
)

type c12WrapKey struct{}

// c12WrapTrace collects the ids of the traceable wrappers one request passes.
type c12WrapTrace struct {
	mu  sync.Mutex
	ids []string
}

func (t *c12WrapTrace) add(id int) {
	t.mu.Lock()
	t.ids = append(t.ids, fmt.Sprint(id))
	t.mu.Unlock()
}

func c12WrapNote(ctx context.Context, id int) {
	if tr, ok := ctx.Value(c12WrapKey{}).(*c12WrapTrace); ok && tr != nil {
		tr.add(id)
	}
}

// c12InstallTransportWrapper installs transport middleware on c; how: 0 WrapRoundTripFunc,
// 1 WrapRoundTrip (the caller's own slice), 2 SetCommonHeaderOrder, 3 SetCommonPseudoHeaderOder.
// Returns the model id (0 = built by the library: not traceable).
func c12InstallTransportWrapper(c *Client, how int, id int) int {
	switch how {
	case 0:
		c.GetTransport().WrapRoundTripFunc(func(rt http.RoundTripper) HttpRoundTripFunc {
			return func(req *http.Request) (*http.Response, error) {
				c12WrapNote(req.Context(), id)
				return rt.RoundTrip(req)
			}
		})
		return id
	case 1:
		ws := []HttpRoundTripWrapper{func(rt http.RoundTripper) http.RoundTripper {
			return HttpRoundTripFunc(func(req *http.Request) (*http.Response, error) {
				c12WrapNote(req.Context(), id)
				return rt.RoundTrip(req)
			})
		}}
		c.GetTransport().WrapRoundTrip(ws...)
		ws[0] = nil // the caller's slice is the caller's
		return id
	case 2:
		c.SetCommonHeaderOrder("x-c12", "user-agent", "accept-encoding")
		return 0
	default:
		c.SetCommonPseudoHeaderOder(":method", ":authority", ":scheme", ":path")
		return 0
	}
}

func c12InstallClientWrapper(c *Client, id int) {
	c.WrapRoundTripFunc(func(rt RoundTripper) RoundTripFunc {
		return func(req *Request) (*Response, error) {
			c12WrapNote(req.Context(), id)
			return rt.RoundTrip(req)
		}
	})
}

func TestVerif_C12_wrap(t *testing.T) {
	s := verifh.New(t, "C12", "c12wrap",
		"families of clients from C() through 6..14 ops: per-client settings {EnableForceHTTP1/2/3, DisableForceHttpVersion, EnableHTTP3, trust root k of 3 (SetTLSClientConfig = new pointer / GetTLSClientConfig().RootCAs = in place), SetProxyURL(in-process CONNECT proxy) / SetProxy(nil)}, transport middleware {WrapRoundTripFunc, WrapRoundTrip(own slice), SetCommonHeaderOrder, SetCommonPseudoHeaderOder}, client middleware {Client.WrapRoundTripFunc}, Clone (up to 4 members), switch, request; two of three sequences start with the directed scheme '[settings] ; middleware ; Clone ; switch to the copy (or stay) ; a setting of EVERY kind that differs from the relative's ; request ; switch ; request'; every request dials (idle connections of all members closed first) an origin {h2+h1+h3, h2+h1} certified by CA 0; finally one request on every member; observable per request: Response.Proto / error kind, CONNECTs seen by the proxy, ids of the wrappers passed in order; oracle: forced version used, Response.Proto = protocol the origin served, accepted iff the member trusts CA 0; non-trivial = a request on a member that has a relative with different settings and middleware installed before the Clone")
	r := s.Rand()
	pki := c12GetPKI()
	hp, err := c12StartHTTPProxy()
	if err != nil {
		t.Fatalf("infrastructure: %v", err)
	}
	defer hp.close()
	offers := []string{"all", "all", "h2h1"}
	origins := map[string]*c12Origin{}
	for _, n := range []string{"all", "h2h1"} {
		o, err := c12StartOrigin(c12OfferTable[n])
		if err != nil {
			t.Fatalf("infrastructure: %v", err)
		}
		defer o.close()
		origins[n] = o
	}
	type mstate struct {
		force   string
		trust   int
		proxy   bool
		wrapped bool // middleware (either layer) present when the member was cloned / on the member now
		preWrap bool // the member is a clone taken from a member that carried middleware
	}
	n := verifh.N(100, 2000)
	id := 0
	for i := 0; i < n; i++ {
		o := origins[offers[r.Intn(len(offers))]]
		members := []*Client{C().SetTLSClientConfig(&tls.Config{RootCAs: pki.cas[0].pool(), NextProtos: []string{"http/1.1", "h2"}})}
		ms := []mstate{{force: "-"}}
		cur := 0
		wid := 0
		settingTok := func(kind int, differFrom *mstate) string {
			switch kind {
			case 0:
				for {
					f := []string{"f1", "f2", "f3", "uf"}[r.Intn(4)]
					if f == "f3" && !o.offer.h3 && r.Intn(3) != 0 {
						continue
					}
					cf := f[1:]
					if f == "uf" {
						cf = "-"
					}
					if differFrom == nil || cf != differFrom.force {
						return f
					}
				}
			case 1:
				for {
					k := r.Intn(3)
					if r.Intn(2) == 0 {
						k = 0
					}
					if differFrom == nil || (k == 0) != (differFrom.trust == 0) {
						return fmt.Sprintf("tr%d", k)
					}
				}
			case 2:
				on := r.Intn(2) == 0
				if differFrom != nil {
					on = !differFrom.proxy
				}
				if on {
					return "px1"
				}
				return "px0"
			default:
				return "e3"
			}
		}
		wrapTok := func() string {
			if r.Intn(4) == 0 {
				return "cw"
			}
			return "tw"
		}
		var plan []string
		if i%3 != 0 {
			c12Count(s, "scheme:middleware-then-clone-then-settings")
			for j := r.Intn(3); j > 0; j-- {
				plan = append(plan, settingTok(r.Intn(4), nil))
			}
			for j := 1 + r.Intn(2); j > 0; j-- {
				plan = append(plan, wrapTok())
			}
			plan = append(plan, "fork")
			onCopy := r.Intn(4) != 0
			if onCopy {
				plan = append(plan, "sw1")
			}
			plan = append(plan, "S0", "S1", "S2") // one setting of every kind, differing from the relative's (resolved when reached)
			if r.Intn(2) == 0 {
				plan = append(plan, wrapTok())
			}
			plan = append(plan, "rq")
			if onCopy {
				plan = append(plan, "sw0")
			} else {
				plan = append(plan, "sw1")
			}
			plan = append(plan, "rq")
		}
		nops := len(plan) + 2 + r.Intn(6)
		var toks, outs []string
		okAll, nontriv := true, false
		human := "C()"
		crashed := ""
		doRequest := func() {
			c := members[cur]
			id++
			for _, m := range members {
				if tr := m.GetTransport(); tr != nil {
					tr.CloseIdleConnections()
					if tr.t3 != nil {
						tr.t3.Close()
					}
				}
			}
			timeout := 3 * time.Second
			if ms[cur].force == "3" && !o.offer.h3 {
				timeout = 300 * time.Millisecond
			}
			trc := &c12WrapTrace{}
			ctx, cancel := context.WithTimeout(context.WithValue(context.Background(), c12WrapKey{}, trc), timeout)
			before := hp.connects.Load()
			var resp *Response
			var rerr error
			ptxt, panicked := verifh.Safely(func() {
				resp, rerr = c.R().SetContext(ctx).SetHeader("x-c12", "1").Get(o.url("https", fmt.Sprintf("/wrap%d", id)))
			})
			cancel()
			if panicked {
				crashed = ptxt
				return
			}
			route := "err:other"
			switch {
			case rerr == nil:
				route = "ok:" + c12ProtoShort(resp.Proto)
			case c12ErrKind(rerr) == "tls":
				route = "err:tls"
			}
			via := "0"
			if hp.connects.Load() > before {
				via = "1"
			}
			trc.mu.Lock()
			trS := "-"
			if len(trc.ids) > 0 {
				trS = strings.Join(trc.ids, ".")
			}
			trc.mu.Unlock()
			outs = append(outs, fmt.Sprintf("route=%s;via=%s;trace=%s", route, via, trS))
			c12Count(s, "route="+route)
			c12Count(s, "force="+ms[cur].force)
			c12Count(s, "via="+via)
			if ms[cur].preWrap {
				c12Count(s, "request-on-clone-of-wrapped")
			}
			// is there a relative whose settings differ?
			for k := range ms {
				if k != cur && (ms[k].force != ms[cur].force || (ms[k].trust == 0) != (ms[cur].trust == 0) || ms[k].proxy != ms[cur].proxy) {
					if ms[cur].preWrap || ms[k].preWrap {
						nontriv = true
						c12Count(s, "request-with-differing-relative-and-cloned-middleware")
					}
				}
			}
			if rerr == nil && resp.Header.Get("X-Origin-Proto") != resp.Proto {
				okAll = false
				human += " [ORACLE: Response.Proto differs from the protocol the origin served]"
			}
			if rerr == nil && ms[cur].force != "-" && c12ProtoShort(resp.Proto) != "h"+ms[cur].force {
				okAll = false
				human += fmt.Sprintf(" [ORACLE: HTTP/%s forced on this client, carried by %s]", ms[cur].force, resp.Proto)
			}
			if rerr == nil && ms[cur].trust != 0 {
				okAll = false
				human += fmt.Sprintf(" [ORACLE: this client trusts only ca-%d, yet the origin's certificate (ca-0) was accepted]", ms[cur].trust)
			}
			if route == "err:tls" && ms[cur].trust == 0 {
				okAll = false
				human += " [ORACLE: this client trusts ca-0, yet the origin's certificate was rejected]"
			}
		}
		for e := 0; e < nops && crashed == ""; e++ {
			tk := ""
			if e < len(plan) {
				tk = plan[e]
			} else {
				switch x := r.Intn(16); {
				case x < 5:
					tk = settingTok(r.Intn(4), nil)
				case x < 8:
					tk = wrapTok()
				case x < 10 && len(members) < 4:
					tk = "fork"
				case x < 12:
					tk = fmt.Sprintf("sw%d", r.Intn(len(members)+1))
				default:
					tk = "rq"
				}
			}
			if len(tk) == 2 && tk[0] == 'S' {
				// a setting of kind tk[1] differing from the relative's (member 0 <-> member 1)
				rel := 0
				if cur == 0 && len(ms) > 1 {
					rel = 1
				}
				tk = settingTok(int(tk[1]-'0'), &ms[rel])
			}
			c := members[cur]
			switch {
			case tk == "tw":
				wid++
				how := r.Intn(4)
				mid := c12InstallTransportWrapper(c, how, wid)
				tk = fmt.Sprintf("tw%d", mid)
				ms[cur].wrapped = true
				c12Count(s, fmt.Sprintf("transport-middleware:how%d", how))
			case tk == "cw":
				wid++
				c12InstallClientWrapper(c, wid)
				tk = fmt.Sprintf("cw%d", wid)
				ms[cur].wrapped = true
				c12Count(s, "client-middleware")
			case tk == "uf", tk == "f1", tk == "f2", tk == "f3":
				f := tk[1:]
				if tk == "uf" {
					f = "-"
				}
				c12ForceApply(c, f)
				ms[cur].force = f
			case tk == "e3":
				c.EnableHTTP3()
			case strings.HasPrefix(tk, "tr"):
				var k int
				fmt.Sscanf(tk[2:], "%d", &k)
				if r.Intn(2) == 0 {
					c.SetTLSClientConfig(&tls.Config{RootCAs: pki.cas[k].pool(), NextProtos: []string{"http/1.1", "h2"}})
					c12Count(s, "trust:replaced")
				} else {
					c.GetTLSClientConfig().RootCAs = pki.cas[k].pool()
					c12Count(s, "trust:in-place")
				}
				ms[cur].trust = k
			case tk == "px1":
				c.SetProxyURL("http://" + hp.addr)
				ms[cur].proxy = true
			case tk == "px0":
				c.SetProxy(nil)
				ms[cur].proxy = false
			case tk == "fork":
				if len(members) >= 4 {
					continue
				}
				members = append(members, c.Clone())
				st := ms[cur]
				st.preWrap = ms[cur].wrapped
				ms = append(ms, st)
				if st.preWrap {
					c12Count(s, "clone-of-client-with-middleware")
				} else {
					c12Count(s, "clone-of-client-without-middleware")
				}
			case strings.HasPrefix(tk, "sw"):
				var k int
				fmt.Sscanf(tk[2:], "%d", &k)
				if k < len(members) {
					cur = k
				}
			default:
				tk = "rq"
				doRequest()
			}
			toks = append(toks, tk)
			human += " ; " + tk
		}
		// finally: every member once more
		for m := 0; m < len(members) && crashed == ""; m++ {
			cur = m
			toks = append(toks, fmt.Sprintf("sw%d", m), "rq")
			human += fmt.Sprintf(" ; sw%d ; rq", m)
			doRequest()
		}
		for _, c := range members {
			if tr := c.GetTransport(); tr != nil {
				tr.CloseIdleConnections()
				if tr.t3 != nil {
					tr.t3.Close()
				}
			}
		}
		c12Count(s, fmt.Sprintf("members:%d", len(members)))
		line := fmt.Sprintf("c12wrap %s %s 0 %s", c12AlpnChars(o.offer.alpn), c12B(o.offer.h3), strings.Join(toks, ","))
		human += " ; origin " + fmt.Sprint(o.offer) + " certified by ca-0 (twN/cwN = transport/client middleware N, tw0 = header-order middleware, trK = trust only ca-K, px1/px0 = proxy on/off, fork = Clone, swK = continue with member K, rq = request)"
		if crashed != "" {
			s.Crash(line, human, crashed, "")
			continue
		}
		s.Case(line, strings.Join(outs, ","), okAll, "", nontriv, human)
	}
	for _, must := range []string{"scheme:middleware-then-clone-then-settings", "route=ok:h1", "route=ok:h2", "route=ok:h3", "route=err:tls", "force=-", "force=1", "force=2", "force=3", "via=0", "via=1",
		"transport-middleware:how0", "transport-middleware:how1", "transport-middleware:how2", "transport-middleware:how3", "client-middleware", "trust:replaced", "trust:in-place",
		"clone-of-client-with-middleware", "clone-of-client-without-middleware", "request-on-clone-of-wrapped", "request-with-differing-relative-and-cloned-middleware", "members:2", "members:3"} {
		if c12Hist[s][must] == 0 {
			t.Errorf("never reached bucket %q", must)
		}
	}
	s.Finish()
}
