//go:build verif

package req

// C19 lane `same`: the settings API as reflection finds it (every exported method of *Client and
// *Transport that returns its receiver, arguments built by parameter type — a new setter is picked
// up without an edit here), judged on deep digests of the settings of real clients:
//
//   clone-equal     random setter sequence, Clone (or clone of clone): the copy's settings read as the original's,
//   isolated        a further random sequence on ONE side leaves the digest of the OTHER side unchanged (both directions),
//   same-effect     the same calls with the same argument values on both sides leave them equal,
//   toggle          for every Disable…/Enable… pair and every setter S: [Disable; S; Clone] resp. [S; Disable; Clone],
//                   then Enable on both: still equal (a field copied only while a feature is on shows here),
//   caller-keeps    after S(arg) with a map / slice argument, the caller overwrites and extends its argument:
//                   the client's settings do not change (client-level half of the caller-aliasing class).
//
// No network. Judged by a Go-side oracle (digest equality).

import (
	"fmt"
	"reflect"
	"sort"
	"strings"
	"testing"

	"github.com/imroc/req/v3/internal/verifh"
)

// fields whose digest legitimately differs between a client and its copy, given the client's state
func c19DynSkip(c *Client) map[string]bool {
	sk := map[string]bool{}
	if c.tlsFingerprint != nil {
		sk["Options.TLSHandshakeContext"] = true // made again for the copy (it reads the copy's TLS config)
	}
	if c.cookiejarFactory != nil {
		sk["HTTPClient.Jar"] = true // a jar of its own from the factory
	}
	return sk
}

func c19Union(a, b map[string]bool) map[string]bool {
	out := map[string]bool{}
	for k := range a {
		out[k] = true
	}
	for k := range b {
		out[k] = true
	}
	return out
}

// open finding caller-slice-retained (fixes/C19-6): these keep the variadic slice they are called with
var c19RetainsCallerSlice = map[string]bool{
	"WrapRoundTrip": true, "Transport.WrapRoundTrip": true, "SetHTTP2SettingsFrame": true, "Transport.SetHTTP2SettingsFrame": true,
	"SetHTTP2PriorityFrames": true, "Transport.SetHTTP2PriorityFrames": true,
}

// setters whose contract is "use THIS object" (the object stays the caller's): not part of caller-keeps
var c19KeepsArgByContract = map[string]string{
	"SetProxyConnectHeader": "mirrors net/http.Transport.ProxyConnectHeader: the header map is the field",
}

type c19Toggle struct {
	name    string
	off, on c19RSetter
	onT     bool
}

// Disable<X> / Enable<X> pairs without parameters
func c19Toggles() []c19Toggle {
	var out []c19Toggle
	for _, lvl := range []struct {
		t   reflect.Type
		onT bool
	}{{reflect.TypeOf(&Client{}), false}, {reflect.TypeOf(&Transport{}), true}} {
		by := map[string]c19RSetter{}
		for _, st := range c19Setters(lvl.t) {
			by[st.name] = st
		}
		for name, off := range by {
			if !strings.HasPrefix(name, "Disable") || off.m.Type.NumIn() != 1 {
				continue
			}
			x := strings.TrimPrefix(name, "Disable")
			on, ok := by["Enable"+x]
			if !ok || on.m.Type.NumIn() != 1 {
				continue
			}
			if _, skip := c19SkipClientSetters["Enable"+x]; skip {
				continue
			}
			if lvl.onT {
				x = "Transport." + x
			}
			out = append(out, c19Toggle{x, off, on, lvl.onT})
		}
	}
	sort.Slice(out, func(i, j int) bool { return out[i].name < out[j].name })
	return out
}

func c19CallOn(c *Client, st c19RSetter, onT bool, args []reflect.Value) {
	recv := reflect.ValueOf(c)
	if onT {
		recv = reflect.ValueOf(c.Transport)
	}
	st.m.Func.Call(append([]reflect.Value{recv}, args...))
}

type c19AnySetter struct {
	st  c19RSetter
	onT bool
}

func c19AllClientSetters() []c19AnySetter {
	var out []c19AnySetter
	for _, st := range c19Setters(reflect.TypeOf(&Client{})) {
		if why, skip := c19SkipClientSetters[st.name]; skip && why != "" {
			continue
		}
		out = append(out, c19AnySetter{st, false})
	}
	for _, st := range c19Setters(reflect.TypeOf(&Transport{})) {
		if why, skip := c19SkipClientSetters[st.name]; skip && why != "" {
			continue
		}
		out = append(out, c19AnySetter{st, true})
	}
	return out
}

func TestVerif_C19_same(t *testing.T) {
	s := verifh.New(t, "C19", "same",
		"every exported method of *Client and *Transport that returns its receiver (found by reflection; arguments by parameter type), on real clients, no network: clone-equal (random sequence of <= 8 calls, Clone or clone of clone, deep settings digest of the copy = the original's), isolated (a further random sequence on one side leaves the other side's digest unchanged, both directions), same-effect (same calls, same argument values on both sides: still equal), toggle (every Disable…/Enable… pair × every setter, two orders, Clone while disabled, Enable on both: equal), caller-keeps (map / slice arguments overwritten and extended by the caller after the call: the client's digest does not change); the digest covers every field of Client, Transport, transport.Options, HTTP/2 transport, retryOption, DumpOptions, dumper, tls.Config, http.Client except runtime state and per-client closures, with identities of function values and of the caller's objects")
	w := c19NewWorld()
	defer w.close()
	r := s.Rand()
	fresh := func() *Client { c := C(); c.SetLogger(nil); return c }
	report := func(kind, id string, diff []string, human string) {
		ok := len(diff) == 0
		class := ""
		if !ok && kind == "caller-keeps" && c19RetainsCallerSlice[id] {
			class = "caller-slice-retained"
		}
		s.Observe(kind+" "+id, ok, class, true, human, strings.Join(diff, " || "))
		s.Count(kind)
	}
	cloneN := func(c *Client, depth int) *Client {
		for i := 0; i < depth; i++ {
			c = c.Clone()
		}
		return c
	}
	stop := func(cs ...*Client) {
		for _, c := range cs {
			c19DisableDump(c)
		}
	}

	// ---- clone-equal, isolated, same-effect on random sequences
	n := verifh.N(150, 6000)
	for i := 0; i < n; i++ {
		g := &c19ArgGen{r: r, w: w}
		depth := 1 + r.Intn(2)
		var c, cc *Client
		var n1, n2, n3 []string
		ptxt, panicked := verifh.Safely(func() {
			c = fresh()
			n1 = c19RandomSetters(g, c, nil, r.Intn(9), true)
			cc = cloneN(c, depth)
			sk := c19DynSkip(c)
			prog := fmt.Sprintf("[%s]; Clone×%d", strings.Join(n1, ", "), depth)
			report("clone-equal", prog, c19DiffDigests(c19SettingsDigest(c, sk), c19SettingsDigest(cc, sk)), prog+": settings of the copy vs the original's")
			if i%2 == 0 {
				dc := c19SettingsDigest(c, nil)
				n2 = c19RandomSetters(g, cc, nil, 1+r.Intn(6), true)
				p2 := prog + fmt.Sprintf("; on the copy [%s]", strings.Join(n2, ", "))
				report("isolated", p2, c19DiffDigests(dc, c19SettingsDigest(c, nil)), p2+": the ORIGINAL's settings before vs after")
				dcc := c19SettingsDigest(cc, nil)
				n3 = c19RandomSetters(g, c, nil, 1+r.Intn(6), true)
				p3 := p2 + fmt.Sprintf("; on the original [%s]", strings.Join(n3, ", "))
				report("isolated", p3, c19DiffDigests(dcc, c19SettingsDigest(cc, nil)), p3+": the COPY's settings before vs after")
			} else {
				n2 = c19RandomSetters(g, c, cc, 1+r.Intn(6), true)
				sk2 := c19Union(c19DynSkip(c), c19DynSkip(cc))
				p2 := prog + fmt.Sprintf("; on both, same arguments [%s]", strings.Join(n2, ", "))
				report("same-effect", p2, c19DiffDigests(c19SettingsDigestOpt(c, sk2, true), c19SettingsDigestOpt(cc, sk2, true)), p2+": settings of the copy vs the original's")
			}
		})
		if panicked {
			s.Crash(fmt.Sprintf("same random [%s] [%s] [%s]", strings.Join(n1, ","), strings.Join(n2, ","), strings.Join(n3, ",")), "random sequence", ptxt, "")
		}
		stop(c, cc)
	}

	// ---- toggle × setter
	all := c19AllClientSetters()
	toggles := c19Toggles()
	if len(toggles) < 8 {
		t.Errorf("only %d Disable/Enable pairs found", len(toggles))
	}
	if len(all) < 120 {
		t.Errorf("only %d settings methods found", len(all))
	}
	for _, tg := range toggles {
		s.Count("toggle:" + tg.name)
		for _, as := range all {
			if as.st.name == tg.off.name || as.st.name == tg.on.name {
				continue
			}
			for order := 0; order < 2; order++ {
				g := &c19ArgGen{r: r, w: w}
				args, ok := g.args(as.st.m)
				if !ok {
					s.Count("no-args:" + as.st.name)
					break
				}
				var c, cc *Client
				sn := as.st.name
				if as.onT {
					sn = "Transport." + sn
				}
				prog := fmt.Sprintf("%s; %s; Clone; %s on both", tg.off.name, sn, tg.on.name)
				if order == 1 {
					prog = fmt.Sprintf("%s; %s; Clone; %s on both", sn, tg.off.name, tg.on.name)
				}
				ptxt, panicked := verifh.Safely(func() {
					c = fresh()
					if strings.HasPrefix(as.st.name, "EnableDump") || strings.HasPrefix(tg.name, "Dump") {
						c.getDumpOptions().Output = w.bufs[0]
					}
					if order == 0 {
						c19CallOn(c, tg.off, tg.onT, nil)
						c19CallOn(c, as.st, as.onT, args)
					} else {
						c19CallOn(c, as.st, as.onT, args)
						c19CallOn(c, tg.off, tg.onT, nil)
					}
					cc = c.Clone()
					sk := c19DynSkip(c)
					d1 := c19DiffDigests(c19SettingsDigest(c, sk), c19SettingsDigest(cc, sk))
					c19CallOn(c, tg.on, tg.onT, nil)
					c19CallOn(cc, tg.on, tg.onT, nil)
					sk = c19Union(c19DynSkip(c), c19DynSkip(cc))
					d2 := c19DiffDigests(c19SettingsDigestOpt(c, sk, true), c19SettingsDigestOpt(cc, sk, true))
					report("toggle", prog, append(d1, d2...), prog+": settings of the copy vs the original's (right after Clone, and after Enable)")
				})
				if panicked {
					s.Crash("toggle "+prog, prog, ptxt, "")
				}
				stop(c, cc)
			}
		}
	}

	// ---- caller keeps its map / slice arguments
	for _, as := range all {
		if _, ok := c19KeepsArgByContract[as.st.name]; ok {
			s.Count("by-contract:" + as.st.name)
			continue
		}
		for rep := 0; rep < 3; rep++ {
			g := &c19ArgGen{r: r, w: w}
			args, ok := g.args(as.st.m)
			if !ok {
				break
			}
			var refs []reflect.Value
			for _, rv := range g.refs {
				if rv.Kind() == reflect.Map || rv.Kind() == reflect.Slice {
					refs = append(refs, rv)
				}
			}
			if len(refs) == 0 {
				break
			}
			var c *Client
			ptxt, panicked := verifh.Safely(func() {
				c = fresh()
				if strings.HasPrefix(as.st.name, "EnableDump") {
					c.getDumpOptions().Output = w.bufs[0]
				}
				if rep == 2 { // the setting already has content
					c19CallOn(c, as.st, as.onT, args)
				}
				// a variadic call hands the caller's slice itself to the method
				if as.st.m.Type.IsVariadic() {
					fixed := as.st.m.Type.NumIn() - 2
					sl := refs[len(refs)-1]
					recv := reflect.ValueOf(c)
					if as.onT {
						recv = reflect.ValueOf(c.Transport)
					}
					as.st.m.Func.CallSlice(append(append([]reflect.Value{recv}, args[:fixed]...), sl))
				} else {
					c19CallOn(c, as.st, as.onT, args)
				}
				d := c19SettingsDigest(c, nil)
				for i, rv := range refs {
					c19Mutate(rv, i+1)
				}
				sn := as.st.name
				if as.onT {
					sn = "Transport." + sn
				}
				report("caller-keeps", sn, c19DiffDigests(d, c19SettingsDigest(c, nil)),
					sn+"(arg); the caller overwrites and extends arg: the client's settings before vs after")
			})
			if panicked {
				s.Crash("caller-keeps "+as.st.name, as.st.name, ptxt, "")
			}
			stop(c)
		}
	}
	s.Finish()
}
