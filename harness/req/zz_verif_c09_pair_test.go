//go:build verif

package req

import (
	"context"
	"fmt"
	"io"
	"net"
	"net/http"
	"net/http/httptrace"
	"strconv"
	"strings"
	"sync"
	"testing"
	"time"

	"github.com/imroc/req/v3/internal/verifh"
)

// TestVerif_C09_pair: ONE caller, sequential requests on one keep-alive host, every response
// shape that decides whether readLoop gives the connection back; what httptrace and the caller
// observe (which connection, reused or not, PutIdleConn before/after the response, EOF) is
// compared with the per-connection pairing model (Req/Pool/Pairing.lean).
// Round 7: the WRITE side of a connection has its own clock.  c09LagConn reports a Write as done a
// little after the bytes left (a TLS layer, a proxy hop, a busy scheduler), so a response can be
// processed by readLoop before writeLoop has filed its report in writeErrCh; c09HeldBody is an
// upload whose tail does not arrive before the lane lets it (the server answers such an upload
// early and keeps the connection: kinds UE / UB).  What decides about the connection is the report
// of THIS request's write, whenever it arrives.
type c09LagConn struct {
	net.Conn
	lag time.Duration
}

func (c *c09LagConn) Write(p []byte) (int, error) {
	n, err := c.Conn.Write(p)
	time.Sleep(c.lag)
	return n, err
}

type c09HeldBody struct {
	first   []byte
	rest    []byte
	release chan struct{}
	once    sync.Once
}

func (b *c09HeldBody) Read(p []byte) (int, error) {
	if len(b.first) > 0 {
		n := copy(p, b.first)
		b.first = b.first[n:]
		return n, nil
	}
	<-b.release
	if len(b.rest) == 0 {
		return 0, io.EOF
	}
	n := copy(p, b.rest)
	b.rest = b.rest[n:]
	return n, nil
}

func (b *c09HeldBody) Close() error { b.let(); return nil }
func (b *c09HeldBody) let()         { b.once.Do(func() { close(b.release) }) }

func TestVerif_C09_pair(t *testing.T) {
	s := verifh.New(t, "C09", "pair",
		"sequences of 3..14 sequential requests of kinds NB (no body) / E1, EX (POST with Expect: 100-continue answered by 100 Continue + 200, or by a final 403/404/500 without 100 on a kept-alive connection; the origin checks that the promised body arrives) / B (Content-Length body read to EOF) / CH (chunked) / HD (HEAD) / BX (caller closes the body early) / BK (Connection: close) / NBK (no body + close) / BI (CloseIdleConnections before the body is drained) / NBU, BU (like NB, B but the origin writes unsolicited bytes behind the complete response — a duplicate of it, a response nobody asked for, garbage, half a status line; at once or 3 ms later — and the caller lets the read loop see them: the connection must be dropped, the next request gets its own response on a new one) / UE, UB (round 7: POST whose body tail is held back by the caller, answered at once by a final 401/413 without / with a body on a kept-alive connection: the upload is still being written when readLoop decides, the connection must not go back to the pool) / WL (marker: every Write of this sequence's connections reports 1..3 ms late, so body-less requests are answered before writeLoop has reported) against a raw HTTP/1.1 origin; observed per request: connection sequence number, GotConn.Reused, order of PutIdleConn(nil|err) / response returned / EOF; plus tag echo; non-trivial = at least one reuse and one non-reuse in the sequence")
	r := s.Rand()
	kinds := []string{"NB", "B", "B", "CH", "HD", "BX", "BK", "NBK", "BI", "E1", "EX", "NBU", "BU", "UE"}
	// sequences on connections with a late-reporting writer: the kinds whose outcome does not
	// depend on write timing, body-less ones and early-answered uploads more often
	lagKinds := []string{"NB", "NB", "NB", "HD", "B", "CH", "UE", "UB", "NBK"}
	n := verifh.N(150, 2500)
	nBad := 0
	wedged := false
	for cs := 0; cs < n; cs++ {
		rec := newC09Rec()
		o, err := newC09H1Origin(rec, 1, "", 0)
		if err != nil {
			t.Fatalf("listen: %v", err)
		}
		cl := C().SetTimeout(8 * time.Second)
		cl.SetLogger(nil)
		tr := cl.GetTransport()
		tr.Proxy = nil
		lag := 0
		if cs%4 == 1 {
			lag = 1 + r.Intn(3)
			lagD := time.Duration(lag) * time.Millisecond
			cl.SetDial(func(ctx context.Context, network, addr string) (net.Conn, error) {
				var d net.Dialer
				c, err := d.DialContext(ctx, network, addr)
				if err != nil {
					return nil, err
				}
				return &c09LagConn{Conn: c, lag: lagD}, nil
			})
		}
		var mu sync.Mutex
		connSeq := map[string]int{}
		var evs []string
		add := func(e string) { mu.Lock(); evs = append(evs, e); mu.Unlock() }
		k := 3 + r.Intn(12)
		var seq []string
		var impl []string
		ok := true
		if lag > 0 {
			seq = append(seq, "WL")
			s.Count("write-lag-sequence")
		}
		for i := 0; i < k && ok; i++ {
			kind := verifh.Pick(r, kinds)
			if lag > 0 {
				kind = verifh.Pick(r, lagKinds)
			}
			seq = append(seq, kind)
			mu.Lock()
			evs = nil
			mu.Unlock()
			connID, reused := 0, false
			trace := &httptrace.ClientTrace{
				GotConn: func(info httptrace.GotConnInfo) {
					mu.Lock()
					a := info.Conn.LocalAddr().String()
					if connSeq[a] == 0 {
						connSeq[a] = len(connSeq) + 1
					}
					connID, reused = connSeq[a], info.Reused
					mu.Unlock()
				},
				PutIdleConn: func(err error) {
					if err == nil {
						add("P")
					} else {
						add("p")
					}
				},
			}
			pl := c09Plan{size: 0}
			switch kind {
			case "B", "BX", "BI":
				pl.size = verifh.Pick(r, []int{1, 300, 9000})
			case "CH":
				pl.size, pl.chunked = verifh.Pick(r, []int{2, 300, 9000}), true
			case "BK":
				pl.size, pl.close = verifh.Pick(r, []int{1, 300}), true
			case "NBK":
				pl.close = true
			case "HD":
				pl.size = 500
			case "E1":
				pl.size, pl.expect = verifh.Pick(r, []int{1, 300}), 1
			case "EX":
				pl.size, pl.expect, pl.status = verifh.Pick(r, []int{1, 300}), 2, verifh.Pick(r, []int{403, 404, 500})
			case "NBU":
				pl.extra, pl.extraDelay = 1+r.Intn(4), verifh.Pick(r, []int{0, 3})
			case "UE":
				pl.expect, pl.status = 2, verifh.Pick(r, []int{401, 413})
			case "UB":
				pl.size, pl.expect, pl.status = verifh.Pick(r, []int{1, 300}), 2, verifh.Pick(r, []int{401, 413})
			case "BU":
				pl.size, pl.chunked = verifh.Pick(r, []int{1, 300, 9000}), r.Intn(3) == 0
				pl.extra, pl.extraDelay = 1+r.Intn(4), verifh.Pick(r, []int{0, 3})
			}
			if kind == "BX" {
				pl.size = 9000
				pl.pause = 1 // the tail is still on its way when the caller closes
			}
			tag := cs*100 + i + 1
			rq := cl.R().SetContext(httptrace.WithClientTrace(context.Background(), trace)).
				SetHeader("X-Tag", strconv.Itoa(tag)).SetHeader("X-Plan", pl.String()).DisableAutoReadResponse()
			var resp *Response
			// a broken read/write loop can wedge roundTrip in a plain channel send that no
			// timeout reaches: bound the call from outside
			type result struct {
				resp *Response
				err  error
			}
			reqSize := verifh.Pick(r, []int{1, 200, 2000})
			resCh := make(chan result, 1)
			var held *c09HeldBody
			if kind == "UE" || kind == "UB" {
				up := c09Pattern(tag, 200+reqSize, "q")
				held = &c09HeldBody{first: up[:100], rest: up[100:], release: make(chan struct{})}
			}
			go func() {
				var rs result
				if held != nil {
					// straight through the transport: a streamed upload of known length
					hr, _ := http.NewRequestWithContext(httptrace.WithClientTrace(context.Background(), trace), "POST", "http://"+o.addr()+"/p", held)
					hr.ContentLength = int64(len(held.first) + len(held.rest))
					hr.Header.Set("X-Tag", strconv.Itoa(tag))
					hr.Header.Set("X-Plan", pl.String())
					var hresp *http.Response
					hresp, rs.err = tr.RoundTrip(hr)
					if rs.err == nil {
						rs.resp = &Response{Response: hresp}
					}
				} else if kind == "HD" {
					rs.resp, rs.err = rq.Head("http://" + o.addr() + "/p")
				} else if kind == "E1" || kind == "EX" {
					rs.resp, rs.err = rq.SetHeader("Expect", "100-continue").
						SetBodyBytes(c09Pattern(tag, reqSize, "q")).Post("http://" + o.addr() + "/p")
				} else {
					rs.resp, rs.err = rq.Get("http://" + o.addr() + "/p")
				}
				resCh <- rs
			}()
			select {
			case rs := <-resCh:
				resp, err = rs.resp, rs.err
			case <-time.After(20 * time.Second):
				s.Crash("c09pair "+strings.Join(seq, ","), strings.Join(seq, " "), "request "+strconv.Itoa(i)+" ("+kind+") never returned although the client timeout is 8 s: the connection's read/write loop is wedged", "")
				wedged = true
			}
			if wedged {
				break
			}
			if err != nil {
				ok = false
				impl = append(impl, "error:"+err.Error())
				break
			}
			add("R")
			if resp.Header.Get("X-Tag") != strconv.Itoa(tag) {
				ok = false
			}
			switch kind {
			case "BX":
				buf := make([]byte, 10)
				io.ReadFull(resp.Body, buf)
				resp.Body.Close()
				add("C")
			case "NB", "HD", "NBK", "NBU", "UE":
				io.Copy(io.Discard, resp.Body)
				resp.Body.Close()
			default:
				if kind == "BI" {
					tr.CloseIdleConnections()
				}
				b, _ := io.ReadAll(resp.Body)
				add("E")
				resp.Body.Close()
				if string(b) != string(c09Pattern(tag, pl.size, "r")) {
					ok = false
				}
			}
			if held != nil {
				// only now may the rest of the upload go out (if its connection is still there)
				held.let()
				if resp.StatusCode != pl.status {
					ok = false
				}
			}
			// PutIdleConn for a body-less response fires before the response is returned, for a
			// body at EOF before the caller sees EOF; nothing fires later, but give a stray late
			// event a chance to show up as a disagreement
			time.Sleep(200 * time.Microsecond)
			if pl.extra != 0 {
				// the unsolicited bytes reach the idle connection; its read loop drops it (at once on
				// the unchanged code). Wait for that, bounded: a connection that stays pooled is
				// what the next request will show.
				for dl := time.Now().Add(400 * time.Millisecond); time.Now().Before(dl); {
					tr.idleMu.Lock()
					idle := 0
					for _, l := range tr.idleConn {
						idle += len(l)
					}
					tr.idleMu.Unlock()
					if idle == 0 {
						s.Count("unsolicited-bytes-dropped-the-idle-connection")
						break
					}
					time.Sleep(200 * time.Microsecond)
				}
			}
			mu.Lock()
			reusedS := "0"
			if reused {
				reusedS = "1"
			}
			impl = append(impl, fmt.Sprintf("%d:%s:%s", connID, reusedS, strings.Join(evs, "")))
			mu.Unlock()
			s.Count("kind-" + kind)
		}
		if wedged {
			break // leave the wedged client and origin behind
		}
		tr.CloseIdleConnections()
		o.stop()
		if f := o.foreignSeen(); len(f) > 0 {
			ok = false
			impl = append(impl, "foreign-bytes:"+strings.Join(f, " / "))
		}
		answer := strings.Join(impl, ";")
		nontrivial := strings.Contains(answer, ":1:") && strings.Count(answer, ":0:") >= 2
		s.Case("c09pair "+strings.Join(seq, ","), answer, ok, "", nontrivial, strings.Join(seq, " ")+" -> "+answer)
		if !ok {
			nBad++
			if nBad >= 3 { // a failing sequence usually means a hung request (8 s): stop early
				break
			}
		}
	}
	s.Finish()
}
