//go:build verif

package req

import (
	"bytes"
	"fmt"
	"io"
	"mime"
	"os"
	"path/filepath"
	"strconv"
	"strings"
	"sync"
	"testing"
	"time"

	"github.com/imroc/req/v3/internal/verifh"
)

// TestVerif_C17_e2edlenc: download progress when the caller cannot know the total — chunked
// responses and compressed ones (the transport decodes; Content-Length is gone). The wrapper
// sits UNDER the decoder (transport.go wrapResponseBody): DownloadedSize counts WIRE bytes.
func TestVerif_C17_e2edlenc(t *testing.T) {
	s := verifh.New(t, "C17", "e2edlenc",
		"downloads over HTTP/1.1, HTTP/2 and HTTP/3 of 0 B … 300 KB (compressible text / random bytes), Content-Length or chunked, identity / gzip (transparent or AutoDecompress) / deflate / br / zstd (AutoDecompress), callback interval 0 or 1 h, SetOutput; oracle: the delivered bytes are the decoded body; the reported counts are strictly increasing, never above the number of bytes on the WIRE (the compressed size) and end at it; for 1 h the sequence equals the model's (`c17progrc`: one report, the wire size, whether the decoder reads the io.EOF or the count comes from Close); non-trivial = a compressed or chunked body")
	r := s.Rand()
	origins := map[string]*c17Origin{"h1": c17NewOrigin("h1"), "h2": c17NewOrigin("h2"), "h3": c17NewOrigin("h3")}
	defer origins["h1"].stop()
	defer origins["h2"].stop()
	defer origins["h3"].stop()
	n := verifh.N(90, 3000)
	for i := 0; i < n; i++ {
		proto := []string{"h1", "h2", "h3"}[i%3]
		o := origins[proto]
		c := c17Client(proto)
		enc := verifh.Pick(r, []string{"", "gzip", "gzip", "deflate", "deflate", "br", "zstd"})
		if enc != "" && enc != "gzip" || r.Intn(2) == 0 {
			c.EnableAutoDecompress()
		}
		size := verifh.Pick(r, []int{0, 1, 100, 4000, 4096, 32768, 100000, 300000})
		var data []byte
		if r.Intn(2) == 0 {
			data = []byte(verifh.RandBytes(r, size, "")) // incompressible
		} else {
			data = []byte(verifh.RandBytes(r, size, "ab \n"))
		}
		wire := len(c17Encode(enc, data))
		id := strconv.Itoa(i)
		o.mu.Lock()
		o.dl[id] = data
		o.mu.Unlock()
		chunked := r.Intn(2) == 0
		u := o.base + "/dl?id=" + id
		if chunked {
			u += "&chunked=1"
		}
		if enc != "" {
			u += "&enc=" + enc
		}
		interval := verifh.Pick(r, []time.Duration{0, time.Hour, time.Hour})
		var mu sync.Mutex
		var emitted []int64
		var out bytes.Buffer
		req := c.R().SetOutput(&out).SetDownloadCallbackWithInterval(func(info DownloadInfo) {
			mu.Lock()
			emitted = append(emitted, info.DownloadedSize)
			mu.Unlock()
		}, interval)
		resp, err := req.Get(u)
		ok := err == nil && resp.StatusCode == 200 && bytes.Equal(out.Bytes(), data)
		detail := ""
		if !ok {
			detail = fmt.Sprintf("err=%v delivered %d of %d bytes", err, out.Len(), len(data))
		}
		mu.Lock()
		var last int64
		for _, e := range emitted {
			if e <= last || e > int64(wire) {
				ok = false
				detail = fmt.Sprintf("count %d after %d (wire size %d)", e, last, wire)
			}
			last = e
		}
		if wire > 0 && (len(emitted) == 0 || emitted[len(emitted)-1] != int64(wire)) {
			ok = false
			detail = fmt.Sprintf("last report %d, %d bytes were downloaded", last, wire)
		}
		got := c17Ints64(emitted)
		mu.Unlock()
		class := ""
		if enc == "deflate" {
			class = "c17-download-final-close"
		}
		s.Count(proto)
		s.Count("enc:" + enc)
		human := fmt.Sprintf("download %s enc=%q body=%dB wire=%dB chunked=%v interval=%v -> reports %s %s", proto, enc, size, wire, chunked, interval, c17Trunc(got, 80), detail)
		if interval == time.Hour && wire > 0 {
			s.Case("c17progrc "+strconv.Itoa(wire)+" 0 0", got, ok, class, enc != "" || chunked, human)
		} else {
			s.Observe("dlenc-"+id+"-"+proto, ok, class, enc != "" || chunked, human, detail)
		}
		o.mu.Lock()
		delete(o.dl, id)
		o.mu.Unlock()
		c17Done(c)
	}
	s.Finish()
}

// TestVerif_C17_e2eupmulti: upload callbacks with several files and several ATTEMPTS (the library
// sends the request again: retry after 503, digest challenge): which file a report names, counts
// per file restarting with every attempt.
func TestVerif_C17_e2eupmulti(t *testing.T) {
	s := verifh.New(t, "C17", "e2eupmulti",
		"multipart uploads of 1..4 files (sizes 1 B … 150 KB around 512 B / 32 KiB; FileSize known via SetFile-like FileUpload or unknown via SetFileBytes) with an upload callback (interval 0 or 1 h) over HTTP/1.1, HTTP/2, HTTP/3, sent once, or twice by the library itself (retry after a 503, digest challenge); the whole sequence of UploadInfo values is recorded. Oracle: the sequence splits into as many attempts as the origin saw requests; inside an attempt the files report in the order they were attached, each report names an attached file with its own FileName and FileSize, per file the counts are strictly increasing, never above the file's size and (size known) end at it — again in every attempt; for 1 h the sequence equals the model's (`c17progfiles`); the last request the origin saw carries every file intact. non-trivial = at least two files or two attempts")
	r := s.Rand()
	origins := map[string]*c17Origin{"h1": c17NewOrigin("h1"), "h2": c17NewOrigin("h2"), "h3": c17NewOrigin("h3")}
	defer origins["h1"].stop()
	defer origins["h2"].stop()
	defer origins["h3"].stop()
	n := verifh.N(60, 2000)
	type rep struct {
		param, name string
		fsize, up   int64
	}
	for i := 0; i < n; i++ {
		proto := []string{"h1", "h2", "h3"}[i%3]
		o := origins[proto]
		c := c17Client(proto)
		how := verifh.Pick(r, []string{"once", "retry", "retry", "digest"})
		nf := 1 + r.Intn(4)
		req := c.R()
		sizes := make([]int, nf)
		known := make([]bool, nf)
		datas := make([][]byte, nf)
		for j := 0; j < nf; j++ {
			sizes[j] = verifh.Pick(r, []int{1, 100, 511, 512, 513, 4000, 32768, 32769, 150000})
			datas[j] = c17Pattern(sizes[j], i*7+j)
			d := datas[j]
			up := FileUpload{ParamName: "f" + strconv.Itoa(j), FileName: "n" + strconv.Itoa(j) + ".bin",
				GetFileContent: func() (io.ReadCloser, error) { return io.NopCloser(bytes.NewReader(d)), nil }}
			if r.Intn(3) != 0 {
				up.FileSize = int64(sizes[j])
				known[j] = true
			}
			req.SetFileUpload(up)
		}
		interval := verifh.Pick(r, []time.Duration{0, time.Hour, time.Hour})
		var mu sync.Mutex
		var reps []rep
		req.SetUploadCallbackWithInterval(func(info UploadInfo) {
			mu.Lock()
			reps = append(reps, rep{info.ParamName, info.FileName, info.FileSize, info.UploadedSize})
			mu.Unlock()
		}, interval)
		path := "/up"
		switch how {
		case "retry":
			req.SetRetryCount(2).SetRetryFixedInterval(time.Millisecond).
				SetRetryCondition(func(resp *Response, err error) bool { return err != nil || resp.StatusCode == 503 })
			path = "/flaky?id=m" + strconv.Itoa(i)
		case "digest":
			req.SetDigestAuth("user", "pass")
			path = "/digest"
		}
		o.take()
		resp, err := req.Post(o.base + path)
		seen := o.take()
		mu.Lock()
		ok := err == nil && resp.StatusCode == 200 && len(seen) >= 1
		detail := ""
		if !ok {
			detail = fmt.Sprintf("err=%v requests=%d", err, len(seen))
		}
		attempts := len(seen)
		// split the reports into attempts: a new attempt begins when a report does not continue
		// the current one (an earlier file again, or the same file with a count that is not higher)
		seg, cur := 1, 0
		var lastCount int64
		var sb []string
		for _, rp := range reps {
			j, e := strconv.Atoi(strings.TrimPrefix(rp.param, "f"))
			if e != nil || j < 0 || j >= nf || rp.name != "n"+strconv.Itoa(j)+".bin" {
				ok, detail = false, fmt.Sprintf("a report names %q / %q, no such file", rp.param, rp.name)
				break
			}
			want := int64(0)
			if known[j] {
				want = int64(sizes[j])
			}
			if rp.fsize != want {
				ok, detail = false, fmt.Sprintf("report of %s says FileSize %d, the upload was given %d", rp.param, rp.fsize, want)
			}
			if j < cur || (j == cur && rp.up <= lastCount) {
				seg++
				cur, lastCount = j, 0
			} else if j > cur {
				cur, lastCount = j, 0
			}
			if rp.up <= lastCount || rp.up > int64(sizes[j]) {
				ok, detail = false, fmt.Sprintf("report %d for %s after %d (size %d)", rp.up, rp.param, lastCount, sizes[j])
			}
			lastCount = rp.up
			sb = append(sb, strconv.Itoa(j)+":"+strconv.FormatInt(rp.up, 10))
		}
		if ok && len(reps) > 0 && seg > attempts {
			ok, detail = false, fmt.Sprintf("the reports restart %d times, the origin saw %d requests", seg, attempts)
		}
		// every known-size file must reach its size in every attempt: count the final reports
		if ok {
			for j := 0; j < nf; j++ {
				if !known[j] {
					continue
				}
				finals := 0
				for _, rp := range reps {
					if rp.param == "f"+strconv.Itoa(j) && rp.up == int64(sizes[j]) {
						finals++
					}
				}
				if finals != attempts {
					ok, detail = false, fmt.Sprintf("file f%d (size %d known) reached its size in %d of %d attempts", j, sizes[j], finals, attempts)
				}
			}
		}
		// the request the origin accepted last carries every file
		if ok {
			last := seen[len(seen)-1]
			_, params, _ := mime.ParseMediaType(last.Header.Get("Content-Type"))
			items, ierr := c17ServerItems(params["boundary"], last.Body)
			if ierr != nil || len(items) != nf {
				ok, detail = false, fmt.Sprintf("last request: parse err=%v, %d of %d files", ierr, len(items), nf)
			} else {
				for j := range items {
					if items[j].content != string(datas[j]) {
						ok, detail = false, fmt.Sprintf("last request: file f%d has %d of %d bytes", j, len(items[j].content), sizes[j])
					}
				}
			}
		}
		got := "-"
		if len(sb) > 0 {
			got = strings.Join(sb, ",")
		}
		mu.Unlock()
		s.Count(proto)
		s.Count(how)
		s.Count("attempts-" + strconv.Itoa(attempts))
		s.Count("files-" + strconv.Itoa(nf))
		human := fmt.Sprintf("%s %s files=%v known=%v interval=%v -> %d requests, reports %s %s", proto, how, sizes, known, interval, attempts, c17Trunc(got, 160), detail)
		if interval == time.Hour && attempts >= 1 {
			tots := make([]int, nf)
			for j := range tots {
				if known[j] {
					tots[j] = sizes[j]
				}
			}
			s.Case(fmt.Sprintf("c17progfiles %d %s %s", attempts, verifh.IntList(tots), verifh.IntList(sizes)), got, ok, "", nf >= 2 || attempts >= 2, human)
		} else {
			s.Observe(fmt.Sprintf("upmulti-%d-%s-%s", i, proto, how), ok, "", nf >= 2 || attempts >= 2, human, detail)
		}
		c17Done(c)
	}
	s.Finish()
}

// TestVerif_C17_e2edlhops: downloads whose final response is preceded by OTHER exchanges with
// bodies of their own: the download callback must report the final response only.
func TestVerif_C17_e2edlhops(t *testing.T) {
	s := verifh.New(t, "C17", "e2edlhops",
		"downloads (file 1 B … 100 KB, Content-Length or chunked) over HTTP/1.1, HTTP/2, HTTP/3 reached through 0..3 redirect hops (301 302 303 307 308) whose responses carry bodies of 0 / 37 / 2047 / 2048 / 2049 / 5000 bytes (smaller AND larger than the file), and/or a 103 interim response, a digest 401 challenge with a body, a first attempt answered 503 with a body and retried; download callback with interval 0 or 1 h; SetOutput / SetOutputFile / no output (then no wrapper is installed: no report). Oracle: the reports split into one strictly increasing run per ATTEMPT, each run at most — and ending at — the size of the body that attempt ended with; nothing of a hop's or challenge's body is ever reported; the saved bytes of the last attempt are the file. For 1 h the sequence equals the model's (`c17dlhops` = runDownloadAttempts). non-trivial = at least one preceding exchange with a body")
	r := s.Rand()
	dir := t.TempDir()
	origins := map[string]*c17Origin{"h1": c17NewOrigin("h1"), "h2": c17NewOrigin("h2"), "h3": c17NewOrigin("h3")}
	defer origins["h1"].stop()
	defer origins["h2"].stop()
	defer origins["h3"].stop()
	n := verifh.N(90, 3000)
	for i := 0; i < n; i++ {
		proto := []string{"h1", "h2", "h3"}[i%3]
		o := origins[proto]
		c := c17Client(proto)
		size := verifh.Pick(r, []int{1, 100, 100, 4000, 100000})
		data := c17Pattern(size, i)
		id := "h" + strconv.Itoa(i)
		o.mu.Lock()
		o.dl[id] = data
		o.mu.Unlock()
		q := "id=" + id
		if r.Intn(2) == 0 {
			q += "&chunked=1"
		}
		hops := verifh.Pick(r, []int{0, 1, 1, 2, 3})
		wantDigest := r.Intn(5) == 0
		if wantDigest {
			hops = 0
		}
		hopsize := verifh.Pick(r, []int{0, 37, 2047, 2048, 2049, 5000})
		code := verifh.Pick(r, []int{301, 302, 303, 307, 308})
		if hops > 0 {
			q += fmt.Sprintf("&hops=%d&hopsize=%d&code=%d", hops, hopsize, code)
		}
		interim := r.Intn(4) == 0
		if interim {
			q += "&interim=1"
		}
		digest, retry := false, false
		usize, esize := 0, 0
		switch {
		case wantDigest:
			// (the digest re-send is a plain transport round trip to the ORIGINAL url: it does not
			// compose with redirects — not a C17 matter — so a challenge comes without hops)
			digest = true
			usize = verifh.Pick(r, []int{0, 700, 5000})
			q += "&usize=" + strconv.Itoa(usize)
		case r.Intn(4) == 0:
			retry = true
			esize = verifh.Pick(r, []int{0, 900, 200000})
			q += "&esize=" + strconv.Itoa(esize)
		}
		interval := verifh.Pick(r, []time.Duration{0, time.Hour, time.Hour})
		var mu sync.Mutex
		var emitted []int64
		var out bytes.Buffer
		req := c.R().SetDownloadCallbackWithInterval(func(info DownloadInfo) {
			mu.Lock()
			emitted = append(emitted, info.DownloadedSize)
			mu.Unlock()
		}, interval)
		output := verifh.Pick(r, []string{"writer", "writer", "file", "none"})
		fp := filepath.Join(dir, "hop"+id)
		switch output {
		case "writer":
			req.SetOutput(&out)
		case "file":
			req.SetOutputFile(fp)
		}
		if digest {
			req.SetDigestAuth("user", "pass")
		}
		if retry {
			req.SetRetryCount(2).SetRetryFixedInterval(time.Millisecond).
				SetRetryCondition(func(resp *Response, err error) bool { return err != nil || resp.StatusCode == 503 })
		}
		resp, err := req.Get(o.base + "/dl?" + q)
		ok := err == nil && resp != nil && resp.StatusCode == 200
		detail := ""
		if !ok {
			detail = fmt.Sprintf("err=%v", err)
			if resp != nil && resp.Response != nil {
				detail += " status=" + strconv.Itoa(resp.StatusCode)
			}
		}
		// the bodies the attempts END with: (503 body,) file
		finals := []int{size}
		if retry {
			finals = []int{esize, size}
		}
		if output == "none" {
			finals = nil // no wrapper without an output: the callback is never called
			if ok && !bytes.Equal(resp.Bytes(), data) {
				ok, detail = false, "plain read: body differs"
			}
		} else if ok {
			var got []byte
			if output == "file" {
				got, _ = os.ReadFile(fp)
			} else {
				got = out.Bytes()
			}
			if !bytes.HasSuffix(got, data) {
				ok, detail = false, fmt.Sprintf("saved %d bytes do not end with the %d bytes of the file", len(got), size)
			}
		}
		mu.Lock()
		// one strictly increasing run per attempt, ending at the attempt's body size
		k := 0
		var last int64
		for _, e := range emitted {
			for k < len(finals) && finals[k] == 0 {
				k++
			}
			if k >= len(finals) {
				ok, detail = false, fmt.Sprintf("report %d after all attempts were complete", e)
				break
			}
			if e <= last || e > int64(finals[k]) {
				ok, detail = false, fmt.Sprintf("report %d after %d while downloading a body of %d bytes", e, last, finals[k])
				break
			}
			last = e
			if e == int64(finals[k]) {
				k, last = k+1, 0
			}
		}
		for k < len(finals) && finals[k] == 0 {
			k++
		}
		if ok && k != len(finals) {
			ok, detail = false, fmt.Sprintf("the reports end at %d, the body has %d bytes", last, finals[k])
		}
		got := c17Ints64(emitted)
		mu.Unlock()
		preceded := (hops > 0 && hopsize > 0) || (digest && usize > 0) || (retry && esize > 0)
		s.Count(proto)
		s.Count("output:" + output)
		s.Count("hops-" + strconv.Itoa(hops))
		if digest {
			s.Count("digest-challenge")
		}
		if retry {
			s.Count("retried")
		}
		if interim {
			s.Count("interim-103")
		}
		if hops > 0 && hopsize > size {
			s.Count("hop-body-larger-than-file")
		}
		// The known finding (before fixes/C17-11): every redirect response's body — the up to 2 KiB
		// net/http reads of it — is reported by a reader of its OWN, then the final body correctly.
		// Only exactly that pattern carries the class; anything else (a counter shared between the
		// bodies, a final run that is wrong) is a new finding.
		class := ""
		if hops > 0 && hopsize > 0 && output != "none" && c17HopReportPattern(emitted, finals, hops, min(hopsize, 2048)) {
			class = "c17-download-hop-body"
		}
		human := fmt.Sprintf("download %s file=%dB %d hop(s) %d with %dB bodies, interim=%v digest=%v(%dB) retry=%v(%dB) interval=%v output=%s -> reports %s %s",
			proto, size, hops, code, hopsize, interim, digest, usize, retry, esize, interval, output, c17Trunc(got, 100), detail)
		if interval == time.Hour {
			hopList := "-"
			if hops > 0 && output != "none" {
				hl := make([]int, hops)
				for j := range hl {
					hl[j] = hopsize
				}
				hopList = verifh.IntList(hl)
			}
			fl := "-"
			if len(finals) > 0 {
				fl = verifh.IntList(finals)
			}
			s.Case("c17dlhops "+fl+" "+hopList, got, ok, class, preceded, human)
		} else {
			s.Observe("dlhops-"+id+"-"+proto, ok, class, preceded, human, detail)
		}
		o.mu.Lock()
		delete(o.dl, id)
		o.mu.Unlock()
		c17Done(c)
	}
	s.Finish()
}

// c17HopReportPattern: per attempt, `hops` strictly increasing runs each ending exactly at hb (the
// bytes of a redirect body that were read), then a strictly increasing run ending exactly at the
// attempt's final body size.
func c17HopReportPattern(seq []int64, finals []int, hops int, hb int) bool {
	i := 0
	run := func(end int64) bool {
		if end == 0 {
			return true
		}
		var last int64
		for i < len(seq) {
			e := seq[i]
			if e <= last || e > end {
				return false
			}
			last = e
			i++
			if e == end {
				return true
			}
		}
		return false
	}
	for _, f := range finals {
		for j := 0; j < hops; j++ {
			if !run(int64(hb)) {
				return false
			}
		}
		if !run(int64(f)) {
			return false
		}
	}
	return i == len(seq)
}
