//go:build verif

package req

// C03 — over-long HTTP/1.1 responses on a connection that STAYS OPEN, followed by the next
// request on the same client: the bytes a peer sent beyond the end of the message (beyond the
// declared Content-Length, behind the last chunk / the trailer section, behind a bodiless
// response) must never be delivered — neither in the response they follow nor as (part of)
// the answer to the next request — and the connection they sit on must not serve it.
// Judged on the BODY CONTENT of the next request and on the dial count.

import (
	"fmt"
	"io"
	"strconv"
	"strings"
	"testing"
	"time"

	"github.com/imroc/req/v3/internal/verifh"
)

// c03Surplus: the family of unsolicited tails (name, bytes).
func c03Surplus(r interface{ Intn(int) int }, seq int) (string, string) {
	poison := func(body string) string {
		return "HTTP/1.1 200 OK\r\nContent-Length: " + strconv.Itoa(len(body)) + "\r\n\r\n" + body
	}
	switch seq % 10 {
	case 0:
		return "none", ""
	case 1:
		return "one-byte", string([]byte{"XH\r\n0 "[r.Intn(6)]})
	case 2:
		return "crlf", "\r\n"
	case 3:
		return "junk", strings.Repeat("world, ", 1+r.Intn(4))
	case 4: // a complete well-formed response: the next request would be answered by it
		return "response", poison("POISON")
	case 5: // … with exactly the length of the legitimate next response
		return "response-same-length", poison(strings.Repeat("P", len(c03Second)))
	case 6: // … byte-identical to the legitimate next response: only the dial count tells
		return "response-identical", string(c03SecondWire)
	case 7: // a response head only: the next request would wait for a body that never comes
		return "partial-head", "HTTP/1.1 200 OK\r\nContent-Le"
	case 8: // what a chunked sender that lost count produces: one more chunk
		return "extra-chunk", "5\r\nextra\r\n0\r\n\r\n"
	default: // two pipelined responses
		return "two-responses", poison("POISON-1") + poison("POISON-2")
	}
}

// c03WaitClosed gives the read loop its turn: wait (bounded) until the client has closed the i-th
// scripted connection. The unsolicited-bytes check of readLoop races with the caller's next
// request in the real code (as in net/http); the model takes the loop's Peek to come first.
func c03WaitClosed(nw *c03Net, i int) {
	deadline := time.Now().Add(1500 * time.Millisecond)
	for time.Now().Before(deadline) {
		nw.mu.Lock()
		var c *c03Conn
		if i < len(nw.conns) {
			c = nw.conns[i]
		}
		nw.mu.Unlock()
		if c != nil {
			c.mu.Lock()
			closed := c.closed
			c.mu.Unlock()
			if closed {
				return
			}
		}
		time.Sleep(2 * time.Millisecond)
	}
}

func TestVerif_C03_h1over(t *testing.T) {
	s := verifh.New(t, "C03", "h1over",
		"generated complete keep-alive responses (Content-Length, chunked with trailers, HEAD with length, 204/304, 1xx in front) followed IN THE SAME SEGMENT by unsolicited bytes "+
			"(one byte, CRLF, junk, a complete well-formed response, one of the same length as / identical to the legitimate next response, a partial head, an extra chunk, two pipelined responses; control: nothing), "+
			"the peer keeping the connection open (or closing it); every caller mode; then — once the read loop had its turn — a second request on the same client. "+
			"MODEL-judged (lane c03over = Req.H1.transportRun, the connection-level model of C04): first outcome | second outcome (status + BODY) and the dial count "+
			"(surplus => the connection is not pooled: the second request is answered on a fresh connection). Second opinion (Go oracle): the second body is the legitimate one; surplus => 2 dials. non-trivial = surplus present")
	r := s.Rand()
	n := verifh.N(140, 900)
	reached := map[string]int{}
	failures := 0
	tmpDir := t.TempDir()
	defer func() { c03Between = nil }()
	for i := 0; i < n && failures < 12; i++ {
		special := verifh.Pick(r, []string{"", "", "", "json", "ascii"})
		var m c03Msg
		for {
			m = c03GenMsgS(r, 120, special)
			if m.framing != "close" && m.code != 101 && m.n1xx <= 5 && !strings.Contains(m.stream, "Connection: close") {
				break
			}
		}
		sname, surplus := c03Surplus(r, i)
		mode := "hold"
		if i%7 == 3 {
			mode = "eof"
		}
		seg := m.stream + surplus
		var first []c03Step
		if mode == "eof" {
			first = []c03Step{{data: []byte(seg), end: io.EOF}}
		} else {
			first = []c03Step{{data: []byte(seg)}, {data: c03SecondWire}, {data: c03SecondWire}}
		}
		nw := &c03Net{scripts: [][]c03Step{first, {{data: c03SecondWire}, {data: c03SecondWire}}}, seg: verifh.Pick(r, []int{0, 0, 1, 7})}
		stream := r.Intn(3) == 0
		cc := &c03Caller{mode: c03PickMode(r, m.special, m.framing, len(m.body)), dir: tmpDir}
		// between the two requests: give the read loop its turn. The model (Req.H1.Conn) takes the loop's
		// Peek to come before the caller's next request; here that is made so instead of hoped for: wait
		// until the client has closed the connection the unsolicited bytes arrived on (bounded).
		c03Between = func() {
			if surplus != "" {
				c03WaitClosed(nw, 0)
			}
		}
		obs := c03RunClient(nw.dial, func() int { nw.mu.Lock(); defer nw.mu.Unlock(); return nw.dials }, m.head, stream, verifh.Pick(r, []int{1, 5, 64, 4096}), false, nw.closeAll, cc)
		c03Between = nil
		nw.closeAll()
		callerName := cc.name()
		if stream {
			callerName = "stream"
		}
		s.Count("caller:" + callerName)
		impl := obs.first + " | " + obs.second + " dials=" + strconv.Itoa(obs.dials)
		ok, why := true, ""
		if obs.first != "ok code="+strconv.Itoa(m.code)+" body="+verifh.Hex(m.body) {
			ok, why = false, "the first response (complete, surplus behind it) was not delivered as it is: "+obs.firstErr
		}
		if !obs.secondOK {
			ok, why = false, "the next request on the same client was not answered by the legitimate response: "+obs.secondNote
		}
		if surplus != "" && obs.dials != 2 {
			ok, why = false, fmt.Sprintf("unsolicited bytes on the connection, yet %d dial(s) in total: the connection served the next request", obs.dials)
		}
		if surplus == "" && mode == "hold" && obs.dials != 1 {
			ok, why = false, "a clean keep-alive connection was not reused"
		}
		if !ok {
			failures++
		}
		reached["surplus:"+sname]++
		reached["mode:"+mode]++
		reached["framing:"+m.framing]++
		s.Count("surplus:" + sname)
		s.Count("mode:" + mode)
		s.Count("framing:" + m.framing)
		s.Count("dials:" + strconv.Itoa(obs.dials))
		mtag := "G"
		if m.head {
			mtag = "H"
		}
		human := fmt.Sprintf("%s framing=%s len=%d + surplus %s (%d bytes) peer then %s (caller=%s) -> %s | err=%s", mtag, m.framing, len(m.stream), sname, len(surplus), mode, callerName, impl, obs.firstErr)
		if why != "" {
			human += " ORACLE: " + why
		}
		s.Case("c03over "+mtag+" "+verifh.Hex(seg)+" "+mode+" "+verifh.Hex(string(c03SecondWire)), impl, ok, "", surplus != "", human)
	}
	s.Finish()
	if failures >= 12 {
		return
	}
	for _, need := range []string{"surplus:none", "surplus:one-byte", "surplus:crlf", "surplus:junk", "surplus:response", "surplus:response-same-length", "surplus:response-identical", "surplus:partial-head", "surplus:extra-chunk", "surplus:two-responses", "mode:hold", "mode:eof", "framing:len", "framing:chunked", "framing:none"} {
		if reached[need] == 0 {
			t.Errorf("C03/h1over never reached %q", need)
		}
	}
}
