//go:build verif

package req

import (
	"bufio"
	"bytes"
	"encoding/binary"
	"fmt"
	"io"
	"net"
	"strconv"
	"strings"
	"sync"
	"testing"
	"time"

	"github.com/imroc/req/v3/internal/verifh"
	"golang.org/x/net/http2/hpack"
)

// TestVerif_C07_h1idle: what a server writes on an IDLE keep-alive connection (after a complete
// exchange) must not crash or wedge anything: the next request on the same client returns.
func TestVerif_C07_h1idle(t *testing.T) {
	s := verifh.New(t, "C07", "h1idle",
		"request 1 answered normally on a keep-alive connection, then the server writes unsolicited bytes on the idle connection (every prefix length 1..40 of 'HTTP/1.1 408 Request Timeout…', of 'HTTP/1.0 400…', partial status lines, garbage, NULs, a complete unsolicited response, a 1xx), keeps it open or closes it; then request 2 on the same client. Oracle: both calls return within 15 s (request 2 with a response: the peer answers every well-formed request), no panic; a crash of the process (background read loop) is reported by bin/check; every case non-trivial")
	ln, err := net.Listen("tcp", "127.0.0.1:0")
	if err != nil {
		t.Fatal(err)
	}
	defer ln.Close()
	var mu sync.Mutex
	unsolicited := map[string][]byte{} // path of request 1 -> bytes to write after answering it
	closeAfter := map[string]bool{}
	go func() {
		for {
			c, err := ln.Accept()
			if err != nil {
				return
			}
			go func(c net.Conn) {
				defer c.Close()
				br := bufio.NewReader(c)
				for {
					c.SetDeadline(time.Now().Add(20 * time.Second))
					line, err := br.ReadString('\n')
					if err != nil {
						return
					}
					for {
						h, err := br.ReadString('\n')
						if err != nil {
							return
						}
						if h == "\r\n" {
							break
						}
					}
					parts := strings.Split(line, " ")
					if len(parts) < 2 {
						return
					}
					path := parts[1]
					c.Write([]byte("HTTP/1.1 200 OK\r\nContent-Type: application/json\r\nContent-Length: 2\r\n\r\n{}"))
					mu.Lock()
					u, ok := unsolicited[path]
					cl := closeAfter[path]
					mu.Unlock()
					if ok {
						time.Sleep(30 * time.Millisecond) // let the client park the connection
						c.Write(u)
						if cl {
							time.Sleep(30 * time.Millisecond)
							return
						}
					}
				}
			}(c)
		}
	}()
	base := "http://" + ln.Addr().String()
	var payloads []string
	for _, full := range []string{"HTTP/1.1 408 Request Timeout\r\nConnection: close\r\n\r\n", "HTTP/1.0 400 Bad Request\r\n\r\n", "HTTP/1.1 200 OK\r\nContent-Length: 0\r\n\r\n", "HTTP/1.1 100 Continue\r\n\r\n", "HTTP/1.x 408", "HTTP/1. 408 ", "HTTP/1.1408"} {
		for k := 1; k <= len(full) && k <= 40; k++ {
			payloads = append(payloads, full[:k])
		}
	}
	payloads = append(payloads, "\x00", "\r\n", "\r\n\r\n", "garbage", strings.Repeat("x", 5000), "HTTP/2.0 408", "HTTP/1.\x00 408", "\xff\xfe\xfd")
	n := len(payloads)
	if !verifh.Thorough() {
		// quick tier: a deterministic stratified subset (all short prefixes, then every third)
		var sub []string
		for i, p := range payloads {
			if len(p) <= 14 || i%3 == int(verifh.Seed()%3) {
				sub = append(sub, p)
			}
		}
		payloads = sub
	}
	// the cases are independent (each worker has its own client and therefore its own connections):
	// run them on a few workers, record the verdicts afterwards in case order
	type icase struct {
		p         string
		cl        bool
		path      string
		id, human string
		res       string
	}
	var cases []*icase
	for i, p := range payloads {
		for _, cl := range []bool{false, true} {
			path := fmt.Sprintf("/i%d-%v", i, cl)
			mu.Lock()
			unsolicited[path] = []byte(p)
			closeAfter[path] = cl
			mu.Unlock()
			cases = append(cases, &icase{p: p, cl: cl, path: path,
				human: fmt.Sprintf("unsolicited %q on the idle connection (then close=%v), then a second request", p, cl),
				id:    "h1idle:" + verifh.Hex(p) + ":" + strconv.FormatBool(cl)})
		}
	}
	const workers = 6
	var wg sync.WaitGroup
	next := make(chan *icase)
	for w := 0; w < workers; w++ {
		wg.Add(1)
		go func() {
			defer wg.Done()
			c := C().SetTimeout(10 * time.Second).SetLogger(nil)
			defer func() { c.GetTransport().CloseIdleConnections() }()
			for ic := range next {
				s.Begin(ic.id, ic.human)
				path := ic.path
				done := make(chan string, 1)
				go func() {
					ptxt, panicked := verifh.Safely(func() {
						r1, err1 := c.R().Get(base + path)
						if err1 != nil || r1 == nil || r1.StatusCode != 200 {
							done <- fmt.Sprintf("first-failed: %v", err1)
							return
						}
						time.Sleep(80 * time.Millisecond) // the unsolicited bytes arrive while the connection is idle
						var err2 error
						for try := 0; try < 3; try++ { // the peer may be closing the connection concurrently: a retry is legitimate
							var r2 *Response
							r2, err2 = c.R().Get(base + "/second")
							if err2 == nil && r2 != nil && r2.StatusCode == 200 {
								done <- "ok"
								return
							}
						}
						done <- fmt.Sprintf("second-failed: %v", err2)
					})
					if panicked {
						done <- "panic: " + ptxt
					}
				}()
				select {
				case ic.res = <-done:
				case <-time.After(40 * time.Second):
					ic.res = "wedged"
				}
				if ic.res == "wedged" {
					c = C().SetTimeout(10 * time.Second).SetLogger(nil)
				}
			}
		}()
	}
	for _, ic := range cases {
		next <- ic
	}
	close(next)
	wg.Wait()
	for _, ic := range cases {
		s.Count(strings.SplitN(ic.res, ":", 2)[0])
		s.Observe(ic.id, ic.res == "ok", "", true, ic.human, ic.human+" -> "+ic.res)
	}
	_ = n
	s.Finish()
}

// ---------------------------------------------------------------- HTTP/2 GOAWAY sequences, connection kept open

// TestVerif_C07_h2goaway: GOAWAY sequences after which the server KEEPS THE CONNECTION OPEN.
// A stream above the last-stream-id must be aborted (and, for this replayable GET, retried on a
// new connection) promptly — the caller must not sit until its timeout, let alone for ever.
func TestVerif_C07_h2goaway(t *testing.T) {
	s := verifh.New(t, "C07", "h2goaway",
		"one GET on a fresh prior-knowledge HTTP/2 connection; the peer answers with a GOAWAY sequence (single / repeated with descending, equal, ascending last-stream-id; NO_ERROR / error codes; with debug data; before or after response HEADERS; interleaved PING/SETTINGS) that leaves the request's stream above the final last-stream-id, and then keeps the connection open and silent; later connections are answered normally. Oracle: the call returns within 8 s (client timeout 20 s) with a response (retried) or an error, no panic; every case non-trivial")
	ln, err := net.Listen("tcp", "127.0.0.1:0")
	if err != nil {
		t.Fatal(err)
	}
	defer ln.Close()
	var mu sync.Mutex
	scripts := map[string][]byte{}
	served := map[string]int{}
	var conns []net.Conn
	defer func() {
		mu.Lock()
		for _, c := range conns {
			c.Close()
		}
		mu.Unlock()
	}()
	go func() {
		for {
			c, err := ln.Accept()
			if err != nil {
				return
			}
			mu.Lock()
			conns = append(conns, c)
			mu.Unlock()
			go func(c net.Conn) {
				c.SetDeadline(time.Now().Add(60 * time.Second))
				preface := make([]byte, 24)
				if _, err := io.ReadFull(c, preface); err != nil {
					return
				}
				c.Write(c07Frame{-1, 4, 0, 0, nil}.bytes())
				dec := hpack.NewDecoder(4096, nil)
				hdr := make([]byte, 9)
				for {
					if _, err := io.ReadFull(c, hdr); err != nil {
						return
					}
					l := int(hdr[0])<<16 | int(hdr[1])<<8 | int(hdr[2])
					typ, flags := hdr[3], hdr[4]
					sid := binary.BigEndian.Uint32(hdr[5:]) & 0x7fffffff
					pl := make([]byte, l)
					if _, err := io.ReadFull(c, pl); err != nil {
						return
					}
					if typ == 4 && flags&1 == 0 {
						c.Write(c07Frame{-1, 4, 1, 0, nil}.bytes())
					}
					if typ != 1 {
						continue
					}
					if flags&0x20 != 0 && len(pl) >= 5 {
						pl = pl[5:]
					}
					fs, _ := dec.DecodeFull(pl)
					path := ""
					for _, f := range fs {
						if f.Name == ":path" {
							path = f.Value
						}
					}
					mu.Lock()
					sc, ok := scripts[path]
					served[path]++
					first := served[path] == 1
					mu.Unlock()
					if ok && first {
						c.Write(sc) // … and stay silent with the connection open
						continue
					}
					var out bytes.Buffer
					out.Write(c07Frame{-1, 1, 0x4, sid, c07Hpack([2]string{":status", "200"}, [2]string{"content-type", "application/json"})}.bytes())
					out.Write(c07Frame{-1, 0, 1, sid, []byte("{}")}.bytes())
					c.Write(out.Bytes())
				}
			}(c)
		}
	}()
	base := "http://" + ln.Addr().String()
	goaway := func(last uint32, code uint32, debug string) []byte {
		return c07Frame{-1, 7, 0, 0, append(append(c07U32(last), c07U32(code)...), debug...)}.bytes()
	}
	const maxID = 1<<31 - 1
	type gcase struct {
		name string
		data []byte
	}
	cat := func(bs ...[]byte) []byte { return bytes.Join(bs, nil) }
	headers := c07Frame{-1, 1, 0x4, 1, c07Hpack([2]string{":status", "200"})}.bytes()
	ping := c07Frame{-1, 6, 0, 0, []byte("12345678")}.bytes()
	cases := []gcase{
		{"goaway(0,NO_ERROR)", goaway(0, 0, "")},
		{"goaway(max,NO_ERROR) then goaway(0,NO_ERROR)", cat(goaway(maxID, 0, ""), goaway(0, 0, ""))},
		{"goaway(max) ping goaway(0)", cat(goaway(maxID, 0, "shutting down"), ping, goaway(0, 0, ""))},
		{"goaway(max) goaway(max) goaway(0)", cat(goaway(maxID, 0, ""), goaway(maxID, 0, ""), goaway(0, 0, "bye"))},
		{"goaway(5) then goaway(0)", cat(goaway(5, 0, ""), goaway(0, 0, ""))},
		{"goaway(max,NO_ERROR) then goaway(0,ENHANCE_YOUR_CALM)", cat(goaway(maxID, 0, ""), goaway(0, 11, "calm"))},
		{"goaway(0,PROTOCOL_ERROR)", goaway(0, 1, "")},
		{"goaway(0,INTERNAL_ERROR) with debug", goaway(0, 2, strings.Repeat("d", 300))},
		{"goaway(max) settings goaway(0)", cat(goaway(maxID, 0, ""), c07Frame{-1, 4, 0, 0, c07Setting(3, 100)}.bytes(), goaway(0, 0, ""))},
		{"headers then goaway(max) then goaway(0)", cat(headers, goaway(maxID, 0, ""), goaway(0, 0, ""))},
		{"goaway(0) then goaway(max) (ascending: illegal)", cat(goaway(0, 0, ""), goaway(maxID, 0, ""))},
		{"goaway(0) twice", cat(goaway(0, 0, ""), goaway(0, 0, ""))},
	}
	for i, gc := range cases {
		path := "/g" + strconv.Itoa(i)
		mu.Lock()
		scripts[path] = gc.data
		mu.Unlock()
		c := C().SetTimeout(20 * time.Second).EnableH2C().EnableForceHTTP2().SetLogger(nil)
		id := "h2goaway:" + gc.name
		s.Begin(id, gc.name)
		done := make(chan string, 1)
		t0 := time.Now()
		go func() {
			ptxt, panicked := verifh.Safely(func() {
				rp, err := c.R().Get(base + path)
				switch {
				case rp == nil:
					done <- "nil-response"
				case err != nil:
					done <- "error"
				default:
					done <- "response"
				}
			})
			if panicked {
				done <- "panic: " + ptxt
			}
		}()
		var res string
		select {
		case res = <-done:
		case <-time.After(8 * time.Second):
			res = "not-within-8s"
		}
		s.Count(strings.SplitN(res, ":", 2)[0])
		ok := res == "response" || res == "error"
		s.Observe(id, ok, "", true, fmt.Sprintf("%s -> %s after %v", gc.name, res, time.Since(t0).Round(100*time.Millisecond)),
			fmt.Sprintf("%s: the stream is above the final last-stream-id and the peer keeps the connection open; the call must end promptly but: %s", gc.name, res))
		c.GetTransport().CloseIdleConnections()
	}
	s.Finish()
}
