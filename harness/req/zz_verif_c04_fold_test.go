//go:build verif

package req

// C04 — the `unicode-fold` family (round 6): non-ASCII look-alikes inside EVERY token the response
// reader compares case-insensitively or parses as a number.  HTTP/1 tokens are ASCII; the reader
// (fork and reference alike) compares with internal/ascii.EqualFold / byte tables, so a value
// that equals a token only under Unicode case folding (strings.EqualFold, strings.ToLower,
// strings.ToUpper, unicode.SimpleFold), under width folding (NFKC) or under unicode.IsDigit-style
// digit values is a DIFFERENT token: "chunKed" is an unsupported transfer coding, "cloſe" is not
// `close`, "５" is not a Content-Length.  The look-alikes are legal header bytes (obs-text),
// so nothing else in the message rejects them first.
//
// The runes (complete for Go's unicode tables as far as ASCII targets go):
//   U+212A KELVIN SIGN      simple-folds / lower-cases to 'k'
//   U+017F LONG S           simple-folds / upper-cases to 'S'
//   U+0130 I WITH DOT ABOVE lower-cases to 'i'          U+0131 DOTLESS I upper-cases to 'I'
//   U+FF21.. / U+FF41..     fullwidth letters (NFKC → ASCII)
//   digits: fullwidth U+FF10.., Arabic-Indic U+0660.., extended Arabic-Indic U+06F0..,
//           Devanagari U+0966.., mathematical bold U+1D7CE.. (4-byte), superscripts ¹²³

import (
	"math/rand"
	"strings"
)

// c04Lookalikes: the non-ASCII UTF-8 strings some Unicode-aware comparison maps onto ASCII byte c.
func c04Lookalikes(c byte) []string {
	var out []string
	lc := c | 0x20
	switch {
	case lc >= 'a' && lc <= 'z':
		switch lc {
		case 'k':
			out = append(out, "K")
		case 's':
			out = append(out, "ſ")
		case 'i':
			out = append(out, "İ", "ı")
		}
		out = append(out, string(rune(0xff41+int(lc-'a'))), string(rune(0xff21+int(lc-'a'))))
	case c >= '0' && c <= '9':
		d := int(c - '0')
		out = append(out, string(rune(0xff10+d)), string(rune(0x0660+d)), string(rune(0x06f0+d)), string(rune(0x0966+d)), string(rune(0x1d7ce+d)))
		switch d {
		case 1:
			out = append(out, "¹")
		case 2:
			out = append(out, "²")
		case 3:
			out = append(out, "³")
		}
	case c == '-':
		out = append(out, "‐", "－") // HYPHEN, FULLWIDTH HYPHEN-MINUS
	case c == '/':
		out = append(out, "／")
	case c == '.':
		out = append(out, "．")
	}
	return out
}

// c04FoldVariants: tok with ONE position replaced by each of its look-alikes (the other bytes as
// they are, upper-cased, and lower-cased), plus tok with every position replaced (fullwidth).
func c04FoldVariants(tok string) []string {
	seen := map[string]bool{}
	var out []string
	add := func(s string) {
		if !seen[s] && s != tok {
			seen[s] = true
			out = append(out, s)
		}
	}
	for i := 0; i < len(tok); i++ {
		for _, l := range c04Lookalikes(tok[i]) {
			add(tok[:i] + l + tok[i+1:])
			add(strings.ToUpper(tok[:i]) + l + strings.ToUpper(tok[i+1:]))
			add(strings.ToLower(tok[:i]) + l + strings.ToLower(tok[i+1:]))
		}
	}
	all := "" // the whole token in fullwidth forms (U+FF01..U+FF5E = ASCII 0x21..0x7E + 0xFEE0)
	for i := 0; i < len(tok); i++ {
		if tok[i] > 0x20 && tok[i] < 0x7f {
			all += string(rune(0xfee0 + int(tok[i])))
		} else {
			all += tok[i : i+1]
		}
	}
	add(all)
	return out
}

// c04UnicodeFold: every token / number of the response grammar under every look-alike
// substitution, each in an otherwise clean message followed by a second clean message (so a
// changed framing shows in body, rest and verdict).
func c04UnicodeFold() []c04SF {
	var out []c04SF
	add := func(table, stream string) { out = append(out, c04SF{"unicode-fold:" + table, stream}) }
	const chunkedBody = "5\r\nhello\r\n0\r\n\r\n"
	rest := "HTTP/1.1 200 OK\r\nContent-Length: 2\r\n\r\nhi"
	// Transfer-Encoding value
	for _, v := range c04FoldVariants("chunked") {
		for _, proto := range []string{"HTTP/1.1", "HTTP/2.0", "HTTP/1.0"} {
			add("te", proto+" 200 OK\r\nTransfer-Encoding: "+v+"\r\n\r\n"+chunkedBody+rest)
		}
		add("te+cl", "HTTP/1.1 200 OK\r\nContent-Length: 5\r\nTransfer-Encoding: "+v+"\r\n\r\nhello"+rest)
		add("te-2nd", "HTTP/1.1 200 OK\r\nTransfer-Encoding: chunked\r\nTransfer-Encoding: "+v+"\r\n\r\n"+chunkedBody+rest)
	}
	for _, v := range c04FoldVariants("identity") {
		add("te-identity", "HTTP/1.1 200 OK\r\nTransfer-Encoding: "+v+"\r\nContent-Length: 5\r\n\r\nhello"+rest)
	}
	// Connection tokens: close on 1.1, keep-alive on 1.0 (decisive each), alone and in a list
	for _, v := range c04FoldVariants("close") {
		add("connection", "HTTP/1.1 200 OK\r\nConnection: "+v+"\r\nContent-Length: 5\r\n\r\nhello"+rest)
		add("connection-list", "HTTP/1.1 200 OK\r\nConnection: x, "+v+"\r\nContent-Length: 5\r\n\r\nhello"+rest)
		add("connection-1.0", "HTTP/1.0 200 OK\r\nConnection: keep-alive, "+v+"\r\nContent-Length: 5\r\n\r\nhello"+rest)
	}
	for _, v := range c04FoldVariants("keep-alive") {
		add("keep-alive", "HTTP/1.0 200 OK\r\nConnection: "+v+"\r\nContent-Length: 5\r\n\r\nhello"+rest)
		add("keep-alive-list", "HTTP/1.0 200 OK\r\nConnection: x ,"+v+"\r\nContent-Length: 5\r\n\r\nhello"+rest)
	}
	for _, v := range c04FoldVariants("upgrade") {
		add("upgrade", "HTTP/1.1 101 Switching Protocols\r\nConnection: "+v+"\r\nUpgrade: x\r\n\r\nraw")
	}
	// field names the framing code looks up (a non-ASCII byte is not a token byte: the line is
	// malformed for the reference)
	for _, n := range []string{"Transfer-Encoding", "Content-Length", "Connection", "Trailer", "Pragma"} {
		val := map[string]string{"Transfer-Encoding": "chunked", "Content-Length": "5", "Connection": "close", "Trailer": "X-T", "Pragma": "no-cache"}[n]
		for _, k := range c04FoldVariants(n) {
			if n == "Transfer-Encoding" {
				add("name-te", "HTTP/1.1 200 OK\r\n"+k+": "+val+"\r\n\r\n"+chunkedBody+rest)
			} else {
				add("name", "HTTP/1.1 200 OK\r\n"+k+": "+val+"\r\nContent-Length: 5\r\n\r\nhello"+rest)
			}
		}
	}
	// Pragma / Cache-Control
	for _, v := range c04FoldVariants("no-cache") {
		add("pragma", "HTTP/1.1 200 OK\r\nPragma: "+v+"\r\nContent-Length: 5\r\n\r\nhello"+rest)
	}
	// Trailer declarations naming a forbidden key, trailer-section keys
	for _, n := range []string{"Content-Length", "Transfer-Encoding", "Trailer"} {
		for _, k := range c04FoldVariants(n) {
			add("trailer-decl", "HTTP/1.1 200 OK\r\nTransfer-Encoding: chunked\r\nTrailer: "+k+"\r\n\r\n"+chunkedBody+rest)
			add("trailer-key", "HTTP/1.1 200 OK\r\nTransfer-Encoding: chunked\r\n\r\n5\r\nhello\r\n0\r\n"+k+": 1\r\n\r\n"+rest)
		}
	}
	// numbers: Content-Length, status code, version, chunk sizes
	for _, v := range []string{"5", "05", "15", "10"} {
		body := strings.Repeat("h", 15)
		for _, k := range c04FoldVariants(v) {
			add("cl", "HTTP/1.1 200 OK\r\nContent-Length: "+k+"\r\n\r\n"+body+rest)
			add("cl-dup", "HTTP/1.1 200 OK\r\nContent-Length: "+v+"\r\nContent-Length: "+k+"\r\n\r\n"+body+rest)
		}
	}
	for _, code := range []string{"200", "204", "101", "304"} {
		for _, k := range c04FoldVariants(code) {
			add("code", "HTTP/1.1 "+k+" OK\r\nContent-Length: 5\r\n\r\nhello"+rest)
		}
	}
	for _, p := range []string{"HTTP/1.1", "HTTP/1.0", "http/1.1"} {
		for _, k := range c04FoldVariants(p) {
			add("proto", k+" 200 OK\r\nContent-Length: 5\r\n\r\nhello"+rest)
			add("proto-te", k+" 200 OK\r\nTransfer-Encoding: chunked\r\n\r\n"+chunkedBody+rest)
		}
	}
	for _, sz := range []string{"5", "05", "a", "A", "1f"} {
		n := map[string]int{"5": 5, "05": 5, "a": 10, "A": 10, "1f": 31}[sz]
		for _, k := range c04FoldVariants(sz) {
			add("chunk-size", "HTTP/1.1 200 OK\r\nTransfer-Encoding: chunked\r\n\r\n"+k+"\r\n"+strings.Repeat("d", n)+"\r\n0\r\n\r\n"+rest)
		}
	}
	for _, k := range c04FoldVariants("0") {
		add("last-chunk", "HTTP/1.1 200 OK\r\nTransfer-Encoding: chunked\r\n\r\n5\r\nhello\r\n"+k+"\r\n\r\n"+rest)
	}
	return out
}

// c04FoldMutate: ONE letter / digit / '-' of the head (or of the first bytes of the body: chunk
// size lines) replaced by one of its look-alikes.  ok = false when the window holds no such byte.
func c04FoldMutate(r *rand.Rand, s string) (string, bool) {
	lim := len(s)
	if i := strings.Index(s, "\n\r\n"); i >= 0 && i+24 < lim {
		lim = i + 24
	} else if lim > 300 {
		lim = 300
	}
	var pos []int
	for i := 0; i < lim; i++ {
		if len(c04Lookalikes(s[i])) > 0 {
			pos = append(pos, i)
		}
	}
	if len(pos) == 0 {
		return s, false
	}
	p := pos[r.Intn(len(pos))]
	ls := c04Lookalikes(s[p])
	return s[:p] + ls[r.Intn(len(ls))] + s[p+1:], true
}
