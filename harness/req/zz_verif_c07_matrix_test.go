//go:build verif

package req

// C07 round 4 — byte-position matrix.
//
// For every syntactic position of the server-controlled HTTP/1.x grammar (status line parts, header
// field name / value / continuation line, numeric and token header values, chunk-size line, chunk
// extension, chunk data terminator, trailer name / value) EVERY byte value 0x00..0xff is put there
// once.
//
//   - h1pos     in-package: persistConn._readResponse + body drain on an in-memory connection,
//               compared with the Lean model (H1.parseResponse); a panic is recovered and is a
//               disagreement with a total model (the replay carries the exact stream);
//   - token     validHeaderFieldByte / validHeaderValueByte on all 256 bytes vs the guarded table
//               model (C07.Token);
//   - h1wire    the same streams plus header-specific value positions (Alt-Svc, Content-Type,
//               Content-Encoding, Content-Disposition, Location, Set-Cookie, WWW-Authenticate,
//               Content-Length, Retry-After, Connection, Trailer) and body positions the charset sniffer reads (first
//               bytes / BOMs, every offset of a <meta> / <?xml?> declaration) through real clients over TCP/TLS:
//               background goroutines (readLoop) included; oracle = returns response-or-error, no
//               panic; a dying process is reported by bin/check with the case that was running.

import (
	"bufio"
	"bytes"
	"fmt"
	"io"
	"net"
	"net/http"
	"strconv"
	"strings"
	"testing"
	"time"

	"github.com/imroc/req/v3/internal/verifh"
)

// ---------------------------------------------------------------------------- positions

type c07Pos struct {
	name  string
	group string // "name" positions get all 256 byte values in every tier
	build func(b byte) []byte
}

func c07Ins(pre string, post string) func(b byte) []byte {
	return func(b byte) []byte {
		out := make([]byte, 0, len(pre)+1+len(post))
		out = append(out, pre...)
		out = append(out, b)
		return append(out, post...)
	}
}

// c07H1Positions: the matrix rows. Each builder returns a complete response stream (the
// connection then ends).
func c07H1Positions() []c07Pos {
	const ok = "HTTP/1.1 200 OK\r\n"
	const cl5 = "Content-Length: 5\r\n\r\nhello"
	chunkHead := ok + "Transfer-Encoding: chunked\r\nTrailer: X-T\r\n\r\n"
	return []c07Pos{
		// status line
		{"sl-proto-first", "status", c07Ins("", "TTP/1.1 200 OK\r\n"+cl5)},
		{"sl-proto-major", "status", c07Ins("HTTP/", ".1 200 OK\r\n"+cl5)},
		{"sl-proto-minor", "status", c07Ins("HTTP/1.", " 200 OK\r\n"+cl5)},
		{"sl-sep", "status", c07Ins("HTTP/1.1", "200 OK\r\n"+cl5)},
		{"sl-code-first", "status", c07Ins("HTTP/1.1 ", "00 OK\r\n"+cl5)},
		{"sl-code-mid", "status", c07Ins("HTTP/1.1 2", "0 OK\r\n"+cl5)},
		{"sl-code-last", "status", c07Ins("HTTP/1.1 20", " OK\r\n"+cl5)},
		{"sl-code-extra", "status", c07Ins("HTTP/1.1 200", " OK\r\n"+cl5)},
		{"sl-after-code", "status", c07Ins("HTTP/1.1 200", "OK\r\n"+cl5)},
		{"sl-reason", "status", c07Ins("HTTP/1.1 200 O", "K\r\n"+cl5)},
		{"sl-cr", "status", c07Ins("HTTP/1.1 200 OK", "\n"+cl5)},
		{"sl-lf", "status", c07Ins("HTTP/1.1 200 OK\r", cl5)},
		{"sl-1xx-code", "status", c07Ins("HTTP/1.1 1", "0 Continue\r\n\r\n"+ok+cl5)},
		// header field name
		{"hn-first", "name", c07Ins(ok, "-Name: v\r\n"+cl5)},
		{"hn-mid", "name", c07Ins(ok+"X-", "Name: v\r\n"+cl5)},
		{"hn-last", "name", c07Ins(ok+"X-Name", ": v\r\n"+cl5)},
		{"hn-only", "name", c07Ins(ok, ": v\r\n"+cl5)},
		{"hn-second-line", "name", c07Ins(ok+"A: b\r\nX-", "Name: v\r\n"+cl5)},
		{"hn-colon", "name", c07Ins(ok+"X-Name", " v\r\n"+cl5)},
		{"hn-1xx", "name", c07Ins("HTTP/1.1 103 Early Hints\r\nLi", "nk: </x>\r\n\r\n"+ok+cl5)},
		{"hn-known", "name", c07Ins(ok+"Content-Typ", ": text/plain\r\n"+cl5)},
		// header field value
		{"hv-first", "value", c07Ins(ok+"X-Name:", "v\r\n"+cl5)},
		{"hv-mid", "value", c07Ins(ok+"X-Name: a", "c\r\n"+cl5)},
		{"hv-last", "value", c07Ins(ok+"X-Name: v", "\r\n"+cl5)},
		{"hv-cr", "value", c07Ins(ok+"X-Name: v", "\n"+cl5)},
		{"hv-lf", "value", c07Ins(ok+"X-Name: v\r", cl5)},
		// continuation (obs-fold) lines
		{"fold-first", "fold", c07Ins(ok+"X-Name: v\r\n", "cont\r\n"+cl5)},
		{"fold-after-ws", "fold", c07Ins(ok+"X-Name: v\r\n ", "cont\r\n"+cl5)},
		{"fold-first-header", "fold", c07Ins(ok, "X-Name: v\r\n"+cl5)},
		{"end-of-block", "fold", c07Ins(ok+"X-Name: v\r\n", "\n"+"hello")},
		// numerics and tokens the transfer layer parses
		{"cl-first", "numeric", c07Ins(ok+"Content-Length: ", "5\r\n\r\nhello")},
		{"cl-mid", "numeric", c07Ins(ok+"Content-Length: 0", "5\r\n\r\nhello")},
		{"cl-last", "numeric", c07Ins(ok+"Content-Length: 5", "\r\n\r\nhello")},
		{"cl-dup", "numeric", c07Ins(ok+"Content-Length: 5\r\nContent-Length: ", "\r\n\r\nhello")},
		{"te-first", "numeric", c07Ins(ok+"Transfer-Encoding: ", "chunked\r\n\r\n5\r\nhello\r\n0\r\n\r\n")},
		{"te-last", "numeric", c07Ins(ok+"Transfer-Encoding: chunked", "\r\n\r\n5\r\nhello\r\n0\r\n\r\n")},
		{"conn-value", "numeric", c07Ins(ok+"Connection: clos", "\r\n"+cl5)},
		{"trailer-decl", "numeric", c07Ins(ok+"Transfer-Encoding: chunked\r\nTrailer: X-", "T\r\n\r\n5\r\nhello\r\n0\r\nX-T: 1\r\n\r\n")},
		// chunked body
		{"cs-first", "chunk", c07Ins(chunkHead, "\r\nhello\r\n0\r\n\r\n")},
		{"cs-second", "chunk", c07Ins(chunkHead+"0", "\r\nhello\r\n0\r\n\r\n")},
		{"cs-after", "chunk", c07Ins(chunkHead+"5", "\r\nhello\r\n0\r\n\r\n")},
		{"cs-cr", "chunk", c07Ins(chunkHead+"5", "\nhello\r\n0\r\n\r\n")},
		{"cs-lf", "chunk", c07Ins(chunkHead+"5\r", "hello\r\n0\r\n\r\n")},
		{"ce-first", "chunk", c07Ins(chunkHead+"5;", "\r\nhello\r\n0\r\n\r\n")},
		{"ce-mid", "chunk", c07Ins(chunkHead+"5;e", "=x\r\nhello\r\n0\r\n\r\n")},
		{"ce-quoted", "chunk", c07Ins(chunkHead+"5;e=\"", "\"\r\nhello\r\n0\r\n\r\n")},
		{"cd-cr", "chunk", c07Ins(chunkHead+"5\r\nhello", "\n0\r\n\r\n")},
		{"cd-lf", "chunk", c07Ins(chunkHead+"5\r\nhello\r", "0\r\n\r\n")},
		{"last-chunk", "chunk", c07Ins(chunkHead+"5\r\nhello\r\n", "\r\n\r\n")},
		{"last-chunk-after", "chunk", c07Ins(chunkHead+"5\r\nhello\r\n0", "\r\n\r\n")},
		// trailers
		{"tn-first", "name", c07Ins(chunkHead+"5\r\nhello\r\n0\r\n", "-T: 1\r\n\r\n")},
		{"tn-mid", "name", c07Ins(chunkHead+"5\r\nhello\r\n0\r\nX", "T: 1\r\n\r\n")},
		{"tn-last", "name", c07Ins(chunkHead+"5\r\nhello\r\n0\r\nX-T", ": 1\r\n\r\n")},
		{"tn-only", "name", c07Ins(chunkHead+"5\r\nhello\r\n0\r\n", ": 1\r\n\r\n")},
		{"tv-mid", "value", c07Ins(chunkHead+"5\r\nhello\r\n0\r\nX-T: a", "c\r\n\r\n")},
		{"t-end", "value", c07Ins(chunkHead+"5\r\nhello\r\n0\r\nX-T: 1\r\n", "\n")},
	}
}

// c07ByteSet: the byte values tried at a position. Thorough: all 256. Quick: all 256 for field-name
// positions; elsewhere every control byte, DEL, the first/last bytes of each UTF-8 class, every
// delimiter of the grammars involved, digit/hex/alpha boundaries, plus a seed-dependent eighth of
// the rest.
func c07ByteSet(all bool) []byte {
	var out []byte
	if all {
		for i := 0; i < 256; i++ {
			out = append(out, byte(i))
		}
		return out
	}
	pick := map[byte]bool{}
	for i := 0; i <= 0x20; i++ {
		pick[byte(i)] = true
	}
	for _, c := range []byte("\"#%&'()*+,-./09:;<=>?@AFGZ[\\]^_`afgz{|}~") {
		pick[c] = true
	}
	for _, c := range []byte{0x7f, 0x80, 0x81, 0x85, 0x9f, 0xa0, 0xbf, 0xc0, 0xc1, 0xc2, 0xdf, 0xe0, 0xe2, 0xef, 0xf0, 0xf4, 0xf5, 0xfe, 0xff} {
		pick[c] = true
	}
	sh := int(verifh.Seed() % 8)
	for i := 0; i < 256; i++ {
		if i%8 == sh {
			pick[byte(i)] = true
		}
	}
	for i := 0; i < 256; i++ {
		if pick[byte(i)] {
			out = append(out, byte(i))
		}
	}
	return out
}

func inSet(set []byte, b byte) bool {
	for _, x := range set {
		if x == b {
			return true
		}
	}
	return false
}

// ---------------------------------------------------------------------------- in-memory run

type c07MemConn struct {
	data []byte
	pos  int
	seg  int // bytes per Read (0 = as many as asked for)
	cut  int // > 0: no Read crosses this offset (the stream arrives in two segments)
	// hold != nil: the peer keeps the connection OPEN after the last byte: Read blocks (until
	// hold is closed by the watchdog) instead of reporting EOF
	hold chan struct{}
}

func (c *c07MemConn) Read(p []byte) (int, error) {
	if c.pos >= len(c.data) {
		if c.hold != nil {
			<-c.hold
		}
		return 0, io.EOF
	}
	if len(p) == 0 {
		return 0, nil
	}
	n := len(c.data) - c.pos
	if c.seg > 0 && n > c.seg {
		n = c.seg
	}
	if c.cut > c.pos && n > c.cut-c.pos {
		n = c.cut - c.pos
	}
	if n > len(p) {
		n = len(p)
	}
	copy(p, c.data[c.pos:c.pos+n])
	c.pos += n
	return n, nil
}
func (c *c07MemConn) Write(p []byte) (int, error)        { return len(p), nil }
func (c *c07MemConn) Close() error                       { return nil }
func (c *c07MemConn) LocalAddr() net.Addr                { return &net.TCPAddr{} }
func (c *c07MemConn) RemoteAddr() net.Addr               { return &net.TCPAddr{} }
func (c *c07MemConn) SetDeadline(t time.Time) error      { return nil }
func (c *c07MemConn) SetReadDeadline(t time.Time) error  { return nil }
func (c *c07MemConn) SetWriteDeadline(t time.Time) error { return nil }

func c07CountVals(h map[string][]string) int {
	n := 0
	for _, v := range h {
		n += len(v)
	}
	return n
}

// c07ReadOne runs the fork's response reader on the stream: _readResponse, then the body to its
// end; the answer is the outcome CLASS the driver lane c07h1pos renders.
func c07ReadOne(stream []byte, method string, B, seg, readSize int, dumpOn bool) (ans string, panicked bool, ptxt string) {
	return c07ReadConn(&c07MemConn{data: stream, seg: seg}, method, B, readSize, dumpOn)
}

// c07Framed: the outcome class says the message ended by its own framing (no body / length /
// last chunk + trailer section) - nothing after its last byte is needed to finish the call.
func c07Framed(ans string) bool {
	return strings.HasPrefix(ans, "ok ") && strings.Contains(ans, " end=eof ") && !strings.Contains(ans, "framing=close") && !strings.Contains(ans, "framing=?")
}

// c07ReadOpen: the same reader on a connection the peer KEEPS OPEN after the last byte of the
// stream (delivered seg bytes per read, or in two segments split at cut). A reader that waits
// for bytes beyond the end of a self-delimited message never returns: answer "wedge".
func c07ReadOpen(stream []byte, method string, B, seg, cut, readSize int, dumpOn bool) (ans string, panicked bool, ptxt string) {
	conn := &c07MemConn{data: stream, seg: seg, cut: cut, hold: make(chan struct{})}
	type res struct {
		ans, ptxt string
		panicked  bool
	}
	done := make(chan res, 1)
	go func() {
		a, p, t := c07ReadConn(conn, method, B, readSize, dumpOn)
		done <- res{a, t, p}
	}()
	select {
	case r := <-done:
		return r.ans, r.panicked, r.ptxt
	case <-time.After(3 * time.Second):
		close(conn.hold)
		select {
		case <-done:
		case <-time.After(3 * time.Second):
		}
		return "wedge", false, ""
	}
}

func c07ReadConn(conn *c07MemConn, method string, B, readSize int, dumpOn bool) (ans string, panicked bool, ptxt string) {
	stream := conn.data
	ptxt, panicked = verifh.Safely(func() {
		t := &Transport{}
		if dumpOn {
			t.Dump = newDumper(&DumpOptions{Output: io.Discard, ResponseHeader: true, ResponseBody: true})
		}
		pc := &persistConn{t: t, conn: conn}
		pc.br = bufio.NewReaderSize(pc, B)
		pc.readLimit = pc.maxHeaderResponseSize()
		req, _ := http.NewRequest(method, "http://verif.invalid/", nil)
		resp, err := pc._readResponse(req)
		if err != nil || resp == nil {
			ans = "rej"
			return
		}
		pc.readLimit = maxInt64
		framing := "?"
		switch b := resp.Body.(type) {
		case noBody:
			framing = "none"
		case *body:
			switch src := b.src.(type) {
			case *io.LimitedReader:
				framing = "len" + strconv.FormatInt(src.N, 10)
			case *bufio.Reader:
				framing = "close"
			default:
				if strings.Contains(fmt.Sprintf("%T", src), "chunkedReader") {
					framing = "chunked"
				}
			}
		}
		buf := make([]byte, readSize)
		blen := 0
		end := "err"
		for i := 0; ; i++ {
			n, err := resp.Body.Read(buf)
			blen += n
			if err == io.EOF {
				end = "eof"
				break
			}
			if err != nil {
				break
			}
			if i > 4*len(stream)+1000 {
				end = "hang"
				break
			}
		}
		ans = fmt.Sprintf("ok code=%d framing=%s keys=%d vals=%d end=%s blen=%d tr=%d", resp.StatusCode, framing,
			len(resp.Header), c07CountVals(resp.Header), end, blen, len(resp.Trailer))
	})
	if panicked {
		ans = "panic"
	}
	return
}

// TestVerif_C07_h1pos: the matrix against the Lean model, in-package.
func TestVerif_C07_h1pos(t *testing.T) {
	s := verifh.New(t, "C07", "h1pos",
		"byte-position matrix: every byte value 0x00..0xff at every syntactic position of an HTTP/1.x response (13 status-line positions incl. a 1xx head, 12 field-name positions incl. 1xx and trailer names, field value / CR / LF, continuation lines, Content-Length / Transfer-Encoding / Connection / Trailer values, chunk-size line / extension / data terminator / last chunk, trailer value and end) x method GET/HEAD x delivery (whole, 1 byte per read) x dump off/on x what the peer does after the last byte (closes; for every stream whose outcome class is self-delimited - no body / length / last chunk + trailer section - also KEEPS THE CONNECTION OPEN, 1 byte per read, and, one representative stream per position, delivered in two segments split at EVERY offset); real persistConn._readResponse + body drain vs Lean H1.parseResponse on the outcome class (rej | ok code framing #keys #values body-end body-length #trailers); a reader that waits for bytes beyond the end of the message on the open connection answers `wedge` (3 s), a disagreement; a recovered panic is a disagreement with the total model; every case non-trivial")
	poss := c07H1Positions()
	bytesAll := c07ByteSet(true)
	n := 0
	repr := map[string][]byte{} // position -> first stream with a self-delimited outcome
	wedges := 0
	for _, p := range poss {
		for _, b := range bytesAll {
			stream := p.build(b)
			variants := 1
			if verifh.Thorough() {
				variants = 4
			}
			for v := 0; v < variants; v++ {
				// quick tier: the variant rotates with the byte value and the seed
				vi := v
				if !verifh.Thorough() {
					vi = (int(b) + int(verifh.Seed()) + n) % 4
				}
				method, seg, dumpOn := "GET", 0, false
				switch vi {
				case 1:
					seg = 1
				case 2:
					dumpOn = true
				case 3:
					method = "HEAD"
				}
				ans, panicked, ptxt := c07ReadOne(stream, method, 4096, seg, 512, dumpOn)
				human := fmt.Sprintf("position %s byte 0x%02x method=%s seg=%d dump=%v stream=%q", p.name, b, method, seg, dumpOn, stream)
				line := "c07h1pos " + method[:1] + " 4096 " + verifh.Hex(string(stream))
				s.Count("pos-group:" + p.group)
				if panicked {
					s.Count("panic")
					s.Case(line, "panic: "+truncate(ptxt, 1500), false, "", true, human)
					continue
				}
				s.Count(strings.SplitN(ans, " ", 2)[0])
				if c07Framed(ans) {
					if _, ok := repr[p.name]; !ok && method == "GET" {
						repr[p.name] = append([]byte(nil), stream...)
					}
					// the same stream, one byte per read, on a connection the peer keeps open: the
					// outcome must be the same (a different one is reported instead of it)
					if wedges < 3 {
						s.Count("open-conn:1-byte-reads")
						oans, _, optxt := c07ReadOpen(stream, method, 4096, 1, 0, 512, dumpOn)
						if oans != ans {
							if oans == "wedge" {
								wedges++
							}
							s.Case(line, "open-connection seg=1: "+oans+" "+truncate(optxt, 500), false, "", true, human+" [connection kept open after the last byte, 1 byte per read]")
							n++
							continue
						}
					}
				}
				s.Case(line, ans, true, "", true, human)
				n++
			}
		}
	}
	// class: delivery in two segments split at EVERY offset of a self-delimited message (one
	// representative per position: the first byte value that gives one), connection kept open
	names := make([]string, 0, len(repr))
	for _, p := range poss {
		if _, ok := repr[p.name]; ok {
			names = append(names, p.name)
		}
	}
	for _, name := range names {
		stream := repr[name]
		for cut := 1; cut < len(stream) && wedges < 3; cut++ {
			ans, panicked, ptxt := c07ReadOpen(stream, "GET", 4096, 0, cut, 512, false)
			human := fmt.Sprintf("position %s two segments split at offset %d (%q | %q), connection kept open, method=GET stream=%q", name, cut, stream[:cut], stream[cut:], stream)
			line := "c07h1pos G 4096 " + verifh.Hex(string(stream))
			s.Count("open-conn:two-segments")
			if panicked {
				s.Count("panic")
				s.Case(line, "panic: "+truncate(ptxt, 1500), false, "", true, human)
				continue
			}
			if ans == "wedge" {
				wedges++
				s.Count("wedge")
			}
			s.Case(line, ans, true, "", true, human)
		}
	}
	if wedges >= 3 {
		s.Count("open-conn:stopped-after-3-wedges")
	}
	s.Finish()
}

// TestVerif_C07_token: the byte-class tables of the header reader on all 256 byte values.
func TestVerif_C07_token(t *testing.T) {
	s := verifh.New(t, "C07", "token",
		"validHeaderFieldByte(b) and validHeaderValueByte(b) for every b in 0..255 vs the guarded-table model (an out-of-range table index is the model value 'panic'); canonicalMIMEHeaderKey on every one-byte and three-byte key around each b must return; every case non-trivial")
	for i := 0; i < 256; i++ {
		b := byte(i)
		var f, v bool
		ptxt, panicked := verifh.Safely(func() {
			f = validHeaderFieldByte(b)
			v = validHeaderValueByte(b)
			canonicalMIMEHeaderKey([]byte{b})
			canonicalMIMEHeaderKey([]byte{'x', b, 'y'})
			canonicalMIMEHeaderKey([]byte{b, '-', b})
		})
		human := fmt.Sprintf("byte 0x%02x", b)
		if panicked {
			s.Count("panic")
			s.Case("c07token "+strconv.Itoa(i), "panic: "+truncate(ptxt, 1500), false, "", true, human)
			continue
		}
		b01 := func(x bool) string {
			if x {
				return "1"
			}
			return "0"
		}
		s.Count("field=" + b01(f))
		s.Case("c07token "+strconv.Itoa(i), "field="+b01(f)+" value="+b01(v), true, "", true, human)
	}
	s.Finish()
}

// ---------------------------------------------------------------------------- over the wire

type c07HdrPos struct {
	header string
	value  string
	status string // "" = 200 OK
	opts   []string
	body   string
	thin   int  // quick tier: keep one case in `thin` (0 = 1)
	fresh  bool // a fresh client per case (the client remembers the first value per origin)
}

// c07HeaderMatrix: header-specific value positions: the byte is INSERTED at every offset of the
// value listed here (start, after each delimiter, inside each token, end are all offsets of it).
func c07HeaderMatrix() []c07HdrPos {
	gb := "<html><head><meta charset=\"gbk\"></head>\xc4\xe3\xba\xc3</html>"
	return []c07HdrPos{
		{"Alt-Svc", "h3=\":443\"; ma=60, h3-29=\"a:8\"; persist=1", "", []string{"https-http3-enabled"}, "hello", 5, true},
		{"Content-Type", "text/html; charset=gbk", "", []string{"plain", "autodecode-all", "everything"}, gb, 0, false},
		{"Content-Type", "application/json; charset=\"utf-8\"", "", []string{"result", "everything"}, "{\"a\":1}", 0, false},
		{"Content-Encoding", "gzip", "", []string{"plain", "autodecompress", "everything"}, "\x00gz", 0, false},
		{"Content-Encoding", "br, zstd", "", []string{"autodecompress"}, "\x00gz", 0, false},
		{"Content-Disposition", "attachment; filename=\"a.txt\"; filename*=UTF-8''b.txt", "", []string{"download", "everything"}, "hello", 0, false},
		{"Location", "/default?x=1#f", "302 Found", []string{"plain", "everything"}, "", 0, false},
		{"Location", "http://127.0.0.1:1/p", "307 Temporary Redirect", []string{"plain"}, "", 0, false},
		{"Set-Cookie", "sid=abc; Path=/; Domain=127.0.0.1; Max-Age=10; Expires=Wed, 21 Oct 2099 07:28:00 GMT; SameSite=Lax; HttpOnly", "", []string{"plain", "everything"}, "hello", 0, false},
		{"WWW-Authenticate", "Digest realm=\"r\", nonce=\"n\", qop=\"auth\", algorithm=MD5, opaque=\"o\"", "401 Unauthorized", []string{"digest", "everything"}, "no", 0, false},
		{"WWW-Authenticate", "Digest realm=r,nonce=n,algorithm=SHA-256-sess,qop=auth-int,userhash=true", "401 Unauthorized", []string{"digest"}, "no", 0, false},
		{"Retry-After", "120", "503 Service Unavailable", []string{"everything"}, "busy", 0, false},
		{"Content-Range", "bytes 0-4/5", "206 Partial Content", []string{"download"}, "hello", 0, false},
		{"Connection", "keep-alive, close", "", []string{"plain"}, "hello", 0, false},
		{"Trailer", "X-T, Y-T", "", []string{"plain", "dump"}, "hello", 0, false},
		{"Etag", "W/\"x\"", "304 Not Modified", []string{"plain"}, "", 0, false},
	}
}

// c07CaseVariants: the value with its letters in other cases — the whole value (upper, lower,
// swapped) and every maximal run of letters on its own (upper, lower, title), without duplicates
// and without the value itself.
func c07CaseVariants(value string) []string {
	seen := map[string]bool{value: true}
	var out []string
	add := func(v string) {
		if !seen[v] {
			seen[v] = true
			out = append(out, v)
		}
	}
	swap := func(v string) string {
		b := []byte(v)
		for i, c := range b {
			switch {
			case c >= 'a' && c <= 'z':
				b[i] = c - 32
			case c >= 'A' && c <= 'Z':
				b[i] = c + 32
			}
		}
		return string(b)
	}
	add(strings.ToUpper(value))
	add(strings.ToLower(value))
	add(swap(value))
	isL := func(c byte) bool { return c >= 'a' && c <= 'z' || c >= 'A' && c <= 'Z' }
	for i := 0; i < len(value); {
		if !isL(value[i]) {
			i++
			continue
		}
		j := i
		for j < len(value) && isL(value[j]) {
			j++
		}
		run := value[i:j]
		add(value[:i] + strings.ToUpper(run) + value[j:])
		add(value[:i] + strings.ToLower(run) + value[j:])
		add(value[:i] + strings.ToUpper(run[:1]) + strings.ToLower(run[1:]) + value[j:])
		i = j
	}
	return out
}

func c07HdrStream(hp c07HdrPos, value string) []byte {
	st := hp.status
	if st == "" {
		st = "200 OK"
	}
	body := hp.body
	if strings.HasPrefix(body, "\x00gz") {
		body = string(c07Gzip([]byte("hello hello hello")))
	}
	return []byte("HTTP/1.1 " + st + "\r\n" + hp.header + ": " + value + "\r\nContent-Length: " + strconv.Itoa(len(body)) + "\r\n\r\n" + body)
}

// TestVerif_C07_h1wire: the matrix through real clients over loopback TCP / TLS.
func TestVerif_C07_h1wire(t *testing.T) {
	s := verifh.New(t, "C07", "h1wire",
		"byte-position matrix over the wire: (a) the h1pos streams (all 256 byte values at field-name positions incl. 1xx and trailer names, stratified elsewhere in the quick tier: all controls, DEL, UTF-8 class edges, every delimiter, digit/hex/alpha edges + a seed-dependent eighth; thorough: all) and (b) one byte inserted at EVERY offset of typical Alt-Svc, Content-Type (charset), Content-Encoding, Content-Disposition, Location, Set-Cookie, WWW-Authenticate (digest), Retry-After, Content-Range, Connection, Trailer, Etag values (byte values as before), (d) case variants of those values (whole value upper / lower / swapped; each alphabetic run alone in upper / lower / title case) and (c) body positions read by the charset sniffer when Content-Type has no charset (all 256 values as first byte / after partial BOMs, one byte inserted at every offset of <meta charset>, <meta http-equiv> and <?xml encoding?> declarations), each under the option sets that react to that header (auto-decode, auto-decompress, digest auth, download, result unmarshalling, dump, HTTP/3 enabled over TLS, everything+retry); real client over loopback; oracle: the call returns response-or-error within 15 s, no panic in the caller; a panic in a background goroutine kills the lane process and bin/check reports the running case; every case non-trivial")
	peer := newC07Peer(t)
	defer peer.closeAll()
	plainBase := "http://" + peer.ln.Addr().String()
	dir := t.TempDir()
	opts := c07Options()
	byName := map[string]int{}
	clients := make([]*Client, len(opts))
	mk := func(i int) {
		c := C().SetTimeout(10 * time.Second).SetLogger(nil)
		c.GetTransport().ExpectContinueTimeout = 150 * time.Millisecond
		opts[i].setup(c)
		c.SetCommonRetryCount(0) // the retry stage is exercised by h1hostile; here it would only add back-off sleeps
		clients[i] = c
	}
	for i := range opts {
		byName[opts[i].name] = i
		mk(i)
	}
	seq := 0
	wedges := 0
	runOne := func(oi int, stream []byte, human string, idPrefix string) {
		if wedges >= 3 {
			return
		}
		seq++
		path := "/m" + strconv.Itoa(seq)
		peer.set(path, c07Script{data: stream})
		base := plainBase
		if opts[oi].name == "https-http3-enabled" && peer.tlsLn != nil {
			base = "https://" + peer.tlsLn.Addr().String()
		}
		id := idPrefix + ":" + opts[oi].name + ":" + verifh.Hex(string(stream))
		human = "opt=" + opts[oi].name + " " + human
		s.Begin(id, human)
		ch := make(chan [2]string, 1)
		go func() {
			kind := ""
			ptxt, panicked := verifh.Safely(func() {
				r := clients[oi].R()
				if opts[oi].req != nil {
					opts[oi].req(r, dir, seq)
				}
				rp, err := r.Get(base + path)
				switch {
				case rp == nil:
					kind = "nil-response"
				case err != nil:
					kind = "error"
				default:
					kind = "response"
					if rp.Response != nil && rp.Body != nil {
						io.Copy(io.Discard, rp.Body)
						rp.Body.Close()
					}
					_ = rp.String()
				}
			})
			if panicked {
				ch <- [2]string{"panic", ptxt}
				return
			}
			ch <- [2]string{kind, ""}
		}()
		select {
		case res := <-ch:
			s.Count(res[0])
			switch res[0] {
			case "panic":
				s.Crash(id, human, "panic in caller goroutine: "+res[1], "")
			case "nil-response":
				s.Observe(id, false, "", true, human, "call returned a nil *Response")
			default:
				s.Observe(id, true, "", true, human, "")
			}
		case <-time.After(c07Watchdog(opts[oi].name)):
			s.Count("wedged")
			s.Observe(id, false, "", true, human, "call did not return within the watchdog bound although the peer closed the connection and the client timeout is 10 s per attempt")
			wedges++
			mk(oi)
		}
		peer.mu.Lock()
		delete(peer.scripts, path)
		peer.mu.Unlock()
	}
	all := c07ByteSet(true)
	strat := c07ByteSet(false) // header-value offsets: the stratified set in both tiers (thorough: every pair, every reacting option set)
	rot := []string{"plain", "dump", "everything", "autodecode-all", "noautoread", "result"}
	k := int(verifh.Seed())
	wireAll := map[string]bool{"hn-mid": true, "hn-only": true, "hn-1xx": true, "tn-mid": true}
	for _, p := range c07H1Positions() {
		for _, b := range all {
			k++
			if !verifh.Thorough() && !wireAll[p.name] {
				// quick tier: the in-package lane h1pos runs all 256 values at this position; over
				// the wire a rotating quarter of the stratified set
				if !inSet(strat, b) || (k+int(b))%4 != 0 {
					continue
				}
			}
			stream := p.build(b)
			s.Count("grammar:" + p.group)
			runOne(byName[rot[k%len(rot)]], stream, fmt.Sprintf("position %s byte 0x%02x stream=%q", p.name, b, stream), "h1wire")
		}
	}
	for _, hp := range c07HeaderMatrix() {
		// quick tier: about 100 (offset, byte) pairs per header row, spread by a rotating counter
		// so that every offset and every byte value of the stratified set takes part
		thin := 1
		if !verifh.Thorough() {
			thin = (len(hp.value) + 1) * len(strat) / 100
			if hp.thin > 1 {
				thin *= hp.thin
			}
			if thin < 1 {
				thin = 1
			}
		} else if hp.fresh {
			thin = 4 // a fresh client (and a QUIC dial for every usable entry) per case
		}
		for off := 0; off <= len(hp.value); off++ {
			for _, b := range strat {
				k++
				if (k+off)%thin != 0 {
					continue
				}
				os := hp.opts
				if !verifh.Thorough() {
					os = []string{hp.opts[(k/thin)%len(hp.opts)]}
				}
				value := hp.value[:off] + string([]byte{b}) + hp.value[off:]
				stream := c07HdrStream(hp, value)
				for _, on := range os {
					s.Count("header:" + hp.header)
					if hp.fresh {
						mk(byName[on])
					}
					runOne(byName[on], stream, fmt.Sprintf("%s: byte 0x%02x inserted at offset %d -> %q", hp.header, b, off, value), "h1wire-hdr")
				}
			}
		}
	}
	// (d) round 5: CASE variants of every token in those header values (whole value upper / lower /
	// swapped, and each alphabetic run alone in upper / lower / title case): the comparisons the
	// client makes on tokens (encodings, charset names, digest algorithm / qop / scheme, cookie and
	// disposition attributes, connection options) are not all case-insensitive in the same way, and
	// two look-ups of one token must agree
	for _, hp := range c07HeaderMatrix() {
		for vi, value := range c07CaseVariants(hp.value) {
			os := hp.opts
			if !verifh.Thorough() && hp.thin > 1 && vi%hp.thin != 0 {
				continue
			}
			stream := c07HdrStream(hp, value)
			for _, on := range os {
				s.Count("case-variant:" + hp.header)
				if hp.fresh {
					mk(byName[on])
				}
				runOne(byName[on], stream, fmt.Sprintf("%s: case variant %q of %q", hp.header, value, hp.value), "h1wire-case")
			}
		}
	}
	// (c) the BODY positions the charset sniffer looks at (no charset in Content-Type): the first
	// bytes (BOM table) and every offset of a <meta> declaration
	bodyOpts := []string{"plain", "autodecode-all", "everything", "noautoread"}
	bodyStream := func(ct string, body []byte) []byte {
		return append([]byte("HTTP/1.1 200 OK\r\nContent-Type: "+ct+"\r\nContent-Length: "+strconv.Itoa(len(body))+"\r\n\r\n"), body...)
	}
	for _, b := range all {
		for pi, pre := range [][]byte{nil, {0xef, 0xbb}, {0xfe}, {0xff}, {0xef}} {
			k++
			if !verifh.Thorough() && pi > 0 && (k+int(b))%2 != 0 {
				continue
			}
			body := append(append(append([]byte{}, pre...), b), "<html><body>\xc4\xe3\xba\xc3</body></html>"...)
			s.Count("body:first-bytes")
			runOne(byName[bodyOpts[k%len(bodyOpts)]], bodyStream("text/html", body), fmt.Sprintf("body starts with % x then byte 0x%02x", pre, b), "h1wire-body")
		}
	}
	for _, meta := range []string{
		"<html><head><meta charset=\"gbk\"></head>\xc4\xe3\xba\xc3</html>",
		"<meta http-equiv=\"Content-Type\" content=\"text/html; charset=big5\">\xa7A\xa6n",
		"<?xml version=\"1.0\" encoding=\"gb2312\"?><a>\xc4\xe3</a>",
	} {
		thin := 1
		if !verifh.Thorough() {
			thin = (len(meta)+1)*len(strat)/150 + 1
		}
		for off := 0; off <= len(meta); off++ {
			for _, b := range strat {
				k++
				if (k+off)%thin != 0 {
					continue
				}
				body := []byte(meta[:off] + string([]byte{b}) + meta[off:])
				ct := "text/html"
				if strings.HasPrefix(meta, "<?xml") {
					ct = "text/xml"
				}
				s.Count("body:meta-offsets")
				runOne(byName[bodyOpts[(k/thin)%len(bodyOpts)]], bodyStream(ct, body), fmt.Sprintf("body %q with byte 0x%02x inserted at offset %d", meta, b, off), "h1wire-body")
			}
		}
	}
	for _, c := range clients {
		c.GetTransport().CloseIdleConnections()
	}
	peer.closeAll()
	stuck, where := c07StuckLoops("(*persistConn).readLoop", "(*persistConn).writeLoop")
	s.Observe("stuck-h1-loops", stuck == 0, "", true, fmt.Sprintf("HTTP/1.1 connection loops still alive after every connection was closed: %d", stuck),
		fmt.Sprintf("%d HTTP/1.1 read/write loop goroutines are stuck after every connection was closed, e.g.:\n%s", stuck, where))
	_ = bytes.MinRead
	s.Finish()
}
