//go:build verif

package req

import (
	"crypto/tls"
	"fmt"
	"net"
	"net/http/httptest"
	"strconv"
	"testing"
	"time"

	"github.com/imroc/req/v3/http2"
	"github.com/imroc/req/v3/internal/verifh"
	"github.com/quic-go/quic-go"
	qhttp3 "github.com/quic-go/quic-go/http3"
)

// ---------------------------------------------------------------------------------------
// C02 lane "windows": bodies BEYOND the receive windows the client advertised, consumed with
// small reads — over all three protocols, end to end against peers that respect the window they
// were given (Go's net/http h2 server, quic-go's http3 server, the kernel for HTTP/1.1).
//
// The caller must get the whole body whatever its length relative to the flow-control windows
// and whatever the read sizes: each consumed byte has to come back to the peer as credit
// (HTTP/2: inflow.add / WINDOW_UPDATE for the stream and for the connection, with the small-read
// buffering below inflowMinRefresh = 4 KiB; HTTP/3: QUIC MAX_STREAM_DATA / MAX_DATA). The
// receive models of C02 leave flow control to C06 (theorem credit_conservation there); this lane
// carries the dimension for C02's statement "a body of any length ... streamed with reads of any
// size": windows {HTTP/2 SETTINGS_INITIAL_WINDOW_SIZE 4096..65535 via SetHTTP2SettingsFrame,
// connection window 65536 via SetHTTP2ConnectionFlow(1), the 4 MiB default and the Chrome preset;
// HTTP/3 stream / connection receive windows 16..64 KiB via quic.Config} x body = 3..6 windows x
// read sizes {1, 7, 100, 1024, 4095, 4096, 4097} (below, at and above the refresh threshold).
// ---------------------------------------------------------------------------------------

func c02WindowSpec(s *verifh.Session, n int) *c02Spec {
	r := s.Rand()
	body := verifh.RandBytes(r, n, "")
	sp := &c02Spec{status: 200, body: body, declared: r.Intn(2) == 0}
	// the origin writes in pieces around the DATA frame size, now and then tiny or huge ones
	for off := 0; off < len(body); {
		k := verifh.Pick(r, []int{16384, 16384, 16383, 16385, 4096, 1000, 65536, 1})
		if k == 1 {
			k = 1 + r.Intn(50)
		}
		if off+k > len(body) {
			k = len(body) - off
		}
		sp.writes = append(sp.writes, body[off:off+k])
		off += k
	}
	if r.Intn(3) == 0 {
		sp.trailers = []c02Field{{"X-After", "t" + strconv.Itoa(r.Intn(1000))}}
	}
	sp.fields = []c02Field{{"X-Len", strconv.Itoa(n)}}
	return sp
}

func TestVerif_C02_windows(t *testing.T) {
	s := verifh.New(t, "C02", "windows",
		"bodies beyond the advertised receive windows x small caller reads x three protocols, end to end against peers that respect the window: HTTP/2 (net/http h2 server over TLS; client SETTINGS_INITIAL_WINDOW_SIZE 4096/16384/32768/65535 via SetHTTP2SettingsFrame, or connection window 65536 via SetHTTP2ConnectionFlow(1), or the 4 MiB default with an 8 MiB body, thorough: Chrome preset 6 MiB), HTTP/3 (quic-go http3.Server; stream / connection receive windows 16..64 KiB via quic.Config), HTTP/1.1 (httptest server, kernel windows); body = 3..6 windows (+ jitter), written by the origin in pieces of 1..65536 bytes with Flush, declared or not, now and then a trailer; streamed (DisableAutoReadResponse, auto-decode off) with reads of 1, 7, 100, 1024, 4095, 4096, 4097 bytes; oracle = origin's spec (status, fields, trailer, exactly the body, clean EOF); non-trivial = every case")
	r := s.Rand()
	reached := map[string]int{}
	count := func(k string) { s.Count(k); reached[k]++ }
	dir := t.TempDir()
	origin := c02NewOrigin()

	// HTTP/2 origin
	srv2 := httptest.NewUnstartedServer(origin)
	srv2.EnableHTTP2 = true
	srv2.StartTLS()
	// HTTP/1.1 origin
	srv1 := httptest.NewServer(origin)
	// HTTP/3 origin
	udp, err := net.ListenPacket("udp", "127.0.0.1:0")
	if err != nil {
		t.Fatalf("listen udp: %v", err)
	}
	srv3 := &qhttp3.Server{
		Handler:   origin,
		TLSConfig: qhttp3.ConfigureTLSConfig(&tls.Config{Certificates: []tls.Certificate{srv2.TLS.Certificates[0]}}),
	}
	go srv3.Serve(udp)
	defer func() {
		done := make(chan struct{})
		go func() {
			srv2.CloseClientConnections()
			srv2.Close()
			srv1.CloseClientConnections()
			srv1.Close()
			srv3.Close()
			close(done)
		}()
		select {
		case <-done:
		case <-time.After(5 * time.Second):
		}
	}()
	base3 := "https://" + udp.LocalAddr().String()

	readSizes := []int{1, 7, 100, 1024, 4095, 4096, 4097}
	n := verifh.N(36, 420)
	fails := 0
	for c := 0; c < n && fails < 6; c++ {
		proto := []string{"h2", "h2", "h3", "h2", "h1", "h3"}[c%6]
		k := readSizes[(c/6+c)%len(readSizes)]
		mult := 3 + r.Intn(4)
		var cl *Client
		var base, win string
		window := 0
		switch proto {
		case "h2":
			cl = C().SetTimeout(60 * time.Second).EnableInsecureSkipVerify().EnableForceHTTP2()
			base = srv2.URL
			pick := r.Intn(10)
			switch {
			case c == 3: // the default windows (4 MiB per stream): two windows, reads below the refresh threshold
				window, mult, win = 4<<20, 2, "default-4MiB"
				k = verifh.Pick(r, []int{1024, 4095, 2000})
			case verifh.Thorough() && pick == 0:
				cl.ImpersonateChrome()
				cl.EnableInsecureSkipVerify().EnableForceHTTP2()
				window, mult, win = 6<<20, 2, "chrome-preset"
				if k < 512 {
					k = 1024
				}
			case pick <= 2:
				// small CONNECTION window (65535 + 1), default stream window
				cl.SetHTTP2ConnectionFlow(1)
				window, win = 65536, "conn-65536"
			default:
				window = verifh.Pick(r, []int{4096, 16384, 32768, 65535})
				win = "stream-" + strconv.Itoa(window)
				cl.SetHTTP2SettingsFrame(http2.Setting{ID: http2.SettingEnablePush, Val: 0},
					http2.Setting{ID: http2.SettingInitialWindowSize, Val: uint32(window)})
			}
		case "h3":
			cl = C().SetTimeout(60 * time.Second).EnableInsecureSkipVerify()
			cl.EnableForceHTTP3()
			t3 := c02H3(cl)
			if t3 == nil {
				t.Fatalf("HTTP/3 not enabled (needs go1.22/1.23)")
			}
			window = verifh.Pick(r, []int{16384, 32768, 65536})
			connWin := window * verifh.Pick(r, []int{1, 2, 4})
			win = fmt.Sprintf("quic-%d/%d", window, connWin)
			t3.QUICConfig = &quic.Config{
				InitialStreamReceiveWindow: uint64(window), MaxStreamReceiveWindow: uint64(window),
				InitialConnectionReceiveWindow: uint64(connWin), MaxConnectionReceiveWindow: uint64(connWin),
			}
			base = base3
		default:
			cl = C().SetTimeout(60 * time.Second)
			base = srv1.URL
			window, win = 65536, "tcp"
		}
		cl.GetTransport().DisableAutoDecode()
		size := mult*window + r.Intn(3) - 1 + r.Intn(2)*r.Intn(5000)
		if k <= 7 && size > 400000 {
			size = 400000 + r.Intn(3) // keep byte-wise reads affordable
		}
		sp := c02WindowSpec(s, size)
		if proto == "h1" && sp.declared {
			sp.trailers = nil // an HTTP/1.1 origin cannot send trailers after a declared length
		}
		path := "/w" + strconv.Itoa(c)
		origin.put(path, sp)
		mode := c02Mode{"stream", k}
		human := fmt.Sprintf("windows %s win=%s body=%d (%.1f windows) read=%d declared=%v trailers=%d writes=%d", proto, win, size, float64(size)/float64(window), k, sp.declared, len(sp.trailers), len(sp.writes))
		s.Begin(path, human)
		var view string
		extraOK := true
		ptxt, panicked := verifh.Safely(func() {
			view, extraOK = c02Fetch(cl, sp, mode, base+path, dir, c)
		})
		origin.del(path)
		cl.GetTransport().CloseIdleConnections()
		if t3 := c02H3(cl); t3 != nil {
			t3.Close()
		}
		if panicked {
			s.Crash(human, human, ptxt, "")
			fails++
			continue
		}
		want := sp.expectedView(true)
		ok := view == want && extraOK
		if !ok {
			fails++
		}
		count("proto:" + proto)
		count("win:" + win)
		if k < 4096 {
			count("read<refresh-threshold")
		} else {
			count("read>=refresh-threshold")
		}
		if proto != "h1" && size > 2*window {
			count("body>2-windows:" + proto)
		}
		detail := "got  " + c02Short(view) + "\nwant " + c02Short(want)
		s.Observe(human+" #"+strconv.Itoa(c), ok, "", true, human, detail)
	}
	s.Finish()
	if fails < 6 {
		for _, k := range []string{"proto:h1", "proto:h2", "proto:h3", "read<refresh-threshold", "read>=refresh-threshold",
			"body>2-windows:h2", "body>2-windows:h3", "win:default-4MiB", "win:conn-65536"} {
			if reached[k] == 0 {
				t.Errorf("lane windows never reached %q", k)
			}
		}
	}
}
