//go:build verif

package req

import (
	"errors"
	"fmt"
	"io"
	"net/http"
	"os"
	"path/filepath"
	"strconv"
	"strings"
	"testing"
	"time"

	"github.com/imroc/req/v3/internal/verifh"
)

// ---------------------------------------------------------------------------------------
// C02 lane "call": the life of a req.Response over a MULTI-EXCHANGE call.
//
// One Request.Do may consist of several exchanges: http.Client follows redirects, the digest
// middleware (client level or request level) answers a 401 by re-sending the request and
// replaces resp.Response in place, Request.do retries. The lane scripts the transport
// (Transport.WrapRoundTripFunc: the real Transport.RoundTrip -> http.Client.Do ->
// Client.roundTrip -> response middlewares -> digest re-send through Client.GetTransport()
// -> retry loop pipeline runs), draws an option combination
//
//	auto-read on/off (client / request switch) x SetOutput(writer) / SetOutputFile x
//	success target x error target (request / client level) x digest off/client/request x
//	retry count 0..3 x retry rule {default, status, both}
//
// and a script of exchanges (transport error | status, redirect?, body segments, EOF/failure),
// runs the call, then applies 0..5 observation ops to the real *Response. Everything the
// caller can observe (resp.Err, status, the exchange the header belongs to, the bytes bound to
// the success / error target, the output content, every op's result, the number of exchanges
// used) is compared with the Lean model Req.C02.Call (theorem call_final_exchange: all of it
// is what a single-exchange call on the FINAL exchange yields). A Go-side oracle gives a
// second opinion: whatever is observed belongs to the exchange named by the response header.
// ---------------------------------------------------------------------------------------

var errC02Transport = errors.New("c02: scripted transport failure")

type c02Exch struct {
	terr     bool
	status   int
	redirect bool
	chunks   []string
	fin      string // eof | fail
}

func (e c02Exch) whole() string { return strings.Join(e.chunks, "") }

func (e c02Exch) enc(tag int) string {
	if e.terr {
		return "T"
	}
	rd := "0"
	if e.redirect {
		rd = "1"
	}
	return fmt.Sprintf("R;%d;%d;%s;%s;%s", tag, e.status, rd, e.fin, verifh.HexList(e.chunks))
}

// c02Target is what the success / error target receives: the lane installs an unmarshal
// function that stores the raw bytes (so that bodies may be arbitrary bytes and the oracle sees
// exactly what was bound).
type c02Target struct {
	data []byte
	set  bool
}

const c02Challenge = `Digest realm="c02", nonce="dcd98b7102dd2f0e8b11d0f600bfb0c093", qop="auth", algorithm=MD5`

func c02CallErrClass(err error) string {
	switch {
	case err == nil:
		return "ok"
	case errors.Is(err, errC02Transport):
		return "transport"
	}
	return c02ErrClass(err)
}

func c02CallGenBody(s *verifh.Session) []string {
	r := s.Rand()
	if r.Intn(7) == 0 {
		return nil
	}
	n := 1 + r.Intn(3)
	var out []string
	for i := 0; i < n; i++ {
		sz := 1 + r.Intn(40)
		switch r.Intn(12) {
		case 0:
			sz = 0
		case 1:
			sz = verifh.Pick(r, []int{511, 512, 513, 4095, 4096, 4097})
		}
		out = append(out, verifh.RandBytes(r, sz, ""))
	}
	return out
}

// c02GenScript draws a script that tells a plausible multi-exchange story (so that digest
// re-sends, retries and redirects actually happen) with random deviations.
func c02GenScript(s *verifh.Session, digest string, retries int) []c02Exch {
	r := s.Rand()
	finalPool := []int{200, 200, 200, 201, 204, 301, 304, 404, 500, 503, 150, 401, 403}
	var script []c02Exch
	mk := func(st int) c02Exch {
		e := c02Exch{status: st, chunks: c02CallGenBody(s), fin: "eof"}
		if r.Intn(9) == 0 {
			e.fin = "fail"
		}
		return e
	}
	attempts := 1 + retries
	if r.Intn(4) == 0 {
		attempts++
	}
	for a := 0; a < attempts; a++ {
		for k := r.Intn(7); k >= 5; k-- { // 0..2 redirects, mostly none
			e := mk(302)
			e.redirect = true
			script = append(script, e)
		}
		if r.Intn(14) == 0 {
			script = append(script, c02Exch{terr: true})
			continue
		}
		st := verifh.Pick(r, finalPool)
		if digest != "o" && r.Intn(10) < 6 {
			st = 401
		}
		if a+1 < attempts && r.Intn(3) != 0 {
			st = verifh.Pick(r, []int{500, 503, 503, 401})
		}
		script = append(script, mk(st))
		if st == 401 && (digest != "o" || r.Intn(3) == 0) {
			// the answer to the authorized request
			switch r.Intn(12) {
			case 0:
				script = append(script, c02Exch{terr: true})
			case 1:
				e := mk(302)
				e.redirect = true // not followed by the re-send
				script = append(script, e)
			case 2:
				script = append(script, mk(401))
			case 3:
				script = append(script, mk(503))
			default:
				script = append(script, mk(verifh.Pick(r, []int{200, 200, 200, 201, 204, 404})))
			}
		}
	}
	if r.Intn(5) == 0 && len(script) > 1 {
		script = script[:len(script)-1] // the transport runs dry: the last request fails
	}
	return script
}

func TestVerif_C02_call(t *testing.T) {
	s := verifh.New(t, "C02", "call",
		"multi-exchange calls on the real client over a scripted transport: option matrix {Client/Request.DisableAutoReadResponse, SetOutput(writer), SetOutputFile, success target, error target (request or client level), digest off/client-level/request-level, retry count 0..3, retry rule default/status/both} x script of 0..12 exchanges (transport error | status incl. 401 challenges, 5xx, 204, 304, 1xx | followed redirects | body of 0..3 segments of 0..4097 bytes ending in EOF or failure; the script may run dry) x 0..5 observation ops; compared with Req.C02.Call: resp.Err, status, exchange tag of the response header, bytes bound to the success/error target, output content, exchanges used, every op's result; oracle: what is observed belongs to the exchange the header names; non-trivial = at least 2 exchanges used")
	r := s.Rand()
	dir := t.TempDir()
	n := verifh.N(2500, 60000)
	reached := map[string]int{}
	count := func(k string) { s.Count(k); reached[k]++ }
	opPool := []string{"tb", "tb", "ts", "by", "by", "st", "rd", "rd", "ra", "cl"}
	readSizes := []int{0, 1, 2, 7, 100, 512, 4096, 65536}
	b01 := func(b bool) string {
		if b {
			return "1"
		}
		return "0"
	}
	for c := 0; c < n; c++ {
		cdis, rdis := r.Intn(5) == 0, r.Intn(4) == 0
		save, file := false, false
		switch r.Intn(5) {
		case 0:
			save = true
		case 1:
			save, file = true, true
		}
		result, eres := r.Intn(2) == 0, r.Intn(2) == 0
		eresClient := eres && r.Intn(2) == 0
		digest := verifh.Pick(r, []string{"o", "o", "c", "c", "c", "r", "r", "r"})
		retries := verifh.Pick(r, []int{0, 0, 0, 1, 1, 2, 3})
		cond := verifh.Pick(r, []string{"d", "s", "s", "e"})
		script := c02GenScript(s, digest, retries)
		var ops []string
		for i := r.Intn(6); i > 0; i-- {
			op := verifh.Pick(r, opPool)
			if op == "rd" {
				op += strconv.Itoa(verifh.Pick(r, readSizes))
			}
			ops = append(ops, op)
		}
		opsStr := "-"
		if len(ops) > 0 {
			opsStr = strings.Join(ops, ",")
		}
		var enc []string
		for i, e := range script {
			enc = append(enc, e.enc(i))
		}
		scriptStr := "none"
		if len(enc) > 0 {
			scriptStr = strings.Join(enc, "/")
		}
		cfg := "c" + b01(cdis) + "r" + b01(rdis) + "s" + b01(save) + "j" + b01(result) + "e" + b01(eres)
		line := fmt.Sprintf("c02call %s %s %s %d %s %s %s", cfg, b01(file), digest, retries, cond, scriptStr, opsStr)
		human := fmt.Sprintf("cfg=%s file=%v digest=%s retries=%d cond=%s script=%s ops=%s", cfg, file, digest, retries, cond, c02ScriptHuman(script), opsStr)

		var impl, class string
		propOK := true
		used, resends, challenged := 0, 0, false
		retriedCase, redirected := false, false
		ptxt, panicked := verifh.Safely(func() {
			cl := C()
			cl.GetTransport().DisableAutoDecode()
			cl.SetJsonUnmarshal(func(data []byte, v interface{}) error {
				tg, ok := v.(*c02Target)
				if !ok {
					return fmt.Errorf("c02: unexpected unmarshal target %T", v)
				}
				tg.data, tg.set = append([]byte{}, data...), true
				return nil
			})
			cl.GetTransport().WrapRoundTripFunc(func(rt http.RoundTripper) HttpRoundTripFunc {
				return func(req *http.Request) (*http.Response, error) {
					isResend := strings.HasPrefix(req.Header.Get("Authorization"), "Digest ")
					if isResend {
						resends++
					}
					if used >= len(script) {
						used++
						return nil, errC02Transport
					}
					i := used
					e := script[i]
					used++
					if e.terr {
						return nil, errC02Transport
					}
					bc := make([][]byte, len(e.chunks))
					for j, ch := range e.chunks {
						bc[j] = []byte(ch)
					}
					sb := &c02ScriptBody{chunks: bc, fin: io.EOF}
					if e.fin == "fail" {
						sb.fin = errC02Boom
					}
					// no Content-Type: the charset auto-decoding stage (C15) must stay out of the way
					// (random bodies do start with a byte-order mark now and then)
					h := http.Header{"X-Ex": {strconv.Itoa(i)}}
					if e.status == 401 {
						h.Set("Www-Authenticate", c02Challenge)
						if !isResend {
							challenged = true
						}
					}
					if e.redirect {
						h.Set("Location", "http://c02.invalid/hop"+strconv.Itoa(i))
						if !isResend {
							redirected = true
						}
					}
					return &http.Response{
						Status: strconv.Itoa(e.status) + " X", StatusCode: e.status,
						Proto: "HTTP/1.1", ProtoMajor: 1, ProtoMinor: 1,
						Header: h, Body: sb, ContentLength: -1, Request: req,
					}, nil
				}
			})
			if cdis {
				cl.DisableAutoReadResponse()
			}
			if digest == "c" {
				cl.SetCommonDigestAuth("user", "pass")
			}
			if eresClient {
				cl.SetCommonErrorResult(&c02Target{})
			}
			rq := cl.R()
			if rdis {
				rq.DisableAutoReadResponse()
			}
			if digest == "r" {
				rq.SetDigestAuth("user", "pass")
			}
			if result {
				rq.SetSuccessResult(&c02Target{})
			}
			if eres && !eresClient {
				rq.SetErrorResult(&c02Target{})
			}
			if retries > 0 {
				rq.SetRetryCount(retries).SetRetryFixedInterval(time.Microsecond)
				if cond == "s" || cond == "e" {
					rq.AddRetryCondition(func(resp *Response, err error) bool {
						return resp.Response != nil && resp.StatusCode >= 500
					})
				}
				if cond == "e" {
					rq.AddRetryCondition(func(resp *Response, err error) bool { return err != nil })
				}
			}
			var w *c02Writer
			var fpath string
			if save {
				if file {
					fpath = filepath.Join(dir, "c"+strconv.Itoa(c))
					rq.SetOutputFile(fpath)
				} else {
					w = &c02Writer{}
					rq.SetOutput(w)
				}
			}
			resp, err := rq.Get("http://c02.invalid/x")
			if err != resp.Err {
				propOK = false
			}
			out := "nil"
			var ob []byte
			haveOut := false
			if save {
				if file {
					if b, e := os.ReadFile(fpath); e == nil {
						ob, haveOut = b, true
					}
					os.Remove(fpath)
				} else {
					// a writer that was never written to and one that received zero bytes look the same
					ob, haveOut = w.buf.Bytes(), true
				}
				if haveOut {
					out = verifh.Hex(string(ob))
				}
			}
			st, ex, has := 0, 0, "0"
			var final *c02Exch
			if resp.Response != nil {
				has = "1"
				st = resp.StatusCode
				ex, _ = strconv.Atoi(resp.Header.Get("X-Ex"))
				if ex < len(script) {
					final = &script[ex]
				}
				if final == nil || final.terr || final.status != st {
					propOK = false // status and header of different exchanges
				}
			}
			tgt := func(v interface{}) string {
				if v == nil {
					return "nil"
				}
				tg, ok := v.(*c02Target)
				if !ok || !tg.set {
					return "unset"
				}
				if final != nil && final.fin == "eof" && string(tg.data) != final.whole() {
					propOK = false // bound bytes are not the final exchange's body
				}
				return verifh.Hex(string(tg.data))
			}
			res, er := tgt(resp.SuccessResult()), tgt(resp.ErrorResult())
			if res != "nil" && er != "nil" {
				propOK = false
			}
			retried := resp.Request != nil && resp.Request.RetryAttempt > 0
			retriedCase = retried
			// finding C02-2 (fixes/C02-2): digest challenge x SetOutput/SetOutputFile (the
			// challenge is what gets saved; if saving it fails the challenge is not even answered)
			inDigestOutput := digest != "o" && save && challenged
			if final != nil && final.fin == "eof" && err == nil {
				// cached bytes, if any, are the final exchange's body
				if b := resp.Bytes(); b != nil && string(b) != final.whole() && !save {
					propOK = false
				}
				if save && (!haveOut || string(ob) != final.whole()) {
					propOK = false
					if !file && retried && haveOut && strings.HasSuffix(string(ob), final.whole()) {
						// one writer receives every attempt's body, the final one last
						class = "retry-output-writer-accumulates"
					}
				}
			}
			if class == "" && inDigestOutput {
				class = "digest-output-not-final"
			}
			obs := c02RunOps(resp, ops)
			impl = fmt.Sprintf("err=%s resp=%s st=%d ex=%d res=%s eres=%s out=%s left=%d obs=%s",
				c02CallErrClass(err), has, st, ex, res, er, out, c02Max(0, len(script)-used), obs)
		})
		if panicked {
			s.Crash(line, human, ptxt, "")
			continue
		}
		count("digest:" + digest)
		count("exchanges-used:" + strconv.Itoa(c02Min(used, 6)))
		if resends > 0 {
			count("digest-resent")
			if save {
				count("digest-resent+save")
			}
			if (cdis || rdis) && eres {
				count("digest-resent+no-auto-read+error-target")
			}
		}
		if retries > 0 {
			count("retry-configured")
		}
		if retriedCase {
			count("retried")
		}
		if redirected {
			count("redirect-followed")
		}
		if strings.Contains(impl, " res=") && !strings.Contains(impl, " res=nil eres=nil ") {
			count("target-bound")
		}
		if strings.Contains(impl, "err=ok") {
			count("call-ok")
		} else {
			count("call-err")
		}
		if save {
			count("save:" + map[bool]string{true: "file", false: "writer"}[file])
		}
		s.Case(line, impl, propOK, class, used >= 2, human)
	}
	s.Finish()
	// the lane must not pass vacuously: the situations it exists for have to occur
	for _, k := range []string{"digest-resent", "digest-resent+save", "digest-resent+no-auto-read+error-target",
		"retry-configured", "retried", "redirect-followed", "save:file", "save:writer", "exchanges-used:3", "exchanges-used:4",
		"call-ok", "call-err", "target-bound"} {
		if reached[k] == 0 {
			t.Errorf("lane call never reached %q", k)
		}
	}
}

func c02Min(a, b int) int {
	if a < b {
		return a
	}
	return b
}

func c02Max(a, b int) int {
	if a > b {
		return a
	}
	return b
}

func c02ScriptHuman(script []c02Exch) string {
	var out []string
	for _, e := range script {
		switch {
		case e.terr:
			out = append(out, "ERR")
		case e.redirect:
			out = append(out, fmt.Sprintf("%d->(%dB,%s)", e.status, len(e.whole()), e.fin))
		default:
			out = append(out, fmt.Sprintf("%d(%dB,%s)", e.status, len(e.whole()), e.fin))
		}
	}
	return strings.Join(out, " ")
}

// c02RunOps applies observation ops to the real Response; same rendering as lane "ops".
func c02RunOps(resp *Response, ops []string) string {
	var obs []string
	for _, op := range ops {
		switch {
		case op == "tb":
			b, e := resp.ToBytes()
			obs = append(obs, verifh.Hex(string(b))+"/"+c02CallErrClass(e))
		case op == "ts":
			b, e := resp.ToString()
			obs = append(obs, verifh.Hex(b)+"/"+c02CallErrClass(e))
		case op == "by":
			if b := resp.Bytes(); b == nil {
				obs = append(obs, "nil")
			} else {
				obs = append(obs, verifh.Hex(string(b)))
			}
		case op == "st":
			obs = append(obs, verifh.Hex(resp.String()))
		case strings.HasPrefix(op, "rd"):
			if resp.Response == nil || resp.Body == nil {
				obs = append(obs, ".")
				break
			}
			k, _ := strconv.Atoi(op[2:])
			p := make([]byte, k)
			m, e := resp.Body.Read(p)
			obs = append(obs, verifh.Hex(string(p[:m]))+"/"+c02CallErrClass(e))
		case op == "ra":
			if resp.Response == nil || resp.Body == nil {
				obs = append(obs, ".")
				break
			}
			b, e := io.ReadAll(resp.Body)
			obs = append(obs, verifh.Hex(string(b))+"/"+c02CallErrClass(e))
		case op == "cl":
			if resp.Response != nil && resp.Body != nil {
				resp.Body.Close()
			}
			obs = append(obs, ".")
		}
	}
	if len(obs) == 0 {
		return "-"
	}
	return strings.Join(obs, ";")
}
