//go:build verif

package req

// End-to-end lanes of C20: the real client against an in-process origin that issues Digest
// challenges and verifies the answer with its own RFC 7616 implementation (c20Verify).
//
//   handle  HTTP/1.1, hashFuncs = tagged identity hash, injected entropy: the complete second
//           request (Authorization byte for byte, body) is predicted by the Lean model.
//   e2e     HTTP/1.1 and HTTP/2 (TLS), REAL hashes and entropy: the model predicts the kind of
//           outcome (untouched / which error / re-sent with which body); the origin's verifier
//           is the oracle for the header.
//   wire    basic and bearer credentials as an origin receives them.

import (
	"bytes"
	"errors"
	"fmt"
	"io"
	"math/rand"
	"mime"
	"mime/multipart"
	"net/http"
	"net/http/httptest"
	"sort"
	"strconv"
	"strings"
	"sync"
	"testing"
	"time"

	"github.com/imroc/req/v3/internal/verifh"
)

var errC20Prior = errors.New("verif: earlier middleware failed")

type c20Seen struct {
	method, uri, auth, ctype string
	hasAuth                  bool
	injected                 bool // a header line the caller never set arrived (X-Injected)
	body                     []byte
	proto                    int
}

// c20Script is what the origin does for the case in progress.
type c20Script struct {
	firstStatus  int      // 0 = drop the connection without answering
	www          []string // WWW-Authenticate values of the first response
	firstBody    string
	rejectSecond bool // answer the authenticated request with 401 again
	proxyAuth    bool // repeat the challenges as Proxy-Authenticate
}

type c20Origin struct {
	mu     sync.Mutex
	script c20Script
	caseID int // requests are attributed to a case by the X-Verif-Case header (a late request of an aborted case must not count for the next one)
	seen   []c20Seen
	srv    *httptest.Server
}

func (o *c20Origin) ServeHTTP(w http.ResponseWriter, rq *http.Request) {
	body, _ := io.ReadAll(rq.Body)
	o.mu.Lock()
	if rq.Header.Get("X-Verif-Case") != strconv.Itoa(o.caseID) {
		o.mu.Unlock()
		w.WriteHeader(410)
		return
	}
	a, has := rq.Header["Authorization"]
	sn := c20Seen{method: rq.Method, uri: rq.RequestURI, hasAuth: has, body: body, proto: rq.ProtoMajor, ctype: rq.Header.Get("Content-Type"), injected: rq.Header.Get("X-Injected") != ""}
	if has {
		sn.auth = strings.Join(a, "\x00")
	}
	o.seen = append(o.seen, sn)
	n := len(o.seen)
	sc := o.script
	o.mu.Unlock()
	if n == 1 || sc.rejectSecond {
		if sc.firstStatus == 0 {
			if hj, ok := w.(http.Hijacker); ok {
				if c, _, err := hj.Hijack(); err == nil {
					c.Close()
					return
				}
			}
			panic(http.ErrAbortHandler)
		}
		for _, v := range sc.www {
			w.Header().Add("WWW-Authenticate", v)
			if sc.proxyAuth {
				w.Header().Add("Proxy-Authenticate", v)
			}
		}
		w.Header().Set("Content-Type", "text/plain")
		w.WriteHeader(sc.firstStatus)
		if rq.Method != "HEAD" && sc.firstStatus != 204 && sc.firstStatus != 304 {
			io.WriteString(w, sc.firstBody)
		}
		return
	}
	w.Header().Set("Content-Type", "text/plain")
	w.WriteHeader(200)
	if rq.Method != "HEAD" {
		io.WriteString(w, "granted")
	}
}

func c20NewOrigin(h2 bool) *c20Origin {
	o := &c20Origin{}
	o.srv = httptest.NewUnstartedServer(o)
	o.srv.Config.ErrorLog = nil
	if h2 {
		o.srv.EnableHTTP2 = true
		o.srv.StartTLS()
	} else {
		o.srv.Start()
	}
	return o
}

func (o *c20Origin) begin(sc c20Script) string {
	o.mu.Lock()
	o.script = sc
	o.seen = nil
	o.caseID++
	id := strconv.Itoa(o.caseID)
	o.mu.Unlock()
	return id
}

func (o *c20Origin) requests() []c20Seen {
	o.mu.Lock()
	defer o.mu.Unlock()
	return append([]c20Seen(nil), o.seen...)
}

// c20Parts reads a multipart body with the boundary announced in ctype.
func c20Parts(ctype string, body []byte) (string, error) {
	_, params, err := mime.ParseMediaType(ctype)
	if err != nil {
		return "", err
	}
	mr := multipart.NewReader(bytes.NewReader(body), params["boundary"])
	var out []string
	for {
		p, err := mr.NextPart()
		if err == io.EOF {
			break
		}
		if err != nil {
			return "", err
		}
		b, _ := io.ReadAll(p)
		out = append(out, fmt.Sprintf("%q/%q=%x", p.FormName(), p.FileName(), b))
	}
	sort.Strings(out)
	return strings.Join(out, ";"), nil
}

var c20URIs = []string{"/", "/dir/index.html", "/a/b?x=1&y=2", "/p?q=a%20b", "/?", "/a;b?c=d,e", "/search?q=x&lang=de&q=y", "/x?y=%22q%22", "/caf%C3%A9?k=v%3Dw", "/a?b=c:d", "/x?y=\"q\"", "/deep/er/path/?a[]=1&a[]=2"}

type c20Run struct {
	identity bool // identity hash + injected entropy (full prediction)
	h2       bool
	fixed    *c20Witness // replay of a witness of the Lean file instead of a generated case
}

// c20Witness: the concrete points named in lean/Req/Props/C20.lean (the example next to
// digest_accepted, the excluded_* theorems, comma_usually_errors), replayed on the real client.
type c20Witness struct {
	raw        string
	is         c20Issued
	user, pass string
	uri        string
	tags       []string
}

func c20Ptr(s string) *string { return &s }

var c20Witnesses = []c20Witness{
	{raw: `Digest realm="r", nonce="n", qop="auth", algorithm=SHA-256-sess, opaque="o", userhash=true`,
		is:   c20Issued{realm: "r", nonce: "n", qops: []string{"auth"}, algorithm: c20Ptr("SHA-256-sess"), opaque: c20Ptr("o"), userhash: true},
		user: "Mufasa", pass: "Circle of Life", uri: "/dir/index.html?a=b"},
	{raw: `Digest realm="r", nonce="n", algorithm=MD5`, is: c20Issued{realm: "r", nonce: "n", algorithm: c20Ptr("MD5")}, user: `a"b`, pass: "pw", uri: "/"},
	{raw: `Digest realm="x, opaque=y", nonce="n", algorithm=MD5`, is: c20Issued{realm: "x, opaque=y", nonce: "n", algorithm: c20Ptr("MD5")}, user: "u", pass: "pw", uri: "/", tags: []string{"quoted-comma"}},
	{raw: `Digest realm= "x", nonce="n", algorithm=MD5`, is: c20Issued{realm: "x", nonce: "n", algorithm: c20Ptr("MD5")}, user: "u", pass: "pw", uri: "/", tags: []string{"bws"}},
	{raw: `Digest realm="a\"b", nonce="n", algorithm=MD5`, is: c20Issued{realm: `a"b`, nonce: "n", algorithm: c20Ptr("MD5")}, user: "u", pass: "pw", uri: "/", tags: []string{"quoted-pair"}},
	{raw: `Digest realm="r", nonce="n", qop="auth,auth-int"`, is: c20Issued{realm: "r", nonce: "n", qops: []string{"auth", "auth-int"}}, user: "u", pass: "pw", uri: "/", tags: []string{"quoted-comma"}},
	{raw: `Digest realm="r", nonce="n", qop="auth, auth-int"`, is: c20Issued{realm: "r", nonce: "n", qops: []string{"auth", "auth-int"}}, user: "u", pass: "pw", uri: "/", tags: []string{"quoted-comma"}},
	{raw: `Digest realm="Acme, Inc", nonce="n"`, is: c20Issued{realm: "Acme, Inc", nonce: "n"}, user: "u", pass: "pw", uri: "/", tags: []string{"quoted-comma"}},
}

// c20Exchange generates one case, runs it on the real client and records the verdicts.
func c20Exchange(t *testing.T, s *verifh.Session, j *c20Judge, r *rand.Rand, o *c20Origin, mode c20Run, known map[string]int, count func(string)) {
	// ---- what the origin will do
	var sc c20Script
	var gen *c20Chal
	sc.firstBody = verifh.Pick(r, []string{"denied", "", "first response body", strings.Repeat("x", 3000)})
	switch k := r.Intn(20); {
	case k < 13:
		sc.firstStatus = 401
		g := c20GenHeader(r, true)
		gen = &g
		sc.www = append([]string(nil), g.lines...)
		for tg := range g.tags {
			count("tag:" + tg)
		}
	case k == 13 || k == 14:
		sc.firstStatus = 401
		switch r.Intn(8) {
		case 5, 6, 7:
			// the malformed family: one parameter of a grammatical list damaged (must be an ERROR end to end)
			g := c20GenHeader(r, true)
			x := r.Intn(len(g.lines))
			lines := append([]string(nil), g.lines...)
			var way string
			lines[x], way = c20DamageParam(r, lines[x])
			sc.www = lines
			count("damage:" + way)
		case 0: // no challenge at all
		case 1:
			sc.www = []string{verifh.Pick(r, c20OtherChallenges)}
		case 2:
			g := c20GenChallenge(r, true)
			gen = &g
			sc.www = []string{"Basic realm=\"fallback\"", g.raw}
		case 3:
			sc.www = []string{c20Mutate(r, c20GenHeader(r, true).raw)}
		default:
			sc.www = []string{verifh.Pick(r, c20Junk)}
		}
	case k < 19:
		sc.firstStatus = verifh.Pick(r, []int{200, 200, 201, 204, 400, 403, 404, 407, 402, 500, 503, 400})
		if r.Intn(2) == 0 {
			sc.www = c20GenHeader(r, true).lines // a challenge on a non-401 must be ignored
			if sc.firstStatus == 407 {
				sc.proxyAuth = true // ... and a 407 is not answered with Authorization either
			}
		}
	default:
		sc.firstStatus = 0
	}
	for i, v := range sc.www {
		// what a header field can carry: no CR/LF, no leading/trailing OWS
		b := []byte(v)
		for j, ch := range b {
			if ch < 32 && ch != '\t' || ch == 127 {
				b[j] = ' '
			}
		}
		sc.www[i] = strings.Trim(string(b), " \t")
	}
	if sc.firstStatus == 401 && gen != nil && r.Intn(8) == 0 {
		sc.rejectSecond = true
	}
	if w := mode.fixed; w != nil {
		g := c20Chal{is: w.is, raw: w.raw, tags: map[string]bool{}}
		for _, tg := range w.tags {
			g.tags[tg] = true
		}
		gen = &g
		sc = c20Script{firstStatus: 401, www: []string{w.raw}, firstBody: "denied"}
	}
	// ---- the call
	user, ku := c20Text(r, r.Intn(12) == 0)
	pass, _ := c20Text(r, true)
	for strings.ContainsAny(user, "\r\n\x00") || !c20HeaderSafe(user) {
		user, ku = c20Text(r, false)
	}
	if r.Intn(30) == 0 {
		// a user name no field value can carry: the transport must refuse the authorized request
		// (unless the name is sent hashed), never send something else
		user, ku = verifh.RandBytes(r, 1+r.Intn(5), "ab")+verifh.Pick(r, []string{"\r\nX-Injected: 1", "\x00", "\x7f", "\n", "\x1f"}), "control"
	}
	method := verifh.Pick(r, []string{"GET", "GET", "POST", "POST", "PUT", "PATCH", "DELETE", "HEAD", "OPTIONS"})
	uri := verifh.Pick(r, c20URIs)
	kind := verifh.Pick(r, []string{"none", "none", "bytes", "bytes", "string", "json", "form", "ordered-form", "multipart", "multipart-chunked", "getbody-func", "stream", "client-form", "big"})
	if w := mode.fixed; w != nil {
		user, ku, pass, method, uri, kind = w.user, "witness", w.pass, "GET", w.uri, "none"
	}
	c := C().SetTimeout(20 * time.Second)
	if r.Intn(3) == 0 {
		c.DisableAllowGetMethodPayload()
	}
	payloadForbidden := method == "GET" && !c.AllowGetMethodPayload || method == "HEAD" || method == "OPTIONS"
	if mode.h2 {
		c.EnableInsecureSkipVerify().EnableForceHTTP2()
	} else {
		c.EnableForceHTTP1()
	}
	defer c.GetTransport().CloseIdleConnections()
	rq := c.R()
	priorErr := false
	if r.Intn(2) == 0 {
		if mode.fixed == nil && r.Intn(12) == 0 {
			// an earlier response middleware failed: the digest middleware must leave the response alone
			priorErr = true
			c.OnAfterResponse(func(*Client, *Response) error { return errC20Prior })
			count("prior-middleware-error")
		}
		c.SetCommonDigestAuth(user, pass)
		count("via:client")
	} else {
		rq.SetDigestAuth(user, pass)
		count("via:request")
	}
	payload := verifh.RandBytes(r, 1+r.Intn(200), "")
	switch kind {
	case "bytes":
		rq.SetBodyBytes([]byte(payload))
	case "big":
		payload = verifh.RandBytes(r, 70000+r.Intn(3000), "")
		rq.SetBodyBytes([]byte(payload))
	case "string":
		rq.SetBodyString(verifh.RandBytes(r, 1+r.Intn(100), "abc äöü {}\"\n"))
	case "json":
		rq.SetBodyJsonMarshal(map[string]interface{}{"name": verifh.RandBytes(r, 5, "abc"), "n": r.Intn(1000), "l": []int{1, 2, 3}})
	case "form":
		rq.SetFormData(map[string]string{"user": verifh.RandBytes(r, 4, "abc"), "q": "a b&c=d", "z": "ü"})
	case "ordered-form":
		rq.SetOrderedFormData("z", "1", "a", "2 3", "m", verifh.RandBytes(r, 3, "xyz"))
	case "multipart":
		rq.SetFileBytes("file", "a.bin", []byte(payload)).SetFormData(map[string]string{"field": verifh.RandBytes(r, 4, "abc")})
	case "multipart-chunked":
		rq.SetFileBytes("file", "a.bin", []byte(payload)).SetFormData(map[string]string{"field": verifh.RandBytes(r, 4, "abc")}).EnableForceChunkedEncoding()
	case "getbody-func":
		p := payload
		rq.SetBody(func() (io.ReadCloser, error) { return io.NopCloser(strings.NewReader(p)), nil })
	case "stream":
		rq.SetBody(strings.NewReader(payload))
	case "client-form":
		c.SetCommonFormData(map[string]string{"k": verifh.RandBytes(r, 3, "abc")})
	}
	rnd := []byte(verifh.RandBytes(r, 16, ""))
	// SetOutput: the caller wants the body of the FINAL response in a writer (the 401 of an answered
	// challenge must not end up there - whatever way the challenge is written)
	var saved *bytes.Buffer
	if mode.fixed == nil && r.Intn(6) == 0 {
		saved = &bytes.Buffer{}
		rq.SetOutput(saved)
		count("save-output")
	}
	rq.SetHeader("X-Verif-Case", o.begin(sc))
	var undo func()
	if mode.identity {
		undo = c20InjectRand(rnd, false)
	}
	var resp *Response
	text := func() string {
		if saved != nil {
			return saved.String()
		}
		return resp.String()
	}
	p, pan := verifh.Safely(func() { resp, _ = rq.Send(method, o.srv.URL+uri) })
	if undo != nil {
		undo()
	}
	id := fmt.Sprintf("%s %s status=%d www=%q user=%q body=%s", method, uri, sc.firstStatus, sc.www, user, kind)
	if pan {
		s.Crash(id, id, p, "")
		return
	}
	seen := o.requests()
	count("status:" + strconv.Itoa(sc.firstStatus))
	count("body:" + kind)
	count("user:" + ku)
	if len(seen) == 0 {
		s.Observe(id, false, "", true, id, "the origin saw no request at all: "+fmt.Sprint(resp.Err))
		return
	}
	if mode.h2 && seen[0].proto != 2 || !mode.h2 && seen[0].proto != 1 {
		s.Observe(id, false, "", true, id, fmt.Sprintf("wrong protocol version %d", seen[0].proto))
		return
	}
	// ---- model line
	bkind := "bytes"
	switch {
	case payloadForbidden || kind == "none":
		bkind = "none"
	case kind == "stream":
		bkind = "stream"
	}
	if bkind == "none" && len(seen[0].body) != 0 {
		s.Observe(id, false, "", true, id, "a body was sent where none was expected")
		return
	}
	www := ""
	if len(sc.www) > 0 {
		www = sc.www[0]
	}
	if len(sc.www) > 1 {
		count("www-lines>1")
	}
	status, errFlag := sc.firstStatus, "0"
	if status == 0 {
		status, errFlag = 401, "1" // transport error: no response at all
	}
	if priorErr {
		errFlag = "1"
	}
	lane := "c20kind"
	if mode.identity {
		lane = "c20handle"
	}
	tail := fmt.Sprintf("%s %s %s %s %s %s %x", verifh.Hex(user), verifh.Hex(pass),
		verifh.Hex(method), verifh.Hex(uri), bkind, verifh.Hex(string(seen[0].body)), rnd)
	line := fmt.Sprintf("%s2 %d %s %s %s", lane, status, errFlag, verifh.HexList(sc.www), tail)
	legacy := fmt.Sprintf("%s %d %s %s %s", lane, status, errFlag, verifh.Hex(www), tail) // the code as found reads the first line only
	// ---- what the implementation did
	var impl string
	derr := c20ErrName(resp.Err)
	switch {
	case len(seen) == 1 && resp.Err == nil:
		impl = "untouched"
	case len(seen) == 1 && derr == "other" && sc.firstStatus == 0:
		impl = "untouched" // the transport error is passed on as it is
	case len(seen) == 1 && priorErr && errors.Is(resp.Err, errC20Prior):
		impl = "untouched" // the earlier middleware's error is passed on as it is
	case len(seen) == 1 && derr != "other":
		impl = "err " + derr
	case len(seen) == 2 && resp.Err == nil:
		if mode.identity {
			impl = "resend " + verifh.Hex(seen[1].auth) + " " + verifh.Hex(string(seen[1].body))
		} else {
			impl = "resend " + verifh.Hex(string(seen[1].body))
		}
	default:
		impl = fmt.Sprintf("anomaly requests=%d err=%v", len(seen), resp.Err)
	}
	count("outcome:" + strings.SplitN(impl, " ", 2)[0])
	if strings.HasPrefix(impl, "err ") {
		count("outcome:" + impl)
	}
	// ---- oracle
	ok, why, class := true, "", ""
	fail := func(w string) {
		if ok {
			ok, why = false, w
		}
	}
	if priorErr {
		if len(seen) != 1 || !errors.Is(resp.Err, errC20Prior) {
			fail(fmt.Sprintf("a response that already carries an error was acted upon: requests=%d err=%v", len(seen), resp.Err))
		}
	} else if sc.firstStatus != 401 {
		// responses other than 401 are left untouched: one request, status and body as served
		if len(seen) != 1 {
			fail(fmt.Sprintf("%d requests for a non-401 response", len(seen)))
		}
		if sc.firstStatus != 0 {
			if resp.Err != nil {
				fail("error on a non-401 response: " + resp.Err.Error())
			} else if resp.StatusCode != sc.firstStatus {
				fail(fmt.Sprintf("status %d reported for %d", resp.StatusCode, sc.firstStatus))
			} else if method != "HEAD" && sc.firstStatus != 204 && text() != sc.firstBody {
				fail("response body changed")
			}
		}
	} else {
		if len(seen) > 2 {
			fail(fmt.Sprintf("challenge answered %d times", len(seen)-1))
		}
		for _, sn := range seen[:1] {
			if sn.hasAuth {
				fail("Authorization sent before any challenge")
			}
		}
	}
	normalised := false
	if len(seen) == 2 && resp.Err == nil && resp.StatusCode == 200 && method != "HEAD" {
		// informational only (outside the property): which body does the caller see after the resend?
		switch text() {
		case "granted":
			count("note:final-body=second-response")
		case sc.firstBody:
			count("note:final-body=stale-401-body")
		default:
			count("note:final-body=other")
		}
		if saved != nil && saved.String() != "granted" {
			fail(fmt.Sprintf("SetOutput holds %q after the challenge was answered and the request granted, not the final response", c20Clip(saved.String())))
		}
	}
	if len(seen) >= 2 {
		second := seen[1]
		if second.method != seen[0].method || second.uri != seen[0].uri {
			fail(fmt.Sprintf("second request is %s %s, first was %s %s", second.method, second.uri, seen[0].method, seen[0].uri))
		}
		// the body is sent again intact
		sameBody := bytes.Equal(second.body, seen[0].body)
		if (kind == "multipart" || kind == "multipart-chunked") && !payloadForbidden {
			p1, e1 := c20Parts(seen[0].ctype, seen[0].body)
			p2, e2 := c20Parts(second.ctype, second.body)
			sameBody = e1 == nil && e2 == nil && p1 == p2
			if !sameBody {
				count("known:multipart-boundary")
				if known["mp"] < 3 {
					s.Observe("multipart "+id, false, "c20-multipart-resend", false, id, fmt.Sprintf("first parts %q (%v), second parts %q (%v); content-type %q vs %q", c20Clip(p1), e1, c20Clip(p2), e2, seen[0].ctype, second.ctype))
				}
				known["mp"]++
				normalised = true
			} else if !mode.identity {
				impl = "resend " + verifh.Hex(string(seen[0].body)) // a fresh boundary is not a different body
			}
		} else if !sameBody {
			switch {
			case kind == "stream" && len(second.body) == 0:
				count("known:unreplayable-body")
				if known["stream"] < 3 {
					s.Observe("stream "+id, false, "c20-unreplayable-body", false, id, fmt.Sprintf("first body %d bytes, second body empty", len(seen[0].body)))
				}
				known["stream"]++
				normalised = true
				impl = "err unreplayable-body"
			case kind == "client-form":
				count("known:client-formdata-doubled")
				if known["cf"] < 3 {
					s.Observe("client-form "+id, false, "c20-client-formdata-doubled", false, id, fmt.Sprintf("first body %q, second body %q", seen[0].body, second.body))
				}
				known["cf"]++
				normalised = true
			default:
				fail(fmt.Sprintf("body of the second request differs: %d bytes vs %d bytes", len(second.body), len(seen[0].body)))
			}
		}
		// the header is one an RFC 7616 verifier accepts
		hdr := second.auth
		hf := c20RealH
		if mode.identity {
			hf = c20IdH
		}
		// signatures of two known findings, read off the header itself
		if c20EmptyAlg(hdr) != hdr {
			// fixes/C20-2: `algorithm=` with an empty value
			count("known:empty-algorithm-param")
			if known["alg"] < 3 {
				s.Observe("empty-algorithm "+id, false, "c20-empty-algorithm-param", false, id, "header "+strconv.Quote(hdr))
			}
			known["alg"]++
			hdr = c20EmptyAlg(hdr)
			if mode.identity && strings.HasPrefix(impl, "resend ") {
				impl = "resend " + verifh.Hex(hdr) + " " + verifh.Hex(string(second.body))
			}
		}
		sessNoCnonce := false
		if i := strings.LastIndex(hdr, ", algorithm="); i >= 0 { // textual: the header may be unparseable for other reasons
			a := hdr[i+len(", algorithm="):]
			if j := strings.IndexByte(a, ','); j >= 0 {
				a = a[:j]
			}
			sessNoCnonce = strings.HasSuffix(a, "-sess") && !strings.Contains(hdr, ", cnonce=\"")
		}
		switch {
		case sessNoCnonce:
			// fixes/C20-3: -sess answered without qop: HA1 contains a cnonce that is not sent
			count("known:sess-without-qop")
			if known["sess"] < 3 {
				s.Observe("sess-without-qop "+id, false, "c20-sess-without-qop", false, id, "header "+strconv.Quote(hdr))
			}
			known["sess"]++
			impl = "err qop"
		case gen == nil || gen.broken || !c20Answerable(gen.is):
			// answered something that was not generated as an answerable challenge: judged by the model only
		default:
			x := c20Ctx{is: gen.is, method: seen[0].method, uri: seen[0].uri, user: user, pass: pass, body: second.body}
			good, vwhy := c20Verify(hf, x, hdr)
			switch {
			case good:
				count("verifier-accepted")
				if !sc.rejectSecond && !normalised && resp.Err == nil && resp.StatusCode != 200 {
					fail(fmt.Sprintf("accepted request but status %d reported", resp.StatusCode))
				}
			case !mode.identity && gen.is.algorithm != nil && strings.HasPrefix(*gen.is.algorithm, "SHA-512-256") && c20ResponseLen(hdr) == 128:
				count("known:sha512-256-table")
				if known["row13"] < 3 {
					s.Observe("sha512-256 "+id, false, "c20-sha512-256-table", false, id, "verifier: "+vwhy+"; header "+strconv.Quote(hdr))
				}
				known["row13"]++
			case c20QuotedCorner(gen, user, uri):
				count("known:quoted-string-handling")
				if known["qs"] < 3 {
					s.Observe("quoted-string "+id, false, "c20-quoted-string-handling", false, id+" raw="+strconv.Quote(gen.raw), "verifier: "+vwhy+"; header "+strconv.Quote(hdr))
				}
				known["qs"]++
			default:
				fail("verifier: " + vwhy + "; header " + strconv.Quote(hdr))
			}
		}
		if sc.rejectSecond && len(seen) == 2 && resp.Err == nil && resp.StatusCode != 401 {
			fail(fmt.Sprintf("second 401 reported as %d", resp.StatusCode))
		}
	}
	if strings.HasPrefix(impl, "anomaly") {
		switch {
		case kind == "client-form" && !payloadForbidden:
			count("known:client-formdata-doubled")
			if known["cf"] < 3 {
				s.Observe("client-form "+id, false, "c20-client-formdata-doubled", false, id, impl)
			}
			known["cf"]++
			normalised = true
		case (kind == "multipart" || kind == "multipart-chunked") && !payloadForbidden:
			count("known:multipart-boundary")
			if known["mp"] < 3 {
				s.Observe("multipart "+id, false, "c20-multipart-resend", false, id, impl)
			}
			known["mp"]++
			normalised = true
		}
	}
	human := id
	if !ok {
		human += " | " + why
	}
	if len(seen) >= 2 {
		human += " | Authorization: " + strconv.Quote(seen[1].auth)
	}
	if normalised && !strings.HasPrefix(impl, "err ") {
		// the known deviation is reported above; nothing comparable is left for the model
		s.Observe(id, ok, class, false, human, why)
		return
	}
	_ = class
	j.add(c20Pending{line: line, legacy: legacy, impl: impl, ok: ok, nontrivial: len(seen) == 2 || strings.HasPrefix(impl, "err "), human: human})
}

func c20HeaderSafe(v string) bool {
	for i := 0; i < len(v); i++ {
		if v[i] < 32 && v[i] != '\t' || v[i] == 127 {
			return false
		}
	}
	return true
}

// c20EmptyAlg removes the empty `algorithm=` element (known finding c20-empty-algorithm-param).
func c20EmptyAlg(h string) string {
	if i := strings.LastIndex(h, ", algorithm=, "); i >= 0 {
		return h[:i] + ", " + h[i+len(", algorithm=, "):]
	}
	return strings.TrimSuffix(h, ", algorithm=")
}

func c20ResponseLen(h string) int {
	i := strings.Index(h, `response="`)
	if i < 0 {
		return -1
	}
	j := strings.IndexByte(h[i+10:], '"')
	return j
}

func c20Counter(s *verifh.Session) (map[string]int, func(string)) {
	cnt := map[string]int{}
	return cnt, func(k string) { cnt[k]++; s.Count(k) }
}

func TestVerif_C20_handle(t *testing.T) {
	s := verifh.New(t, "C20", "handle",
		"real client (HTTP/1.1 loopback) with SetDigestAuth / SetCommonDigestAuth against an origin scripted per case: first response 401 with a grammatical RFC 7235 challenge list in 1-3 WWW-Authenticate lines (65%; several challenges, several Digest challenges, other schemes, token68), 401 with no / foreign / two / damaged / junk challenge, other statuses with or without a challenge, dropped connection; methods x URIs with queries x body kinds (none, bytes, 70 KB, string, json, form, ordered form, multipart, GetBody func, io.Reader, client-level form) x SetOutput in 1/6 x user names with control bytes in 1/30; hashFuncs = tagged identity hash and injected entropy, so the model predicts untouched / error kind / the exact Authorization value and body of the second request; oracle: non-401 untouched, at most one resend, same method+target+body, origin's RFC 7616 verifier accepts; non-trivial = resent or named error")
	restore, _ := c20InstallIdentity()
	defer restore()
	o := c20NewOrigin(false)
	defer o.srv.Close()
	r := s.Rand()
	cnt, count := c20Counter(s)
	known := map[string]int{}
	j := &c20Judge{s: s}
	n := verifh.N(1500, 30000)
	must := []string{"outcome:untouched", "outcome:resend", "outcome:err bad-challenge", "outcome:err alg", "outcome:err qop", "outcome:err invalid-header", "prior-middleware-error", "status:0", "status:401", "status:200", "status:407", "verifier-accepted", "body:multipart", "body:stream", "body:big",
		"tag:multi", "tag:multi-line", "tag:several-digest", "www-lines>1"}
	for i := range c20Witnesses {
		c20Exchange(t, s, j, r, o, c20Run{identity: true, fixed: &c20Witnesses[i]}, known, count)
	}
	for i := 0; i < n || !c20All(cnt, must); i++ {
		if i > 20*n {
			// judge what was collected first: when the implementation never produces an outcome
			// any more (a malformed challenge no longer an error, say) the cases that should have
			// produced it are the concrete failing inputs
			t.Errorf("declared buckets not reached: %v", cnt)
			break
		}
		c20Exchange(t, s, j, r, o, c20Run{identity: true}, known, count)
	}
	j.flush()
	s.Finish()
}

func c20All(cnt map[string]int, must []string) bool {
	for _, m := range must {
		if cnt[m] == 0 {
			return false
		}
	}
	return true
}

func TestVerif_C20_e2e(t *testing.T) {
	s := verifh.New(t, "C20", "e2e",
		"as lane handle but with the REAL hash functions and entropy, over HTTP/1.1 and over HTTP/2 (TLS, forced): the origin verifies the Authorization header with crypto/md5, crypto/sha256, crypto/sha512.Sum512_256 per RFC 7616; the model predicts the outcome kind (untouched / error kind / resent with which body); oracle as in handle; non-trivial = resent or named error")
	r := s.Rand()
	cnt, count := c20Counter(s)
	known := map[string]int{}
	j := &c20Judge{s: s}
	for _, h2 := range []bool{false, true} {
		o := c20NewOrigin(h2)
		n := verifh.N(900, 20000)
		if h2 {
			n = verifh.N(600, 10000)
		}
		tagc := func(k string) { count(k); count(map[bool]string{false: "h1:", true: "h2:"}[h2] + k) }
		key := map[bool]string{false: "h1:", true: "h2:"}[h2]
		must := []string{key + "outcome:untouched", key + "outcome:resend", key + "verifier-accepted", key + "outcome:err bad-challenge"}
		for i := range c20Witnesses {
			c20Exchange(t, s, j, r, o, c20Run{h2: h2, fixed: &c20Witnesses[i]}, known, tagc)
		}
		for i := 0; i < n || !c20All(cnt, must); i++ {
			if i > 20*n {
				t.Errorf("declared buckets not reached: %v", cnt) // the collected cases are judged below
				break
			}
			c20Exchange(t, s, j, r, o, c20Run{h2: h2}, known, tagc)
		}
		o.srv.Close()
	}
	j.flush()
	s.Finish()
}

// TestVerif_C20_wire: basic and bearer credentials as an origin receives them (HTTP/1.1 and
// HTTP/2): the server-side recovery (net/http Request.BasicAuth / the text after "Bearer ")
// must give back exactly the strings handed to the setters. Strings a header field cannot
// carry (CR, LF, NUL, other controls) must produce an error, not a different credential;
// trailing/leading white space of a bearer token is removed by HTTP field parsing itself and
// is excluded.
func TestVerif_C20_wire(t *testing.T) {
	s := verifh.New(t, "C20", "wire",
		"user/password/token strings (plain, colon, UTF-8, Latin-1, empty, long, spaces, quote/backslash/comma, occasionally control bytes) sent with SetBasicAuth / SetCommonBasicAuth / SetBearerAuthToken / SetCommonBearerAuthToken over HTTP/1.1 and HTTP/2 to an origin that decodes them; oracle: recovered = given (user without ':'), or a client-side error when the bearer token cannot be a field value; non-trivial = credential received")
	r := s.Rand()
	for _, h2 := range []bool{false, true} {
		o := c20NewOrigin(h2)
		c := C().SetTimeout(20 * time.Second)
		if h2 {
			c.EnableInsecureSkipVerify().EnableForceHTTP2()
		} else {
			c.EnableForceHTTP1()
		}
		n := verifh.N(400, 8000)
		for i := 0; i < n; i++ {
			caseID := o.begin(c20Script{firstStatus: 200, firstBody: "ok"})
			u, _ := c20Text(r, true)
			p, _ := c20Text(r, true)
			if r.Intn(15) == 0 {
				p = verifh.RandBytes(r, 1+r.Intn(10), "")
			}
			basic := r.Intn(2) == 0
			client := r.Intn(2) == 0
			cc := c
			if client {
				cc = c.Clone()
			}
			rq := cc.R().SetHeader("X-Verif-Case", caseID)
			switch {
			case basic && client:
				cc.SetCommonBasicAuth(u, p)
			case basic:
				rq.SetBasicAuth(u, p)
			case client:
				cc.SetCommonBearerAuthToken(p)
			default:
				rq.SetBearerAuthToken(p)
			}
			resp, _ := rq.Get(o.srv.URL + "/wire")
			if client {
				cc.GetTransport().CloseIdleConnections()
			}
			seen := o.requests()
			id := fmt.Sprintf("h2=%v basic=%v client=%v user=%q secret=%q", h2, basic, client, u, p)
			s.Count(fmt.Sprintf("h2=%v basic=%v", h2, basic))
			if basic {
				if len(seen) != 1 || !seen[0].hasAuth {
					s.Observe(id, false, "", true, id, fmt.Sprintf("no credential received: err=%v", resp.Err))
					continue
				}
				hr := &http.Request{Header: http.Header{"Authorization": {seen[0].auth}}}
				gu, gp, gok := hr.BasicAuth()
				ok := gok && gu+":"+gp == u+":"+p && (strings.Contains(u, ":") || (gu == u && gp == p))
				s.Observe(id, ok, "", true, id, fmt.Sprintf("origin recovered (%q, %q, %v) from %q", gu, gp, gok, seen[0].auth))
				continue
			}
			carriable := c20HeaderSafe(p) && strings.Trim(p, " \t") == p && p != ""
			if !carriable {
				s.Count("bearer:not-a-field-value")
				// an error, or (white space at the edges) the trimmed token — never another token
				ok := len(seen) == 0 && resp.Err != nil || len(seen) == 1 && c20HeaderSafe(p) && strings.TrimPrefix(seen[0].auth, "Bearer ") == strings.Trim(p, " \t") ||
					len(seen) == 1 && seen[0].auth == strings.Trim("Bearer "+p, " \t") || len(seen) == 1 && seen[0].auth == "Bearer "+p
				s.Observe(id, ok, "", false, id, fmt.Sprintf("requests=%d err=%v", len(seen), resp.Err))
				continue
			}
			ok := len(seen) == 1 && seen[0].hasAuth && seen[0].auth == "Bearer "+p
			got := ""
			if len(seen) == 1 {
				got = seen[0].auth
			}
			s.Observe(id, ok, "", true, id, fmt.Sprintf("origin received %q err=%v", got, resp.Err))
		}
		c.GetTransport().CloseIdleConnections()
		o.srv.Close()
	}
	s.Finish()
}
