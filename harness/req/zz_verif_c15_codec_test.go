//go:build verif

package req

import (
	"fmt"
	"io"
	"strings"
	"testing"
	"unicode/utf8"

	"github.com/imroc/req/v3/internal/verifh"
	"golang.org/x/text/encoding"
	"golang.org/x/text/encoding/simplifiedchinese"
)

// TestVerif_C15_codec: the multi-byte, resynchronising decoders of x/text against the Lean
// prefix-code decoders (Req/Client/PrefixCode.lean), whole-input and streamed over generated
// chunkings.
func TestVerif_C15_codec(t *testing.T) {
	s := verifh.New(t, "C15", "codec",
		"(dbcs) gbk, big5, euc-kr, shift_jis: text in the charset, random bytes, text with bytes changed / dropped (invalid trail bytes, unmapped pairs, a dangling lead byte at the end) x chunkings (1-byte, inside "+
			"every sequence, random) — model: the generic double-byte prefix code over tables stated from x/text's answers on the 1- and 2-byte strings that occur; (gbk-grid) the COMPLETE two-byte grid: for every first "+
			"byte 00..ff all 256 second bytes — model: GBK with the byte ranges of the Lean model (80 = euro, ff = U+FFFD, lead 81..fe, trail 40..7e|80..fe, else U+FFFD for the lead alone), only the code points come "+
			"from x/text; (gb18030) 1-, 2- and 4-byte sequences incl. four-byte sequences cut off after 1..3 bytes and with an invalid third / fourth byte. Answer: whole-input decode + chunked decode with flush. "+
			"non-trivial = at least 2 chunks and a multi-byte sequence")
	r := s.Rand()
	cnt := c15NewCounter(s)
	dec := func(e encoding.Encoding, in string) string { return c15Transcode(e, in) }
	stream := func(e encoding.Encoding, chunks []string) string {
		b, err := io.ReadAll(e.NewDecoder().Reader(newC15Src(chunks, io.EOF, r.Intn(2) == 0)))
		if err != nil {
			return "!stream-error!"
		}
		return string(b)
	}
	chunk := func(in string) []string {
		var chunks []string
		mode := r.Intn(3)
		for len(in) > 0 {
			k := 1
			switch mode {
			case 1:
				k = 1 + r.Intn(3)
			case 2:
				k = 1 + r.Intn(verifh.Pick(r, []int{2, 5, 16, 600}))
			}
			k = min(k, len(in))
			chunks = append(chunks, in[:k])
			in = in[k:]
		}
		if r.Intn(8) == 0 {
			chunks = append(chunks, "")
		}
		return chunks
	}
	const fffd = "\xef\xbf\xbd"
	// ---- generic double-byte codes
	for i := 0; i < verifh.N(1500, 30000); i++ {
		cs := verifh.Pick(r, []c15cs{c15Charsets[0], c15Charsets[3], c15Charsets[4], c15Charsets[5]}) // gbk big5 shift_jis euc-kr
		e := c15Lookup(cs.label)
		var in string
		switch r.Intn(4) {
		case 0:
			in = verifh.RandBytes(r, r.Intn(40), "")
		case 1:
			in = verifh.RandBytes(r, r.Intn(40), "\x81\xfe\xff\x80\x40\x7f\x30\xa1\xe0\x9f\xc7A")
		default:
			bb := []byte(c15Encode(e, c15Text(r, cs, 4+r.Intn(60))))
			for k := r.Intn(4); k > 0 && len(bb) > 0; k-- {
				at := r.Intn(len(bb))
				if r.Intn(2) == 0 {
					bb[at] = byte(r.Intn(256))
				} else {
					bb = append(bb[:at], bb[at+1:]...)
				}
			}
			in = string(bb)
		}
		var singles, pairs []string
		seenS, seenP := map[byte]bool{}, map[string]bool{}
		for k := 0; k < len(in); k++ {
			b := in[k]
			one := dec(e, in[k:k+1])
			if !seenS[b] {
				seenS[b] = true
				// single iff the byte never waits for a successor: decoding it followed by any byte x equals (its own output) + decode(x)
				single := true
				for _, x := range []string{"0", "A", "\xa1", "\xfe", "\x40", "\x81"} {
					if dec(e, in[k:k+1]+x) != one+dec(e, x) {
						single = false
					}
				}
				if single {
					singles = append(singles, verifh.Hex(in[k:k+1])+"="+verifh.Hex(one))
				}
			}
			if k+1 < len(in) && !seenP[in[k:k+2]] {
				seenP[in[k:k+2]] = true
				two := dec(e, in[k:k+2])
				if two == fffd+dec(e, in[k+1:k+2]) {
					pairs = append(pairs, verifh.Hex(in[k:k+2])+"="+verifh.Hex(fffd)+"/1")
				} else {
					pairs = append(pairs, verifh.Hex(in[k:k+2])+"="+verifh.Hex(two)+"/2")
				}
			}
		}
		join := func(l []string) string {
			if len(l) == 0 {
				return "-"
			}
			return strings.Join(l, ";")
		}
		chunks := chunk(in)
		whole, streamed := dec(e, in), stream(e, chunks)
		multi := utf8.RuneCountInString(whole) < len(in)
		cnt.count("dbcs:" + cs.label)
		s.Case("c15mb "+join(singles)+" "+join(pairs)+" "+verifh.HexList(chunks), verifh.Hex(whole)+" "+verifh.Hex(streamed), whole == streamed, "",
			len(chunks) >= 2 && multi, fmt.Sprintf("%s %x in %d chunks -> %x", cs.label, in, len(chunks), whole))
	}
	// ---- GBK: the complete two-byte grid, byte ranges judged by the model
	gbkPairs := func(e encoding.Encoding, in string) string {
		var pairs []string
		seen := map[string]bool{}
		for k := 0; k+1 < len(in); k++ {
			p := in[k : k+2]
			if seen[p] {
				continue
			}
			seen[p] = true
			cp := 0
			if ru, n := utf8.DecodeRuneInString(dec(e, p)); ru != utf8.RuneError && n == len(dec(e, p)) {
				cp = int(ru)
			}
			pairs = append(pairs, verifh.Hex(p)+"="+fmt.Sprint(cp))
		}
		if len(pairs) == 0 {
			return "-"
		}
		return strings.Join(pairs, ";")
	}
	for c0 := 0; c0 < 256; c0++ {
		var sb strings.Builder
		for _, c1 := range r.Perm(256) {
			sb.WriteByte(byte(c0))
			sb.WriteByte(byte(c1))
		}
		in := sb.String()
		chunks := chunk(in)
		e := simplifiedchinese.GBK
		whole, streamed := dec(e, in), stream(e, chunks)
		cnt.count("gbk-grid")
		s.Case("c15gbk gbk "+gbkPairs(e, in)+" - "+verifh.HexList(chunks), verifh.Hex(whole)+" "+verifh.Hex(streamed), whole == streamed, "",
			c0 >= 0x81, fmt.Sprintf("gbk grid first byte %02x, all second bytes, %d chunks", c0, len(chunks)))
	}
	// ---- GB18030: 1-, 2- and 4-byte sequences
	for i := 0; i < verifh.N(600, 12000); i++ {
		e := simplifiedchinese.GB18030
		var sb strings.Builder
		for k := 0; k < 1+r.Intn(8); k++ {
			four := string([]byte{byte(0x81 + r.Intn(0x7e)), byte(0x30 + r.Intn(10)), byte(0x81 + r.Intn(0x7e)), byte(0x30 + r.Intn(10))})
			switch r.Intn(9) {
			case 0:
				sb.WriteString(verifh.Pick(r, []string{"A", "0", "9", "\x80", "\xff", " "}))
			case 1:
				sb.WriteString(c15Encode(e, verifh.Pick(r, []string{"你", "好", "€", "😀", "𠀀", "ᠠ", "é"})))
			case 2:
				sb.WriteString(four[:1+r.Intn(3)]) // cut off
			case 3:
				sb.WriteString(four[:2] + verifh.Pick(r, []string{"\x30", "\x7f", "\x80", "\xff", "A"}) + four[3:])
			case 4:
				sb.WriteString(four[:3] + verifh.Pick(r, []string{"\x2f", "\x3a", "\x81", "A"}))
			case 5:
				sb.WriteString("\x84\x31\xa4" + verifh.Pick(r, []string{"\x39", "\x30"}) + "\xe3\x32\x9a\x36\xfe\x39\xfe\x39") // around the ends of the code space
			case 6:
				sb.WriteString(string([]byte{byte(0x81 + r.Intn(0x7e)), byte(0x3a + r.Intn(6))}) + four[2:])
			default:
				sb.WriteString(four)
			}
		}
		in := sb.String()
		var fours []string
		seen := map[string]bool{}
		for k := 0; k+3 < len(in); k++ {
			q := in[k : k+4]
			if seen[q] || !(0x81 <= q[0] && q[0] <= 0xfe && 0x30 <= q[1] && q[1] <= 0x3f) {
				continue
			}
			seen[q] = true
			out := dec(e, q)
			if out == fffd+dec(e, q[1:]) {
				fours = append(fours, verifh.Hex(q)+"="+verifh.Hex(fffd)+"/1")
			} else {
				fours = append(fours, verifh.Hex(q)+"="+verifh.Hex(out)+"/4")
			}
		}
		fourArg := "-"
		if len(fours) > 0 {
			fourArg = strings.Join(fours, ";")
		}
		chunks := chunk(in)
		whole, streamed := dec(e, in), stream(e, chunks)
		cnt.count("gb18030")
		s.Case("c15gbk gb18030 "+gbkPairs(e, in)+" "+fourArg+" "+verifh.HexList(chunks), verifh.Hex(whole)+" "+verifh.Hex(streamed), whole == streamed, "",
			len(chunks) >= 2, fmt.Sprintf("gb18030 %x in %d chunks -> %x", in, len(chunks), whole))
	}
	cnt.must(t, "dbcs:gbk", "dbcs:big5", "dbcs:shift_jis", "dbcs:euc-kr", "gbk-grid", "gb18030")
	s.Finish()
}
