//go:build verif

package req

import (
	"bufio"
	"bytes"
	"context"
	"crypto/ecdsa"
	"crypto/elliptic"
	crand "crypto/rand"
	"crypto/tls"
	"crypto/x509"
	"crypto/x509/pkix"
	"fmt"
	"io"
	"log"
	"math/big"
	"math/rand"
	"net"
	"net/http"
	"net/http/httptest"
	"strconv"
	"strings"
	"sync"
	"sync/atomic"
	"testing"
	"time"

	"github.com/imroc/req/v3/internal/verifh"
	qh3 "github.com/quic-go/quic-go/http3"
)

// ---------------------------------------------------------------------------------------
// history recorder: a totally ordered list of events (order = order of the appends)

type c09Rec struct {
	mu    sync.Mutex
	evs   []string
	conns map[string]int
	stat  map[string]int
}

func newC09Rec() *c09Rec { return &c09Rec{conns: map[string]int{}, stat: map[string]int{}} }

func (r *c09Rec) addLocked(parts ...int) {
	ss := make([]string, len(parts))
	for i, p := range parts {
		ss[i] = strconv.Itoa(p)
	}
	r.evs = append(r.evs, strings.Join(ss, "."))
}

func (r *c09Rec) add(parts ...int) {
	r.mu.Lock()
	r.addLocked(parts...)
	r.mu.Unlock()
}

func (r *c09Rec) connID(addr string) int {
	r.mu.Lock()
	defer r.mu.Unlock()
	id, ok := r.conns[addr]
	if !ok {
		id = len(r.conns) + 1
		r.conns[addr] = id
	}
	return id
}

func (r *c09Rec) count(k string) {
	r.mu.Lock()
	r.stat[k]++
	r.mu.Unlock()
}

// c09Pattern is the body every party derives from a tag: a response (or request) body that
// contains bytes of another exchange cannot equal it.
func c09Pattern(tag, n int, salt string) []byte {
	unit := []byte(fmt.Sprintf("<%s%d>", salt, tag))
	b := make([]byte, 0, n+len(unit))
	for len(b) < n {
		b = append(b, unit...)
	}
	return b[:n]
}

// ---------------------------------------------------------------------------------------
// response plan, chosen by the caller (deterministically from the lane PRNG) and carried in
// the X-Plan header so that origins need no randomness of their own

type c09Plan struct {
	delay   int  // ms before answering
	size    int  // response body size
	chunked bool // chunked instead of Content-Length
	pause   int  // ms between the two halves of the body
	close   bool // Connection: close
	abort   bool // drop the connection without answering
	altsvc  bool // send Alt-Svc
	// what the origin does with a request that carries "Expect: 100-continue":
	// 0 = nothing special (read the body), 1 = send "100 Continue" then read the body,
	// 2 = answer with the final status WITHOUT "100 Continue" and read the promised body afterwards
	expect int
	status int  // final status (0 = 200)
	silent bool // close the connection right after the complete response, without announcing it
	// unsolicited bytes written on the kept-alive connection behind the complete response:
	// 0 = none, 1 = a duplicate of the whole response, 2 = a well-formed response nobody asked for
	// (tag 0), 3 = garbage that is no HTTP, 4 = half a status line
	extra      int
	extraDelay int // ms between the response and the unsolicited bytes (0 = same write burst)
}

func (p c09Plan) String() string {
	b := func(x bool) int {
		if x {
			return 1
		}
		return 0
	}
	return fmt.Sprintf("%d,%d,%d,%d,%d,%d,%d,%d,%d,%d,%d,%d", p.delay, p.size, b(p.chunked), p.pause, b(p.close), b(p.abort), b(p.altsvc),
		p.expect, p.status, b(p.silent), p.extra, p.extraDelay)
}

func c09ParsePlan(s string) c09Plan {
	var v [12]int
	for i, f := range strings.Split(s, ",") {
		if i < len(v) {
			v[i], _ = strconv.Atoi(f)
		}
	}
	return c09Plan{v[0], v[1], v[2] == 1, v[3], v[4] == 1, v[5] == 1, v[6] == 1, v[7], v[8], v[9] == 1, v[10], v[11]}
}

func (p c09Plan) wantStatus() int {
	if p.status == 0 {
		return 200
	}
	return p.status
}

// ---------------------------------------------------------------------------------------
// raw HTTP/1.1 origin over loopback TCP. It parses requests as soon as their bytes arrive
// (so a request sent before the previous response is complete is SEEN), answers them in
// order following the plan, can drop connections and close idle ones.

type c09H1Origin struct {
	ln        net.Listener
	rec       *c09Rec
	host      int
	altSvc    string        // Alt-Svc header value ("" = never)
	idleClose time.Duration // close a connection idle for this long (0 = never)
	wg        sync.WaitGroup
	live      atomic.Int32
	maxLive   atomic.Int32
	cmu       sync.Mutex
	open      map[net.Conn]bool
	foreignMu sync.Mutex
	foreignEv []string // bytes of one exchange seen inside another
}

func (o *c09H1Origin) foreign(msg string) {
	o.foreignMu.Lock()
	if len(o.foreignEv) < 4 {
		o.foreignEv = append(o.foreignEv, msg)
	}
	o.foreignMu.Unlock()
}

func (o *c09H1Origin) foreignSeen() []string {
	o.foreignMu.Lock()
	defer o.foreignMu.Unlock()
	return append([]string(nil), o.foreignEv...)
}

func c09Clip(b []byte) string {
	if len(b) > 40 {
		b = b[:40]
	}
	return string(b)
}

type c09Parsed struct {
	tag    int
	plan   c09Plan
	bodyOK bool
	method string
}

func newC09H1Origin(rec *c09Rec, host int, altSvc string, idleClose time.Duration) (*c09H1Origin, error) {
	ln, err := net.Listen("tcp", "127.0.0.1:0")
	if err != nil {
		return nil, err
	}
	o := &c09H1Origin{ln: ln, rec: rec, host: host, altSvc: altSvc, idleClose: idleClose}
	o.wg.Add(1)
	go func() {
		defer o.wg.Done()
		for {
			c, err := ln.Accept()
			if err != nil {
				return
			}
			o.wg.Add(1)
			go o.handle(c)
		}
	}()
	return o, nil
}

func (o *c09H1Origin) addr() string { return o.ln.Addr().String() }

func (o *c09H1Origin) stop() {
	o.ln.Close()
	o.cmu.Lock()
	for c := range o.open { // whatever the client left open (idle keep-alive connections)
		c.Close()
	}
	o.cmu.Unlock()
	o.wg.Wait()
}

func (o *c09H1Origin) handle(c net.Conn) {
	defer o.wg.Done()
	o.cmu.Lock()
	if o.open == nil {
		o.open = map[net.Conn]bool{}
	}
	o.open[c] = true
	o.cmu.Unlock()
	defer func() {
		o.cmu.Lock()
		delete(o.open, c)
		o.cmu.Unlock()
	}()
	id := o.rec.connID(fmt.Sprintf("h1:%d:%s", o.host, c.RemoteAddr()))
	o.rec.add(1, id, o.host)
	n := o.live.Add(1)
	for {
		m := o.maxLive.Load()
		if n <= m || o.maxLive.CompareAndSwap(m, n) {
			break
		}
	}
	defer o.live.Add(-1)

	var st struct {
		sync.Mutex
		closed bool
		busy   int
		gen    int
	}
	closeConn := func() { // st.Mutex held
		if !st.closed {
			st.closed = true
			o.rec.add(2, id)
			c.Close()
		}
	}
	reqs := make(chan c09Parsed, 64)
	go func() {
		defer close(reqs)
		br := bufio.NewReader(c)
		for {
			r, err := http.ReadRequest(br)
			if err != nil {
				st.Lock()
				closeConn()
				st.Unlock()
				return
			}
			tag, _ := strconv.Atoi(r.Header.Get("X-Tag"))
			p := c09Parsed{tag: tag, plan: c09ParsePlan(r.Header.Get("X-Plan")), method: r.Method}
			expects := strings.EqualFold(r.Header.Get("Expect"), "100-continue")
			// expect == 2 without an Expect header (round 7): an upload answered early, before its
			// body has been read
			lateBody := p.plan.expect == 2 && r.ContentLength > 0
			var body []byte
			if !lateBody {
				if expects && p.plan.expect == 1 {
					c.Write([]byte("HTTP/1.1 100 Continue\r\n\r\n"))
				}
				body, _ = io.ReadAll(r.Body)
				p.bodyOK = bytes.Equal(body, c09Pattern(tag, len(body), "q"))
			}
			st.Lock()
			if st.closed {
				st.Unlock()
				return
			}
			st.busy++
			st.gen++
			if lateBody {
				st.busy++ // the connection is not idle until the promised body has arrived
			}
			o.rec.add(3, id, tag)
			st.Unlock()
			reqs <- p
			if lateBody {
				// the final status goes out first (responder); the body the client promised with
				// Content-Length is read afterwards, before the next request can be parsed
				body, _ = io.ReadAll(r.Body)
				// a SHORT body is legitimate (the client may give up the connection instead of
				// finishing the upload once it has the final status); bytes of another exchange are not
				if !bytes.HasPrefix(c09Pattern(tag, int(r.ContentLength), "q"), body) {
					o.foreign(fmt.Sprintf("origin %d: the body promised by request tag %d (Expect: 100-continue, %d bytes) arrived as %q…", o.host, tag, r.ContentLength, c09Clip(body)))
				}
				st.Lock()
				st.busy--
				st.gen++
				st.Unlock()
			}
		}
	}()
	for p := range reqs {
		pl := p.plan
		if pl.delay > 0 {
			time.Sleep(time.Duration(pl.delay) * time.Millisecond)
		}
		if pl.abort {
			st.Lock()
			closeConn()
			st.Unlock()
			break
		}
		var hdr bytes.Buffer
		fmt.Fprintf(&hdr, "HTTP/1.1 %d %s\r\nX-Tag: %d\r\nContent-Type: application/octet-stream\r\n", pl.wantStatus(), http.StatusText(pl.wantStatus()), p.tag)
		if p.bodyOK {
			hdr.WriteString("X-Body-Ok: 1\r\n")
		}
		if pl.altsvc && o.altSvc != "" {
			fmt.Fprintf(&hdr, "Alt-Svc: %s\r\n", o.altSvc)
		}
		if pl.close {
			hdr.WriteString("Connection: close\r\n")
		}
		body := c09Pattern(p.tag, pl.size, "r")
		if p.method == "HEAD" {
			body = nil
		}
		h1, h2 := body[:len(body)/2], body[len(body)/2:]
		var first, last []byte
		if pl.chunked && p.method != "HEAD" {
			hdr.WriteString("Transfer-Encoding: chunked\r\n\r\n")
			first = hdr.Bytes()
			if len(h1) > 0 {
				first = append(first, []byte(fmt.Sprintf("%x\r\n%s\r\n", len(h1), h1))...)
			}
			if len(h2) > 0 {
				last = append(last, []byte(fmt.Sprintf("%x\r\n%s\r\n", len(h2), h2))...)
			}
			last = append(last, "0\r\n\r\n"...)
		} else {
			fmt.Fprintf(&hdr, "Content-Length: %d\r\n\r\n", pl.size)
			first = append(hdr.Bytes(), h1...)
			last = h2
			if len(last) == 0 { // nothing would follow: the first write is the final one
				last, first = first, nil
			}
		}
		if len(first) > 0 {
			c.Write(first)
			if pl.pause > 0 {
				time.Sleep(time.Duration(pl.pause) * time.Millisecond)
			}
		}
		st.Lock()
		if st.closed { // the peer went away meanwhile (e.g. the caller closed the body early)
			st.Unlock()
			break
		}
		o.rec.add(4, id, p.tag) // about to write the final bytes of this response
		st.busy--
		gen := st.gen
		st.Unlock()
		c.Write(last)
		if pl.extra != 0 && !pl.close && !pl.silent {
			if pl.extraDelay > 0 {
				time.Sleep(time.Duration(pl.extraDelay) * time.Millisecond)
			}
			var x []byte
			switch pl.extra {
			case 1:
				x = append(append(x, first...), last...)
			case 2:
				x = []byte("HTTP/1.1 200 OK\r\nX-Tag: 0\r\nContent-Length: 9\r\n\r\nunasked:0")
			case 3:
				x = []byte("\x00\x01 not http at all\r\n\r\n")
			default:
				x = []byte("HTTP/1.1 2")
			}
			o.rec.count("origin-sent-unsolicited-bytes")
			c.Write(x)
		}
		if pl.close || pl.silent {
			if pl.silent {
				o.rec.count("origin-closed-silently-after-response")
			}
			st.Lock()
			closeConn()
			st.Unlock()
			break
		}
		if o.idleClose > 0 {
			time.AfterFunc(o.idleClose, func() {
				st.Lock()
				if st.busy == 0 && st.gen == gen {
					o.rec.count("origin-closed-idle")
					closeConn()
				}
				st.Unlock()
			})
		}
	}
	for range reqs {
	}
	st.Lock()
	closeConn()
	st.Unlock()
}

// ---------------------------------------------------------------------------------------
// multiplexed origins (HTTP/2 via httptest, HTTP/3 via quic-go): same plan, same echo

func c09MuxHandler(rec *c09Rec, proto string, altSvc string) http.Handler {
	return http.HandlerFunc(func(w http.ResponseWriter, r *http.Request) {
		tag, _ := strconv.Atoi(r.Header.Get("X-Tag"))
		pl := c09ParsePlan(r.Header.Get("X-Plan"))
		id := rec.connID(proto + ":" + r.RemoteAddr)
		rec.add(5, id, tag)
		body, _ := io.ReadAll(r.Body)
		if pl.delay > 0 {
			time.Sleep(time.Duration(pl.delay) * time.Millisecond)
		}
		w.Header().Set("X-Tag", strconv.Itoa(tag))
		w.Header().Set("X-Proto", proto)
		w.Header().Set("Content-Type", "application/octet-stream")
		if bytes.Equal(body, c09Pattern(tag, len(body), "q")) {
			w.Header().Set("X-Body-Ok", "1")
		}
		if pl.altsvc && altSvc != "" {
			w.Header().Set("Alt-Svc", altSvc)
		}
		out := c09Pattern(tag, pl.size, "r")
		if !pl.chunked {
			w.Header().Set("Content-Length", strconv.Itoa(len(out)))
		}
		h1, h2 := out[:len(out)/2], out[len(out)/2:]
		if len(h1) > 0 {
			w.Write(h1)
			if f, ok := w.(http.Flusher); ok {
				f.Flush()
			}
			if pl.pause > 0 {
				time.Sleep(time.Duration(pl.pause) * time.Millisecond)
			}
		}
		rec.add(6, id, tag)
		w.Write(h2)
	})
}

func c09SelfSigned() (tls.Certificate, error) {
	key, err := ecdsa.GenerateKey(elliptic.P256(), crand.Reader)
	if err != nil {
		return tls.Certificate{}, err
	}
	tmpl := &x509.Certificate{
		SerialNumber: big.NewInt(1),
		Subject:      pkix.Name{CommonName: "verif"},
		NotBefore:    time.Now().Add(-time.Hour),
		NotAfter:     time.Now().Add(24 * time.Hour),
		KeyUsage:     x509.KeyUsageDigitalSignature,
		ExtKeyUsage:  []x509.ExtKeyUsage{x509.ExtKeyUsageServerAuth},
		IPAddresses:  []net.IP{net.ParseIP("127.0.0.1")},
		DNSNames:     []string{"localhost"},
	}
	der, err := x509.CreateCertificate(crand.Reader, tmpl, tmpl, &key.PublicKey, key)
	if err != nil {
		return tls.Certificate{}, err
	}
	return tls.Certificate{Certificate: [][]byte{der}, PrivateKey: key}, nil
}

type c09H3Origin struct {
	srv  *qh3.Server
	conn net.PacketConn
	done chan struct{}
}

func newC09H3Origin(rec *c09Rec) (*c09H3Origin, error) {
	cert, err := c09SelfSigned()
	if err != nil {
		return nil, err
	}
	pc, err := net.ListenPacket("udp", "127.0.0.1:0")
	if err != nil {
		return nil, err
	}
	srv := &qh3.Server{
		Handler:   c09MuxHandler(rec, "h3", ""),
		TLSConfig: qh3.ConfigureTLSConfig(&tls.Config{Certificates: []tls.Certificate{cert}}),
	}
	o := &c09H3Origin{srv: srv, conn: pc, done: make(chan struct{})}
	go func() {
		defer close(o.done)
		srv.Serve(pc)
	}()
	return o, nil
}

func (o *c09H3Origin) port() int { return o.conn.LocalAddr().(*net.UDPAddr).Port }

func (o *c09H3Origin) stop() {
	o.srv.Close()
	o.conn.Close()
	select {
	case <-o.done:
	case <-time.After(3 * time.Second):
	}
}

// ---------------------------------------------------------------------------------------
// one round of the stress

type c09Req struct {
	tag        int
	target     int // index into the round's URL list
	post       bool
	reqSize    int
	plan       c09Plan
	earlyClose bool // read only a prefix of the body, then Close
	slowRead   bool // read the body by hand, in two parts with a pause
	expect     bool // POST with "Expect: 100-continue" (plan.expect says what the origin does)
}

type c09Round struct {
	kind             string // "h1" | "mixed" | "h3forced" | "altsvc"
	maxConns         int
	maxIdleHost      int
	maxIdle          int
	disableKA        bool
	idleClose        bool
	closer           bool
	cloner           bool
	dump             bool
	callers          [][]c09Req
	concurrentAltSvc bool // Alt-Svc headers under full concurrency (only when the facts say guarded)
	hasSilent        bool // some response is followed by an unannounced close of the connection
}

type c09Outcome struct {
	knownH2Unusable int
	line            string
	tagsOK          bool
	unexpected      []string
	stat            map[string]int
	events          int
	human           string
}

func (rd *c09Round) effIdlePerHost() int {
	if rd.disableKA || rd.maxIdleHost < 0 {
		return 0
	}
	if rd.maxIdleHost == 0 {
		return defaultMaxIdleConnsPerHost
	}
	return rd.maxIdleHost
}

// c09Sample reads the pool state under the transport's own locks.
func c09Sample(t *Transport, rec *c09Rec, hostOfAddr map[string]int) {
	type row struct{ idle, waiters, conns int }
	rows := map[int]*row{}
	get := func(addr string) *row {
		h, ok := hostOfAddr[addr]
		if !ok {
			return nil
		}
		if rows[h] == nil {
			rows[h] = &row{}
		}
		return rows[h]
	}
	t.idleMu.Lock()
	total := t.idleLRU.len()
	listed := 0
	for k, l := range t.idleConn {
		listed += len(l)
		if r := get(k.addr); r != nil {
			r.idle += len(l)
		}
	}
	for k, q := range t.idleConnWait {
		if r := get(k.addr); r != nil {
			r.waiters += q.len()
		}
	}
	t.idleMu.Unlock()
	if listed > total {
		total = listed
	}
	t.connsPerHostMu.Lock()
	for k, n := range t.connsPerHost {
		if r := get(k.addr); r != nil {
			r.conns += n
		}
	}
	t.connsPerHostMu.Unlock()
	rec.mu.Lock()
	for h, r := range rows {
		rec.addLocked(9, h, r.idle, total, r.conns, r.waiters)
	}
	if len(rows) == 0 {
		rec.addLocked(9, 0, 0, total, 0, 0)
	}
	rec.mu.Unlock()
}

func c09RunRound(t *testing.T, rd *c09Round, guardedAltSvc bool) (out c09Outcome) {
	rec := newC09Rec()
	out.tagsOK = true
	var h3o *c09H3Origin
	altSvc := ""
	if rd.kind == "h3forced" || rd.kind == "altsvc" {
		var err error
		h3o, err = newC09H3Origin(rec)
		if err != nil {
			t.Fatalf("h3 origin: %v", err)
		}
		defer h3o.stop()
		altSvc = fmt.Sprintf(`h3=":%d"; ma=3600`, h3o.port())
	}
	idle := time.Duration(0)
	if rd.idleClose {
		idle = 2 * time.Millisecond
	}
	oa, err := newC09H1Origin(rec, 1, "", idle)
	if err != nil {
		t.Fatalf("listen: %v", err)
	}
	defer oa.stop()
	ob, err := newC09H1Origin(rec, 2, "", idle)
	if err != nil {
		t.Fatalf("listen: %v", err)
	}
	defer ob.stop()
	h2srv := httptest.NewUnstartedServer(c09MuxHandler(rec, "h2", altSvc))
	h2srv.EnableHTTP2 = true
	h2srv.Config.ErrorLog = log.New(io.Discard, "", 0)
	h2srv.StartTLS()
	defer h2srv.Close()

	// the clone is another client with its own pool and its own limits: it gets its own origin
	oc, err := newC09H1Origin(rec, 4, "", idle)
	if err != nil {
		t.Fatalf("listen: %v", err)
	}
	defer oc.stop()
	urls := []string{"http://" + oa.addr() + "/a", "http://" + ob.addr() + "/b", h2srv.URL + "/h2", "http://" + oc.addr() + "/c"}
	if rd.kind == "h3forced" {
		u := fmt.Sprintf("https://127.0.0.1:%d/h3", h3o.port())
		urls = []string{u, u, u, u}
	}
	hostOfAddr := map[string]int{oa.addr(): 1, ob.addr(): 2, strings.TrimPrefix(h2srv.URL, "https://"): 3}

	cl := C().EnableInsecureSkipVerify().SetTimeout(10 * time.Second)
	cl.SetLogger(nil)
	tr := cl.GetTransport()
	tr.Proxy = nil
	tr.MaxConnsPerHost = rd.maxConns
	tr.MaxIdleConnsPerHost = rd.maxIdleHost
	tr.MaxIdleConns = rd.maxIdle
	tr.DisableKeepAlives = rd.disableKA
	if rd.kind == "h3forced" || rd.kind == "altsvc" {
		cl.EnableHTTP3()
		if tr.t3 == nil {
			t.Fatalf("HTTP/3 could not be enabled on this toolchain")
		}
		tr.t3.TLSClientConfig = &tls.Config{InsecureSkipVerify: true}
		if rd.kind == "h3forced" {
			cl.EnableForceHTTP3()
		}
	}
	if rd.dump {
		cl.EnableDumpAllTo(io.Discard)
	}

	var unexpMu sync.Mutex
	unexpected := func(f string, a ...any) {
		unexpMu.Lock()
		if len(out.unexpected) < 8 {
			out.unexpected = append(out.unexpected, fmt.Sprintf(f, a...))
		}
		unexpMu.Unlock()
	}

	do := func(c *Client, q c09Req) {
		rec.add(0, q.tag)
		r := c.R().SetHeader("X-Tag", strconv.Itoa(q.tag)).SetHeader("X-Plan", q.plan.String())
		manual := q.earlyClose || q.slowRead
		if manual {
			r.DisableAutoReadResponse()
		}
		var resp *Response
		var err error
		if q.post {
			r.SetBodyBytes(c09Pattern(q.tag, q.reqSize, "q"))
			if q.expect {
				r.SetHeader("Expect", "100-continue")
			}
			resp, err = r.Post(urls[q.target])
		} else {
			resp, err = r.Get(urls[q.target])
		}
		if err != nil {
			rec.add(8, q.tag)
			rec.count("failed")
			// A failure is expected only where the scenario provokes one: a dropped connection,
			// a non-idempotent request racing with an origin that closes idle connections, or
			// CloseIdleConnections hitting an HTTP/2 connection between its selection and its
			// use (the documented window in client_conn_pool.go CloseIdleConnections).
			// (a non-idempotent request may also hit a connection the origin closed silently)
			expected := q.plan.abort || ((rd.idleClose || rd.hasSilent) && q.post) || (rd.closer && q.target == 2)
			if !expected {
				if rd.disableKA && c09IsH2Unusable(err) {
					// finding C09-3 (classed by lane h2singleuse, which forces the schedule)
					unexpMu.Lock()
					out.knownH2Unusable++
					unexpMu.Unlock()
				} else {
					unexpected("tag %d %s: unexpected error %v", q.tag, urls[q.target], err)
				}
			}
			return
		}
		want := c09Pattern(q.tag, q.plan.size, "r")
		var body []byte
		switch {
		case q.earlyClose:
			buf := make([]byte, len(want)/3+1)
			n, _ := io.ReadFull(resp.Body, buf)
			body = buf[:n]
			want = want[:n]
			// Body.Close() is done below, AFTER the `done` event is recorded: closing makes the
			// read loop close the connection and free its per-host slot at once (in its own
			// goroutine), so a request on a replacement connection may reach the origin before
			// this goroutine runs again.
		case q.slowRead:
			buf := make([]byte, len(want)/2)
			n, _ := io.ReadFull(resp.Body, buf)
			time.Sleep(3 * time.Millisecond)
			rest, _ := io.ReadAll(resp.Body)
			resp.Body.Close()
			body = append(buf[:n], rest...)
		default:
			body = resp.Bytes()
		}
		echo, e := strconv.Atoi(resp.Header.Get("X-Tag"))
		if e != nil {
			echo = 0
		}
		ok := bytes.Equal(body, want) && resp.StatusCode == q.plan.wantStatus()
		// (with plan.expect == 2 the origin answers before it has the body: it checks the body itself)
		if q.post && q.plan.expect != 2 && resp.Header.Get("X-Body-Ok") != "1" {
			ok = false
		}
		okN := 0
		if ok {
			okN = 1
		}
		if echo != q.tag || !ok {
			unexpMu.Lock()
			out.tagsOK = false
			unexpMu.Unlock()
			unexpected("tag %d got echo %d bodyOK=%v (len %d want %d) via %s", q.tag, echo, ok, len(body), len(want), resp.Proto)
		}
		rec.count("proto-" + resp.Proto)
		partial := 0
		if q.earlyClose {
			partial = 1
		}
		rec.add(7, q.tag, echo, okN, partial)
		if q.earlyClose {
			resp.Body.Close()
		}
	}

	// Alt-Svc warm-up, strictly sequential: one request learns the alternative, the pending
	// probe finishes, one request confirms it. After that concurrent requests only READ the
	// Alt-Svc bookkeeping.
	warm := 0
	if rd.kind == "altsvc" {
		for i := 0; i < 3; i++ {
			warm++
			do(cl, c09Req{tag: 900000 + warm, target: 2, plan: c09Plan{size: 10, altsvc: true}})
			time.Sleep(30 * time.Millisecond)
		}
	}

	stop := make(chan struct{})
	var bg sync.WaitGroup
	bg.Add(1)
	go func() { // sampler
		defer bg.Done()
		for {
			select {
			case <-stop:
				return
			default:
			}
			c09Sample(tr, rec, hostOfAddr)
			time.Sleep(200 * time.Microsecond)
		}
	}()
	if rd.closer {
		bg.Add(1)
		go func() {
			defer bg.Done()
			for {
				select {
				case <-stop:
					return
				case <-time.After(1500 * time.Microsecond):
					tr.CloseIdleConnections()
					rec.count("CloseIdleConnections")
				}
			}
		}()
	}
	if rd.cloner {
		bg.Add(1)
		go func() {
			defer bg.Done()
			n := 0
			for {
				select {
				case <-stop:
					return
				case <-time.After(2 * time.Millisecond):
					cc := cl.Clone()
					n++
					do(cc, c09Req{tag: 800000 + n, target: 3, plan: c09Plan{size: 64}})
					cc.GetTransport().CloseIdleConnections()
					rec.count("Clone")
				}
			}
		}()
	}
	var wg sync.WaitGroup
	for _, reqs := range rd.callers {
		wg.Add(1)
		go func(reqs []c09Req) {
			defer wg.Done()
			for _, q := range reqs {
				do(cl, q)
			}
		}(reqs)
	}
	allDone := make(chan struct{})
	go func() { wg.Wait(); close(allDone) }()
	select {
	case <-allDone:
	case <-time.After(90 * time.Second):
		// callers that outlive every client timeout: a wedged read/write loop or a lost wake-up
		panic("verif: callers still blocked 90 s after the round started although the client timeout is 10 s (wedged connection or lost hand-off)")
	}
	close(stop)
	bg.Wait()
	for _, o := range []*c09H1Origin{oa, ob, oc} {
		for _, m := range o.foreignSeen() {
			unexpected("%s", m)
		}
	}
	c09Sample(tr, rec, hostOfAddr)
	tr.CloseIdleConnections()
	if tr.t3 != nil {
		tr.t3.Close()
	}
	rec.mu.Lock()
	evs := append([]string(nil), rec.evs...)
	rec.mu.Unlock()
	out.events = len(evs)
	enc := "-"
	if len(evs) > 0 {
		enc = strings.Join(evs, ",")
	}
	out.line = fmt.Sprintf("c09mon %d %d %d %s", max(rd.maxConns, 0), rd.effIdlePerHost(), max(rd.maxIdle, 0), enc)
	rec.mu.Lock()
	rec.stat["max-live-h1-conns-a"] = int(oa.maxLive.Load())
	out.stat = map[string]int{}
	for k, v := range rec.stat {
		out.stat[k] = v
	}
	rec.mu.Unlock()
	n := 0
	for _, c := range rd.callers {
		n += len(c)
	}
	var specs []string
	for _, c := range rd.callers {
		for _, q := range c {
			m := "G"
			if q.post {
				m = "P"
			}
			x := "-"
			if q.earlyClose {
				x = "e"
			} else if q.slowRead {
				x = "s"
			}
			if q.expect {
				m += "x"
			}
			specs = append(specs, fmt.Sprintf("t%d:%d:%s:%s:%s", q.tag, q.target, m, q.plan.String(), x))
		}
	}
	defer func() {
		out.human += " reqs[tag:target:method(x=Expect):delay,size,chunked,pause,close,abort,altsvc,expect,status,silent:early|slow] " + strings.Join(specs, " ")
	}()
	out.human = fmt.Sprintf("%s round: %d callers / %d requests, MaxConnsPerHost=%d MaxIdleConnsPerHost=%d MaxIdleConns=%d DisableKeepAlives=%v idleClose=%v closer=%v cloner=%v dump=%v -> %d events, stats %v",
		rd.kind, len(rd.callers), n, rd.maxConns, rd.maxIdleHost, rd.maxIdle, rd.disableKA, rd.idleClose, rd.closer, rd.cloner, rd.dump, len(evs), out.stat)
	return out
}

// c09GenRound draws one round from the lane PRNG.
func c09GenRound(r *rand.Rand, kind string, tag *int, guardedAltSvc bool) *c09Round {
	rd := &c09Round{kind: kind}
	rd.maxConns = verifh.Pick(r, []int{0, 1, 2, 2, 3})
	rd.maxIdleHost = verifh.Pick(r, []int{0, 1, 1, 2, 4, -1})
	rd.maxIdle = verifh.Pick(r, []int{0, 1, 2, 100})
	rd.disableKA = r.Intn(8) == 0
	rd.idleClose = r.Intn(4) == 0
	rd.closer = r.Intn(3) == 0
	rd.cloner = r.Intn(4) == 0
	rd.dump = r.Intn(5) == 0
	if kind == "h3forced" || kind == "altsvc" {
		// keep the QUIC rounds simple: connection limits are an HTTP/1.1 notion
		rd.closer, rd.cloner, rd.idleClose = false, false, false
	}
	rd.concurrentAltSvc = kind == "altsvc" && guardedAltSvc
	nc := 3 + r.Intn(8)
	for c := 0; c < nc; c++ {
		var reqs []c09Req
		k := 2 + r.Intn(5)
		for i := 0; i < k; i++ {
			*tag++
			q := c09Req{tag: *tag}
			switch kind {
			case "h1":
				q.target = r.Intn(2)
				if r.Intn(3) > 0 {
					q.target = 0 // contention on one host
				}
			case "mixed", "altsvc":
				q.target = r.Intn(3)
			case "h3forced":
				q.target = 0
			}
			q.post = r.Intn(4) == 0
			if q.post {
				q.reqSize = verifh.Pick(r, []int{1, 50, 3000, 40000})
			}
			q.plan.delay = verifh.Pick(r, []int{0, 0, 1, 2, 5})
			q.plan.size = verifh.Pick(r, []int{0, 1, 2, 100, 5000, 70000})
			q.plan.chunked = r.Intn(3) == 0
			q.plan.pause = verifh.Pick(r, []int{0, 0, 1, 3})
			mux := q.target == 2 || kind == "h3forced"
			if !mux {
				q.plan.close = r.Intn(10) == 0
				q.plan.abort = r.Intn(25) == 0
				if q.plan.size > 2 {
					switch r.Intn(8) {
					case 0:
						q.earlyClose = true
					case 1:
						q.slowRead = true
					}
				}
			}
			if !mux && q.post && !q.plan.close && !q.plan.abort && !q.earlyClose && !q.slowRead && r.Intn(3) == 0 {
				// Expect: 100-continue; the origin either sends "100 Continue" or answers with a
				// final status straight away and keeps the connection (the body must follow)
				q.expect = true
				q.plan.expect = 1 + r.Intn(2)
				if q.plan.expect == 2 {
					q.plan.status = verifh.Pick(r, []int{403, 404, 500, 200})
				}
			}
			if !mux && !q.plan.close && !q.plan.abort && q.plan.expect != 2 && !q.earlyClose && r.Intn(12) == 0 {
				q.plan.silent = true
				rd.hasSilent = true
			}
			if rd.concurrentAltSvc && q.target == 2 {
				q.plan.altsvc = r.Intn(2) == 0
			}
			reqs = append(reqs, q)
		}
		rd.callers = append(rd.callers, reqs)
	}
	return rd
}

// TestVerif_C09_stress: N concurrent callers on ONE client against in-process origins; the
// recorded history goes to the Lean monitor.
func TestVerif_C09_stress(t *testing.T) {
	s := verifh.New(t, "C09", "stress",
		"rounds of 3..10 concurrent callers x 2..6 requests on one client (GET/POST, bodies 0..70000 B derived from a unique tag, Content-Length/chunked, split writes with pauses, Connection: close, dropped connections, connections closed silently right after a response, Expect: 100-continue answered by 100 or by a final 2xx/4xx/5xx without 100, early body close, slow manual reads) against two raw HTTP/1.1 origins that parse requests as soon as bytes arrive, an HTTP/2 origin and (some rounds) an HTTP/3 origin / Alt-Svc upgrade; MaxConnsPerHost 0..3, MaxIdleConnsPerHost -1..4, MaxIdleConns 0..100, DisableKeepAlives, origins closing idle connections, CloseIdleConnections and Client.Clone running concurrently, dump on/off; pool state sampled under the transport's locks; the totally ordered history is judged by the Lean monitor (Req/Pool/Monitor.lean); non-trivial = round with >= 2 callers that reused a connection or multiplexed")
	r := s.Rand()
	guarded := c09AltSvcGuarded(t)
	if guarded {
		s.Count("altsvc-facts-guarded")
	} else {
		s.Count("altsvc-facts-unguarded(known finding): concurrent Alt-Svc scenario withheld")
	}
	rounds := verifh.N(35, 400)
	kinds := []string{"h1", "h1", "mixed", "h1", "mixed", "h3forced", "altsvc"}
	tag := 0
	nBad := 0
	for i := 0; i < rounds; i++ {
		kind := kinds[i%len(kinds)]
		if kind == "altsvc" && c09RaceEnabled && !guarded {
			// the unguarded reads in checkAltSvc are reported by the race detector even when the
			// warm-up is sequential; the facts lane classes that finding
			s.Count("skipped-known-racy:altsvc-under-race")
			kind = "mixed"
		}
		rd := c09GenRound(r, kind, &tag, guarded)
		var oc c09Outcome
		if txt, bad := verifh.Safely(func() { oc = c09RunRound(t, rd, guarded) }); bad {
			s.Crash(fmt.Sprintf("round %d", i), rd.kind, txt, "")
			break // a panicking / wedged round leaves goroutines behind: stop the lane
		}
		s.Count("round-" + rd.kind)
		for k, v := range oc.stat {
			if v > 0 {
				s.Count(k)
			}
		}
		ok := oc.tagsOK && len(oc.unexpected) == 0
		human := oc.human
		if !ok {
			human += " UNEXPECTED: " + strings.Join(oc.unexpected, "; ")
		}
		s.Case(oc.line, "ok", ok, "", len(rd.callers) >= 2 && oc.events > 20, human)
		if oc.knownH2Unusable > 0 {
			s.Observe(fmt.Sprintf("round-%d-h2-unusable", i), false, c09ClassH2Unusable, false, human,
				fmt.Sprintf("%d callers got \"http2: client conn not usable\" under DisableKeepAlives", oc.knownH2Unusable))
		}
		if !ok {
			nBad++
			if nBad >= 3 { // failing rounds usually mean hung callers (10 s each): stop early
				break
			}
		}
	}
	s.Finish()
}

var _ = context.Background
