//go:build verif

package req

import (
	"crypto/tls"
	"fmt"
	"io"
	"log"
	"net/http"
	"net/http/httptest"
	"os"
	"strings"
	"sync"
	"testing"
	"time"

	reqhttp2 "github.com/imroc/req/v3/http2"
	"github.com/imroc/req/v3/internal/verifh"
	xhttp2 "golang.org/x/net/http2"
)

// TestVerif_C16_h2bigblock: header sets whose HPACK block is about as large as the peer's
// SETTINGS_MAX_FRAME_SIZE, end to end: a forced-HTTP/2 client against an in-process
// golang.org/x/net/http2 server that advertises MAX_FRAME_SIZE 16384 or 32768. On ONE connection an
// incompressible X-Fill value grows byte by byte across the boundary (the other fields are indexed
// after the first request, so the block grows with it, crossing exactly k x MAX_FRAME_SIZE and
// k x MAX_FRAME_SIZE - 5), with and without a HEADERS priority. Every request must reach the
// handler with exactly its header set — a block that is not terminated (END_HEADERS missing) or
// split wrongly shows as a request that never arrives.
func TestVerif_C16_h2bigblock(t *testing.T) {
	s := c01New(t, "C16", "h2bigblock",
		"per configuration {peer MAX_FRAME_SIZE 16384, 32768} x {no HEADERS priority, SetHTTP2HeaderPriority, ImpersonateChrome} x k in {1, 2}: one client, one connection, X-Fill values of k x MAX_FRAME_SIZE - 48 .. + 10 bytes ('X' cannot be Huffman-shortened: the block grows byte by byte) plus two marker headers (one non-canonical name, one multi-valued); oracle: the handler sees the request with the X-Fill length and both markers intact; non-trivial = a request above one frame was observed")
	log.SetOutput(io.Discard)
	defer log.SetOutput(os.Stderr)
	type seenReq struct {
		fill   int
		marker []string
		nc     string
	}
	var mu sync.Mutex
	var seen []seenReq
	handler := http.HandlerFunc(func(w http.ResponseWriter, r *http.Request) {
		mu.Lock()
		seen = append(seen, seenReq{fill: len(r.Header.Get("X-Fill")), marker: r.Header.Values("X-Marker"), nc: r.Header.Get("X-Nc_marker")})
		mu.Unlock()
		w.WriteHeader(204)
	})
	for _, mf := range []uint32{16384, 32768} {
		srv := httptest.NewUnstartedServer(handler)
		if err := xhttp2.ConfigureServer(srv.Config, &xhttp2.Server{MaxReadFrameSize: mf}); err != nil {
			t.Fatalf("ConfigureServer: %v", err)
		}
		srv.TLS = &tls.Config{NextProtos: []string{"h2"}}
		srv.StartTLS()
		for _, prio := range []string{"none", "priority", "chrome"} {
			for k := 1; k <= 2; k++ {
				if verifh.N(0, 1) == 0 && k == 2 && mf == 32768 {
					continue // quick tier: 64 KiB blocks only in the thorough tier
				}
				c := c01NewClient("h2", true, true)
				c.SetTimeout(4 * time.Second)
				switch prio {
				case "priority":
					c.SetHTTP2HeaderPriority(reqhttp2.PriorityParam{StreamDep: 0, Exclusive: true, Weight: 200})
				case "chrome":
					c.ImpersonateChrome()
					c.Transport.SetTLSHandshake(nil)
				}
				lo, hi := k*int(mf)-48, k*int(mf)+10
				if prio == "chrome" {
					lo -= 700 // the preset's own headers are sent literally in the first request only, but keep a margin
				}
				step := 1
				for n := lo; n <= hi; n += step {
					mu.Lock()
					seen = nil
					mu.Unlock()
					rq := c.R().SetHeader("X-Fill", strings.Repeat("X", n)).
						SetHeaderNonCanonical("x-nc_marker", "nc").
						SetHeader("X-Marker", "m1")
					rq.Headers.Add("X-Marker", "m2")
					_, err := rq.Get(srv.URL + "/big")
					mu.Lock()
					got := append([]seenReq(nil), seen...)
					mu.Unlock()
					id := fmt.Sprintf("MAX_FRAME_SIZE=%d priority=%s X-Fill=%d bytes (= %d x %d %+d)", mf, prio, n, k, mf, n-k*int(mf))
					ok := err == nil && len(got) == 1 && got[0].fill == n && strings.Join(got[0].marker, ",") == "m1,m2" && got[0].nc == "nc"
					why := ""
					if !ok {
						why = fmt.Sprintf("err=%v; the handler saw %+v", err, got)
					}
					s.Count(fmt.Sprintf("mf=%d/%s", mf, prio))
					s.Observe(id, ok, "", n > int(mf), id, why)
					if !ok {
						break // the connection is gone; one failing input per configuration is enough
					}
					if prio == "chrome" && n < k*int(mf)-60 {
						step = 16
					} else {
						step = 1
					}
				}
				c.GetTransport().CloseIdleConnections()
			}
		}
		srv.Close()
	}
	s.Need(t, "mf=16384/none", "mf=16384/priority", "mf=16384/chrome", "mf=32768/none", "mf=32768/priority")
	s.Finish()
}
