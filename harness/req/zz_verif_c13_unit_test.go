//go:build verif

package req

import (
	"bufio"
	"bytes"
	"fmt"
	"io"
	"net/textproto"
	"sort"
	"strconv"
	"strings"
	"testing"

	"github.com/imroc/req/v3/internal/dump"
	"github.com/imroc/req/v3/internal/verifh"
)

// ---------------------------------------------------------------- scripted reader

type c13Err struct{ code int }

func (e *c13Err) Error() string { return "scripted error " + strconv.Itoa(e.code) }

// c13Script is the io.Reader of the Lean model (`srcRead`): one chunk per Read, a chunk larger
// than len(p) is handed out in pieces, the chunk's error comes with its last piece, an
// exhausted script answers (0, io.EOF) for ever.
type c13Script struct {
	chunks []string
	errs   []int
	i      int
}

func c13NewScript(chunks []string, errs []int) *c13Script {
	return &c13Script{chunks: append([]string(nil), chunks...), errs: errs}
}

func (s *c13Script) Read(p []byte) (int, error) {
	if s.i >= len(s.chunks) {
		return 0, io.EOF
	}
	c := s.chunks[s.i]
	if len(c) <= len(p) {
		copy(p, c)
		var err error
		switch e := s.errs[s.i]; {
		case e == 1:
			err = io.EOF
		case e >= 2:
			err = &c13Err{e}
		}
		s.i++
		return len(c), err
	}
	copy(p, c[:len(p)])
	s.chunks[s.i] = c[len(p):]
	return len(p), nil
}

func (s *c13Script) exhausted() bool { return s.i >= len(s.chunks) }

func c13ErrName(err error) string {
	switch e := err.(type) {
	case nil:
		return "-"
	case *c13Err:
		return "o" + strconv.Itoa(e.code)
	}
	switch err {
	case io.EOF:
		return "eof"
	case io.ErrNoProgress:
		return "noprogress"
	case bufio.ErrBufferFull:
		return "full"
	case errMessageTooLarge:
		return "toolarge"
	}
	return "?" + err.Error()
}

// c13Drain returns every byte the bufio reader and the script still hold.
func c13Drain(br *bufio.Reader, sc *c13Script) string {
	var out []byte
	buf := make([]byte, 512)
	for i := 0; i < 100000; i++ {
		n, _ := br.Read(buf)
		out = append(out, buf[:n]...)
		if n == 0 && sc.exhausted() && br.Buffered() == 0 {
			break
		}
	}
	return string(out)
}

// c13Dumpers builds n synchronous dumpers with response-header dump on, each to its own buffer.
func c13Dumpers(n int) (dump.Dumpers, []*bytes.Buffer) {
	var ds dump.Dumpers
	var bufs []*bytes.Buffer
	for i := 0; i < n; i++ {
		b := new(bytes.Buffer)
		bufs = append(bufs, b)
		ds = append(ds, newDumper(&DumpOptions{Output: b, ResponseHeader: true}))
	}
	return ds, bufs
}

// ---------------------------------------------------------------- lane c13rl

type c13RlOut struct {
	answer    string // canonical answer in the driver's format
	results   string // op results only
	dumped    string
	rest      string
	sawPrefix bool
	ate       int
	dumpsSame bool
}

// c13RunOps runs the op list on the REAL textprotoReader.
func c13RunOps(B int, dumpMode bool, chunks []string, errs []int, ops []string) c13RlOut {
	sc := c13NewScript(chunks, errs)
	br := bufio.NewReaderSize(sc, B)
	var ds dump.Dumpers
	var bufs []*bytes.Buffer
	if dumpMode {
		ds, bufs = c13Dumpers(2)
	}
	tp := newTextprotoReader(br, ds)
	var o c13RlOut
	if !dumpMode {
		// record isPrefix without changing behaviour (classifies the input)
		orig := tp.readLine
		tp.readLine = func() ([]byte, bool, error) {
			l, p, e := orig()
			if p {
				o.sawPrefix = true
			}
			return l, p, e
		}
	}
	var outs []string
	for _, op := range ops {
		switch {
		case op == "L":
			l, p, e := tp.readLine()
			pf := "0"
			if p {
				pf = "1"
			}
			outs = append(outs, "L:"+verifh.Hex(string(l))+":"+pf+":"+c13ErrName(e))
		case op == "K":
			n := tp.skipSpace()
			o.ate += n
			outs = append(outs, "K:"+strconv.Itoa(n))
		case strings.HasPrefix(op, "S"):
			lim := int64(-1)
			if len(op) > 1 {
				v, _ := strconv.Atoi(op[1:])
				lim = int64(v)
			}
			l, e := tp.readLineSlice(lim)
			if e != nil {
				outs = append(outs, "S:_:"+c13ErrName(e))
			} else {
				outs = append(outs, "S:"+verifh.Hex(string(l))+":-")
			}
		}
	}
	o.results = strings.Join(outs, ";")
	o.rest = c13Drain(br, sc)
	o.dumpsSame = true
	if dumpMode {
		o.dumped = bufs[0].String()
		for _, b := range bufs[1:] {
			if b.String() != o.dumped {
				o.dumpsSame = false
			}
		}
	}
	o.answer = o.results + " d=" + verifh.Hex(o.dumped) + " r=" + verifh.Hex(o.rest)
	return o
}

// c13GenLine draws one line body of a length around the buffer boundaries.
func c13GenLine(s *verifh.Session, B int, allowLong bool) string {
	r := s.Rand()
	var n int
	switch k := r.Intn(10); {
	case k < 3:
		n = r.Intn(12)
	case k < 5:
		n = B - 3 + r.Intn(4) // B-3 .. B
		if !allowLong {
			n = B - 3
		}
	case k < 8 && allowLong:
		n = verifh.Pick(r, []int{B - 1, B, B + 1, 2*B - 2, 2*B - 1, 2 * B, 2*B + 1, 3*B + 5})
	default:
		n = r.Intn(B)
		if !allowLong && n > B-3 {
			n = B - 3
		}
	}
	if !allowLong && n > B-8 {
		n = B - 8 // blanks (<= 4) + content + CRLF stay below B: a skipSpace case never has a line that fills the buffer
	}
	if n < 0 {
		n = 0
	}
	b := []byte(verifh.RandBytes(r, n, "abcXYZ:- 09"))
	// carriage returns where the put-back logic looks: at the buffer edge, doubled, inside
	if n > 0 && r.Intn(3) == 0 {
		for _, pos := range []int{B - 1, B - 2, 2*B - 2, n - 1, r.Intn(n)} {
			if pos >= 0 && pos < n && r.Intn(2) == 0 {
				b[pos] = '\r'
			}
		}
	}
	return string(b)
}

// c13Chunk splits data into read results.
func c13Chunk(s *verifh.Session, B int, data string) (chunks []string, errs []int) {
	r := s.Rand()
	mode := r.Intn(6)
	small := 1 // the model rescans the buffer after every fill: keep tiny reads for the small buffers
	if B > 64 {
		small = 97
	}
	for len(data) > 0 {
		var n int
		switch mode {
		case 0:
			n = len(data)
		case 1:
			n = small
		case 2:
			n = B
		case 3:
			n = 1 + r.Intn(2*B)
		case 4:
			n = verifh.Pick(r, []int{B - 1, B, B + 1, small, 2 * small})
		default:
			n = small * (1 + r.Intn(7))
		}
		if n > len(data) {
			n = len(data)
		}
		if n < 1 {
			n = 1
		}
		chunks = append(chunks, data[:n])
		errs = append(errs, 0)
		data = data[n:]
		if r.Intn(12) == 0 { // an empty read now and then
			chunks = append(chunks, "")
			errs = append(errs, 0)
		}
	}
	switch r.Intn(8) {
	case 0: // EOF delivered together with the last data
		if len(errs) > 0 {
			errs[len(errs)-1] = 1
		}
	case 1: // a real error at the end
		chunks = append(chunks, "")
		errs = append(errs, 2+r.Intn(3))
	case 2: // an error in the middle of the stream
		if len(errs) > 1 {
			errs[r.Intn(len(errs))] = 2 + r.Intn(3)
		}
	case 3: // the reader stalls: > 100 empty reads
		if r.Intn(4) == 0 {
			at := r.Intn(len(chunks) + 1)
			var c2 []string
			var e2 []int
			c2 = append(c2, chunks[:at]...)
			e2 = append(e2, errs[:at]...)
			for i := 0; i < 101; i++ {
				c2 = append(c2, "")
				e2 = append(e2, 0)
			}
			chunks = append(c2, chunks[at:]...)
			errs = append(e2, errs[at:]...)
		}
	}
	return
}

// TestVerif_C13_rl: the real textprotoReader primitives (readLine closure with and without
// dumpers, readLineSlice, skipSpace) over bufio readers of size 16/64/4096 on scripted
// readers, against the Lean model; oracle: identical results and reader state with dump on and
// off, dump == consumed bytes, every dumper gets the same bytes.
func TestVerif_C13_rl(t *testing.T) {
	s := verifh.New(t, "C13", "rl",
		"streams of 1..6 lines with lengths around B (B-3..B+1, 2B-2..2B+1, 3B+5), CRs at the buffer edge, terminators CRLF/LF/none, leading blanks; read scripts: whole / 1-byte / B-sized / random chunks, empty reads, 100+ empty reads, EOF with or after the data, mid-stream errors; op lists over L (readLine closure), S / S<lim> (readLineSlice), K (skipSpace); every input runs with dump off and on; non-trivial = a line reached the buffer size or an error/limit was hit")
	r := s.Rand()
	cnt := c13Counter{}
	var pendDump []c13RlPending
	n := verifh.N(3000, 60000)
	// the witness of theorem old_dump_readline_not_equiv (B = 16, a 20-byte header line), and the
	// same line shape scaled to the transport's real buffer size, B = 4096
	witness := []struct {
		B    int
		line string
	}{
		{16, "X-A: " + strings.Repeat("a", 13) + "\r\n"},
		{4096, "X-A: " + strings.Repeat("a", 4096) + "\r\n"},
		{4096, "X-A: " + strings.Repeat("a", 4090) + "\r\n"}, // "\r\n" straddles the buffer edge
	}
	for c := 0; c < n; c++ {
		B := verifh.Pick(r, []int{16, 16, 16, 64, 64, 4096})
		useK := r.Intn(4) == 0
		var data strings.Builder
		if c < len(witness) {
			B, useK = witness[c].B, false
			data.WriteString(witness[c].line)
			chunks, errs := []string{data.String()}, []int{0}
			ops := []string{"S", "L"}
			c13RlCase(s, cnt, &pendDump, B, data.String(), chunks, errs, ops)
			continue
		}
		nl := 1 + r.Intn(6)
		if B == 4096 {
			nl = 1 + r.Intn(3)
		}
		for i := 0; i < nl; i++ {
			if useK || r.Intn(6) == 0 {
				data.WriteString(verifh.Pick(r, []string{" ", "\t", "  \t ", "", ""}))
			}
			data.WriteString(c13GenLine(s, B, !useK))
			if i < nl-1 || r.Intn(3) > 0 {
				data.WriteString(verifh.Pick(r, []string{"\r\n", "\r\n", "\n"}))
			}
		}
		chunks, errs := c13Chunk(s, B, data.String())
		var ops []string
		for i, no := 0, 1+r.Intn(nl+3); i < no; i++ {
			switch k := r.Intn(10); {
			case k < 4:
				ops = append(ops, "L")
			case k < 7:
				ops = append(ops, "S")
			case k < 8:
				ops = append(ops, "S"+strconv.Itoa(verifh.Pick(r, []int{0, 5, B - 1, B, B + 1, 2 * B, 3 * B})))
			default:
				if useK {
					ops = append(ops, "K")
				} else {
					ops = append(ops, "S")
				}
			}
		}
		c13RlCase(s, cnt, &pendDump, B, data.String(), chunks, errs, ops)
	}
	oldLines := make([]string, len(pendDump))
	for i, p := range pendDump {
		oldLines[i] = p.oldLine
	}
	oldAnswers, err := verifh.RunModel(oldLines)
	if err != nil {
		t.Fatalf("model: %v", err)
	}
	for i, p := range pendDump {
		class := p.class
		if p.impl != oldAnswers[i] {
			class = ""
		}
		s.Case(p.line, p.impl, p.ok, class, p.nontriv, p.human)
	}
	for _, must := range []string{"line>=B", "skipSpace-ate", "erreof", "errtoolarge", "B=4096"} {
		if cnt[must] == 0 {
			t.Errorf("generator never reached bucket %q", must)
		}
	}
	s.Finish()
}

// c13Counter mirrors the session histogram so a lane can insist on the buckets it must reach.
type c13Counter map[string]int

func (c c13Counter) add(s *verifh.Session, k string) {
	s.Count(k)
	c[k]++
}

// c13RlCase runs one input with dump off and on and queues both for the model.
func c13RlCase(s *verifh.Session, cnt c13Counter, pend *[]c13RlPending, B int, full string, chunks []string, errs []int, ops []string) {
	plain := c13RunOps(B, false, chunks, errs, ops)
	dumped := c13RunOps(B, true, chunks, errs, ops)
	base := strconv.Itoa(B) + " %s " + verifh.HexList(chunks) + " " + verifh.IntList(errs) + " " + strings.Join(ops, ",")
	human := fmt.Sprintf("B=%d ops=%v stream=%q (%d reads)", B, ops, c13Clip(full, 120), len(chunks))
	nontriv := plain.sawPrefix || strings.Contains(plain.results, ":o") || strings.Contains(plain.results, "toolarge") || strings.Contains(plain.results, "noprogress")
	cnt.add(s, "B="+strconv.Itoa(B))
	if plain.sawPrefix {
		cnt.add(s, "line>=B")
	}
	if plain.ate > 0 {
		cnt.add(s, "skipSpace-ate")
	}
	for _, k := range []string{"eof", "toolarge", "noprogress", ":o"} {
		if strings.Contains(plain.results, k) {
			cnt.add(s, "err"+k)
		}
	}
	s.Case("c13rl "+fmt.Sprintf(base, "plain"), plain.answer, true, "", nontriv, "plain "+human)
	// oracle on the dump run
	ok := dumped.results == plain.results && dumped.rest == plain.rest && dumped.dumpsSame
	wantDump := full[:len(full)-len(plain.rest)]
	if !strings.HasSuffix(full, plain.rest) || dumped.dumped != wantDump {
		ok = false
	}
	class := ""
	switch {
	case plain.sawPrefix:
		class = "h1-resp-line-exceeds-buffer"
	case plain.ate > 0:
		class = "h1-resp-fold-space-not-dumped"
	}
	// The known findings are recognised by their exact behaviour, not only by the input
	// class: the class is kept only when the implementation answers like the model of the
	// UNPATCHED closure (`dumpold`); any other wrong answer on the same input alarms.
	*pend = append(*pend, c13RlPending{"c13rl " + fmt.Sprintf(base, "dump"), "c13rl " + fmt.Sprintf(base, "dumpold"), dumped.answer, ok, class, nontriv, "dump " + human})
}

type c13RlPending struct {
	line, oldLine, impl string
	ok                  bool
	class               string
	nontriv             bool
	human               string
}

func c13Clip(s string, n int) string {
	if len(s) > n {
		return s[:n] + "…"
	}
	return s
}

// ---------------------------------------------------------------- lane c13head

type c13HeadOut struct {
	status string
	herr   string
	header textproto.MIMEHeader
	merr   string
	rest   string
	dumped string
	same   bool
}

func c13ErrKind(err error) string {
	if err == nil {
		return "-"
	}
	if _, ok := err.(protocolError); ok {
		return "protocol"
	}
	return c13ErrName(err)
}

// c13ReadHead is what persistConn._readResponse does with the reader: one ReadLine for the
// status line, then ReadMIMEHeader.
func c13ReadHead(B int, dumpers int, chunks []string, errs []int) c13HeadOut {
	sc := c13NewScript(chunks, errs)
	br := bufio.NewReaderSize(sc, B)
	var ds dump.Dumpers
	var bufs []*bytes.Buffer
	if dumpers > 0 {
		ds, bufs = c13Dumpers(dumpers)
	}
	tp := newTextprotoReader(br, ds)
	var o c13HeadOut
	line, err := tp.ReadLine()
	o.status, o.herr = line, c13ErrKind(err)
	if err == nil {
		h, err := tp.ReadMIMEHeader()
		o.header, o.merr = h, c13ErrKind(err)
	}
	o.rest = c13Drain(br, sc)
	o.same = true
	if dumpers > 0 {
		o.dumped = bufs[0].String()
		for _, b := range bufs[1:] {
			if b.String() != o.dumped {
				o.same = false
			}
		}
	}
	return o
}

func c13HeaderString(h textproto.MIMEHeader) string {
	keys := make([]string, 0, len(h))
	for k := range h {
		keys = append(keys, k)
	}
	sort.Strings(keys)
	var b strings.Builder
	for _, k := range keys {
		fmt.Fprintf(&b, "%q=%q;", k, h[k])
	}
	return b.String()
}

// TestVerif_C13_head: whole response heads through the real ReadLine + ReadMIMEHeader with 0, 1
// and 2 dumpers: the parse result, the error kind and the bytes left in the reader must be the
// same, and each dumper must have received exactly the consumed bytes.
func TestVerif_C13_head(t *testing.T) {
	s := verifh.New(t, "C13", "head",
		"generated response heads: status line, 0..40 headers (repeated names, empty values, values of B-8..3B bytes), obs-fold continuation lines, bare-LF terminators, missing final blank line, garbage lines; B in {16,64,4096}; read scripts as in lane rl; each head is parsed with dump off, with one and with two dumpers; non-trivial = a line reached B, a folded header or > 8 headers")
	r := s.Rand()
	cnt := c13Counter{}
	n := verifh.N(1500, 30000)
	for c := 0; c < n; c++ {
		B := verifh.Pick(r, []int{16, 64, 64, 4096, 4096})
		eol := func() string {
			if r.Intn(8) == 0 {
				return "\n"
			}
			return "\r\n"
		}
		var hd strings.Builder
		long, fold := false, false
		// a head has either folded lines or lines that reach the buffer size, never both: each
		// case depends on one finding / one fix only
		foldCase := r.Intn(3) == 0
		if foldCase && B == 16 {
			B = 64 // with 16 bytes even the status line fills the buffer
		}
		status := "HTTP/1.1 200 OK"
		if !foldCase && r.Intn(6) == 0 {
			status = "HTTP/1.1 200 " + verifh.RandBytes(r, B+r.Intn(B), "abc ")
		}
		hd.WriteString(status + eol())
		nh := r.Intn(8)
		if r.Intn(5) == 0 {
			nh = 9 + r.Intn(32)
		}
		for i := 0; i < nh; i++ {
			name := verifh.Pick(r, []string{"X-A", "x-b", "Set-Cookie", "Content-Type", "X-Long-Header-Name", "Via", "A"})
			var vlen int
			switch r.Intn(6) {
			case 0:
				vlen = 0
			case 1:
				vlen = B - 8 + r.Intn(12)
			case 2:
				vlen = B + r.Intn(2*B+1)
			default:
				vlen = r.Intn(20)
			}
			if foldCase && vlen > B-26 {
				vlen = r.Intn(4) // name (<= 18) + ": " + value + CRLF stays below B
			}
			if vlen < 0 {
				vlen = 0
			}
			val := verifh.RandBytes(r, vlen, "abcdefgh ,;=0123456789")
			if r.Intn(25) == 0 && vlen > 0 {
				val = val[:vlen/2] + "\r" + val[vlen/2:]
			}
			hd.WriteString(name + ":" + verifh.Pick(r, []string{" ", "", "  "}) + val + eol())
			if foldCase && r.Intn(3) == 0 { // obs-fold
				fold = true
				hd.WriteString(verifh.Pick(r, []string{" ", "\t", "   ", " \t"}) + verifh.RandBytes(r, r.Intn(12), "abc d") + eol())
			}
			if r.Intn(40) == 0 {
				hd.WriteString("garbage line without colon" + eol())
			}
		}
		switch r.Intn(10) {
		case 0: // no terminating blank line
		case 1:
			hd.WriteString("\n")
		default:
			hd.WriteString("\r\n")
		}
		// no blanks in the bytes after the head: when the blank line is missing the parser reads
		// on into them, and a line starting with a blank would be an (unflagged) folded line
		body := verifh.RandBytes(r, r.Intn(30), "BODYbody\r\n")
		full := hd.String() + body
		chunks, errs := c13Chunk(s, B, full)
		p0 := c13ReadHead(B, 0, chunks, errs)
		p1 := c13ReadHead(B, 1, chunks, errs)
		p2 := c13ReadHead(B, 2, chunks, errs)
		// does any line reach the buffer size?
		for _, l := range strings.SplitAfter(hd.String(), "\n") {
			if len(l) > B || (len(l) == B && !strings.HasSuffix(l, "\n")) {
				long = true
			}
		}
		cnt.add(s, "B="+strconv.Itoa(B))
		if long {
			cnt.add(s, "line>=B")
		}
		if fold {
			cnt.add(s, "folded")
		}
		if nh > 8 {
			cnt.add(s, "many-headers")
		}
		cnt.add(s, "status-err="+p0.herr)
		cnt.add(s, "header-err="+p0.merr)
		class := ""
		switch {
		case long:
			class = "h1-resp-line-exceeds-buffer"
		case fold:
			class = "h1-resp-fold-space-not-dumped"
		}
		for i, p := range []c13HeadOut{p1, p2} {
			var why []string
			if p.status != p0.status || p.herr != p0.herr {
				why = append(why, fmt.Sprintf("status line %q/%s vs %q/%s", c13Clip(p.status, 60), p.herr, c13Clip(p0.status, 60), p0.herr))
			}
			if p.merr != p0.merr || c13HeaderString(p.header) != c13HeaderString(p0.header) {
				why = append(why, fmt.Sprintf("header parse differs: err %s vs %s", p.merr, p0.merr))
			}
			if p.rest != p0.rest {
				why = append(why, "bytes left in the reader differ")
			}
			if !strings.HasSuffix(full, p0.rest) {
				why = append(why, "harness: rest is not a suffix")
			} else if want := full[:len(full)-len(p0.rest)]; p.dumped != want {
				why = append(why, fmt.Sprintf("dump (%d bytes) != consumed bytes (%d)", len(p.dumped), len(want)))
			}
			if !p.same {
				why = append(why, "the two dumpers received different bytes")
			}
			id := fmt.Sprintf("head B=%d dumpers=%d reads=%s head=%s", B, i+1, verifh.IntList(c13Lens(chunks)), verifh.Hex(full))
			s.Observe(id, len(why) == 0, class, long || fold || nh > 8,
				fmt.Sprintf("B=%d dumpers=%d headers=%d long=%v fold=%v head=%q", B, i+1, nh, long, fold, c13Clip(full, 100)),
				strings.Join(why, "; "))
		}
	}
	for _, must := range []string{"line>=B", "folded", "many-headers", "header-err=protocol", "header-err=-", "B=4096"} {
		if cnt[must] == 0 {
			t.Errorf("generator never reached bucket %q", must)
		}
	}
	s.Finish()
}

func c13Lens(l []string) []int {
	out := make([]int, len(l))
	for i, s := range l {
		out[i] = len(s)
	}
	return out
}
