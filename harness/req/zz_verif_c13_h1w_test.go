//go:build verif

package req

import (
	"bufio"
	"bytes"
	"context"
	"errors"
	"fmt"
	"io"
	"net/http"
	"net/url"
	"sort"
	"strings"
	"testing"

	"github.com/imroc/req/v3/internal/dump"
	"github.com/imroc/req/v3/internal/verifh"
)

// ================================================================= lane h1w
//
// The real persistConn.writeRequest (+ transferWriter.writeBody, chunkedWriter, the dump
// wrappers) writing into a real bufio.Writer of size B over a recording writer that may fail
// after `limit` bytes, with a scripted request body that notes, at every Read, how many bytes
// the bufio.Writer is still withholding. Compared with the Lean write program
// (Req/H1/DumpWrite.lean): bytes on the wire when writeRequest returns, bytes still buffered,
// what each dumper was handed per part, the withheld byte count at every body read.

var errC13Body = errors.New("scripted body error")

// c13ObsBody is the scripted request body.
type c13ObsBody struct {
	data    []byte
	sizes   []int
	i       int
	failAt  int  // body offset at which Read returns (0, errC13Body) (no read crosses it); -1 = never
	done    int  // bytes delivered
	eofData bool // deliver io.EOF together with the last bytes
	bw      *bufio.Writer
	reads   []int // n of every Read call
	pend    []int // bw.Buffered() at every Read call
	closed  int
}

func (b *c13ObsBody) Read(p []byte) (int, error) {
	b.pend = append(b.pend, b.bw.Buffered())
	if b.failAt >= 0 && b.done >= b.failAt {
		b.reads = append(b.reads, 0)
		return 0, errC13Body
	}
	if len(b.data) == 0 {
		b.reads = append(b.reads, 0)
		return 0, io.EOF
	}
	n := len(b.data)
	if b.i < len(b.sizes) && b.sizes[b.i] < n {
		n = b.sizes[b.i]
	}
	b.i++
	if n > len(p) {
		n = len(p)
	}
	if b.failAt >= 0 && n > b.failAt-b.done {
		n = b.failAt - b.done
	}
	b.done += n
	copy(p, b.data[:n])
	b.data = b.data[n:]
	b.reads = append(b.reads, n)
	if len(b.data) == 0 && b.eofData {
		return n, io.EOF
	}
	return n, nil
}

func (b *c13ObsBody) Close() error { b.closed++; return nil }

type c13H1WCase struct {
	B        int
	limit    int // -1 = the wire never fails
	method   string
	rawURL   string
	host     string
	header   http.Header
	cl       int64
	bodyKind int // 0 none, 1 in-memory (bytes.Reader behind NopCloser), 2 scripted
	body     string
	sizes    []int
	failAt   int
	eofData  bool
	close    bool
}

type c13H1WDumper struct {
	flags    [4]bool
	hdr, bdy bytes.Buffer
	out      bytes.Buffer
}

type c13H1WOut struct {
	wire, final string // bytes on the wire when writeRequest returned / after writeLoop's final Flush
	bufn        int    // bw.Buffered() when writeRequest returned
	ferr        error  // error of the final Flush
	reads     []int
	pend      []int
	err       error
	panicked  string
}

func c13RunH1W(tc *c13H1WCase, ds []*c13H1WDumper) c13H1WOut {
	var out c13H1WOut
	u, err := url.Parse(tc.rawURL)
	if err != nil {
		out.panicked = "bad url " + err.Error()
		return out
	}
	rec := &c13LimitedWriter{limit: tc.limit}
	if tc.limit < 0 {
		rec.limit = 1 << 40
	}
	bw := bufio.NewWriterSize(rec, tc.B)
	var body io.ReadCloser
	var ob *c13ObsBody
	switch tc.bodyKind {
	case 1:
		body = io.NopCloser(bytes.NewReader([]byte(tc.body)))
	case 2:
		ob = &c13ObsBody{data: []byte(tc.body), sizes: tc.sizes, failAt: tc.failAt, eofData: tc.eofData, bw: bw}
		body = ob
	}
	ctx := context.Background()
	tr := T()
	for i, d := range ds {
		if d == nil {
			continue
		}
		dd := newDumper(&DumpOptions{
			Output: &d.out, RequestHeaderOutput: &d.hdr, RequestBodyOutput: &d.bdy,
			ResponseOutput: io.Discard,
			RequestHeader:  d.flags[0], RequestBody: d.flags[1], ResponseHeader: d.flags[2], ResponseBody: d.flags[3],
		})
		if i == 0 {
			tr.Dump = dd // client level; synchronous, so no Start loop is needed
		} else {
			ctx = context.WithValue(ctx, dump.DumperKey, dd)
		}
	}
	hdr := tc.header.Clone()
	if hdr == nil {
		hdr = http.Header{}
	}
	req := (&http.Request{
		Method: tc.method, URL: u, Host: tc.host, Header: hdr, Proto: "HTTP/1.1", ProtoMajor: 1, ProtoMinor: 1,
		ContentLength: tc.cl, Body: body, Close: tc.close,
	}).WithContext(ctx)
	pc := &persistConn{t: tr}
	p, bad := verifh.Safely(func() {
		out.err = pc.writeRequest(req, bw, false, nil, nil)
	})
	if bad {
		out.panicked = p
		return out
	}
	out.wire = rec.got.String()
	out.bufn = bw.Buffered()
	if out.err == nil {
		out.ferr = bw.Flush() // writeLoop
	}
	out.final = rec.got.String()
	if ob != nil {
		out.reads, out.pend = ob.reads, ob.pend
	}
	return out
}

func c13HdrArg(h http.Header) string {
	if len(h) == 0 {
		return "-"
	}
	var parts []string
	for k, vs := range h {
		e := verifh.Hex(k)
		for _, v := range vs {
			e += ":" + verifh.Hex(v)
		}
		parts = append(parts, e)
	}
	return strings.Join(parts, ",")
}

func c13UsuallyLacksBody(m string) bool {
	switch m {
	case "", "GET", "HEAD", "DELETE", "OPTIONS", "PROPFIND", "SEARCH":
		return true
	}
	return false
}

func TestVerif_C13_h1w(t *testing.T) {
	s := verifh.New(t, "C13", "h1w",
		"real persistConn.writeRequest into bufio.NewWriterSize(rec, B), B in {16,64,4096}, rec failing after `limit` bytes in a fifth of the cases; methods POST/PUT/PATCH/GET/DELETE/CONNECT/custom; 0..5 headers incl. lines longer than B; in a third of the cases a header order (__header_order__: all emitted keys permuted, or a random subset over at most one map key; mixed case, absent keys) = the collect-sort-write path of the field lines; body none / in-memory / scripted reader with Content-Length exact or unknown (chunked; CONNECT: unframed stream), sizes 0,1,B-1..B+1,2B+3,..3B+, read scripts (1-byte, random, whole), EOF with or after the data, a body read error at a random read; 0..2 synchronous dumpers (client level + request level) with random part flags; every case runs with the dumpers and without: both against the Lean write program (wire bytes at return, bytes still buffered, header dump, body dump, withheld byte count at every body Read) and against each other (same bytes; for chunked / CONNECT streams the same withheld counts: the flush schedule does not depend on dump); non-trivial = a body of at least two reads or a failing wire")
	r := s.Rand()
	cnt := c13Counter{}
	n := verifh.N(1200, 25000)
	for c := 0; c < n; c++ {
		tc := &c13H1WCase{B: verifh.Pick(r, []int{16, 64, 64, 4096}), limit: -1, failAt: -1}
		tc.method = verifh.Pick(r, []string{"POST", "POST", "PUT", "PATCH", "GET", "DELETE", "CONNECT", "CONNECT", "FOO"})
		tc.rawURL = verifh.Pick(r, []string{"http://example.com/up", "http://example.com:8080/a/b?x=1&y=2", "http://h.example/"})
		if tc.method == "CONNECT" && r.Intn(2) == 0 {
			tc.rawURL = "http://tunnel.example:443"
		}
		if r.Intn(6) == 0 {
			tc.host = "other.example"
		}
		tc.header = http.Header{}
		for i, k := 0, r.Intn(6); i < k; i++ {
			vl := r.Intn(30)
			if r.Intn(5) == 0 {
				vl = tc.B + r.Intn(2*tc.B)
				if vl > 6000 {
					vl = 6000
				}
			}
			tc.header.Add(fmt.Sprintf("X-H%d", r.Intn(4)), verifh.RandBytes(r, vl, "abcdefgh 0123"))
		}
		tc.close = r.Intn(8) == 0
		// round 7: a header order (Request.SetHeaderOrder / Client.SetCommonHeaderOrder / an
		// impersonation profile all end up as r.Header["__header_order__"]): writeRequest then
		// collects the field lines, sorts them and writes them in a second pass — a different
		// write path from the direct one, which must go through the header dump wrappers too.
		// The outcome is kept deterministic (the unlisted keys of a Go map keep map order): either
		// every key that can be emitted is listed, or the map holds at most one key.
		ordered := r.Intn(3) == 0
		if ordered {
			cand := []string{"Host", "User-Agent", "Content-Length", "Transfer-Encoding", "Connection", "Trailer", "Accept-Encoding"}
			var list []string
			if len(tc.header) <= 1 && r.Intn(2) == 0 {
				for k := range tc.header {
					cand = append(cand, k)
				}
				for _, k := range cand {
					if r.Intn(2) == 0 {
						list = append(list, k)
					}
				}
				if len(list) == 0 {
					list = []string{"X-Absent"}
				}
			} else {
				list = append(list, cand...)
				for k := range tc.header {
					list = append(list, k)
				}
				if r.Intn(3) == 0 {
					list = append(list, "X-Absent")
				}
			}
			sort.Strings(list)
			r.Shuffle(len(list), func(i, j int) { list[i], list[j] = list[j], list[i] })
			for i := range list {
				if r.Intn(3) == 0 {
					list[i] = strings.ToLower(list[i])
				}
			}
			tc.header["__header_order__"] = list
		}
		tc.bodyKind = verifh.Pick(r, []int{0, 1, 2, 2, 2, 2})
		B := tc.B
		if tc.bodyKind != 0 {
			szs := []int{0, 1, B - 1, B, B + 1, 2*B + 3, 3*B + r.Intn(B), r.Intn(B), r.Intn(3 * B)}
			size := verifh.Pick(r, szs)
			if size > 14000 {
				size = 14000
			}
			tc.body = verifh.RandBytes(r, size, "abcdefghijklmnopqrstuvwxyz0123456789\r\n")
			if r.Intn(2) == 0 && size > 0 {
				tc.cl = int64(size)
			} else {
				tc.cl = int64(verifh.Pick(r, []int{0, -1}))
			}
			if size == 0 && tc.cl > 0 {
				tc.cl = 0
			}
			switch r.Intn(4) {
			case 0: // whole
			case 1:
				for i := 0; i < size && i < 600; i++ {
					tc.sizes = append(tc.sizes, 1)
				}
			default:
				for rem := size; rem > 0; {
					k := 1 + r.Intn(2*B)
					tc.sizes = append(tc.sizes, k)
					rem -= k
				}
			}
			tc.eofData = r.Intn(2) == 0
			if tc.bodyKind == 2 && r.Intn(8) == 0 && !(tc.cl <= 0 && c13UsuallyLacksBody(tc.method)) {
				tc.failAt = r.Intn(len(tc.body) + 1)
			}
		}
		if r.Intn(5) == 0 && tc.failAt < 0 {
			// (one failure per case: with a failing body AND a failing wire which of the two ends
			// the request depends on the copy path, legitimately)
			tc.limit = r.Intn(len(tc.body) + 200)
		}
		// dumpers
		var ds []*c13H1WDumper
		for i := 0; i < 2; i++ {
			if r.Intn(3) == 0 {
				ds = append(ds, nil)
				continue
			}
			d := &c13H1WDumper{}
			for j := range d.flags {
				d.flags[j] = r.Intn(2) == 0
			}
			ds = append(ds, d)
		}
		hdrDump, bodyDump := false, false
		for _, d := range ds {
			if d != nil {
				hdrDump = hdrDump || d.flags[0]
				bodyDump = bodyDump || d.flags[1]
			}
		}
		on := c13RunH1W(tc, ds)
		off := c13RunH1W(tc, nil)
		if on.panicked != "" || off.panicked != "" {
			s.Crash(fmt.Sprintf("h1w #%d", c), fmt.Sprintf("%+v", *tc), on.panicked+off.panicked, "")
			continue
		}
		hasBody := tc.bodyKind != 0
		unknown := hasBody && tc.cl <= 0
		probe := unknown && c13UsuallyLacksBody(tc.method)
		streaming := unknown && (!probe || len(tc.body) > 0)
		obs := tc.bodyKind == 2 && !probe
		reqArgs := fmt.Sprintf("%s %s %s %s %d %d %s %d", verifh.Hex(tc.method), verifh.Hex(tc.rawURL), verifh.Hex(tc.host),
			c13HdrArg(tc.header), tc.cl, c13B2i(hasBody), verifh.Hex(tc.body), c13B2i(tc.close))
		lim := "-"
		if tc.limit >= 0 {
			lim = fmt.Sprint(tc.limit)
		}
		bodyFailed := func(o c13H1WOut) bool {
			return o.err != nil && strings.Contains(o.err.Error(), "scripted body error")
		}
		wireFailed := func(o c13H1WOut) bool {
			e := o.err
			if e == nil {
				e = o.ferr
			}
			return e != nil && !strings.Contains(e.Error(), "scripted body error")
		}
		render := func(o c13H1WOut, dh, db string) string {
			tail := " at=x bufn=x pend=x"
			if obs {
				tail = fmt.Sprintf(" at=%d bufn=%d pend=%s", len(o.wire), o.bufn, verifh.IntList(o.pend))
			}
			return fmt.Sprintf("final=%s dh=%s db=%s err=%d", verifh.Hex(o.final), verifh.Hex(dh), verifh.Hex(db), c13B2i(wireFailed(o))) + tail
		}
		line := func(o c13H1WOut, hd, bd bool, old bool) string {
			reads := o.reads
			if tc.bodyKind == 1 {
				reads = []int{len(tc.body)} // bytes.Reader.WriteTo / one copy: the segmentation is not observable
				if probe && len(tc.body) > 0 {
					reads = []int{1, len(tc.body) - 1} // the probed byte is a chunk of its own
				}
			}
			return fmt.Sprintf("c13h1w %d %s %d %d %d %d %d %d %s %s", tc.B, lim, c13B2i(hd), c13B2i(bd), c13B2i(tc.bodyKind == 1),
				c13B2i(bodyFailed(o)), c13B2i(old), c13B2i(obs), verifh.IntList(reads), reqArgs)
		}
		// per-dumper content: every dumper with the part on holds the same bytes, the others nothing;
		// Output() only ever gets CR/LF separators
		ok := true
		var why []string
		dh, db := "", ""
		first := [2]bool{true, true}
		for _, d := range ds {
			if d == nil {
				continue
			}
			for j, got := range []string{d.hdr.String(), d.bdy.String()} {
				ref := []*string{&dh, &db}[j]
				if !d.flags[j] {
					if got != "" {
						ok = false
						why = append(why, fmt.Sprintf("a dumper with part %d off was handed %d bytes", j, len(got)))
					}
					continue
				}
				if first[j] {
					*ref, first[j] = got, false
				} else if got != *ref {
					ok = false
					why = append(why, fmt.Sprintf("two dumpers with part %d on hold different bytes", j))
				}
			}
			if strings.Trim(d.out.String(), "\r\n") != "" {
				ok = false
				why = append(why, "Output() of a dumper with dedicated part writers got non-separator bytes")
			}
		}
		// transparency: the pair agrees on everything the peer and the caller can see
		if bodyFailed(on) && bodyFailed(off) {
			// the request is abandoned: how much of it had left the buffer at that moment depends
			// on the copy path; both are prefixes of the same byte stream
			if !strings.HasPrefix(on.final, off.final) && !strings.HasPrefix(off.final, on.final) {
				ok = false
				why = append(why, "abandoned request: the bytes sent with and without dump are not prefixes of one stream")
			}
		} else if on.final != off.final {
			ok = false
			why = append(why, fmt.Sprintf("bytes sent differ: dump on %d bytes, off %d bytes", len(on.final), len(off.final)))
		}
		if wireFailed(on) != wireFailed(off) || bodyFailed(on) != bodyFailed(off) {
			ok = false
			why = append(why, fmt.Sprintf("outcome differs: dump on err=%v/%v, off err=%v/%v", on.err, on.ferr, off.err, off.ferr))
		}
		class := ""
		if streaming && obs && tc.limit < 0 {
			if fmt.Sprint(on.pend) != fmt.Sprint(off.pend) || on.wire != off.wire {
				// (both runs see the same reads: the copy path of a streamed body does not depend on dump)
				ok = false
				why = append(why, fmt.Sprintf("streamed body: bytes withheld in the connection buffer at each body read differ: dump on %v, off %v (wire at return %d vs %d bytes)", c13ClipInts(on.pend), c13ClipInts(off.pend), len(on.wire), len(off.wire)))
			}
		}
		if tc.method == "CONNECT" && unknown && bodyDump {
			class = "h1-connect-stream-not-flushed-with-body-dump"
		}
		nontriv := len(on.reads) >= 3 || tc.limit >= 0
		human := fmt.Sprintf("B=%d limit=%d %s %s cl=%d bodyKind=%d body=%dB sizes=%v failAt=%d eofData=%v hdr=%d order=%v dumpers=%s", tc.B, tc.limit, tc.method, tc.rawURL, tc.cl, tc.bodyKind, len(tc.body), c13ClipInts(tc.sizes), tc.failAt, tc.eofData, len(tc.header), tc.header["__header_order__"], c13H1WDumpers(ds))
		if len(why) > 0 {
			human += " ## " + strings.Join(why, " ## ")
		}
		s.Case(line(on, hdrDump, bodyDump, false), render(on, dh, db), ok, class, nontriv, human)
		s.Case(line(off, false, false, false), render(off, "", ""), true, "", false, human+" (dump off)")
		// buckets
		cnt.add(s, fmt.Sprintf("B=%d", tc.B))
		switch {
		case !hasBody:
			cnt.add(s, "no-body")
		case probe:
			cnt.add(s, "probe")
		case unknown && tc.method == "CONNECT":
			cnt.add(s, "connect-stream")
		case unknown:
			cnt.add(s, "chunked")
		default:
			cnt.add(s, "content-length")
		}
		if hasBody && !unknown && tc.bodyKind == 2 {
			if bodyDump {
				cnt.add(s, "identity-write-path")
			} else {
				cnt.add(s, "identity-readfrom-path")
			}
		}
		if tc.limit >= 0 {
			cnt.add(s, "wire-fails")
		}
		if bodyFailed(on) {
			cnt.add(s, "body-read-error")
		}
		if hdrDump {
			cnt.add(s, "hdr-dump")
		}
		if ordered {
			cnt.add(s, "header-order")
			if hdrDump {
				cnt.add(s, "header-order+hdr-dump")
			}
			if tc.limit >= 0 {
				cnt.add(s, "header-order+wire-fails")
			}
		}
		if bodyDump {
			cnt.add(s, "body-dump")
		}
		if len(ds) == 2 && ds[0] != nil && ds[1] != nil {
			cnt.add(s, "two-dumpers")
		}
		if streaming && obs && len(on.reads) >= 3 {
			cnt.add(s, "stream-multi-read")
		}
	}
	for _, must := range []string{"B=16", "B=64", "B=4096", "no-body", "probe", "connect-stream", "chunked", "content-length", "identity-write-path", "identity-readfrom-path", "wire-fails", "body-read-error", "hdr-dump", "body-dump", "two-dumpers", "stream-multi-read", "header-order", "header-order+hdr-dump", "header-order+wire-fails"} {
		if cnt[must] == 0 {
			t.Errorf("generator never reached bucket %q", must)
		}
	}
	s.Finish()
}

func c13ClipInts(l []int) string {
	if len(l) > 12 {
		return fmt.Sprintf("%v…(%d)", l[:12], len(l))
	}
	return fmt.Sprint(l)
}

func c13H1WDumpers(ds []*c13H1WDumper) string {
	var out []string
	for _, d := range ds {
		if d == nil {
			out = append(out, "-")
			continue
		}
		f := ""
		for i, n := range []string{"qh", "qb", "rh", "rb"} {
			if d.flags[i] {
				f += n + "+"
			}
		}
		out = append(out, "{"+strings.TrimSuffix(f, "+")+"}")
	}
	return strings.Join(out, ",")
}
