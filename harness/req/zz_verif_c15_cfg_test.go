//go:build verif

package req

import (
	"fmt"
	"net/http"
	"strings"
	"testing"

	"github.com/imroc/req/v3/internal/verifh"
	"golang.org/x/text/encoding/ianaindex"
)

// TestVerif_C15_cfg: settings life-cycle x media-type grid. Real clients run a program of
// setter calls and clonings; the transport of the selected member then handles one tiny
// response per grid cell and the lane records which reader autoDecodeResponseBody installed.
// The Lean model computes the configuration from the program (runFam) and the verdict
// (select); an independent Go oracle reads the program backwards.
func TestVerif_C15_cfg(t *testing.T) {
	s := verifh.New(t, "C15", "cfg",
		"settings programs over a family of clients: (a) the complete shape [<=2 setter calls on the original] Clone [<=2 setter calls on original or clone] x request by original or clone over the alphabet "+
			"Disable, Enable, SetAutoDecodeContentType(html), SetAutoDecodeContentType(png,csv), SetAutoDecodeAllContentType, SetAutoDecodeContentTypeFunc(nil), SetAutoDecodeContentTypeFunc(f) (24054 programs; "+
			"quick tier: a uniform sample), (b) random programs of up to 8 calls with up to 4 clonings (Client.Clone and Transport.Clone, Client and Transport setters, clones of clones). Each program is observed on "+
			"a grid of 58 responses (media types with parameters, casing, +json/+xml suffixes, charset spellings incl. quoted/empty/duplicate/unknown/utf-8, response Accept-Encoding): which reader "+
			"autoDecodeResponseBody installs (raw / header-charset decoder / sniffing reader). non-trivial = the program contains a cloning")
	r := s.Rand()
	cnt := c15NewCounter(s)
	alphabet := []c15FamOp{{k: 'D'}, {k: 'E'}, {k: 'L', list: []string{"html"}}, {k: 'L', list: []string{"png", "csv"}}, {k: 'A'}, {k: 'N'}, {k: 'F', custom: 2}}
	seqs := func(members int) [][]c15FamOp { // all call sequences of length <= 2 over alphabet x members
		var syms []c15FamOp
		for m := 0; m < members; m++ {
			for _, a := range alphabet {
				a.i = m
				syms = append(syms, a)
			}
		}
		out := [][]c15FamOp{nil}
		for _, a := range syms {
			out = append(out, []c15FamOp{a})
		}
		for _, a := range syms {
			for _, b := range syms {
				out = append(out, []c15FamOp{a, b})
			}
		}
		return out
	}
	pres, posts := seqs(1), seqs(2)
	type prog struct {
		ops []c15FamOp
		use int
		tag string
	}
	var progs []prog
	mk := func(pre, post []c15FamOp, use int) prog {
		ops := append(append(append([]c15FamOp{}, pre...), c15FamOp{k: 'C', i: 0}), post...)
		for k := range ops {
			ops[k].via = r.Intn(2)
		}
		return prog{ops, use, "shape"}
	}
	if verifh.Thorough() {
		for _, pre := range pres {
			for _, post := range posts {
				progs = append(progs, mk(pre, post, 0), mk(pre, post, 1))
			}
		}
	} else {
		for i := 0; i < 2500; i++ {
			progs = append(progs, mk(verifh.Pick(r, pres), verifh.Pick(r, posts), r.Intn(2)))
		}
	}
	for i := 0; i < verifh.N(500, 6000); i++ {
		ops, use := c15GenProg(r, false)
		progs = append(progs, prog{ops, use, "random"})
	}
	var gridArg []string
	for _, cell := range c15MediaGrid {
		mp, cs, has, _ := c15MediaParse(cell.ct)
		// the model resolves the charset in ITS OWN WHATWG table; the harness only says what the IANA
		// index answers (implemented / registered without an implementation / unknown name)
		lk := "W:err"
		if has {
			if e, err := ianaindex.MIME.Encoding(strings.ToLower(cs)); err == nil && e != nil {
				lk = "W:ok"
			} else if err == nil {
				lk = "W:nil"
				cnt.count("grid:charset-registered-but-unimplemented")
			}
		}
		gridArg = append(gridArg, verifh.Hex(cell.ct)+"/"+verifh.Hex(cell.ae)+"/"+mp+"/"+lk)
	}
	grid := strings.Join(gridArg, ",")
	for _, p := range progs {
		fam := c15RunProg(C(), false, p.ops)
		tr := fam[p.use].t
		dis, filter := c15ProgEffective(p.ops, p.use)
		kinds := make([]string, len(c15MediaGrid))
		ok := true
		var bad string
		for k, cell := range c15MediaGrid {
			h := http.Header{}
			if cell.ct != "" {
				h.Set("Content-Type", cell.ct)
			}
			if cell.ae != "" {
				h.Set("Accept-Encoding", cell.ae)
			}
			src := newC15Src([]string{"x"}, nil, false)
			resp := &http.Response{Header: h, Body: src}
			ptxt, panicked := verifh.Safely(func() { tr.autoDecodeResponseBody(resp) })
			switch resp.Body.(type) {
			case *c15Src:
				kinds[k] = "raw"
			case *decodeReaderCloser:
				kinds[k] = "hdr"
			case *autoDecodeReadCloser:
				kinds[k] = "auto"
			default:
				kinds[k] = "?"
			}
			if panicked {
				kinds[k] = "panic"
				bad = ptxt
			}
			if want := c15ExpectedKind(dis, filter, cell); ok && kinds[k] != want {
				ok = false
				bad = fmt.Sprintf("response Content-Type %q Accept-Encoding %q: installed %s, must be %s", cell.ct, cell.ae, kinds[k], want)
			}
		}
		cnt.count("programs:" + p.tag)
		feats := c15ProgFeatures(p.ops, p.use)
		for _, f := range feats {
			cnt.count(f)
		}
		human := "settings program [" + c15ProgHuman(p.ops, p.use) + "] on the media grid"
		if !ok {
			human += " ORACLE: " + bad
		}
		s.Case("c15cfg "+c15ProgStringNamed(p.ops)+" "+fmt.Sprint(p.use)+" "+grid, strings.Join(kinds, ","), ok, "", len(fam) > 1, human)
	}
	cnt.must(t, "grid:charset-registered-but-unimplemented", "programs:shape", "programs:random", "prog:request-by-a-clone", "prog:cloned-while-switched-off", "prog:cloned-with-filter-set",
		"prog:cloned-off-with-filter-then-switched-on", "prog:several-clones")
	s.Finish()
}
