//go:build verif

package req

// C04 — the single-fault matrix of the reference lane: every entry of the grammar's tables
// (Content-Length spellings, duplicate pairs, Transfer-Encoding values, their combinations,
// protocol versions, status codes, Connection values, chunk-size lines, last-chunk lines, bytes
// after chunk data, chunk extensions, trailer sections, Trailer declarations, header keys,
// header value bytes, line ends, folding) placed in an otherwise CLEAN message, so that each entry
// is judged in isolation on every run whatever VERIF_SEED is. (The random generator compounds
// faults: a table entry that is mis-handled only shows when nothing else in the stream rejects
// it first, which for a 1-in-15 entry of a 1-in-16 class can take more than one quick run.)

import (
	"fmt"
	"strings"
)

type c04SF struct {
	table  string
	stream string
}

func c04SingleFault() []c04SF {
	var out []c04SF
	add := func(table, stream string) { out = append(out, c04SF{table, stream}) }
	const chunkedBody = "5\r\nhello\r\n0\r\n\r\n"
	rest := "HTTP/1.1 200 OK\r\nContent-Length: 2\r\n\r\nhi"

	// Content-Length spellings (one field line)
	for _, v := range []string{"5", "+5", "-5", "+0", "-0", "0", "00", "05", "005", " 5", "5 ", "\t5", "5\t", " 5 ", "0x5", "0X5", "5x", "x5", "", " ", "\t",
		"9223372036854775807", "9223372036854775808", "18446744073709551615", "18446744073709551616", "99999999999999999999999",
		"5,5", "5, 5", "5 5", "1_0", "٣", "５", "5.0", "1e1", "5\x00", "5\x7f", "5\xa0", "0b101", "0o5", "5_", "_5", "+", "-", "++5", "+-5"} {
		add("cl", "HTTP/1.1 200 OK\r\nContent-Length: "+v+"\r\n\r\nhello"+rest)
		add("cl-204", "HTTP/1.1 204 OK\r\nContent-Length: "+v+"\r\n\r\n"+rest)
		add("cl-1.0", "HTTP/1.0 200 OK\r\nConnection: keep-alive\r\nContent-Length: "+v+"\r\n\r\nhello"+rest)
	}
	// two and three Content-Length field lines
	for _, p := range [][]string{{"5", "5"}, {"5", "05"}, {"5", " 5"}, {"5", "5 "}, {"5", "6"}, {"6", "5"}, {"5", ""}, {"", "5"}, {"", ""}, {"5", "+5"}, {"+5", "+5"}, {"+5", "5"},
		{"5", "5", "5"}, {"5", "5", "6"}, {"5", "x"}, {"x", "x"}, {"5", "5,5"}, {"0", "0"}, {"0", "00"}, {"5", "5\t"}} {
		h := ""
		for _, v := range p {
			h += "Content-Length: " + v + "\r\n"
		}
		add("dupcl", "HTTP/1.1 200 OK\r\n"+h+"\r\nhello"+rest)
		add("dupcl-split", "HTTP/1.1 200 OK\r\nContent-Length: "+p[0]+"\r\nX-Between: 1\r\ncontent-length: "+p[len(p)-1]+"\r\n\r\nhello"+rest)
	}
	// Transfer-Encoding values x protocol version
	tes := []string{"chunked", "Chunked", "CHUNKED", "cHuNkEd", " chunked", "chunked ", "chunked\t", "chunked,", ",chunked", "gzip", "gzip, chunked", "chunked, gzip", "chunked, chunked",
		"identity", "", " ", "chunked;q=1", "x-chunked", "\"chunked\"", "chunke", "chunkedd", "chunked\x00", "\xe9chunked"}
	for _, te := range tes {
		for _, proto := range []string{"HTTP/1.1", "HTTP/1.0", "HTTP/2.0", "HTTP/1.2", "HTTP/0.9", "HTTP/0.0", "HTTP/3.0", "HTTP/9.9", "HTTP/2.1"} {
			add("te", proto+" 200 OK\r\nTransfer-Encoding: "+te+"\r\n\r\n"+chunkedBody+rest)
		}
	}
	for _, p := range [][2]string{{"chunked", "chunked"}, {"chunked", "gzip"}, {"gzip", "chunked"}, {"chunked", ""}, {"", "chunked"}} {
		add("dupte", "HTTP/1.1 200 OK\r\nTransfer-Encoding: "+p[0]+"\r\nTransfer-Encoding: "+p[1]+"\r\n\r\n"+chunkedBody+rest)
	}
	// Transfer-Encoding with Content-Length, both orders
	for _, te := range []string{"chunked", "gzip", "identity", ""} {
		for _, cl := range []string{"5", "15", "0", "x", "+5", "", "5, 5"} {
			add("te+cl", "HTTP/1.1 200 OK\r\nTransfer-Encoding: "+te+"\r\nContent-Length: "+cl+"\r\n\r\n"+chunkedBody+rest)
			add("te+cl", "HTTP/1.1 200 OK\r\nContent-Length: "+cl+"\r\nTransfer-Encoding: "+te+"\r\n\r\n"+chunkedBody+rest)
			add("te+cl-1.0", "HTTP/1.0 200 OK\r\nContent-Length: "+cl+"\r\nTransfer-Encoding: "+te+"\r\n\r\n"+chunkedBody+rest)
		}
	}
	// status line: protocol, separator, code, reason
	for _, proto := range []string{"HTTP/1.1", "HTTP/1.0", "HTTP/2.0", "HTTP/0.9", "HTTP/0.0", "HTTP/1.5", "HTTP/9.9", "HTTP/10.1", "HTTP/1.10", "HTTP/11", "http/1.1", "Http/1.1", "HTTP/1.", "HTTP/.1", "HTTP/1.1x",
		"HTTPS/1.1", "", "HTTP/+.1", "HTTP/1,1", "HTTP/1.1 ", " HTTP/1.1", "HTTP/１.1", "HTTP/1 .1", "HTTP/-1.1", "HTTP/1.-1", "HTTP/1.1\r"} {
		add("proto", proto+" 200 OK\r\nContent-Length: 5\r\n\r\nhello"+rest)
		add("proto-close", proto+" 200 OK\r\n\r\nhello")
	}
	for _, code := range []string{"200", "204", "304", "100", "101", "199", "099", "000", "999", "600", "20", "2", "2000", "+20", "-20", "+00", "-00", "-01", "2x0", "2 0", "", " ", "２00", "0x2", "2e2", "200\t", "\t200", "20\r"} {
		add("code", "HTTP/1.1 "+code+" OK\r\nContent-Length: 5\r\n\r\nhello"+rest)
		add("code-noreason", "HTTP/1.1 "+code+"\r\nContent-Length: 5\r\n\r\nhello"+rest)
	}
	for _, sep := range []string{" ", "  ", "   ", "\t", "", " \t", "\r"} {
		add("sep", "HTTP/1.1"+sep+"200"+sep+"OK\r\nContent-Length: 5\r\n\r\nhello"+rest)
	}
	for _, reason := range []string{"", " ", "  ", " OK", " Not Found", " \x01", " \x7f", " \xfc\xef", "\tOK", " OK ", " a  b ", " \r"} {
		add("reason", "HTTP/1.1 200"+reason+"\r\nContent-Length: 5\r\n\r\nhello"+rest)
	}
	// bodies not allowed / HEAD-like statuses with framing headers
	for _, code := range []string{"100", "101", "102", "199", "204", "205", "304", "099", "200"} {
		add("nobody-cl", "HTTP/1.1 "+code+" S\r\nContent-Length: 5\r\n\r\nhello"+rest)
		add("nobody-te", "HTTP/1.1 "+code+" S\r\nTransfer-Encoding: chunked\r\n\r\n"+chunkedBody+rest)
		add("nobody-none", "HTTP/1.1 "+code+" S\r\n\r\nhello")
		add("nobody-badcl", "HTTP/1.1 "+code+" S\r\nContent-Length: x\r\n\r\nhello")
	}
	// Connection values x protocol
	for _, v := range []string{"close", "keep-alive", "Close", "CLOSE", "Keep-Alive", "x, close", "close, x", "close, keep-alive", "keep-alive, close", "closed", "clos", "keep-alive ,upgrade", "", " ", ",", "close,", ",close",
		"\xe9close", "close\t", "\tclose", "c\x00lose", "close;q=1", "\"close\"", "keepalive", "Upgrade", "upgrade, close"} {
		for _, proto := range []string{"HTTP/1.1", "HTTP/1.0", "HTTP/2.0", "HTTP/0.9"} {
			add("connection", proto+" 200 OK\r\nConnection: "+v+"\r\nContent-Length: 5\r\n\r\nhello"+rest)
		}
		add("connection-2", "HTTP/1.1 200 OK\r\nConnection: x\r\nConnection: "+v+"\r\nContent-Length: 5\r\n\r\nhello"+rest)
	}
	// round 5: Connection / Transfer-Encoding / Content-Length options spread over several field lines
	// and several tokens (comma / blank / tab separated, empty elements, name case variants, other
	// fields in between): the decisive token on the first, a middle or the last line.
	for _, ls := range [][]string{{"x-foo", "close"}, {"close", "x-foo"}, {"x-foo", "y", "close"}, {"keep-alive", "close"}, {"close", "keep-alive"}, {"x-foo", "keep-alive"},
		{"keep-alive", "x"}, {"x", "y", "keep-alive"}, {"not close"}, {"close x"}, {"x close"}, {"keep-alive x"}, {"not keep-alive"}, {"x\tclose"}, {"x,close"}, {"x ,close"}, {"x, ,close"}, {"", "close"}, {"close", ""},
		{"x-foo", "Close"}, {"x", "KEEP-ALIVE"}, {"x;close"}, {"x=close"}, {"closex", "close"}, {"keep-alive", "keep-alive"}, {"close", "close"}, {"x, y", "z, close"}, {"x, close", "y"}, {"upgrade", "close"}} {
		for _, proto := range []string{"HTTP/1.1", "HTTP/1.0"} {
			for _, names := range [][]string{{"Connection", "Connection", "Connection"}, {"Connection", "connection", "CONNECTION"}} {
				for _, between := range []string{"", "X-A: 1\r\n"} {
					h := ""
					for i, v := range ls {
						if i > 0 {
							h += between
						}
						h += names[i] + ": " + v + "\r\n"
					}
					add("connection-lines", proto+" 200 OK\r\n"+h+"Content-Length: 5\r\n\r\nhello"+rest)
				}
			}
		}
	}
	for _, ls := range [][]string{{"chunked", "chunked"}, {"gzip", "chunked"}, {"chunked", "gzip"}, {"", "chunked"}, {"chunked", ""}, {"identity", "chunked"}, {"chunked, chunked"}, {"gzip, chunked"}, {"chunked,"}, {",chunked"},
		{"chunked chunked"}, {" chunked "}, {"chunked\t"}, {"Chunked", "chunked"}, {"x", "y", "chunked"}, {"chunked", "chunked", "chunked"}} {
		for _, names := range [][]string{{"Transfer-Encoding", "Transfer-Encoding", "Transfer-Encoding"}, {"transfer-encoding", "TRANSFER-ENCODING", "Transfer-encoding"}} {
			for _, between := range []string{"", "X-A: 1\r\n", "Content-Length: 5\r\n"} {
				h := ""
				for i, v := range ls {
					if i > 0 {
						h += between
					}
					h += names[i] + ": " + v + "\r\n"
				}
				add("te-lines", "HTTP/1.1 200 OK\r\n"+h+"\r\n"+chunkedBody+rest)
			}
		}
	}
	for _, ls := range [][]string{{"5", "5", "5"}, {"5", " 5 "}, {"5", "5 5"}, {"5, 5"}, {"5,5", "5"}, {"5", "5,"}, {"5", "\t5"}, {"5", "6", "5"}, {"5", "5", "6"}, {"6", "5", "5"}, {"5", "05"}, {"5", "5", ""}, {"", "5", "5"}} {
		for _, names := range [][]string{{"Content-Length", "Content-Length", "Content-Length"}, {"content-length", "CONTENT-LENGTH", "Content-length"}} {
			for _, between := range []string{"", "X-A: 1\r\n"} {
				h := ""
				for i, v := range ls {
					if i > 0 {
						h += between
					}
					h += names[i] + ": " + v + "\r\n"
				}
				add("cl-lines", "HTTP/1.1 200 OK\r\n"+h+"\r\nhello"+rest)
			}
		}
	}
	// chunk-size lines (first chunk, 5 data bytes follow)
	sizes := []string{"5", "05", "0005", "5;x", "5;x=y", "5 ;x", "5\t;x", "5; x", "5 ", "5\t", "5 \t ", " 5", "\t5", "5;", "5;;", "+5", "-5", "0x5", "5x", "5 5", "", " ", ";x", " ;x", "\t;x", "g",
		"0000000000000005", "00000000000000005", "000000000000000000005", "ffffffffffffffff", "7fffffffffffffff", "8000000000000000", "10000000000000000", "7ffff9ffffffffff",
		"5\r", "5\r\r", "5;x\r", "５", "5;\"a;b\"", "5;a=\"b\r\nc\"", "A", "a", "0A", "5\x00", "5;\x00"}
	for _, sz := range sizes {
		for _, eol := range []string{"\r\n", "\n"} {
			add("chunk-size", "HTTP/1.1 200 OK\r\nTransfer-Encoding: chunked\r\n\r\n"+sz+eol+"hello\r\n0\r\n\r\n"+rest)
		}
	}
	for _, n := range []int{8, 12, 13, 14, 15, 56, 60, 61, 62, 63, 4080, 4088, 4089, 4090, 4091, 4092, 4093, 4094, 4095, 5000} {
		add("chunk-ext-len", "HTTP/1.1 200 OK\r\nTransfer-Encoding: chunked\r\n\r\n5;"+strings.Repeat("e", n)+"\r\nhello\r\n0\r\n\r\n"+rest)
	}
	for _, last := range []string{"0", "00", "0000000000000000", "00000000000000000", "0;x", "0 ;x", "0 ", "0\t", "", " ", ";x", "0\r", "-0", "+0", "0x0", "O"} {
		for _, eol := range []string{"\r\n", "\n"} {
			add("last-chunk", "HTTP/1.1 200 OK\r\nTransfer-Encoding: chunked\r\n\r\n5\r\nhello\r\n"+last+eol+"\r\n"+rest)
		}
	}
	for _, after := range []string{"\r\n", "\n", "", "\r", "\rX", "XX", "\r\r\n", "\n\r", " \r\n", "\r\n\r\n", "X\r\n"} {
		add("after-data", "HTTP/1.1 200 OK\r\nTransfer-Encoding: chunked\r\n\r\n5\r\nhello"+after+"0\r\n\r\n"+rest)
	}
	for _, lie := range []string{"4", "6", "7", "0"} {
		add("size-lies", "HTTP/1.1 200 OK\r\nTransfer-Encoding: chunked\r\n\r\n"+lie+"\r\nhello\r\n0\r\n\r\n"+rest)
	}
	// trailer sections and Trailer declarations
	trailers := []string{"\r\n", "\n", "", "\r", "X", "X-T: v\r\n\r\n", "X-T: v\n\n", "X-T: v\r\n\n", "X-T: v\r\n", "X-T: v\r\n\r", "X-T", "X-T: 1\r\nx-u:2\r\nX-T: 3\r\n\r\n",
		"Content-Length: 5\r\n\r\n", "Transfer-Encoding: chunked\r\n\r\n", "Trailer: X\r\n\r\n", "Host: h\r\n\r\n", " X-T: v\r\n\r\n", "\tX-T: v\r\n\r\n", "X-T: a\r\n b\r\n\r\n",
		"nocolon\r\n\r\n", "X T: v\r\n\r\n", "X-T : v\r\n\r\n", "X-T: \x01\r\n\r\n", ": v\r\n\r\n", "X-T: \xe9\r\n\r\n", "\nX\r\n\r\n", "\r\nX-T: late\r\n\r\n"}
	for _, n := range []int{3, 4, 5, 6, 7, 50, 51, 52, 53, 54, 55, 4080, 4083, 4084, 4085, 4086, 4087, 4088, 5000} {
		trailers = append(trailers, "X-T: "+strings.Repeat("t", n)+"\r\n\r\n")
	}
	for _, n := range []int{70, 72, 73, 74, 75, 76, 80, 300} {
		trailers = append(trailers, " X-T: "+strings.Repeat("t", n)+"\r\n\r\n")
	}
	for _, tr := range trailers {
		add("trailer", "HTTP/1.1 200 OK\r\nTransfer-Encoding: chunked\r\n\r\n5\r\nhello\r\n0\r\n"+tr+rest)
		add("trailer-declared", "HTTP/1.1 200 OK\r\nTransfer-Encoding: chunked\r\nTrailer: X-T, X-U\r\n\r\n5\r\nhello\r\n0\r\n"+tr+rest)
	}
	for _, d := range []string{"X-T", "X-T, X-U", "x-t", "X-T,,X-T", " ,, ", "", "Content-Length", "content-length", "Trailer", "transfer-encoding", "X-T, Content-Length", "a b", "X-T;q=1", "\xe9"} {
		add("trailer-decl", "HTTP/1.1 200 OK\r\nTransfer-Encoding: chunked\r\nTrailer: "+d+"\r\n\r\n5\r\nhello\r\n0\r\nX-T: v\r\n\r\n"+rest)
		add("trailer-decl-cl", "HTTP/1.1 200 OK\r\nContent-Length: 5\r\nTrailer: "+d+"\r\n\r\nhello"+rest)
		add("trailer-decl-2", "HTTP/1.1 200 OK\r\nTransfer-Encoding: chunked\r\nTrailer: X-A\r\nTrailer: "+d+"\r\n\r\n5\r\nhello\r\n0\r\n\r\n"+rest)
	}
	// header keys, values, line ends, folding, Pragma
	for _, k := range []string{"X-Foo", "x-foo", "X-FOO", "x_y", "X.1", "x-a-b-c", "X-Foo ", "X-Foo\t", " X-Foo", "X Foo", "a b c", "X(Y", "X\tY", "", "X\x80", "X@Y", "X:Y", "X\x00", "X-\xe9", "Content-length", "CONTENT-LENGTH", "content-Length ", "Transfer-encoding ", "transfer_encoding"} {
		add("key", "HTTP/1.1 200 OK\r\n"+k+": 5\r\nContent-Length: 5\r\n\r\nhello"+rest)
		add("key-first", "HTTP/1.1 200 OK\r\nContent-Length: 5\r\n"+k+": 5\r\n\r\nhello"+rest)
	}
	for c := 0; c < 256; c++ {
		if c == '\n' {
			continue
		}
		add("value-byte", "HTTP/1.1 200 OK\r\nX-V: a"+string([]byte{byte(c)})+"b\r\nContent-Length: 5\r\n\r\nhello"+rest)
	}
	for _, c := range []byte{0, 1, 9, 11, 12, 13, 27, 32, 127, 128, 255} {
		add("key-byte", "HTTP/1.1 200 OK\r\nX"+string([]byte{c})+"V: ab\r\nContent-Length: 5\r\n\r\nhello"+rest)
		add("reason-byte", "HTTP/1.1 200 O"+string([]byte{c})+"K\r\nContent-Length: 5\r\n\r\nhello"+rest)
	}
	for _, eol := range []string{"\r\n", "\n", "\r\r\n", "\r", " \r\n", "\t\n", "\n\r"} {
		add("eol-status", "HTTP/1.1 200 OK"+eol+"Content-Length: 5\r\n\r\nhello"+rest)
		add("eol-header", "HTTP/1.1 200 OK\r\nX-A: 1"+eol+"Content-Length: 5\r\n\r\nhello"+rest)
		add("eol-blank", "HTTP/1.1 200 OK\r\nContent-Length: 5\r\n"+eol+"hello"+rest)
	}
	for _, lead := range []string{" ", "\t", "  ", " \t", "\r\n", "\n", "\x00"} {
		add("lead", lead+"HTTP/1.1 200 OK\r\nContent-Length: 5\r\n\r\nhello"+rest)
		add("lead-header", "HTTP/1.1 200 OK\r\n"+lead+"X-A: 1\r\nContent-Length: 5\r\n\r\nhello"+rest)
	}
	for _, cont := range []string{"more", "", "x y", ":z", "Content-Length: 9", "\x01", "\xe9", " ", "a\r"} {
		for _, ws := range []string{" ", "\t", "   ", " \t"} {
			add("fold", "HTTP/1.1 200 OK\r\nX-A: v\r\n"+ws+cont+"\r\nContent-Length: 5\r\n\r\nhello"+rest)
			add("fold-cl", "HTTP/1.1 200 OK\r\nContent-Length:\r\n"+ws+"5\r\n"+ws+cont+"\r\n\r\nhello"+rest)
		}
		add("fold-nocolon", "HTTP/1.1 200 OK\r\nnocolon\r\n "+cont+": v\r\nContent-Length: 5\r\n\r\nhello"+rest)
	}
	for _, pv := range []string{"no-cache", "No-Cache", "no-cache ", "no-cache, x", "", "x"} {
		add("pragma", "HTTP/1.1 200 OK\r\nPragma: "+pv+"\r\nContent-Length: 5\r\n\r\nhello"+rest)
		add("pragma-cc", "HTTP/1.1 200 OK\r\nPragma: "+pv+"\r\nCache-Control: max-age=1\r\nContent-Length: 5\r\n\r\nhello"+rest)
		add("pragma-2", "HTTP/1.1 200 OK\r\nPragma: x\r\nPragma: "+pv+"\r\nContent-Length: 5\r\n\r\nhello"+rest)
	}
	// round 5: the chunk-overhead budget at its boundary (limit -1 .. +2), every kind of non-data byte
	for _, b := range c04ExcessBoundary() {
		add("excess-boundary", "HTTP/1.1 200 OK\r\nTransfer-Encoding: chunked\r\n\r\n"+b)
	}
	// every strict prefix of three clean messages (cut classes, incl. the buffer-multiple corner)
	for _, m := range []string{"HTTP/1.1 200 OK\r\nContent-Length: 5\r\n\r\nhello", "HTTP/1.1 200 OK\r\nTransfer-Encoding: chunked\r\nTrailer: X-T\r\n\r\n5;e\r\nhello\r\n0\r\nX-T: v\r\n\r\n",
		"HTTP/1.0 200 OK\r\nX-A: 1\r\n b\r\n\r\nhello"} {
		for k := 0; k < len(m); k++ {
			add("prefix", m[:k])
		}
	}
	return out
}

// c04BytePos: a clean template and the index of ONE byte that the lane replaces by each of the
// 256 byte values.
type c04BytePos struct {
	class string
	tmpl  string
	pos   int
	head  bool // run for HEAD as well
}

// c04BytePositions: every position class of every numeric / token field and line end the response
// reader parses: chunk-size digits (first, middle, last, single), extension start and inside,
// every CR and LF (chunk-size line, after chunk data, last-chunk line, end of trailers, status
// line, header line, blank line, trailer line), the last-chunk "0", Content-Length digits and
// the bytes around them, EVERY byte of the status line (version letters and digits, slash, dot,
// separators, code digits, reason), header-name bytes and the colon, Transfer-Encoding and
// Connection value bytes, trailer key/colon/value bytes.
func c04BytePositions() []c04BytePos {
	var out []c04BytePos
	at := func(class, pre, field, post string, idx []int, head bool) {
		for _, i := range idx {
			out = append(out, c04BytePos{class: class, tmpl: pre + field + post, pos: len(pre) + i, head: head})
		}
	}
	rest := "HTTP/1.1 200 OK\r\nContent-Length: 2\r\n\r\nhi"
	ch := "HTTP/1.1 200 OK\r\nTransfer-Encoding: chunked\r\n\r\n"
	data26 := "abcdefghijklmnopqrstuvwxyz"
	// "01a;x=y\r\n": first, middle, last digit, ';', ext bytes, CR, LF
	at("chunk-size-line", ch, "01a;x=y\r\n", data26+"\r\n0\r\n\r\n"+rest, []int{0, 1, 2, 3, 4, 5, 6, 7, 8}, false)
	at("chunk-size-single", ch, "5\r\n", "hello\r\n0\r\n\r\n"+rest, []int{0, 1, 2}, false)
	at("chunk-size-2nd-chunk", ch+"3\r\nabc\r\n", "1a\r\n", data26+"\r\n0\r\n\r\n"+rest, []int{0, 1}, false)
	at("after-data", ch+"5\r\nhello", "\r\n", "0\r\n\r\n"+rest, []int{0, 1}, false)
	at("last-chunk", ch+"5\r\nhello\r\n", "0\r\n\r\n", rest, []int{0, 1, 2, 3, 4}, false)
	at("last-chunk-padded", ch+"5\r\nhello\r\n", "000\r\n\r\n", rest, []int{0, 1, 2}, false)
	at("trailer-line", ch+"5\r\nhello\r\n0\r\n", "X-T: v\r\n\r\n", rest, []int{0, 1, 2, 3, 4, 5, 6, 7, 8, 9}, false)
	// Content-Length: 012 with a long enough body behind it
	body := strings.Repeat("x", 1000)
	at("content-length", "HTTP/1.1 200 OK\r\n", "Content-Length: 012\r\n", "\r\n"+body, []int{14, 15, 16, 17, 18, 19, 20}, true)
	at("content-length-single", "HTTP/1.1 200 OK\r\n", "Content-Length: 5\r\n", "\r\nhello"+rest, []int{16}, true)
	// every byte of the status line
	all := func(n int) []int {
		idx := make([]int, n)
		for i := range idx {
			idx[i] = i
		}
		return idx
	}
	at("status-line", "", "HTTP/1.1 200 OK\r\n", "Content-Length: 5\r\n\r\nhello"+rest, all(17), true)
	at("status-line-chunked", "", "HTTP/1.1 200 OK\r\n", "Transfer-Encoding: chunked\r\n\r\n5\r\nhello\r\n0\r\n\r\n"+rest, []int{5, 6, 7, 9, 10, 11}, false)
	// header name, colon, blank line
	at("header-name", "HTTP/1.1 200 OK\r\n", "X-Key: v\r\n", "Content-Length: 5\r\n\r\nhello"+rest, []int{0, 1, 2, 4, 5, 6, 7, 8, 9}, false)
	at("blank-line", "HTTP/1.1 200 OK\r\nContent-Length: 5\r\n", "\r\n", "hello"+rest, []int{0, 1}, false)
	at("cl-name", "HTTP/1.1 200 OK\r\n", "Content-Length", ": 5\r\n\r\nhello"+rest, []int{0, 7, 8, 13}, false)
	at("te-value", "HTTP/1.1 200 OK\r\nTransfer-Encoding: ", "chunked", "\r\n\r\n5\r\nhello\r\n0\r\n\r\n"+rest, []int{0, 3, 6}, false)
	at("te-name", "HTTP/1.1 200 OK\r\n", "Transfer-Encoding", ": chunked\r\n\r\n5\r\nhello\r\n0\r\n\r\n"+rest, []int{0, 8, 9, 16}, false)
	at("connection-value", "HTTP/1.1 200 OK\r\nConnection: ", "close", "\r\nContent-Length: 5\r\n\r\nhello"+rest, []int{0, 2, 4}, false)
	at("connection-value-1.0", "HTTP/1.0 200 OK\r\nConnection: ", "keep-alive", "\r\nContent-Length: 5\r\n\r\nhello"+rest, []int{0, 4, 9}, false)
	at("trailer-decl", "HTTP/1.1 200 OK\r\nTransfer-Encoding: chunked\r\nTrailer: ", "X-T", "\r\n\r\n5\r\nhello\r\n0\r\nX-T: v\r\n\r\n"+rest, []int{0, 1, 2}, false)
	return out
}

// c04ExcessBoundary (round 5): chunked bodies whose overhead balance (`chunkedReader.excess`:
// + len(size line incl. LF) + 2, - 16 - 2*n per chunk, clamped at 0, error above 16 KiB after a
// data chunk) lands at the limit -1 / +0 / +1 / +2, reached through every kind of non-data byte:
// extensions, blanks before the CRLF, zero padding, many small chunks (lines that fit a 64-byte
// buffer), bare-LF line ends, with refunds by data-rich chunks before (clamp at 0) and in between,
// and the last-chunk line, which is never refused for overhead.
func c04ExcessBoundary() []string {
	const limit = 16 * 1024
	var out []string
	// a size line of exactly L bytes, EOL included
	ext := func(sz string, L int, eol string) string {
		return sz + ";" + strings.Repeat("x", L-len(sz)-1-len(eol)) + eol
	}
	blanks := func(sz string, L int, eol string) string {
		return sz + strings.Repeat(" ", (L-len(sz)-len(eol))/2) + strings.Repeat("\t", L-len(sz)-len(eol)-(L-len(sz)-len(eol))/2) + eol
	}
	chunk := func(line string, n int) string { return line + strings.Repeat("D", n) + "\r\n" }
	type step struct {
		L, n int
		mk   func(sz string, L int, eol string) string
		eol  string
	}
	build := func(pre []step, fin step, delta int, lastLine string) (string, bool) {
		ex := 0
		var sb strings.Builder
		for _, s := range pre {
			sb.WriteString(chunk(s.mk(fmt.Sprintf("%x", s.n), s.L, s.eol), s.n))
			ex += s.L + 2 - 16 - 2*s.n // the line as ReadSlice returns it (CR and LF included) + 2
			if ex < 0 {
				ex = 0
			}
		}
		// length of the final line that puts the balance at limit + delta
		L := limit + delta - ex - 2 + 16 + 2*fin.n
		sz := fmt.Sprintf("%x", fin.n)
		if fin.L < 0 { // zero padded to 16 digits
			sz = fmt.Sprintf("%016x", fin.n)
		}
		if L >= 4096 || L < len(sz)+1+len(fin.eol) {
			return "", false
		}
		sb.WriteString(chunk(fin.mk(sz, L, fin.eol), fin.n))
		sb.WriteString(lastLine + "\r\nREST")
		return sb.String(), true
	}
	rep := func(s step, k int) []step {
		var o []step
		for i := 0; i < k; i++ {
			o = append(o, s)
		}
		return o
	}
	big := step{L: 4000, n: 1, mk: ext, eol: "\r\n"} // +3984 each
	fams := []struct {
		pre  []step
		fin  step
		last string
	}{
		{rep(big, 4), step{n: 1, mk: ext, eol: "\r\n"}, "0\r\n"},
		{rep(step{L: 4000, n: 1, mk: blanks, eol: "\r\n"}, 4), step{n: 1, mk: blanks, eol: "\r\n"}, "0\r\n"},
		{rep(big, 4), step{L: -1, n: 1, mk: ext, eol: "\r\n"}, "0\r\n"},
		{rep(big, 4), step{n: 1, mk: ext, eol: "\n"}, "0\r\n"},
		{rep(step{L: 4000, n: 1, mk: ext, eol: "\n"}, 4), step{n: 1, mk: blanks, eol: "\n"}, "0\r\n"},
		{rep(step{L: 56, n: 1, mk: ext, eol: "\r\n"}, 409), step{n: 1, mk: ext, eol: "\r\n"}, "0\r\n"},
		{rep(step{L: 36, n: 1, mk: ext, eol: "\r\n"}, 815), step{n: 1, mk: ext, eol: "\r\n"}, "0\r\n"},
		{append([]step{{L: 5, n: 1000, mk: blanks, eol: "\r\n"}}, rep(big, 4)...), step{n: 1, mk: ext, eol: "\r\n"}, "0\r\n"},
		{append(rep(big, 4), step{L: 4, n: 100, mk: blanks, eol: "\r\n"}), step{n: 1, mk: ext, eol: "\r\n"}, "0\r\n"},
		{append(rep(big, 2), append([]step{{L: 5, n: 2000, mk: blanks, eol: "\r\n"}}, rep(big, 4)...)...), step{n: 1, mk: ext, eol: "\r\n"}, "0\r\n"},
		{rep(big, 4), step{n: 7, mk: ext, eol: "\r\n"}, "0\r\n"},
		{rep(big, 4), step{n: 1, mk: ext, eol: "\r\n"}, "0;" + strings.Repeat("y", 4000) + "\r\n"},
		{rep(big, 4), step{n: 1, mk: ext, eol: "\r\n"}, "1;z\r\nD\r\n0\r\n"},
	}
	for _, f := range fams {
		for _, d := range []int{-1, 0, 1, 2} {
			if st, ok := build(f.pre, f.fin, d, f.last); ok {
				out = append(out, st)
			}
		}
	}
	return out
}
