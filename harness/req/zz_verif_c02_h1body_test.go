//go:build verif

package req

import (
	"bufio"
	"errors"
	"fmt"
	"io"
	"net/http"
	"reflect"
	"sort"
	"strconv"
	"strings"
	"testing"
	"unsafe"

	"github.com/imroc/req/v3/internal"
	"github.com/imroc/req/v3/internal/verifh"
)

// ---------------------------------------------------------------------------------------
// C02 lane "h1body": the HTTP/1.1 body readers, Read by Read.
//
// The real readTransfer builds the body reader (io.LimitedReader / chunkedReader / the
// connection reader inside transfer.go's `body`) over a real bufio.Reader whose source
// delivers the wire bytes in a generated segmentation; the lane wraps it in bodyEOFSignal as
// readLoop does, performs a generated sequence of Read(n) calls and compares the length of
// every read, the final error class, the bytes, the trailers and the number of wire bytes
// left unread with the Lean automata (Req.C02.H1Body over Req.C02.Bufio).
// ---------------------------------------------------------------------------------------

var errC02Reset = errors.New("c02: connection reset by scripted peer")

// c02FieldOfType returns, settable, the one field of the struct *ptr whose type is typ — found
// by TYPE, not by name, so that renaming an unexported field does not break the harness.
// ok=false when there is none or more than one.
func c02FieldOfType(ptr interface{}, typ reflect.Type) (reflect.Value, bool) {
	v := reflect.ValueOf(ptr).Elem()
	idx := -1
	for i := 0; i < v.NumField(); i++ {
		if v.Type().Field(i).Type == typ {
			if idx >= 0 {
				return reflect.Value{}, false
			}
			idx = i
		}
	}
	if idx < 0 {
		return reflect.Value{}, false
	}
	f := v.Field(idx)
	return reflect.NewAt(f.Type(), unsafe.Pointer(f.UnsafeAddr())).Elem(), true
}

// c02NewBodyEOFSignal builds the wrapper persistConn.readLoop puts around a response body (the
// type has no constructor: readLoop uses a literal). Its three inputs are identified by type:
// the wrapped io.ReadCloser, the func(error) error completion hook, the func() error
// early-close hook. nil when the struct no longer has exactly that shape.
func c02NewBodyEOFSignal(rc io.ReadCloser) io.ReadCloser {
	es := new(bodyEOFSignal)
	fb, ok1 := c02FieldOfType(es, reflect.TypeOf((*io.ReadCloser)(nil)).Elem())
	ff, ok2 := c02FieldOfType(es, reflect.TypeOf((func(error) error)(nil)))
	fe, ok3 := c02FieldOfType(es, reflect.TypeOf((func() error)(nil)))
	if !ok1 || !ok2 || !ok3 {
		return nil
	}
	fb.Set(reflect.ValueOf(rc))
	ff.Set(reflect.ValueOf(func(err error) error { return err }))
	fe.Set(reflect.ValueOf(func() error { return nil }))
	return es
}

// c02SegReader delivers one segment (or the part that fits) per Read.
type c02SegReader struct {
	segs [][]byte
	fin  error
	left int
}

func (s *c02SegReader) Read(p []byte) (int, error) {
	for len(s.segs) > 0 && len(s.segs[0]) == 0 {
		s.segs = s.segs[1:]
	}
	if len(s.segs) == 0 {
		return 0, s.fin
	}
	if len(p) == 0 {
		return 0, nil
	}
	n := copy(p, s.segs[0])
	s.segs[0] = s.segs[0][n:]
	s.left -= n
	return n, nil
}

func c02IOErrClass(err error) string {
	switch {
	case err == nil:
		return "ok"
	case err == io.EOF:
		return "eof"
	case err == io.ErrUnexpectedEOF:
		return "unexpectedEOF"
	case errors.Is(err, errC02Reset):
		return "reset"
	case err == internal.ErrLineTooLong:
		return "lineTooLong"
	case err == http.ErrBodyReadAfterClose:
		return "readAfterClose"
	case err == bufio.ErrBufferFull:
		return "bufferFull"
	}
	switch msg := err.Error(); {
	case msg == "malformed chunked encoding":
		return "malformedChunk"
	case msg == "invalid byte in chunk length", strings.Contains(msg, "empty hex number"):
		return "invalidChunkLen"
	case msg == "http chunk length too large":
		return "chunkTooLarge"
	case strings.Contains(msg, "unexpected EOF reading trailer"):
		return "trailerEOF"
	case strings.Contains(msg, "suspiciously long trailer"):
		return "longTrailer"
	case strings.Contains(msg, "malformed MIME header"):
		return "badTrailer"
	}
	return "other(" + err.Error() + ")"
}

// c02CanonHeader renders selected header fields as the model does: sorted by key, values in
// order, hex(key):hex(value).
func c02CanonHeader(h http.Header, keep func(k string) bool) string {
	var keys []string
	for k, vv := range h {
		if (keep == nil || keep(k)) && len(vv) > 0 {
			keys = append(keys, k)
		}
	}
	if len(keys) == 0 {
		return "-"
	}
	sort.Strings(keys)
	var out []string
	for _, k := range keys {
		for _, v := range h[k] {
			out = append(out, verifh.Hex(k)+":"+verifh.Hex(v))
		}
	}
	return strings.Join(out, ",")
}

// c02Split cuts w into segments.
func c02Split(s *verifh.Session, w string) []string {
	r := s.Rand()
	if len(w) == 0 {
		return nil
	}
	var segs []string
	style := r.Intn(6)
	for len(w) > 0 {
		var n int
		switch style {
		case 0:
			n = len(w)
		case 1:
			n = 1
		case 2:
			n = 1 + r.Intn(8)
		case 3:
			n = verifh.Pick(r, []int{1, 2, 3, 5, 100, 1460, 4095, 4096, 4097, 8192})
		case 4:
			n = 1 + r.Intn(5000)
		default:
			if r.Intn(3) == 0 {
				n = 1 + r.Intn(3)
			} else {
				n = 1 + r.Intn(2000)
			}
		}
		if n > len(w) {
			n = len(w)
		}
		segs = append(segs, w[:n])
		w = w[n:]
	}
	return segs
}

type c02Field struct{ k, v string }

func c02GenTrailers(s *verifh.Session) []c02Field {
	r := s.Rand()
	var out []c02Field
	for i := r.Intn(4); i > 0; i-- {
		k := verifh.Pick(r, []string{"X-T", "x-trail", "X-Checksum", "x-t2-a", "Grpc-Status", "X-T"})
		v := verifh.RandBytes(r, r.Intn(12), "abcXYZ019 -_=;,/")
		v = strings.Trim(v, " ")
		out = append(out, c02Field{k, v})
	}
	return out
}

// c02EncodeChunked: the origin's chunked encoding of the given chunk list + trailer section.
func c02EncodeChunked(s *verifh.Session, chunks []string, trailers []c02Field, exts bool) string {
	r := s.Rand()
	var sb strings.Builder
	for _, c := range chunks {
		if len(c) == 0 {
			continue
		}
		hx := strconv.FormatInt(int64(len(c)), 16)
		if exts && r.Intn(3) == 0 {
			hx = strings.ToUpper(hx)
		}
		sb.WriteString(hx)
		if exts && r.Intn(3) == 0 {
			sb.WriteString(verifh.Pick(r, []string{";x", ";a=b", " ", ";q=\"z\"", "\t", ";a=b;c=d", ";x; y"}))
		}
		sb.WriteString("\r\n")
		sb.WriteString(c)
		sb.WriteString("\r\n")
	}
	sb.WriteString("0\r\n")
	for _, t := range trailers {
		sb.WriteString(t.k + ": " + t.v + "\r\n")
	}
	sb.WriteString("\r\n")
	return sb.String()
}

var c02BodyLens = []int{0, 1, 2, 5, 100, 511, 512, 513, 4095, 4096, 4097, 8191, 8192, 8193, 16383, 16384, 16385}

func c02GenBody(s *verifh.Session, big bool) string {
	r := s.Rand()
	n := verifh.Pick(r, c02BodyLens)
	if r.Intn(3) == 0 {
		n = r.Intn(3000)
	}
	if big && r.Intn(12) == 0 {
		n = verifh.Pick(r, []int{65535, 65536, 65537})
	}
	// bodies full of CR LF digits: the dangerous alphabet for a framing bug
	alpha := ""
	if r.Intn(3) == 0 {
		alpha = "\r\n0123abcdef;: "
	}
	return verifh.RandBytes(r, n, alpha)
}

func c02ChunkBody(s *verifh.Session, body string) []string {
	r := s.Rand()
	var chunks []string
	style := r.Intn(4)
	for len(body) > 0 {
		var n int
		switch style {
		case 0:
			n = len(body)
		case 1:
			n = 1 + r.Intn(4)
		case 2:
			n = verifh.Pick(r, []int{1, 15, 16, 17, 255, 256, 4095, 4096, 4097})
		default:
			n = 1 + r.Intn(6000)
		}
		if n > len(body) {
			n = len(body)
		}
		chunks = append(chunks, body[:n])
		body = body[n:]
	}
	return chunks
}

// c02ReadGen yields the caller's read sizes one by one (independent of the results).
func c02ReadGen(s *verifh.Session) func() int {
	r := s.Rand()
	style := r.Intn(8)
	return func() int {
		switch style {
		case 0:
			return 1
		case 1:
			return 7
		case 2:
			return 512
		case 3:
			return 4096
		case 4:
			return 65536
		case 5:
			return verifh.Pick(r, []int{0, 1, 2, 7, 512, 4095, 4096, 4097, 65536})
		case 6:
			return 1 + r.Intn(9000)
		default:
			return 1 + r.Intn(20)
		}
	}
}

func TestVerif_C02_h1body(t *testing.T) {
	s := verifh.New(t, "C02", "h1body",
		"framing {Content-Length n, chunked (+extensions, upper-case hex, 0..3 trailers), until-close} x body 0..65537 bytes (sizes around 512/4096/8192/16384/65536; random or CR/LF/hex-digit alphabet) x chunk splits x 0..40 bytes of following data x malformed stream (truncation at a random offset with EOF or reset, corrupted chunk framing, oversized size line) x network segmentation {whole, 1-byte, small, MTU/buffer-size, random} x read sizes {1,7,512,4096,65536,mixed incl. 0,random} x bufio size {4096, 16, 64, 8192}; real readTransfer body + bodyEOFSignal over bufio.Reader; compared Read by Read; non-trivial = >=2 segments and >=2 reads and non-empty body")
	r := s.Rand()
	n := verifh.N(1200, 12000)
	for c := 0; c < n; c++ {
		bodyStr := c02GenBody(s, true)
		kind := r.Intn(3)
		if len(bodyStr) == 0 && kind == 0 {
			kind = 1
		}
		var framing, wire string
		trailerStart := 0
		tlenOf := func(ts []c02Field) int {
			n := 2
			for _, tr := range ts {
				n += len(tr.k) + len(tr.v) + 4
			}
			return n
		}
		var trailers []c02Field
		hdr := http.Header{}
		switch kind {
		case 0:
			framing = "len:" + strconv.Itoa(len(bodyStr))
			hdr.Set("Content-Length", strconv.Itoa(len(bodyStr)))
			wire = bodyStr
		case 1:
			framing = "chunked"
			hdr.Set("Transfer-Encoding", "chunked")
			trailers = c02GenTrailers(s)
			if len(trailers) > 0 && r.Intn(2) == 0 {
				var ks []string
				for _, tr := range trailers {
					ks = append(ks, tr.k)
				}
				hdr.Set("Trailer", strings.Join(ks, ", "))
			}
			wire = c02EncodeChunked(s, c02ChunkBody(s, bodyStr), trailers, r.Intn(3) == 0)
			trailerStart = len(wire) - tlenOf(trailers) - 2 // keep the CRLF of the last-chunk line intact too
		default:
			framing = "close"
			wire = bodyStr
		}
		mut := "none"
		fin := "eof"
		msgLen := len(wire)
		if kind != 2 && r.Intn(3) != 0 {
			wire += verifh.RandBytes(r, r.Intn(41), "HTP/1. 20OK\r\nxyz")
		}
		switch r.Intn(9) {
		case 0: // truncate
			if len(wire) > 0 {
				wire = wire[:r.Intn(len(wire))]
				if len(wire) < msgLen {
					mut = "trunc"
				}
			}
			if r.Intn(2) == 0 {
				fin = "reset"
			}
		case 1:
			if kind == 1 && len(wire) > 0 { // corrupt one byte of the chunk framing / data
				// (not of the trailer section: lenient MIME parsing of malformed field
				// lines is C04's subject, as is the empty chunk-size line of DESIGN §5 row 14)
				i := r.Intn(trailerStart)
				b := []byte(wire)
				nb := verifh.Pick(r, []byte{'x', '\n', '\r', ';', 'g', ' ', '0'})
				isHex := strings.IndexByte("0123456789abcdefABCDEF", b[i]) >= 0
				if isHex && (nb == '\n' || nb == '\r' || nb == ';' || nb == ' ') {
					nb = 'x'
				}
				b[i] = nb
				wire = string(b)
				mut = "corrupt"
			}
		case 2:
			if kind == 1 && r.Intn(3) == 0 { // oversized chunk-size line
				wire = "5;" + strings.Repeat("e", verifh.Pick(r, []int{4000, 4089, 4090, 4091, 4092, 4093, 5000})) + "\r\nhello\r\n0\r\n\r\n"
				mut = "longline"
			} else if kind == 1 && r.Intn(2) == 0 {
				wire = strings.Repeat("f", 15+r.Intn(3)) + "\r\n"
				mut = "hugesize"
			} else if r.Intn(2) == 0 {
				fin = "reset"
			}
		}
		cap := 4096
		if r.Intn(6) == 0 {
			cap = verifh.Pick(r, []int{16, 64, 8192})
		}
		segs := c02Split(s, wire)
		nextRead := c02ReadGen(s)
		maxReads := 2500
		if r.Intn(5) == 0 {
			maxReads = r.Intn(6) // the caller stops early
		}
		var reads []int
		tlen := tlenOf(trailers)
		var line string

		var impl string
		propOK := true
		ptxt, panicked := verifh.Safely(func() {
			bs := make([][]byte, len(segs))
			for i, sg := range segs {
				bs[i] = []byte(sg)
			}
			sr := &c02SegReader{segs: bs, fin: io.EOF, left: len(wire)}
			if fin == "reset" {
				sr.fin = errC02Reset
			}
			br := bufio.NewReaderSize(sr, cap)
			resp := &http.Response{
				StatusCode: 200, Proto: "HTTP/1.1", ProtoMajor: 1, ProtoMinor: 1,
				Header:  hdr,
				Request: &http.Request{Method: "GET"},
			}
			if kind == 2 {
				hdr.Set("Connection", "close")
			}
			if err := readTransfer(resp, br); err != nil {
				impl = "readTransfer-error:" + err.Error()
				return
			}
			var es io.Reader = resp.Body
			if w := c02NewBodyEOFSignal(resp.Body); w != nil {
				es = w
				s.Count("via-bodyEOFSignal")
			} else {
				// shape of bodyEOFSignal changed: read the body reader directly (the wrapper
				// is still exercised through the real readLoop by lane e2eh1)
				s.Count("no-bodyEOFSignal-wrapper")
			}
			var ns []int
			var data []byte
			var last error
			for len(reads) < maxReads {
				k := nextRead()
				reads = append(reads, k)
				p := make([]byte, k)
				m, err := es.Read(p)
				ns = append(ns, m)
				data = append(data, p[:m]...)
				last = err
				if err != nil {
					break
				}
			}
			rem := br.Buffered() + sr.left
			nstr := verifh.IntList(ns)
			remStr := strconv.Itoa(rem)
			if c02IOErrClass(last) == "badTrailer" {
				remStr = "?" // how far a failing MIME parse got is C04's subject
			}
			impl = "n=" + nstr + " err=" + c02IOErrClass(last) + " data=" + verifh.Hex(string(data)) +
				" trailer=" + c02CanonHeader(resp.Trailer, nil) + " rem=" + remStr
			// property oracle: delivered bytes are a prefix of the origin's bodyStr; a clean end
			// (EOF) means exactly the bodyStr and exactly the trailers; on the unmutated stream
			// the end must be clean
			if mut == "none" || mut == "trunc" {
				if !strings.HasPrefix(bodyStr, string(data)) {
					propOK = false
				}
			}
			if mut == "none" && fin == "eof" && last == io.EOF {
				if string(data) != bodyStr {
					propOK = false
				}
				want := http.Header{}
				for _, tr := range trailers {
					want.Add(tr.k, tr.v)
				}
				if c02CanonHeader(resp.Trailer, nil) != c02CanonHeader(want, nil) {
					propOK = false
				}
			}
			if mut == "none" && last != nil && last != io.EOF && !(kind == 2 && fin == "reset") {
				// documented limit: a trailer section must fit the connection's read buffer
				if !(c02IOErrClass(last) == "longTrailer" && tlen > cap) {
					propOK = false
				}
			}
			if mut == "trunc" && last == io.EOF && kind != 2 {
				propOK = false // a truncated framed bodyStr must not end cleanly (C03's concern, free here)
			}
		})
		line = fmt.Sprintf("c02h1body %s %d %s %s %s", framing, cap, verifh.HexList(segs), fin, verifh.IntList(reads))
		if panicked {
			s.Crash(line, line, ptxt, "")
			continue
		}
		s.Count("framing:" + strings.SplitN(framing, ":", 2)[0])
		s.Count("mut:" + mut)
		if i := strings.Index(impl, " err="); i >= 0 {
			e := impl[i+5:]
			e = e[:strings.Index(e, " ")]
			s.Count("end:" + e)
		}
		if len(trailers) > 0 && mut == "none" {
			s.Count("with-trailers")
		}
		human := fmt.Sprintf("%s body=%d wire=%d segs=%d cap=%d fin=%s mut=%s reads=%d", framing, len(bodyStr), len(wire), len(segs), cap, fin, mut, len(reads))
		s.Case(line, impl, propOK, "", len(segs) >= 2 && len(reads) >= 2 && len(bodyStr) > 0, human)
	}
	s.Finish()
}
