//go:build verif

package req

// Lane c12fam (unit, in-package): a FAMILY of clients — the original, its clones, clones of
// clones — all of which keep receiving TLS setters in an arbitrary interleaving after the
// Clone() calls; then EVERY member is measured (the connection each protocol stack of that
// member would make next). The model (Req.Pool.TLS.famRun) says a member is governed by the
// setters applied to IT; a setter on a relative must never show (Props.C12
// member_reads_own_setters). The server names the CAs it accepts client certificates from,
// so that the certificate selected is the first ACCEPTABLE one of the member's list
// (Req.Pool.TLS.presented): any position of Certificates is observable, not only the first.
//
// The setters that work in place on shared-by-shallow-copy state are the ones the generator
// concentrates on: SetCerts (one / several certificates), SetCertFromFile (append to
// Config.Certificates), SetRootCertFromString / SetRootCertsFromFile (add to Config.RootCAs),
// with list lengths 0..9 at Clone time (slice growth boundaries: len == cap and len < cap).

import (
	"crypto/x509"
	"encoding/pem"
	"fmt"
	"os"
	"path/filepath"
	"strings"
	"testing"

	"github.com/imroc/req/v3/internal/verifh"
)

// c12WriteClientCertFiles writes clients[j] as PEM cert/key files (for SetCertFromFile).
func c12WriteClientCertFiles(dir string) error {
	pki := c12GetPKI()
	for j, cert := range pki.clients {
		crt := pem.EncodeToMemory(&pem.Block{Type: "CERTIFICATE", Bytes: cert.Certificate[0]})
		kb, err := x509.MarshalPKCS8PrivateKey(cert.PrivateKey)
		if err != nil {
			return err
		}
		key := pem.EncodeToMemory(&pem.Block{Type: "PRIVATE KEY", Bytes: kb})
		if err := os.WriteFile(filepath.Join(dir, fmt.Sprintf("client-%d.crt", j)), crt, 0o600); err != nil {
			return err
		}
		if err := os.WriteFile(filepath.Join(dir, fmt.Sprintf("client-%d.key", j)), key, 0o600); err != nil {
			return err
		}
	}
	return nil
}

// c12FamCertOp: one of the appending certificate setters; returns the model tokens (one
// addCert per certificate) and the certificate ids added.
func c12FamCertOp(s *verifh.Session, dir string) (toks []string, ids []int, apply func(c *Client)) {
	r := s.Rand()
	pki := c12GetPKI()
	switch r.Intn(5) {
	case 0:
		j := r.Intn(10)
		c12Count(s, "op:SetCertFromFile")
		return []string{fmt.Sprintf("cert%d", j)}, []int{j}, func(c *Client) {
			c.SetCertFromFile(filepath.Join(dir, fmt.Sprintf("client-%d.crt", j)), filepath.Join(dir, fmt.Sprintf("client-%d.key", j)))
		}
	case 1:
		a, b := r.Intn(10), r.Intn(10)
		c12Count(s, "op:SetCerts(2)")
		return []string{fmt.Sprintf("cert%d", a), fmt.Sprintf("cert%d", b)}, []int{a, b}, func(c *Client) {
			c.SetCerts(pki.clients[a], pki.clients[b])
		}
	default:
		j := r.Intn(10)
		c12Count(s, "op:SetCerts(1)")
		return []string{fmt.Sprintf("cert%d", j)}, []int{j}, func(c *Client) { c.SetCerts(pki.clients[j]) }
	}
}

func c12FamRootOp(s *verifh.Session, dir string) (tok string, apply func(c *Client)) {
	r := s.Rand()
	pki := c12GetPKI()
	k := r.Intn(4)
	if r.Intn(2) == 0 {
		c12Count(s, "op:SetRootCertFromString")
		return fmt.Sprintf("root%d", k), func(c *Client) { c.SetRootCertFromString(pki.cas[k].pem) }
	}
	c12Count(s, "op:SetRootCertsFromFile")
	f := filepath.Join(dir, fmt.Sprintf("ca-%d.pem", k))
	os.WriteFile(f, []byte(pki.cas[k].pem), 0o600)
	return fmt.Sprintf("root%d", k), func(c *Client) { c.SetRootCertsFromFile(f) }
}

func TestVerif_C12_fam(t *testing.T) {
	s := verifh.New(t, "C12", "c12fam",
		"families of clients: C(), then 0..9 in-place setters (mode cert-heavy: SetCerts with 1 or 2 certificates / SetCertFromFile, 10 certificates each issued by its own CA; mode root-heavy: SetRootCertFromString / SetRootCertsFromFile; mode general: every TLS setter of lane c12cfg), then 3..12 events drawn from {setter on the current member, Clone() of the current member (up to 4 members), switch to another member}, after a Clone() often 'one more setter on each side' in either order; then EVERY member is measured on a random stack (h1 addTLS / h2 newTLSConfig / h3 RoundTripper.dial, real crypto/tls handshake) against a server certificate of CA k that names the CA of one recently added client certificate as acceptable (or none): observable = (SNI, offered ALPN, accepted, client certificate presented); non-trivial = families with at least one Clone and a setter after it")
	r := s.Rand()
	dir := t.TempDir()
	if err := c12WriteClientCertFiles(dir); err != nil {
		t.Fatalf("infrastructure: %v", err)
	}
	n := verifh.N(700, 20000)
	for i := 0; i < n; i++ {
		members := []*Client{C()}
		cur := 0
		var toks []string
		var recent []int // ids of the client certificates added last (anywhere in the family)
		own := map[int][]int{} // per member: ids of the certificates the lane added to it (or to the member it was cloned from)
		mode := []string{"cert", "cert", "root", "general"}[r.Intn(4)]
		c12Count(s, "mode:"+mode)
		k := r.Intn(4) // CA of the server certificate
		forks, afterFork := 0, 0
		setter := func() {
			c := members[cur]
			switch {
			case mode == "cert" && r.Intn(5) != 0, mode == "general" && r.Intn(4) == 0:
				tk, ids, ap := c12FamCertOp(s, dir)
				ap(c)
				toks = append(toks, tk...)
				recent = append(recent, ids...)
				own[cur] = append(own[cur], ids...)
			case mode == "root" && r.Intn(5) != 0:
				tk, ap := c12FamRootOp(s, dir)
				ap(c)
				toks = append(toks, tk)
			default:
				for {
					op := c12GenOp(s, dir)
					if op.tok == "clone" || op.tok == "" {
						continue
					}
					op.apply(c)
					toks = append(toks, op.tok)
					break
				}
			}
			if forks > 0 {
				afterFork++
			}
		}
		fork := func() {
			members = append(members, members[cur].Clone())
			own[len(members)-1] = append([]int(nil), own[cur]...)
			toks = append(toks, "fork")
			forks++
			c12Count(s, "fork")
		}
		sw := func(k int) {
			cur = k
			toks = append(toks, fmt.Sprintf("sw%d", k))
		}
		// make handshakes succeed often enough for the certificate to be observable
		if mode == "cert" || r.Intn(2) == 0 {
			if r.Intn(3) == 0 {
				members[0].SetRootCertFromString(c12GetPKI().cas[k].pem)
				toks = append(toks, fmt.Sprintf("root%d", k))
			} else {
				members[0].EnableInsecureSkipVerify()
				toks = append(toks, "ins1")
			}
		}
		for j := r.Intn(10); j > 0; j-- {
			setter()
		}
		for ev := 3 + r.Intn(10); ev > 0; ev-- {
			switch x := r.Intn(10); {
			case x < 2 && len(members) < 4:
				fork()
				if r.Intn(2) == 0 {
					// one more setter on each side of the Clone, in either order
					parent, child := cur, len(members)-1
					if r.Intn(2) == 0 {
						setter()
						sw(child)
						setter()
					} else {
						sw(child)
						setter()
						sw(parent)
						setter()
					}
					c12Count(s, "both-sides-after-clone")
				}
			case x < 4 && len(members) > 1:
				sw(r.Intn(len(members)))
			default:
				setter()
			}
		}
		opsTok := "-"
		if len(toks) > 0 {
			opsTok = strings.Join(toks, ",")
		}
		c12Count(s, fmt.Sprintf("members:%d", len(members)))
		for m, c := range members {
			stack := []string{"h1", "h2", "h3"}[r.Intn(3)]
			onlyH1 := stack == "h1" && r.Intn(3) == 0
			var acc []int
			accTok := "-"
			if len(recent) > 0 && r.Intn(4) != 0 {
				// the CA of one of the certificates added last — to this member (most often) or to
				// any member of the family
				from := recent
				if len(own[m]) > 0 && r.Intn(3) != 0 {
					from = own[m]
				}
				back := r.Intn(3)
				if back >= len(from) {
					back = len(from) - 1
				}
				acc = []int{from[len(from)-1-back]}
				if r.Intn(5) == 0 {
					acc = append(acc, r.Intn(10))
				}
				accTok = c12Digits(acc)
			}
			p, panicTxt := c12MeasureAcc(c, stack, onlyH1, k, acc)
			o := 0
			if onlyH1 {
				o = 1
			}
			line := fmt.Sprintf("c12fam %s %d 1 %d 12 %s %d %s", stack, o, k, accTok, m, opsTok)
			human := fmt.Sprintf("family C()%s ; member %d: new %s connection to %s (server cert by ca-%d, acceptable client CAs %s, onlyH1=%v)",
				c12HumanOps(toks), m, stack, c12UnitHost, k, accTok, onlyH1)
			if panicTxt != "" {
				s.Crash(line, human, panicTxt, "")
				continue
			}
			c12Count(s, "stack:"+stack)
			if p.accepted {
				c12Count(s, "accepted")
				if p.cliCert != "" {
					c12Count(s, "client-cert-presented")
					if len(acc) > 0 {
						c12Count(s, "client-cert-selected-by-ca")
					}
				} else if len(acc) > 0 {
					c12Count(s, "no-acceptable-client-cert")
				}
			} else {
				c12Count(s, "rejected")
			}
			s.Case(line, p.canon(), true, "", forks > 0 && afterFork > 0, human)
		}
	}
	for _, must := range []string{"fork", "both-sides-after-clone", "members:1", "members:2", "members:3", "stack:h1", "stack:h2", "stack:h3", "accepted", "rejected",
		"client-cert-presented", "client-cert-selected-by-ca", "no-acceptable-client-cert", "op:SetCerts(1)", "op:SetCerts(2)", "op:SetCertFromFile", "op:SetRootCertFromString", "mode:general"} {
		if c12Hist[s][must] == 0 {
			t.Errorf("generator never reached bucket %q", must)
		}
	}
	s.Finish()
}
