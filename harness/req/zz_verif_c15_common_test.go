//go:build verif

package req

import (
	"bytes"
	"errors"
	"fmt"
	"io"
	"math/rand"
	"mime"
	"strings"

	"github.com/imroc/req/v3/internal/verifh"
	htmlcharset "golang.org/x/net/html/charset"
	"golang.org/x/text/encoding"
	"golang.org/x/text/encoding/ianaindex"
)

// ---------------------------------------------------------------------------------------
// scripted source: the Go twin of the Lean `Src` (Req/Client/Decode.lean)

var errC15Src = errors.New("c15: scripted read error")

type c15Src struct {
	segs [][]byte
	term error // io.EOF or errC15Src
	lwt  bool  // last data comes back together with term
	i    int
}

func newC15Src(segs []string, term error, lwt bool) *c15Src {
	s := &c15Src{term: term, lwt: lwt}
	for _, g := range segs {
		s.segs = append(s.segs, []byte(g))
	}
	return s
}

func (s *c15Src) Read(p []byte) (int, error) {
	if s.i >= len(s.segs) {
		return 0, s.term
	}
	if len(p) == 0 {
		return 0, nil
	}
	seg := s.segs[s.i]
	n := copy(p, seg)
	if n == len(seg) {
		s.i++
		if s.i == len(s.segs) && s.lwt {
			return n, s.term
		}
		return n, nil
	}
	s.segs[s.i] = seg[n:]
	return n, nil
}

func (s *c15Src) Close() error { return nil }

// c15FirstChunk simulates which bytes the first data-carrying Read hands to the sniffer
// (ok=false: no sniff happens: empty stream or data+non-EOF error), and the size of the
// caller buffer of that read.
func c15FirstChunk(segs []string, term error, lwt bool, bufs []int, tail int) (chunk string, bufLen int, ok bool) {
	s := newC15Src(segs, term, lwt)
	for k := 0; k < 100000; k++ {
		L := tail
		if k < len(bufs) {
			L = bufs[k]
		}
		p := make([]byte, L)
		n, err := s.Read(p)
		if n > 0 {
			if err != nil && err != io.EOF {
				return "", 0, false
			}
			return string(p[:n]), L, true
		}
		if err != nil {
			return "", 0, false
		}
		if k >= len(bufs) && L == 0 {
			return "", 0, false
		}
	}
	return "", 0, false
}

// c15Fill pre-fills a caller buffer with the dirty pattern (repeated).
func c15Fill(p []byte, pat []byte) {
	if len(pat) == 0 {
		return
	}
	for i := range p {
		p[i] = pat[i%len(pat)]
	}
}

// c15Drain is the caller: Read with the given buffer sizes (then tail-sized buffers) until
// the first error. anomaly != "" when a Read broke the io.Reader contract.
func c15Drain(r io.Reader, bufs []int, tail int, dirty []byte) (out []byte, term string, anomaly string) {
	term = "none"
	ptxt, panicked := verifh.Safely(func() {
		for k := 0; k < 2000000; k++ {
			L := tail
			if k < len(bufs) {
				L = bufs[k]
			}
			p := make([]byte, L)
			c15Fill(p, dirty)
			n, err := r.Read(p)
			if n < 0 || n > L {
				anomaly = fmt.Sprintf("Read(len %d) returned n=%d", L, n)
				return
			}
			out = append(out, p[:n]...)
			// the buffer is the caller's again: scribble on it (a reader must not retain p)
			for j := range p {
				p[j] = 0x55
			}
			if err != nil {
				if err == io.EOF {
					term = "eof"
				} else {
					term = "err"
				}
				return
			}
		}
		anomaly = "no end after 2000000 reads"
	})
	if panicked {
		term = "panic"
		_ = ptxt
	}
	return
}

// ---------------------------------------------------------------------------------------
// charsets and reference transcoding (golang.org/x/text, x/net/html/charset)

type c15cs struct {
	label string // label used in declarations
	alpha string // runes the charset can encode
	kind  string // "mb" multi-byte, "sb" single byte, "u16le", "u16be", "utf8", "utf8bom"
}

var c15Charsets = []c15cs{
	{"gbk", "你好世界中文编码测试汉字，。", "mb"},
	{"gb2312", "你好世界中文编码测试", "mb"},
	{"gb18030", "你好𠀀ᠠ€世界汉字😀", "mb"},
	{"big5", "你好世界編碼測試漢字", "mb"},
	{"shift_jis", "こんにちは世界テスト日本語ｱｲｳ", "mb"},
	{"euc-kr", "안녕하세요한국어세계", "mb"},
	{"euc-jp", "こんにちは日本語世界", "mb"},
	{"iso-2022-jp", "こんにちは日本語", "mb"},
	{"windows-1250", "ěščřžýáíéŁ€", "sb"},
	{"windows-1251", "ПриветмирЖё", "sb"},
	{"windows-1252", "café€œŸñü™", "sb"},
	{"iso-8859-1", "caféñü£©", "sb"},
	{"latin1", "caféñü£©", "sb"},
	{"windows-1256", "مرحبابالعالم", "sb"},
	{"windows-1253", "Γειασουκόσμε", "sb"},
	{"iso-8859-2", "ěščřžŁ", "sb"},
	{"iso-8859-5", "ПриветЖ", "sb"},
	{"iso-8859-7", "Γειασου", "sb"},
	{"iso-8859-15", "café€œŠ", "sb"},
	{"koi8-r", "ПриветмирЖ", "sb"},
	{"utf-16le", "héllo你好😀𝄞wörld", "u16le"},
	{"utf-16be", "héllo你好😀𝄞wörld", "u16be"},
	{"utf-8", "héllo你好😀wörld", "utf8"},
	{"utf-8", "héllo你好😀wörld", "utf8bom"},
}

// c15Lookup is the reference reading of a charset label: WHATWG label table first, IANA MIME
// names second (nil = unknown).
func c15Lookup(label string) encoding.Encoding {
	label = strings.ToLower(label)
	if e, _ := htmlcharset.Lookup(label); e != nil {
		return e
	}
	e, err := ianaindex.MIME.Encoding(label)
	if err != nil {
		return nil
	}
	return e
}

// c15Transcode: the reference whole-input transcoding to UTF-8.
func c15Transcode(e encoding.Encoding, body string) string {
	b, err := e.NewDecoder().Bytes([]byte(body))
	if err != nil {
		return "!transcode-error!" + err.Error()
	}
	return string(b)
}

// c15Encode encodes text into the charset (unsupported runes replaced).
func c15Encode(e encoding.Encoding, text string) string {
	b, err := encoding.ReplaceUnsupported(e.NewEncoder()).Bytes([]byte(text))
	if err != nil {
		return "?"
	}
	return string(b)
}

// c15DecID maps an encoding to the id of the Lean decoder that models it ("tbl" = no Lean
// decoder: the harness sends x/text's transcoding as an oracle string).
func c15DecID(e encoding.Encoding) string {
	if e == nil {
		return "none"
	}
	switch c15EncName(e) {
	case "Windows 1252":
		return "w1252"
	case "ISO 8859-1":
		return "latin1"
	case "UTF-16LE (Ignore BOM)":
		return "u16le"
	case "UTF-16BE (Ignore BOM)":
		return "u16be"
	}
	return "tbl"
}

// c15EncName: x/text's own name of an encoding (htmlcharset.Lookup wraps the encoding in a
// pointer to a one-field struct, printed as &{name}).
func c15EncName(e encoding.Encoding) string {
	if e == nil {
		return ""
	}
	return strings.Trim(fmt.Sprint(e), "&{}")
}

// c15Tbl renders decode-table entries in=out;… for the driver.
type c15Tbl struct {
	keys []string
	m    map[string]string
}

func (t *c15Tbl) add(in, out string) {
	if t.m == nil {
		t.m = map[string]string{}
	}
	if _, ok := t.m[in]; ok {
		return
	}
	t.m[in] = out
	t.keys = append(t.keys, in)
}

func (t *c15Tbl) String() string {
	if len(t.keys) == 0 {
		return "-"
	}
	parts := make([]string, len(t.keys))
	for i, k := range t.keys {
		parts[i] = verifh.Hex(k) + "=" + verifh.Hex(t.m[k])
	}
	return strings.Join(parts, ";")
}

// addFor adds in -> transcode(in) when the encoding has no Lean decoder.
func (t *c15Tbl) addFor(e encoding.Encoding, in string) {
	if c15DecID(e) == "tbl" {
		t.add(in, c15Transcode(e, in))
	}
}

// prescan table entries content=decid/name;…
type c15Pre struct {
	keys []string
	m    map[string]string
}

func (t *c15Pre) add(content string, e encoding.Encoding, name string) {
	if t.m == nil {
		t.m = map[string]string{}
	}
	if _, ok := t.m[content]; ok {
		return
	}
	t.m[content] = c15DecID(e) + "/" + verifh.Hex(name)
	t.keys = append(t.keys, content)
}

func (t *c15Pre) String() string {
	if len(t.keys) == 0 {
		return "-"
	}
	parts := make([]string, len(t.keys))
	for i, k := range t.keys {
		parts[i] = verifh.Hex(k) + "=" + t.m[k]
	}
	return strings.Join(parts, ";")
}

// ---------------------------------------------------------------------------------------
// body generator

// a declaration the generator put into a body
type c15Decl struct {
	start int    // offset of the '<' of the tag
	end   int    // offset just after the closing '>' of the tag
	label string // declared label
	real  bool   // false: decoy that must NOT be noticed (comment, missing pragma, …)
}

type c15Body struct {
	cs    c15cs
	enc   encoding.Encoding // encoding the text bytes are really in (nil: utf-8)
	body  string
	decls []c15Decl
	bom   string // "", "utf-16le", "utf-16be", "utf-8"
	mbAt  []int  // offsets strictly inside multi-byte characters (for mid-character cuts)
}

func c15MetaTag(r *rand.Rand, site string, label string) string {
	switch site {
	case "metacharset":
		return verifh.Pick(r, []string{
			`<meta charset="` + label + `">`,
			`<meta charset='` + label + `'>`,
			`<meta charset=` + label + `>`,
			`<META CHARSET="` + strings.ToUpper(label) + `">`,
			`<meta charset="` + label + `" />`,
			`<meta  name="x"  charset = "` + label + `">`,
		})
	default: // http-equiv
		return verifh.Pick(r, []string{
			`<meta http-equiv="Content-Type" content="text/html; charset=` + label + `">`,
			`<meta content="text/html; charset=` + label + `" http-equiv="Content-Type">`,
			`<META HTTP-EQUIV="content-type" CONTENT="text/html;charset=` + strings.ToUpper(label) + `">`,
			`<meta http-equiv='Content-Type' content='text/html; charset="` + label + `"'/>`,
			`<meta http-equiv=content-type content="application/xhtml+xml; charset = ` + label + ` ">`,
		})
	}
}

func c15Decoy(r *rand.Rand, label string) string {
	return verifh.Pick(r, []string{
		`<!-- <meta charset="` + label + `"> -->`,
		`<meta content="text/html; charset=` + label + `">`,
		`<meta name="charset" content="` + label + `">`,
		`<meta http-equiv="refresh" content="text/html; charset=` + label + `">`,
	})
}

// c15Text returns about n encoded bytes of text in the charset's alphabet mixed with ASCII.
func c15Text(r *rand.Rand, cs c15cs, n int) string {
	alpha := []rune(cs.alpha)
	var sb strings.Builder
	for sb.Len() < n*2+8 {
		switch r.Intn(4) {
		case 0:
			sb.WriteString(verifh.Pick(r, []string{"hello ", "a", " ", "x=1;", "\n", "word "}))
		default:
			k := 1 + r.Intn(6)
			for i := 0; i < k; i++ {
				sb.WriteRune(alpha[r.Intn(len(alpha))])
			}
		}
	}
	return sb.String()
}

// c15MakeBody builds a body of exactly n bytes (n small bodies may lose the closing markup).
// site: header | metacharset | metahttpequiv | bom | none | conflict-meta | decoy
func c15MakeBody(r *rand.Rand, cs c15cs, site string, n int, declAt int) c15Body {
	b := c15Body{cs: cs}
	var enc encoding.Encoding
	switch cs.kind {
	case "utf8", "utf8bom":
		enc = nil
	default:
		enc = c15Lookup(cs.label)
	}
	b.enc = enc
	encode := func(s string) string {
		if enc == nil {
			return s
		}
		return c15Encode(enc, s)
	}
	var out bytes.Buffer
	switch cs.kind {
	case "u16le":
		out.WriteString("\xff\xfe")
		b.bom = "utf-16le"
	case "u16be":
		out.WriteString("\xfe\xff")
		b.bom = "utf-16be"
	case "utf8bom":
		out.WriteString("\xef\xbb\xbf")
		b.bom = "utf-8"
	}
	u16 := cs.kind == "u16le" || cs.kind == "u16be"
	out.WriteString(encode("<html><head>"))
	if declAt > out.Len() && !u16 {
		// ASCII-only padding in front of the declaration
		pad := declAt - out.Len()
		out.WriteString("<!--")
		for i := 0; i < pad-7 && pad > 7; i++ {
			out.WriteByte(" abcdefghij\n"[r.Intn(12)])
		}
		out.WriteString("-->")
	}
	other := verifh.Pick(r, []string{"big5", "gbk", "shift_jis", "windows-1251", "euc-kr"})
	if other == cs.label {
		other = "koi8-r"
	}
	add := func(tag string, label string, real bool) {
		start := out.Len()
		out.WriteString(encode(tag))
		if !u16 {
			b.decls = append(b.decls, c15Decl{start: start, end: out.Len(), label: label, real: real})
		}
	}
	switch site {
	case "metacharset":
		add(c15MetaTag(r, "metacharset", cs.label), cs.label, true)
	case "metahttpequiv":
		add(c15MetaTag(r, "metahttpequiv", cs.label), cs.label, true)
	case "conflict-meta":
		// two declarations: the first complete one wins
		add(c15MetaTag(r, verifh.Pick(r, []string{"metacharset", "metahttpequiv"}), cs.label), cs.label, true)
		out.WriteString(encode(" \n"))
		add(c15MetaTag(r, verifh.Pick(r, []string{"metacharset", "metahttpequiv"}), other), other, true)
	case "decoy":
		add(c15Decoy(r, other), other, false)
		if r.Intn(2) == 0 {
			add(c15MetaTag(r, "metacharset", cs.label), cs.label, true)
		}
	}
	out.WriteString(encode("<title>t</title></head><body>"))
	// text: encode rune by rune so the offsets inside multi-byte characters are known
	if out.Len() < n {
		txt := c15Text(r, cs, n-out.Len())
		for _, ru := range txt {
			e := encode(string(ru))
			start := out.Len()
			out.WriteString(e)
			if len(e) > 1 {
				for k := 1; k < len(e); k++ {
					b.mbAt = append(b.mbAt, start+k)
				}
			}
			if out.Len() >= n+8 {
				break
			}
		}
	}
	body := out.String()
	if len(body) > n {
		body = body[:n]
	}
	b.body = body
	var keep []int
	for _, o := range b.mbAt {
		if o < len(body) {
			keep = append(keep, o)
		}
	}
	b.mbAt = keep
	return b
}

// c15ExpectedPrescan: what an HTML prescan of the first m bytes must report, from the
// generator's own knowledge: the first REAL declaration whose tag is complete within m bytes.
// Returns (encoding or nil, canonical name).
func c15ExpectedPrescan(b c15Body, m int) (encoding.Encoding, string) {
	for _, d := range b.decls {
		if !d.real {
			continue
		}
		if d.end > m {
			return nil, ""
		}
		e, name := htmlcharset.Lookup(d.label)
		if e == nil {
			continue
		}
		if strings.HasPrefix(name, "utf-16") {
			return nil, "utf-8"
		}
		if name == "utf-8" {
			return nil, "utf-8"
		}
		return e, name
	}
	return nil, ""
}

// c15ExpectedBOM: the encoding a byte-order mark at the start of content selects
// (independent copy of the BOM table; "utf-8" means: stop, do not decode).
func c15ExpectedBOM(content string) (name string, e encoding.Encoding) {
	switch {
	case strings.HasPrefix(content, "\xfe\xff"):
		e, _ = htmlcharset.Lookup("utf-16be")
		return "utf-16be", e
	case strings.HasPrefix(content, "\xff\xfe"):
		e, _ = htmlcharset.Lookup("utf-16le")
		return "utf-16le", e
	case strings.HasPrefix(content, "\xef\xbb\xbf"):
		return "utf-8", nil
	}
	return "", nil
}

// c15Segment cuts body into network segments.
func c15Segment(r *rand.Rand, b c15Body, mode int) []string {
	body := b.body
	n := len(body)
	cutSet := map[int]bool{}
	addCut := func(c int) {
		if c > 0 && c < n {
			cutSet[c] = true
		}
	}
	switch mode {
	case 0: // whole
	case 1: // fixed small size
		k := verifh.Pick(r, []int{1, 2, 3, 7})
		for c := k; c < n; c += k {
			addCut(c)
		}
	case 2: // fixed large size
		k := verifh.Pick(r, []int{64, 511, 512, 513, 1024, 4096})
		for c := k; c < n; c += k {
			addCut(c)
		}
	case 3: // inside multi-byte characters
		for i := 0; i < 1+r.Intn(4) && len(b.mbAt) > 0; i++ {
			addCut(verifh.Pick(r, b.mbAt))
		}
	case 4: // around the declarations
		for _, d := range b.decls {
			addCut(d.end + verifh.Pick(r, []int{-3, -1, 0, 1, 2}))
		}
	case 5: // first multi-byte character split + random
		if len(b.mbAt) > 0 {
			addCut(b.mbAt[0])
		}
		for i := 0; i < r.Intn(4); i++ {
			addCut(1 + r.Intn(n+1))
		}
	default: // random
		for i := 0; i < 1+r.Intn(6); i++ {
			addCut(1 + r.Intn(n+1))
		}
	}
	var cuts []int
	for c := range cutSet {
		cuts = append(cuts, c)
	}
	sortInts(cuts)
	var segs []string
	prev := 0
	for _, c := range cuts {
		segs = append(segs, body[prev:c])
		prev = c
	}
	if n > 0 || r.Intn(2) == 0 {
		segs = append(segs, body[prev:])
	}
	// sprinkle empty segments (a Read returning 0, nil)
	if r.Intn(6) == 0 && len(segs) < 50 {
		at := r.Intn(len(segs) + 1)
		segs = append(segs[:at], append([]string{""}, segs[at:]...)...)
	}
	return segs
}

func sortInts(a []int) {
	for i := 1; i < len(a); i++ {
		for j := i; j > 0 && a[j] < a[j-1]; j-- {
			a[j], a[j-1] = a[j-1], a[j]
		}
	}
}

// c15MediaParse renders what mime.ParseMediaType says about the Content-Type.
func c15MediaParse(ct string) (mp string, charset string, has bool, parseErr bool) {
	_, params, err := mime.ParseMediaType(ct)
	if err != nil {
		return "err", "", false, true
	}
	cs, ok := params["charset"]
	if !ok {
		return "nocs", "", false, false
	}
	return "cs:" + verifh.Hex(cs), cs, true, false
}

// c15Counter: histogram buckets with a "must be reached" check (a lane must not pass vacuously).
type c15Counter struct {
	s *verifh.Session
	n map[string]int
}

func c15NewCounter(s *verifh.Session) *c15Counter { return &c15Counter{s, map[string]int{}} }

func (c *c15Counter) count(k string) { c.s.Count(k); c.n[k]++ }

func (c *c15Counter) must(t interface{ Errorf(string, ...any) }, buckets ...string) {
	for _, b := range buckets {
		if c.n[b] == 0 {
			t.Errorf("generator never reached bucket %q", b)
		}
	}
}

func c15IsPrefixOfAny(out string, set []string) bool {
	for _, m := range set {
		if strings.HasPrefix(m, out) {
			return true
		}
	}
	return false
}

func c15In(out string, set []string) bool {
	for _, m := range set {
		if m == out {
			return true
		}
	}
	return false
}

func c15Short(s string) string {
	if len(s) > 48 {
		return fmt.Sprintf("%q…(%d bytes)", s[:48], len(s))
	}
	return fmt.Sprintf("%q", s)
}
