//go:build verif

package req

import (
	"bufio"
	"bytes"
	"context"
	"crypto/tls"
	"fmt"
	"io"
	"math/rand"
	"net"
	"net/http"
	"net/http/httptest"
	"net/url"
	"sort"
	"strconv"
	"strings"
	"sync"
	"testing"
	"time"

	"github.com/imroc/req/v3/internal/verifh"
	"github.com/quic-go/qpack"
	"github.com/quic-go/quic-go"
	"github.com/quic-go/quic-go/quicvarint"
	"golang.org/x/net/http2"
	"golang.org/x/net/http2/hpack"
	"golang.org/x/text/encoding"
)

// ---------------------------------------------------------------------------------------
// lane hdrs: the charset decision starts at the header FIELDS. Responses with many and
// multi-valued headers around Content-Type, fields in generated WIRE ORDER (Go's own servers
// sort the keys, so repeated fields never straddle another field there): a unit path into the
// HTTP/1.1 header reader and frame-level peers for HTTP/1.1 (raw TCP), HTTP/2 (x/net/http2
// Framer + hpack, h2c) and HTTP/3 (raw quic-go streams + qpack).

type c15HF struct{ name, value string }

type c15HdrCase struct {
	id     string
	fields []c15HF // regular fields in wire order (no Content-Length: the peer adds it last)
	body   string
	human  string
}

var c15HdrSingles = []string{"server", "etag", "x-frame-options", "date", "x-request-id", "age", "x-a", "x-b", "expires", "last-modified",
	"x-powered-by", "strict-transport-security", "x-content-type-options", "referrer-policy", "p3p", "x-cache", "alt-svc", "content-language", "x-z"}
var c15HdrMultis = []string{"set-cookie", "vary", "link", "via", "warning", "cache-control", "x-multi", "www-authenticate", "accept-ranges"}
var c15HdrCTs = []string{"text/plain; charset=gbk", "text/html; charset=windows-1252", "application/json; charset=utf-16le", "text/html; charset=utf-8",
	"image/png; charset=gbk", "text/csv; charset=big5", "text/html", "application/octet-stream", "text/html; charset=x-unknown", "text/xml;charset=SHIFT_JIS",
	"application/json", "text/plain; charset=\"koi8-r\"", "text/html; charset=iso-8859-1", "text/html; charset=euc-kr", "text/plain; charset=utf-16be", "text/html; charset=utf-7", "text/plain; charset=UTF-32"}

func c15HdrMixCase(r *rand.Rand, name string) string {
	switch r.Intn(4) {
	case 0:
		return strings.ToUpper(name)
	case 1:
		return http.CanonicalHeaderKey(name)
	case 2:
		b := []byte(name)
		for i := range b {
			if r.Intn(2) == 0 && 'a' <= b[i] && b[i] <= 'z' {
				b[i] -= 32
			}
		}
		return string(b)
	}
	return name
}

func c15HdrValue(r *rand.Rand) string {
	return verifh.Pick(r, []string{"a=1", "b=2; Path=/", "Accept-Encoding", "cookie", "1.1 proxy", "no-cache", "max-age=0", "<https://x/>; rel=next", "text/html; charset=big5",
		"W/\"abc\"", "x", "", "charset=gbk", "199 - \"misc\"", "Mon, 02 Jan 2006 15:04:05 GMT", "0", "origin, accept"}) + verifh.Pick(r, []string{"", "", "", strconv.Itoa(r.Intn(1000))})
}

// c15GenHdrCase: 0..2 Content-Type fields among single- and multi-valued headers in a random
// interleaving; lowerOnly for HTTP/2 and HTTP/3 (field names must be lower-case there).
func c15GenHdrCase(r *rand.Rand, id string, lowerOnly bool) *c15HdrCase {
	var fs []c15HF
	nSingle := verifh.Pick(r, []int{0, 1, 2, 3, 5, 8, 12, 19})
	for _, k := range r.Perm(len(c15HdrSingles))[:nSingle] {
		fs = append(fs, c15HF{c15HdrSingles[k], c15HdrValue(r)})
	}
	nMulti := verifh.Pick(r, []int{0, 1, 1, 2, 2, 3, 5, 9})
	for _, k := range r.Perm(len(c15HdrMultis))[:nMulti] {
		for j := 0; j < 2+r.Intn(3); j++ {
			fs = append(fs, c15HF{c15HdrMultis[k], c15HdrValue(r)})
		}
	}
	if r.Intn(12) == 0 { // a really long block: 60..150 more fields over 40 more names
		for j := 0; j < 60+r.Intn(90); j++ {
			fs = append(fs, c15HF{fmt.Sprintf("x-n%d", r.Intn(40)), c15HdrValue(r)})
		}
	}
	nCT := verifh.Pick(r, []int{0, 1, 1, 1, 1, 1, 1, 1, 1, 1, 1, 1, 1, 1, 1, 2, 2, 2, 2, 3})
	for j := 0; j < nCT; j++ {
		fs = append(fs, c15HF{"content-type", verifh.Pick(r, c15HdrCTs)})
	}
	if r.Intn(25) == 0 {
		fs = append(fs, c15HF{"accept-encoding", verifh.Pick(r, []string{"gzip", "identity"})})
	}
	r.Shuffle(len(fs), func(i, j int) { fs[i], fs[j] = fs[j], fs[i] })
	if !lowerOnly {
		for i := range fs {
			fs[i].name = c15HdrMixCase(r, fs[i].name)
		}
	}
	// body: text without markup and without a byte-order mark, in the charset the first
	// Content-Type names (when it names one) or in a random legacy charset
	cs := verifh.Pick(r, c15Charsets[:20])
	for _, f := range fs {
		if strings.EqualFold(f.name, "content-type") {
			if _, label, has, _ := c15MediaParse(f.value); has {
				for _, c := range c15Charsets[:22] {
					if strings.EqualFold(c.label, label) && r.Intn(4) != 0 {
						cs = c
					}
				}
			}
			break
		}
	}
	enc := c15Lookup(cs.label)
	body := strings.ReplaceAll(c15Encode(enc, c15Text(r, cs, verifh.Pick(r, []int{0, 1, 7, 40, 120}))), "<", "(")
	if n := verifh.Pick(r, []int{0, 1, 2, 9, 40, 150, 300}); len(body) > n {
		body = body[:n]
	}
	for strings.HasPrefix(body, "\xff\xfe") || strings.HasPrefix(body, "\xfe\xff") || strings.HasPrefix(body, "\xef\xbb\xbf") {
		body = body[1:]
	}
	return &c15HdrCase{id: id, fields: fs, body: body}
}

func c15FieldsArg(fs []c15HF) string {
	if len(fs) == 0 {
		return "-"
	}
	parts := make([]string, len(fs))
	for i, f := range fs {
		parts[i] = verifh.Hex(f.name) + "=" + verifh.Hex(f.value)
	}
	return strings.Join(parts, ";")
}

// c15HdrRender: the header map as the lane compares it (Content-Length is the peer's own
// framing and handled differently by the three stacks: left out).
func c15HdrRender(h http.Header) string {
	var keys []string
	for k := range h {
		if k != "Content-Length" {
			keys = append(keys, k)
		}
	}
	if len(keys) == 0 {
		return "-"
	}
	sort.Strings(keys)
	parts := make([]string, len(keys))
	for i, k := range keys {
		vs := make([]string, len(h[k]))
		for j, v := range h[k] {
			vs[j] = verifh.Hex(v)
		}
		parts[i] = verifh.Hex(k) + "=" + strings.Join(vs, ",")
	}
	return strings.Join(parts, ";")
}

// c15HdrJudge: model line + independent oracle for one delivered response.
func c15HdrJudge(c *c15HdrCase, mech string, st *c15Settings, gotHdr http.Header, gotBody string, term, kind string, view string) (line, impl string, ok bool, why string, nontriv bool) {
	// what the harness knows about each Content-Type candidate
	var tbl c15Tbl
	cands := []string{""}
	for _, f := range c.fields {
		if strings.EqualFold(f.name, "content-type") {
			cands = append(cands, f.value)
		}
	}
	seen := map[string]bool{}
	var cts []string
	for _, ct := range cands {
		if seen[ct] {
			continue
		}
		seen[ct] = true
		mp, cs, has, _ := c15MediaParse(ct)
		var e encoding.Encoding
		if has {
			e = c15Lookup(cs)
		}
		if e != nil {
			tbl.addFor(e, c.body)
		}
		cts = append(cts, verifh.Hex(ct)+"="+mp+"/"+c15DecID(e))
	}
	// content type as the filter sees it (custom function verdicts are per content type): the first field
	first, hasCT := "", false
	ae := ""
	for _, f := range c.fields {
		if !hasCT && strings.EqualFold(f.name, "content-type") {
			first, hasCT = f.value, true
		}
		if ae == "" && strings.EqualFold(f.name, "accept-encoding") {
			ae = f.value
		}
	}
	if st.kind == "custom" {
		st.verdict = c15CustomFuncs[st.custom](first)
	}
	disable, filter := st.filterArg(first)
	line = strings.Join([]string{"c15hdrs", mech, c15FieldsArg(c.fields), disable, filter, strings.Join(cts, ";"), tbl.String(), verifh.Hex(c.body), view}, " ")
	impl = c15HdrRender(gotHdr) + " " + verifh.Hex(gotBody)
	if view == "full" {
		impl += " " + term + " " + kind
	}
	// ---- oracle: every header comes back with exactly its values in wire order …
	ok = true
	want := map[string][]string{}
	for _, f := range c.fields {
		k := http.CanonicalHeaderKey(f.name)
		want[k] = append(want[k], f.value)
	}
	for k, vs := range want {
		if strings.Join(gotHdr[k], "\x00") != strings.Join(vs, "\x00") || len(gotHdr[k]) != len(vs) {
			ok, why = false, fmt.Sprintf("header %s: sent %q, the caller sees %q", k, vs, gotHdr[k])
			break
		}
	}
	// … and the body follows the FIRST Content-Type field
	_, hdrCS, hasCS, _ := c15MediaParse(first)
	var hdrEnc encoding.Encoding
	if hasCS {
		hdrEnc = c15Lookup(hdrCS)
	}
	sel := st.selected(first, ae)
	expect := c.body
	rule := "body must be untouched"
	if sel && hasCS && hdrEnc != nil && !strings.Contains(strings.ToLower(hdrCS), "utf-8") && !strings.Contains(strings.ToLower(hdrCS), "utf8") {
		expect, rule = c15Transcode(hdrEnc, c.body), "Content-Type charset "+hdrCS+" must be applied"
		nontriv = len(c.body) > 0
	}
	if ok && (term != "eof" || gotBody != expect) {
		ok, why = false, fmt.Sprintf("%s (first Content-Type field %q): got %s %s", rule, first, c15Short(gotBody), term)
	}
	return
}

// ---------------------------------------------------------------------------------------
// frame-level peers

type c15HdrPeers struct {
	mu    sync.Mutex
	cases map[string]*c15HdrCase
	h1    net.Listener
	h2    net.Listener
	h3    *quic.Listener
	conns []net.Conn
}

func (p *c15HdrPeers) lookup(path string) *c15HdrCase {
	u, err := url.ParseRequestURI(path)
	if err != nil {
		return nil
	}
	p.mu.Lock()
	defer p.mu.Unlock()
	return p.cases[u.Query().Get("id")]
}

func (p *c15HdrPeers) track(c net.Conn) {
	p.mu.Lock()
	p.conns = append(p.conns, c)
	p.mu.Unlock()
}

func c15StartHdrPeers(t *testing.T) *c15HdrPeers {
	p := &c15HdrPeers{cases: map[string]*c15HdrCase{}}
	var err error
	if p.h1, err = net.Listen("tcp", "127.0.0.1:0"); err != nil {
		t.Fatalf("infra: listen: %v", err)
	}
	if p.h2, err = net.Listen("tcp", "127.0.0.1:0"); err != nil {
		t.Fatalf("infra: listen: %v", err)
	}
	ts := httptest.NewTLSServer(http.NotFoundHandler()) // only for its self-signed certificate
	cert := ts.TLS.Certificates[0]
	ts.Close()
	p.h3, err = quic.ListenAddr("127.0.0.1:0", &tls.Config{Certificates: []tls.Certificate{cert}, NextProtos: []string{"h3"}},
		&quic.Config{MaxIncomingStreams: 1000, MaxIncomingUniStreams: 1000})
	if err != nil {
		t.Fatalf("infra: quic listen: %v", err)
	}
	accept := func(ln net.Listener, serve func(net.Conn)) {
		for {
			c, err := ln.Accept()
			if err != nil {
				return
			}
			p.track(c)
			go serve(c)
		}
	}
	go accept(p.h1, p.serveH1)
	go accept(p.h2, p.serveH2)
	go func() {
		for {
			conn, err := p.h3.Accept(context.Background())
			if err != nil {
				return
			}
			go p.serveH3(conn)
		}
	}()
	return p
}

func (p *c15HdrPeers) close() {
	p.h1.Close()
	p.h2.Close()
	p.h3.Close()
	p.mu.Lock()
	for _, c := range p.conns {
		c.Close()
	}
	p.mu.Unlock()
}

// HTTP/1.1: the fields exactly as generated (mixed-case names), then Content-Length
func (p *c15HdrPeers) serveH1(c net.Conn) {
	defer c.Close()
	br := bufio.NewReader(c)
	for {
		req, err := http.ReadRequest(br)
		if err != nil {
			return
		}
		io.Copy(io.Discard, req.Body)
		cs := p.lookup(req.RequestURI)
		if cs == nil {
			io.WriteString(c, "HTTP/1.1 404 Not Found\r\nContent-Length: 0\r\n\r\n")
			continue
		}
		var out bytes.Buffer
		out.WriteString("HTTP/1.1 200 OK\r\n")
		for _, f := range cs.fields {
			out.WriteString(f.name + ": " + f.value + "\r\n")
		}
		fmt.Fprintf(&out, "Content-Length: %d\r\n\r\n", len(cs.body))
		out.WriteString(cs.body)
		if _, err := c.Write(out.Bytes()); err != nil {
			return
		}
	}
}

// HTTP/2 (prior knowledge, clear text): one HEADERS (+CONTINUATION) block in wire order, one DATA frame
func (p *c15HdrPeers) serveH2(c net.Conn) {
	defer c.Close()
	preface := make([]byte, len(http2.ClientPreface))
	if _, err := io.ReadFull(c, preface); err != nil || string(preface) != http2.ClientPreface {
		return
	}
	fr := http2.NewFramer(c, c)
	fr.ReadMetaHeaders = hpack.NewDecoder(4096, nil)
	fr.MaxHeaderListSize = 1 << 24
	fr.SetMaxReadFrameSize(1 << 20)
	fr.WriteSettings(http2.Setting{ID: http2.SettingInitialWindowSize, Val: 1 << 28}, http2.Setting{ID: http2.SettingMaxHeaderListSize, Val: 1 << 24})
	fr.WriteWindowUpdate(0, 1<<28)
	var hbuf bytes.Buffer
	enc := hpack.NewEncoder(&hbuf)
	respond := func(id uint32, cs *c15HdrCase) {
		hbuf.Reset()
		if cs == nil {
			enc.WriteField(hpack.HeaderField{Name: ":status", Value: "404"})
		} else {
			enc.WriteField(hpack.HeaderField{Name: ":status", Value: "200"})
			for _, f := range cs.fields {
				enc.WriteField(hpack.HeaderField{Name: f.name, Value: f.value})
			}
			enc.WriteField(hpack.HeaderField{Name: "content-length", Value: strconv.Itoa(len(cs.body))})
		}
		frag := hbuf.Bytes()
		end := cs == nil || cs.body == ""
		first := true
		for first || len(frag) > 0 {
			n := min(len(frag), 16384)
			if first {
				fr.WriteHeaders(http2.HeadersFrameParam{StreamID: id, BlockFragment: frag[:n], EndStream: end, EndHeaders: n == len(frag)})
				first = false
			} else {
				fr.WriteContinuation(id, n == len(frag), frag[:n])
			}
			frag = frag[n:]
		}
		if !end {
			fr.WriteData(id, true, []byte(cs.body))
		}
	}
	for {
		f, err := fr.ReadFrame()
		if err != nil {
			return
		}
		switch f := f.(type) {
		case *http2.SettingsFrame:
			if !f.IsAck() {
				fr.WriteSettingsAck()
			}
		case *http2.PingFrame:
			if !f.IsAck() {
				fr.WritePing(true, f.Data)
			}
		case *http2.MetaHeadersFrame:
			if f.StreamEnded() {
				respond(f.StreamID, p.lookup(f.PseudoValue("path")))
			}
		case *http2.GoAwayFrame:
			return
		}
	}
}

// HTTP/3: our control stream with empty SETTINGS; per request stream one HEADERS frame
// (QPACK, static table / literals only) in wire order and one DATA frame
func (p *c15HdrPeers) serveH3(conn quic.Connection) {
	if ctrl, err := conn.OpenUniStream(); err == nil {
		ctrl.Write([]byte{0x00, 0x04, 0x00})
	}
	go func() {
		for {
			us, err := conn.AcceptUniStream(context.Background())
			if err != nil {
				return
			}
			go io.Copy(io.Discard, us)
		}
	}()
	frame := func(typ uint64, payload []byte) []byte {
		b := quicvarint.Append(nil, typ)
		b = quicvarint.Append(b, uint64(len(payload)))
		return append(b, payload...)
	}
	for {
		str, err := conn.AcceptStream(context.Background())
		if err != nil {
			return
		}
		go func(str quic.Stream) {
			br := bufio.NewReader(str)
			path := ""
			for {
				typ, err := quicvarint.Read(br)
				if err != nil {
					break // FIN: request complete
				}
				n, err := quicvarint.Read(br)
				if err != nil {
					return
				}
				payload := make([]byte, n)
				if _, err := io.ReadFull(br, payload); err != nil {
					return
				}
				if typ == 0x1 && path == "" {
					hfs, err := qpack.NewDecoder(nil).DecodeFull(payload)
					if err != nil {
						return
					}
					for _, hf := range hfs {
						if hf.Name == ":path" {
							path = hf.Value
						}
					}
				}
			}
			cs := p.lookup(path)
			var buf bytes.Buffer
			qe := qpack.NewEncoder(&buf)
			if cs == nil {
				qe.WriteField(qpack.HeaderField{Name: ":status", Value: "404"})
				str.Write(frame(0x1, buf.Bytes()))
				str.Close()
				return
			}
			qe.WriteField(qpack.HeaderField{Name: ":status", Value: "200"})
			for _, f := range cs.fields {
				qe.WriteField(qpack.HeaderField{Name: f.name, Value: f.value})
			}
			qe.WriteField(qpack.HeaderField{Name: "content-length", Value: strconv.Itoa(len(cs.body))})
			out := frame(0x1, buf.Bytes())
			if cs.body != "" {
				out = append(out, frame(0x0, []byte(cs.body))...)
			}
			str.Write(out)
			str.Close()
		}(str)
	}
}

// TestVerif_C15_hdrs: header fields in generated wire order -> header map -> charset decision.
func TestVerif_C15_hdrs(t *testing.T) {
	s := verifh.New(t, "C15", "hdrs",
		"responses whose header block is generated FIELD BY FIELD in wire order: 0..19 single-valued headers, 0..9 multi-valued headers (set-cookie, vary, link, via, warning, cache-control, … 2..4 values each), "+
			"occasionally 60..150 more fields, 0..3 Content-Type fields (17 values: charsets gbk windows-1252 utf-16le/be big5 shift_jis koi8-r euc-kr utf-8 unknown none, selected and unselected media types), "+
			"rarely a response Accept-Encoding, all in a random interleaving (so values of a repeated header straddle Content-Type and each other); mixed-case names on HTTP/1.1. Body: 0..300 bytes of legacy-charset "+
			"text without markup/BOM. Paths: (unit) the HTTP/1.1 header reader newTextprotoReader.ReadMIMEHeader + Transport.autoDecodeResponseBody; (h1) raw TCP peer; (h2) frame-level peer on x/net/http2 Framer+hpack "+
			"(h2c); (h3) frame-level peer on raw quic-go streams + qpack — real Client, one long-lived client per protocol, settings (default / list / all / disable / custom) changed between requests. Model: "+
			"Req.RespHeader (Header.Add for HTTP/3, the pre-allocated value slots for HTTP/1.1 and HTTP/2) -> Get(Content-Type) -> select -> decode. Oracle: every header keeps exactly its values in wire order; "+
			"the body follows the first Content-Type field. non-trivial = a header charset is applied")
	r := s.Rand()
	cnt := c15NewCounter(s)
	next := 0
	pickSt := func() c15Settings {
		st := c15PickSettings(r)
		if st.kind == "direct" || st.kind == "prog" {
			st.kind = "default"
		}
		return st
	}
	features := func(c *c15HdrCase) {
		nCT, firstCT := 0, -1
		count := map[string]int{}
		for i, f := range c.fields {
			k := strings.ToLower(f.name)
			count[k]++
			if k == "content-type" {
				nCT++
				if firstCT < 0 {
					firstCT = i
				}
			}
		}
		cnt.count(fmt.Sprintf("content-type-fields:%d", min(nCT, 2)))
		if len(c.fields) > 50 {
			cnt.count("fields:>50")
		}
		// is Content-Type the next NEW name after the first field of a header that repeats later?
		if firstCT > 0 {
			seenBefore := map[string]bool{}
			prevNew := ""
			for i := 0; i < firstCT; i++ {
				k := strings.ToLower(c.fields[i].name)
				if !seenBefore[k] {
					seenBefore[k] = true
					prevNew = k
				}
			}
			for i := firstCT + 1; i < len(c.fields); i++ {
				if strings.ToLower(c.fields[i].name) == prevNew {
					cnt.count("content-type-inside-a-repeated-header")
					break
				}
			}
		}
	}
	// ---- unit path: the HTTP/1.1 header reader
	for i := 0; i < verifh.N(1200, 20000); i++ {
		next++
		c := c15GenHdrCase(r, strconv.Itoa(next), false)
		st := pickSt()
		var block bytes.Buffer
		for _, f := range c.fields {
			block.WriteString(f.name + ":" + verifh.Pick(r, []string{" ", "", "  ", "\t"}) + f.value + verifh.Pick(r, []string{"\r\n", "\r\n", "\n"}))
		}
		block.WriteString("\r\n")
		var hdr http.Header
		var out []byte
		var term, kind string
		ptxt, panicked := verifh.Safely(func() {
			br := bufio.NewReaderSize(bytes.NewReader(block.Bytes()), verifh.Pick(r, []int{16, 64, 4096, 4096, 65536}))
			m, err := newTextprotoReader(br, nil).ReadMIMEHeader()
			if err != nil {
				term = "header-error"
				return
			}
			hdr = http.Header(m)
			cl := C()
			if st.kind == "custom" {
				st.verdict = false // set by c15HdrJudge from the first Content-Type
			}
			tr := c15Apply(cl, &st, "")
			resp := &http.Response{Header: hdr, Body: newC15Src([]string{c.body}, io.EOF, r.Intn(2) == 0)}
			if c.body == "" {
				resp.Body = newC15Src(nil, io.EOF, false)
			}
			tr.autoDecodeResponseBody(resp)
			out, term, _ = c15Drain(resp.Body, nil, 4096, []byte{0xAA})
			switch b := resp.Body.(type) {
			case *c15Src:
				kind = "raw"
			case *decodeReaderCloser:
				kind = "hdr"
			case *autoDecodeReadCloser:
				f := func(x bool) string { return map[bool]string{false: "0", true: "1"}[x] }
				kind = "auto:" + f(b.detected) + f(b.decodeReader != nil) + f(b.peek != nil)
			}
		})
		if panicked {
			term = "panic:" + ptxt
		}
		features(c)
		cnt.count("path:unit-h1-reader")
		n := len(c.fields)
		if r.Intn(3) == 0 {
			n = r.Intn(n + 1) // the model's answer does not depend on the number of slots (slots_refine_assemble)
		}
		line, impl, ok, why, nt := c15HdrJudge(c, fmt.Sprintf("slots:%d", n), &st, hdr, string(out), term, kind, "full")
		human := fmt.Sprintf("unit h1 reader: %d fields %s body=%s settings=%s", len(c.fields), c15FieldsHuman(c.fields), c15Short(c.body), st.kind)
		if !ok {
			human += " ORACLE: " + why
		}
		s.Case(line, impl, ok, "", nt, human)
	}
	// ---- end to end: frame-level peers
	peers := c15StartHdrPeers(t)
	defer peers.close()
	type dim struct {
		how, base, mech string
		lower           bool
		c               *Client
		n               int
	}
	type shaped struct {
		c      *Client
		sh     c15Shape
		tw, cw int
	}
	dims := []dim{
		{"h1", "http://" + peers.h1.Addr().String(), "slots", false, C().SetTimeout(20 * time.Second), verifh.N(100, 1500)},
		{"h2", "http://" + peers.h2.Addr().String(), "slots", true, C().SetTimeout(20 * time.Second).EnableH2C().EnableForceHTTP2(), verifh.N(160, 2500)},
		{"h3", "https://" + peers.h3.Addr().String(), "add", true, C().SetTimeout(20 * time.Second).EnableInsecureSkipVerify().EnableForceHTTP3(), verifh.N(100, 1500)},
	}
	for _, d := range dims {
		// per protocol: the plain client and three clients with middleware (the path the response travels)
		pool := []shaped{{c: d.c}}
		for k := 0; k < 3; k++ {
			sh := c15GenShape(r, d.how == "h1")
			for len(sh.ops) == 0 {
				sh = c15GenShape(r, d.how == "h1")
			}
			switch k { // every protocol sees both kinds of middleware
			case 0:
				sh.ops = append(sh.ops, "twf")
			case 1:
				sh.ops = append(sh.ops, "cw")
			}
			var base *Client
			switch d.how {
			case "h1":
				base = C().SetTimeout(20 * time.Second)
			case "h2":
				base = C().SetTimeout(20 * time.Second).EnableH2C().EnableForceHTTP2()
			default:
				base = C().SetTimeout(20 * time.Second).EnableInsecureSkipVerify().EnableForceHTTP3()
			}
			use, tw, cw := c15ApplyShape(base, sh)
			if use != base {
				defer c15CloseClient(base)
			}
			defer c15CloseClient(use)
			pool = append(pool, shaped{use, sh, tw, cw})
		}
		for i := 0; i < d.n; i++ {
			pc := verifh.Pick(r, pool)
			d.c = pc.c
			c15CountShape(cnt.count, pc.sh, pc.tw, pc.cw)
			next++
			c := c15GenHdrCase(r, strconv.Itoa(next), d.lower)
			peers.mu.Lock()
			peers.cases[c.id] = c
			peers.mu.Unlock()
			st := pickSt()
			first := ""
			for _, f := range c.fields {
				if strings.EqualFold(f.name, "content-type") {
					first = f.value
					break
				}
			}
			c15Reconfigure(d.c, &st, first)
			human := fmt.Sprintf("%s peer: stack=%s %d fields %s body=%s settings=%s", d.how, pc.sh, len(c.fields), c15FieldsHuman(c.fields), c15Short(c.body), st.kind)
			s.Begin("hdrs/"+d.how+"/"+c.id, human)
			var hdr http.Header
			var got []byte
			term := "eof"
			ptxt, panicked := verifh.Safely(func() {
				resp, err := d.c.R().Get(d.base + "/?id=" + c.id)
				if err != nil || resp.Response == nil {
					term = fmt.Sprintf("error:%v", err)
					return
				}
				if resp.StatusCode != 200 {
					term = "status:" + resp.Status
				}
				hdr, got = resp.Header, resp.Bytes()
			})
			if panicked {
				term = "panic:" + ptxt
			}
			peers.mu.Lock()
			delete(peers.cases, c.id)
			peers.mu.Unlock()
			features(c)
			cnt.count("path:" + d.how + "-peer")
			mech := d.mech
			if mech == "slots" {
				mech = fmt.Sprintf("slots:%d", len(c.fields)+1)
			}
			line, impl, ok, why, nt := c15HdrJudge(c, mech, &st, hdr, string(got), term, "", "wire")
			line += fmt.Sprintf(" %d,%d", pc.tw, pc.cw)
			if term != "eof" {
				impl += " " + term
			}
			if !ok {
				human += " ORACLE: " + why
			}
			s.Case(line, impl, ok, "", nt, human)
		}
		c15CloseClient(pool[0].c)
	}
	cnt.must(t, "path:plain", "path:transport-middleware", "path:client-middleware", "content-type-inside-a-repeated-header", "content-type-fields:0", "content-type-fields:2", "fields:>50",
		"path:unit-h1-reader", "path:h1-peer", "path:h2-peer", "path:h3-peer")
	s.Finish()
}

func c15FieldsHuman(fs []c15HF) string {
	var sb strings.Builder
	sb.WriteString("[")
	for i, f := range fs {
		if i > 0 {
			sb.WriteString(" | ")
		}
		if i >= 24 {
			fmt.Fprintf(&sb, "… %d more", len(fs)-i)
			break
		}
		sb.WriteString(f.name + ": " + f.value)
	}
	sb.WriteString("]")
	return sb.String()
}
