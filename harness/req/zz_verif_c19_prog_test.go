//go:build verif

package req

// C19 program lanes: generated API programs (client setters of every settings group the
// property names, R(), request setters, Clone incl. clone of clone, executions against a
// recording origin, GetCookies, settings probes) run on REAL clients; the observations are
// compared with the Lean value model (Scope.runScope) by the driver lane `c19prog`, and — for
// wrapper/clone programs — with the reference-aware model (Heap.runHeap) by `c19heap`.

import (
	"fmt"
	"math/rand"
	"net/http"
	urlpkg "net/url"
	"os"
	"runtime/debug"
	"strconv"
	"strings"
	"testing"

	"github.com/imroc/req/v3/internal/verifh"
)

type c19Op struct {
	texts []string
	run   func(w *c19World) []string // one observation per text
}

func c19Quiet(n int) []string {
	out := make([]string, n)
	for i := range out {
		out[i] = "-"
	}
	return out
}

type c19Gen struct {
	r          *rand.Rand
	isReq      []bool
	parent     []int
	used       []bool
	cookie     int
	ckID       int
	ckVal      int
	marshalled map[int]bool // requests that were given a value to marshal
	roots      []int
	depth      []int // clone depth of clients
	hist       map[string]int
	cloned     bool
	heapish    bool // only wrapper / clone / exec ops (heap lane)
}

func (g *c19Gen) clients() []int {
	var out []int
	for i, q := range g.isReq {
		if !q {
			out = append(out, i)
		}
	}
	return out
}

func (g *c19Gen) freeReqs() []int {
	var out []int
	for i, q := range g.isReq {
		if q && !g.used[i] {
			out = append(out, i)
		}
	}
	return out
}

func (g *c19Gen) add(isReq bool, parent, depth int) int {
	g.isReq = append(g.isReq, isReq)
	g.parent = append(g.parent, parent)
	g.used = append(g.used, false)
	g.depth = append(g.depth, depth)
	return len(g.isReq) - 1
}

func (g *c19Gen) opNew() c19Op {
	g.add(false, -1, 0)
	return c19Op{[]string{"N"}, func(w *c19World) []string {
		c := C()
		c.SetLogger(nil)
		w.owners = append(w.owners, &c19Owner{c: c, parent: -1})
		return c19Quiet(1)
	}}
}

func (g *c19Gen) opClone(i int) c19Op {
	d := g.depth[i] + 1
	g.add(false, -1, d)
	g.cloned = true
	g.hist["clone"]++
	if d >= 2 {
		g.hist["clone-of-clone"]++
	}
	return c19Op{[]string{fmt.Sprintf("C%d", i)}, func(w *c19World) []string {
		src := w.owners[i].c
		cc := src.Clone()
		w.checkClone(src, cc)
		w.owners = append(w.owners, &c19Owner{c: cc, parent: -1})
		return c19Quiet(1)
	}}
}

func (g *c19Gen) opNewReq(i int) c19Op {
	g.add(true, i, 0)
	return c19Op{[]string{fmt.Sprintf("R%d", i)}, func(w *c19World) []string {
		w.owners = append(w.owners, &c19Owner{isReq: true, r: w.owners[i].c.R(), parent: i})
		return c19Quiet(1)
	}}
}

func (g *c19Gen) opExec(ri int) c19Op {
	r := g.r
	g.used[ri] = true
	method := r.Intn(2)
	mode := 0
	if r.Intn(3) == 0 {
		mode = 1
	}
	var path []c19Seg
	var ps []string
	for n := r.Intn(4); n > 0; n-- {
		s := c19Seg{r.Intn(2) == 0, 1 + r.Intn(3)}
		path = append(path, s)
		if s.param {
			ps = append(ps, "p"+strconv.Itoa(s.n))
		} else {
			ps = append(ps, "l"+strconv.Itoa(s.n))
		}
	}
	pt := "_"
	if len(ps) > 0 {
		pt = strings.Join(ps, ".")
	}
	sc := 0
	if r.Intn(3) == 0 {
		g.cookie++
		sc = g.cookie
	}
	g.hist["exec"]++
	if g.cloned {
		g.hist["exec-after-clone"]++
	}
	return c19Op{[]string{fmt.Sprintf("E%d:%d,%d,%s,%d", ri, method, mode, pt, sc)}, func(w *c19World) []string {
		return []string{w.exec(w.owners[ri], method, mode, path, sc)}
	}}
}

func (g *c19Gen) opGet(ci int) c19Op {
	return c19Op{[]string{fmt.Sprintf("G%d", ci)}, func(w *c19World) []string { return []string{w.getCookies(w.owners[ci].c)} }}
}

func (g *c19Gen) opProbe(ci int) c19Op {
	g.hist["probe"]++
	return c19Op{[]string{fmt.Sprintf("P%d", ci)}, func(w *c19World) []string { return []string{w.probe(w.owners[ci].c)} }}
}

func c19Ints(r *rand.Rand, n, lo, hi int) []int {
	out := make([]int, n)
	for i := range out {
		out[i] = lo + r.Intn(hi-lo+1)
	}
	return out
}

// distinct keys
func c19Keys(r *rand.Rand, n, lo, hi int) []int {
	p := r.Perm(hi - lo + 1)
	if n > len(p) {
		n = len(p)
	}
	out := make([]int, n)
	for i := range out {
		out[i] = lo + p[i]
	}
	return out
}

var c19Without = []struct {
	mask int
	c    func(*Client) *Client
	r    func(*Request) *Request
}{
	{2, (*Client).EnableDumpAllWithoutRequestBody, (*Request).EnableDumpWithoutRequestBody},
	{8, (*Client).EnableDumpAllWithoutResponseBody, (*Request).EnableDumpWithoutResponseBody},
	{12, (*Client).EnableDumpAllWithoutResponse, (*Request).EnableDumpWithoutResponse},
	{3, (*Client).EnableDumpAllWithoutRequest, (*Request).EnableDumpWithoutRequest},
	{5, (*Client).EnableDumpAllWithoutHeader, (*Request).EnableDumpWithoutHeader},
	{10, (*Client).EnableDumpAllWithoutBody, (*Request).EnableDumpWithoutBody},
}

// setter builds one settings call on owner o (client or request) and its model text(s).
func (g *c19Gen) setter(o int) c19Op {
	r := g.r
	isReq := g.isReq[o]
	S := func(f string, a ...interface{}) string { return fmt.Sprintf("S%d:", o) + fmt.Sprintf(f, a...) }
	one := func(code string, text string, f func(w *c19World, c *Client, q *Request)) c19Op {
		g.hist["set:"+code]++
		if g.cloned && !isReq {
			if g.depth[o] > 0 {
				g.hist["setter-on-clone"]++
			} else {
				g.hist["setter-on-original-after-clone"]++
			}
		}
		return c19Op{[]string{text}, func(w *c19World) []string {
			ow := w.owners[o]
			f(w, ow.c, ow.r)
			return c19Quiet(1)
		}}
	}
	many := func(code string, texts []string, f func(w *c19World, c *Client, q *Request)) c19Op {
		op := one(code, "", f)
		op.texts = texts
		run := op.run
		op.run = func(w *c19World) []string { run(w); return c19Quiet(len(texts)) }
		return op
	}
	var groups []string
	if g.heapish {
		groups = []string{"wr", "wr", "tw", "tw", "bf", "af", "ck", "ca", "hka"}
	} else if isReq {
		groups = []string{"hs", "hs", "ha", "ck", "ps", "qs", "qa", "qm", "fs", "fa", "af", "rc", "cs", "ca", "hks", "hka", "dt", "dw", "do", "bd", "bd"}
	} else {
		groups = []string{"hs", "hs", "hs", "ha", "ck", "ps", "qs", "qa", "qm", "fs", "fa", "bf", "af", "wr", "wr", "tw", "tw", "rc", "cs", "ca",
			"hks", "hka", "dt", "dw", "do", "dx", "sc", "sc", "sc", "sc", "jf", "cc", "h2c", "tc", "tr"}
	}
	switch code := verifh.Pick(r, groups); code {
	case "hs":
		k := verifh.Pick(r, []int{1, 2, 3, 4, 5, 6, 100, 101, 102})
		v := 1 + r.Intn(6)
		if k == c19HAuth {
			v += 2000
		}
		if k == c19HContentType && r.Intn(2) == 0 {
			v = verifh.Pick(r, []int{c19VCtXML, c19VCtJSON}) // round 7: kinds that pick the marshaller
			g.hist["content-type-kind"]++
		}
		variant := r.Intn(3)
		if k != c19HAuth && k != c19HContentType && r.Intn(8) == 0 {
			v = c19VEmpty // the EMPTY string is a value like any other (and suppresses User-Agent)
			g.hist["header-value-empty"]++
		}
		if variant == 1 && k < 100 { // map form with two keys
			ks := c19Keys(r, 2, 1, 6)
			vs := c19Ints(r, 2, 1, 6)
			m := map[string]string{c19HeaderName(ks[0]): c19HeaderValue(vs[0]), c19HeaderName(ks[1]): c19HeaderValue(vs[1])}
			return many(code, []string{S("hs,%d,%d", ks[0], vs[0]), S("hs,%d,%d", ks[1], vs[1])}, func(w *c19World, c *Client, q *Request) {
				if isReq {
					q.SetHeaders(m)
				} else {
					c.SetCommonHeaders(m)
				}
			})
		}
		return one(code, S("hs,%d,%d", k, v), func(w *c19World, c *Client, q *Request) {
			name, val := c19HeaderName(k), c19HeaderValue(v)
			switch {
			case isReq && k == c19HContentType && variant == 0:
				q.SetContentType(val)
			case isReq && k == c19HAuth:
				q.SetBearerAuthToken(strings.TrimPrefix(val, "Bearer "))
			case isReq:
				q.SetHeader(name, val)
			case k == c19HUserAgent && variant == 0:
				c.SetUserAgent(val)
			case k == c19HContentType && variant == 0:
				c.SetCommonContentType(val)
			case k == c19HAuth:
				c.SetCommonBearerAuthToken(strings.TrimPrefix(val, "Bearer "))
			default:
				c.SetCommonHeader(name, val)
			}
		})
	case "ha":
		k, v := 7+r.Intn(3), 1+r.Intn(6)
		variant := r.Intn(2)
		if r.Intn(8) == 0 {
			v = c19VEmpty
			g.hist["header-value-empty"]++
		}
		return one(code, S("ha,%d,%d", k, v), func(w *c19World, c *Client, q *Request) {
			name, val := c19HeaderName(k), c19HeaderValue(v)
			switch {
			case isReq && variant == 0:
				q.SetHeaderNonCanonical(name, val)
			case isReq:
				q.SetHeadersNonCanonical(map[string]string{name: val})
			case variant == 0:
				c.SetCommonHeaderNonCanonical(name, val)
			default:
				c.SetCommonHeadersNonCanonical(map[string]string{name: val})
			}
		})
	case "ck":
		n := 1 + r.Intn(2)
		var ids []int
		for i := 0; i < n; i++ {
			if g.ckID > 0 && r.Intn(3) == 0 {
				// round 7: a cookie NAME used before (by any client or request of the program,
				// so also across a Clone) with another value
				g.ckVal++
				ids = append(ids, 1000*(1+g.ckVal%7)+100+1+r.Intn(g.ckID))
				g.hist["cookie-name-again"]++
				continue
			}
			g.ckID++
			ids = append(ids, 100+g.ckID)
		}
		return one(code, S("ck,%s", c19List(ids)), func(w *c19World, c *Client, q *Request) {
			var cs []*http.Cookie
			for _, id := range ids {
				cs = append(cs, c19Cookie(id))
			}
			if isReq {
				q.SetCookies(cs...)
			} else {
				c.SetCommonCookies(cs...)
			}
		})
	case "ps":
		k, v := 1+r.Intn(3), 1+r.Intn(6)
		variant := r.Intn(2)
		return one(code, S("ps,%d,%d", k, v), func(w *c19World, c *Client, q *Request) {
			name, val := fmt.Sprintf("p%d", k), fmt.Sprintf("y%d", v)
			switch {
			case isReq && variant == 0:
				q.SetPathParam(name, val)
			case isReq:
				q.SetPathParams(map[string]string{name: val})
			case variant == 0:
				c.SetCommonPathParam(name, val)
			default:
				c.SetCommonPathParams(map[string]string{name: val})
			}
		})
	case "qs":
		k, v := 1+r.Intn(4), 1+r.Intn(6)
		variant := r.Intn(2)
		return one(code, S("qs,%d,%d", k, v), func(w *c19World, c *Client, q *Request) {
			name, val := fmt.Sprintf("q%d", k), fmt.Sprintf("w%d", v)
			switch {
			case isReq && variant == 0:
				q.SetQueryParam(name, val)
			case isReq:
				q.SetQueryParams(map[string]string{name: val})
			case variant == 0:
				c.SetCommonQueryParam(name, val)
			default:
				c.SetCommonQueryParams(map[string]string{name: val})
			}
		})
	case "qa":
		k, v := 1+r.Intn(4), 1+r.Intn(6)
		variant := r.Intn(2)
		return one(code, S("qa,%d,%d", k, v), func(w *c19World, c *Client, q *Request) {
			name, val := fmt.Sprintf("q%d", k), fmt.Sprintf("w%d", v)
			switch {
			case isReq && variant == 0:
				q.AddQueryParam(name, val)
			case isReq:
				q.SetQueryString(name + "=" + val)
			case variant == 0:
				c.AddCommonQueryParam(name, val)
			default:
				c.SetCommonQueryString(name + "=" + val)
			}
		})
	case "qm":
		k := 1 + r.Intn(4)
		vs := c19Ints(r, r.Intn(3), 1, 6)
		return one(code, S("qm,%d,%s", k, c19List(vs)), func(w *c19World, c *Client, q *Request) {
			name := fmt.Sprintf("q%d", k)
			var vals []string
			for _, v := range vs {
				vals = append(vals, fmt.Sprintf("w%d", v))
			}
			if isReq {
				q.AddQueryParams(name, vals...)
			} else {
				c.AddCommonQueryParams(name, vals...)
			}
		})
	case "fs":
		ks := c19Keys(r, 1+r.Intn(2), 1, 4)
		vs := c19Ints(r, len(ks), 1, 6)
		m := map[string]string{}
		var texts []string
		for i, k := range ks {
			m[fmt.Sprintf("QQf%d", k)] = fmt.Sprintf("QQg%d", vs[i])
			texts = append(texts, S("fs,%d,%d", k, vs[i]))
		}
		return many(code, texts, func(w *c19World, c *Client, q *Request) {
			if isReq {
				q.SetFormData(m)
			} else {
				c.SetCommonFormData(m)
			}
		})
	case "fa":
		k, v := 1+r.Intn(4), 1+r.Intn(6)
		return one(code, S("fa,%d,%d", k, v), func(w *c19World, c *Client, q *Request) {
			vals := urlpkg.Values{fmt.Sprintf("QQf%d", k): {fmt.Sprintf("QQg%d", v)}}
			if isReq {
				q.SetFormDataFromValues(vals)
			} else {
				c.SetCommonFormDataFromValues(vals)
			}
		})
	case "bf":
		id := 1 + r.Intn(8)
		return one(code, S("bf,%d", id), func(w *c19World, c *Client, q *Request) { c.OnBeforeRequest(w.mkBefore(id)) })
	case "af":
		id := 1 + r.Intn(8)
		return one(code, S("af,%d", id), func(w *c19World, c *Client, q *Request) {
			if isReq {
				q.OnAfterResponse(w.mkAfter(4, id))
			} else {
				c.OnAfterResponse(w.mkAfter(3, id))
			}
		})
	case "wr", "tw":
		n := 1
		if r.Intn(4) == 0 {
			n = 2 + r.Intn(2)
		}
		ids := c19Ints(r, n, 1, 9)
		variant := r.Intn(2)
		tcode := code
		if variant == 1 {
			tcode += "f" // the ...Func form builds its slice by appending: spare capacity from the start
		}
		return one(code, S("%s,%s", tcode, c19List(ids)), func(w *c19World, c *Client, q *Request) {
			before := w.snapWrappers()
			switch {
			case code == "wr" && variant == 0:
				ws := make([]RoundTripWrapper, 0, len(ids))
				for _, id := range ids {
					ws = append(ws, w.mkWrap(id))
				}
				c.WrapRoundTrip(ws...)
			case code == "wr":
				ws := make([]RoundTripWrapperFunc, 0, len(ids)) // len = cap, like a literal call
				for _, id := range ids {
					ws = append(ws, w.mkWrapFunc(id))
				}
				c.WrapRoundTripFunc(ws...)
			case variant == 0:
				ws := make([]HttpRoundTripWrapper, 0, len(ids))
				for _, id := range ids {
					ws = append(ws, w.mkTWrap(id))
				}
				c.GetTransport().WrapRoundTrip(ws...)
			default:
				ws := make([]HttpRoundTripWrapperFunc, 0, len(ids))
				for _, id := range ids {
					ws = append(ws, w.mkTWrapFunc(id))
				}
				c.GetTransport().WrapRoundTripFunc(ws...)
			}
			w.checkClobber(before, c)
		})
	case "rc":
		n, iv := r.Intn(4), 1+r.Intn(5)
		g.hist["set:ri"]++
		return many(code, []string{S("rc,%d", n), S("ri,%d", iv)}, func(w *c19World, c *Client, q *Request) {
			if isReq {
				q.SetRetryCount(n).SetRetryInterval(w.mkInterval(iv))
			} else {
				c.SetCommonRetryCount(n).SetCommonRetryInterval(w.mkInterval(iv))
			}
		})
	case "cs", "ca", "hks", "hka":
		id := 1 + r.Intn(8)
		return one(code, S("%s,%d", code, id), func(w *c19World, c *Client, q *Request) {
			switch code {
			case "cs":
				if isReq {
					q.SetRetryCondition(w.mkCond(id))
				} else {
					c.SetCommonRetryCondition(w.mkCond(id))
				}
			case "ca":
				if isReq {
					q.AddRetryCondition(w.mkCond(id))
				} else {
					c.AddCommonRetryCondition(w.mkCond(id))
				}
			case "hks":
				if isReq {
					q.SetRetryHook(w.mkHook(id))
				} else {
					c.SetCommonRetryHook(w.mkHook(id))
				}
			case "hka":
				if isReq {
					q.AddRetryHook(w.mkHook(id))
				} else {
					c.AddCommonRetryHook(w.mkHook(id))
				}
			}
		})
	case "dt":
		wid := 1 + r.Intn(3)
		if isReq {
			wid = 0
		}
		return one(code, S("dt,%d", wid), func(w *c19World, c *Client, q *Request) {
			if isReq {
				q.EnableDump()
			} else {
				w.checkDumpLink(c)
				c.EnableDumpAllTo(w.bufs[wid])
			}
		})
	case "dw":
		v := verifh.Pick(r, c19Without)
		return one(code, S("dw,%d", v.mask), func(w *c19World, c *Client, q *Request) {
			if isReq {
				v.r(q)
			} else {
				w.checkDumpLink(c)
				if c.dumpOptions == nil || c.dumpOptions.Output == nil {
					// keep the dump out of the test's stdout: a real caller's default
					c.getDumpOptions().Output = w.bufs[0]
				}
				v.c(c)
			}
		})
	case "do":
		wid := 1 + r.Intn(3)
		if isReq {
			wid = 0
		}
		fl := c19Ints(r, 4, 0, 1)
		return one(code, S("do,%d,%d,%d,%d,%d", wid, fl[0], fl[1], fl[2], fl[3]), func(w *c19World, c *Client, q *Request) {
			opt := &DumpOptions{RequestHeader: fl[0] == 1, RequestBody: fl[1] == 1, ResponseHeader: fl[2] == 1, ResponseBody: fl[3] == 1}
			if isReq {
				q.SetDumpOptions(opt)
			} else {
				opt.Output = w.bufs[wid]
				c.SetCommonDumpOptions(opt)
			}
		})
	case "dx":
		return one(code, S("dx"), func(w *c19World, c *Client, q *Request) { c.DisableDumpAll() })
	case "sc":
		sc := verifh.Pick(r, c19Scalars())
		for len(sc.vals) == 0 {
			sc = verifh.Pick(r, c19Scalars())
		}
		v := verifh.Pick(r, sc.vals)
		g.hist["scalar:"+sc.name]++
		return one(code, S("sc,%d,%d", sc.id, v), func(w *c19World, c *Client, q *Request) { sc.set(w, c, v) })
	case "jf":
		fid := 1 + r.Intn(3)
		return one(code, S("jf,%d", fid), func(w *c19World, c *Client, q *Request) { c.SetCookieJarFactory(w.mkJarFactory(fid)) })
	case "cc":
		return one(code, S("cc"), func(w *c19World, c *Client, q *Request) { c.ClearCookies() })
	case "h2c":
		on := r.Intn(2)
		return one(code, S("h2c,%d", on), func(w *c19World, c *Client, q *Request) {
			if on == 1 {
				c.EnableH2C()
			} else {
				c.DisableH2C()
			}
		})
	case "tc":
		id := 1 + r.Intn(9)
		return one(code, S("tc,%d", id), func(w *c19World, c *Client, q *Request) {
			w.checkTLSShared(c, true)
			c.SetCerts(c19TLSCert(id))
		})
	case "tr":
		var free []int
		for id := 1; id <= 4; id++ {
			usedID := false
			for _, u := range g.roots {
				if u == id {
					usedID = true
				}
			}
			if !usedID {
				free = append(free, id)
			}
		}
		if len(free) == 0 {
			return g.setter(o)
		}
		id := verifh.Pick(r, free)
		g.roots = append(g.roots, id)
		return one(code, S("tr,%d", id), func(w *c19World, c *Client, q *Request) {
			w.checkTLSShared(c, false)
			c.SetRootCertFromString(w.rootPEM[id])
		})
	case "bd":
		b := 1 + r.Intn(3)
		variant := r.Intn(3)
		if g.marshalled == nil {
			g.marshalled = map[int]bool{}
		}
		// round 7: a value to marshal (struct / pointer / slice); the marshaller is picked by the
		// Content-Type of the request, else of the client. A literal body set AFTER SetBody(struct)
		// does not replace it in the running code (r.marshalBody stays), so such a request keeps
		// drawing values to marshal.
		if g.marshalled[o] || r.Intn(3) == 0 {
			g.marshalled[o] = true
			b += c19MarshalFrom
			g.hist["body-marshalled"]++
			return one(code, S("bd,%d", b), func(w *c19World, c *Client, q *Request) { c19MarshalBody(q, b, variant) })
		}
		return one(code, S("bd,%d", b), func(w *c19World, c *Client, q *Request) {
			s := fmt.Sprintf("QQbody%d", b)
			switch variant {
			case 0:
				q.SetBodyString(s)
			case 1:
				q.SetBodyBytes([]byte(s))
			default:
				q.SetBody(s)
			}
		})
	}
	panic("unreachable")
}

// genProgram draws one program of at most maxLen model ops.
func c19GenProgram(r *rand.Rand, maxLen int, heapish bool, hist map[string]int) []c19Op {
	g := &c19Gen{r: r, cookie: 9, hist: hist, heapish: heapish}
	var ops []c19Op
	n := 0
	push := func(op c19Op) {
		ops = append(ops, op)
		n += len(op.texts)
	}
	push(g.opNew())
	// epilogue budget: R + E + P for every client (and G for some)
	budget := func() int { return maxLen - 3*len(g.clients()) - 1 }
	target := 6 + r.Intn(maxLen)
	for n < target && n < budget()-2 {
		cl := g.clients()
		x := r.Intn(100)
		switch {
		case x < 3 && len(cl) < 5 && !heapish:
			push(g.opNew())
		case x < 16 && len(cl) < 5:
			push(g.opClone(verifh.Pick(r, cl)))
		case x < 26:
			push(g.opNewReq(verifh.Pick(r, cl)))
		case x < 72:
			push(g.setter(verifh.Pick(r, cl)))
		case x < 84:
			if fr := g.freeReqs(); len(fr) > 0 && !heapish {
				push(g.setter(verifh.Pick(r, fr)))
			} else {
				push(g.setter(verifh.Pick(r, cl)))
			}
		case x < 94:
			if fr := g.freeReqs(); len(fr) > 0 {
				push(g.opExec(verifh.Pick(r, fr)))
			} else {
				push(g.opNewReq(verifh.Pick(r, cl)))
			}
		case x < 96:
			push(g.opGet(verifh.Pick(r, cl)))
		default:
			push(g.opProbe(verifh.Pick(r, cl)))
		}
	}
	// epilogue: every client fires one fresh request and is probed
	for _, ci := range g.clients() {
		ri := len(g.isReq)
		push(g.opNewReq(ci))
		push(g.opExec(ri))
		if !heapish {
			push(g.opProbe(ci))
		}
	}
	if !heapish && n < maxLen {
		push(g.opGet(verifh.Pick(r, g.clients())))
	}
	return ops
}

func c19Text(ops []c19Op) string {
	var ts []string
	for _, op := range ops {
		ts = append(ts, op.texts...)
	}
	return strings.Join(ts, ";")
}

func (w *c19World) runProgram(ops []c19Op) (trace string, panicText string, panicked bool) {
	w.reset()
	var obs []string
	panicText, panicked = c19Safely(func() {
		for _, op := range ops {
			obs = append(obs, op.run(w)...)
		}
	})
	return strings.Join(obs, "|"), panicText, panicked
}

// hand-written programs: the witnesses of the known findings and a few basics, always run first
func c19FixedPrograms() []string {
	return []string{
		// request-level header / query / path override the client's for that request only
		"N;S0:hs,1,5;S0:qs,1,1;S0:ps,1,1;R0;S1:hs,1,6;S1:qs,1,2;S1:ps,1,2;E1:0,0,l1.p1,0;R0;E2:0,0,l1.p1,0;P0",
		// a client setter applies to every later request, also to one created before the setter
		"N;R0;S0:hs,2,3;S0:ck,101;E1:0,0,_,0;R0;E2:1,0,_,0",
		// round 7: a common cookie of the same name set again on either side of a Clone (both are sent, no side sees the other's)
		"N;S0:ck,101.102;C0;C1;S0:ck,2101;R1;E3:0,0,_,0;R2;E4:0,0,_,0;S1:ck,3101;R0;E5:0,0,_,0;R2;E6:0,0,_,0;R1;E7:0,0,_,0;P0;P1;P2",
		// round 7: the request's Content-Type picks the marshaller of SetBody(struct), not the client's (set before Clone)
		"N;S0:hs,100,904;C0;R1;S2:hs,100,903;S2:bd,11;E2:1,0,_,0;R1;S3:bd,12;E3:1,0,_,0;S0:hs,100,903;R0;S4:hs,100,904;S4:bd,13;E4:1,0,_,0;R1;S5:bd,12;E5:1,0,_,0",
		// clone behaves the same, then both sides change
		"N;S0:hs,1,1;S0:qa,1,1;S0:fs,1,1;S0:bf,1;S0:af,2;C0;S0:hs,1,2;S1:hs,1,3;S1:qa,1,4;R0;E2:1,0,_,0;R1;E3:1,0,_,0;P0;P1",
		// clone of clone, retry options
		"N;S0:rc,2;S0:ri,1;S0:ca,2;S0:hka,1;C0;C1;S2:rc,1;S2:ri,2;S1:ca,5;R0;E3:0,0,_,0;R1;E4:0,0,_,0;R2;E5:0,0,_,0",
		// jar from a factory: the clone gets a new jar, cookies set by the origin stay with their client
		"N;S0:jf,2;R0;E1:0,0,_,10;G0;C0;G2;R2;E3:0,0,_,11;G0;G2;R0;E4:0,0,_,0",
		// witness of wrapper-slice-alias (DESIGN section 5 row 18)
		"N;S0:wr,1;S0:wr,2;S0:wr,3;C0;S0:wr,4;S1:wr,5;C0;R0;E3:0,0,_,0;R1;E4:0,0,_,0;R2;E5:0,0,_,0;P0;P2",
		"N;S0:tw,1;S0:tw,2;S0:tw,3;C0;S0:tw,4;S1:tw,5;C0;R0;E3:0,0,_,0;R1;E4:0,0,_,0;R2;E5:0,0,_,0;P0;P2",
		// witness of dump-options-unlinked
		"N;S0:dt,1;C0;S1:dt,2;S1:dw,8;S0:dw,2;R0;S2:bd,1;E2:1,0,_,0;R1;S3:bd,1;E3:1,0,_,0",
		// witness of h2c-allowhttp-dropped
		"N;S0:h2c,1;C0;P0;P1",
		// witness of tls-config-shared (root pool, certificate slice)
		"N;S0:tr,1;C0;S1:tr,2;P0;P1",
		"N;S0:tc,1;S0:tc,2;S0:tc,3;C0;S0:tc,4;S1:tc,5;P0;P1",
	}
}

// TestVerif_C19_prog: real clients vs the value model.
func TestVerif_C19_prog(t *testing.T) {
	s := verifh.New(t, "C19", "prog",
		"API programs of <= 40 ops over up to 5 clients (originals, clones, clones of clones) and their requests: every client setter group (headers canonical/non-canonical, cookies incl. a cookie NAME set again with another value on any client, path/query/form params, before/after middleware, client and transport round-trip wrappers, retry count/interval/conditions/hooks, dump options, 30 scalar settings incl. base URL, proxy, timeouts, HTTP/2 settings, jar factory, ClearCookies, H2C, TLS certs/roots), request-level counterparts, literal bodies and values to marshal (struct / pointer / slice; JSON / XML / other Content-Type at either level), Clone, R(), executions against a recording origin (first request received, attempts, middleware/wrapper/retry log, dump routing), GetCookies and settings probes; each program ends with a fresh request and a probe on every client; 13 hand-written witness programs first; non-trivial = has a Clone and a later setter and execution")
	// Programs during which an in-package detector saw one of the known findings at work go to
	// a lane of their own: the harness reports only the first 25 mismatches of a lane in detail,
	// and the (expected, excused) mismatches of those programs must not crowd out a new one.
	sk := verifh.New(t, "C19", "progknown",
		"the programs of lane prog during which a detector saw a known finding at work (a Wrap changing another client's wrapper slice, a dump setter on a client whose dumper follows another copy of the options, a clone that lost AllowHTTP, SetCerts / SetRootCert* writing into a pool or array another client uses); every case carries that finding's class")
	w := c19NewWorld()
	defer w.close()
	r := s.Rand()
	run := func(ops []c19Op, fixed bool) {
		text := c19Text(ops)
		trace, ptxt, panicked := w.runProgram(ops)
		nt := strings.Contains(text, ";C") && strings.Contains(text, ";E")
		if w.class != "" {
			s.Count("class:" + w.class)
			sk.Count("class:" + w.class)
			if panicked {
				sk.Crash("c19prog "+text, text, ptxt, w.class)
				return
			}
			sk.Case("c19prog "+text, trace, true, w.class, nt, text)
			return
		}
		if panicked {
			s.Crash("c19prog "+text, text, ptxt, "")
			return
		}
		s.Case("c19prog "+text, trace, true, "", nt, text)
	}
	for _, p := range c19FixedPrograms() {
		ops, err := c19ParseProgram(p)
		if err != nil {
			t.Fatalf("fixed program %q: %v", p, err)
		}
		run(ops, true)
		s.Count("fixed")
	}
	n := verifh.N(1500, 30000)
	hist := map[string]int{}
	for i := 0; i < n; i++ {
		maxLen := 40
		if i%5 == 0 {
			maxLen = 14
		}
		run(c19GenProgram(r, maxLen, false, hist), false)
	}
	for k, v := range hist {
		for j := 0; j < v; j++ {
			s.Count(k)
		}
	}
	for _, need := range []string{"clone", "clone-of-clone", "exec-after-clone", "setter-on-clone", "setter-on-original-after-clone", "probe",
		"set:hs", "set:ha", "set:ck", "set:ps", "set:qs", "set:qa", "set:qm", "set:fs", "set:fa", "set:bf", "set:af", "set:wr", "set:tw", "set:rc", "set:cs", "set:ca",
		"set:hks", "set:hka", "set:dt", "set:dw", "set:do", "set:dx", "set:sc", "set:jf", "set:cc", "set:h2c", "set:tc", "set:tr", "set:bd"} {
		if hist[need] == 0 {
			t.Errorf("generator never reached bucket %q", need)
		}
	}
	s.Finish()
	sk.Finish()
}

// TestVerif_C19_heap: wrapper / slice programs on real clients vs the reference-aware model,
// with the Clone table the code currently has (wrapper slices shared or cloned).
func TestVerif_C19_heap(t *testing.T) {
	s := verifh.New(t, "C19", "heap",
		"programs of Wrap (client and transport, 1-3 wrappers per call), OnBeforeRequest / OnAfterResponse / cookies / retry-condition / retry-hook appends, Clone (incl. clone of clone) and executions on up to 5 clients; the model is Heap.runHeap with Go's growslice and the wrapper slices copied by assignment or cloned as the running code does (detected in-package by comparing backing arrays after Clone); compared: wrapper invocation order of every execution; non-trivial = a Clone followed by a Wrap on both sides")
	w := c19NewWorld()
	defer w.close()
	// which Clone table does the code under test have?
	alias := "0"
	{
		c := C()
		c.WrapRoundTrip(w.mkWrap(1))
		c.WrapRoundTrip(w.mkWrap(2))
		c.WrapRoundTrip(w.mkWrap(3))
		c.GetTransport().WrapRoundTrip(w.mkTWrap(1))
		c.GetTransport().WrapRoundTrip(w.mkTWrap(2))
		c.GetTransport().WrapRoundTrip(w.mkTWrap(3))
		cc := c.Clone()
		a1 := &c.roundTripWrappers[0] == &cc.roundTripWrappers[0]
		a2 := &c.httpRoundTripWrappers[0] == &cc.httpRoundTripWrappers[0]
		switch {
		case a1 && a2:
			alias = "1"
			s.Count("table:wrappers-assigned")
		case !a1 && !a2:
			s.Count("table:wrappers-cloned")
		default:
			alias = "mixed"
		}
	}
	r := s.Rand()
	n := verifh.N(500, 20000)
	hist := map[string]int{}
	progs := [][]c19Op{}
	for _, p := range []string{
		"N;S0:wr,1;S0:wr,2;S0:wr,3;C0;S0:wr,4;S1:wr,5;C0;R0;E3:0,0,_,0;R1;E4:0,0,_,0;R2;E5:0,0,_,0",
		"N;S0:tw,1;S0:tw,2;S0:tw,3;C0;S0:tw,4;S1:tw,5;C0;R0;E3:0,0,_,0;R1;E4:0,0,_,0;R2;E5:0,0,_,0",
		"N;S0:wr,1.2.3;C0;S0:wr,4;S1:wr,5;C0;C1;R2;E4:0,0,_,0;R3;E5:0,0,_,0",
	} {
		ops, err := c19ParseProgram(p)
		if err != nil {
			t.Fatal(err)
		}
		progs = append(progs, ops)
	}
	for i := 0; i < n; i++ {
		progs = append(progs, c19GenProgram(r, 40, true, hist))
	}
	for _, ops := range progs {
		text := c19Text(ops)
		trace, ptxt, panicked := w.runProgram(ops)
		if panicked {
			s.Crash("c19heap "+text, text, ptxt, "")
			continue
		}
		if w.class != "" {
			s.Count("clobber-observed")
		}
		if alias == "mixed" {
			s.Observe(text, false, "", true, text, "Client.Clone and Transport.Clone treat their wrapper slices differently")
			continue
		}
		// the reference-aware model predicts the current code exactly, shared arrays included:
		// a disagreement here is never the known finding
		s.Case("c19heap "+alias+" "+text, trace, true, "", strings.Contains(text, ";C"), text)
	}
	s.Finish()
}

// ------------------------------------------------------------------ parsing hand-written programs

func c19ParseInts(s string) []int {
	if s == "_" {
		return nil
	}
	var out []int
	for _, p := range strings.Split(s, ".") {
		out = append(out, c19Num(p))
	}
	return out
}

// c19ParseProgram turns program text into executable ops (a subset of setters: the ones the
// hand-written programs use).
func c19ParseProgram(text string) ([]c19Op, error) {
	var ops []c19Op
	g := &c19Gen{r: rand.New(rand.NewSource(1)), hist: map[string]int{}}
	for _, t := range strings.Split(text, ";") {
		switch {
		case t == "N":
			ops = append(ops, g.opNew())
		case t[0] == 'C':
			ops = append(ops, g.opClone(c19Num(t[1:])))
		case t[0] == 'R':
			ops = append(ops, g.opNewReq(c19Num(t[1:])))
		case t[0] == 'G':
			ops = append(ops, g.opGet(c19Num(t[1:])))
		case t[0] == 'P':
			ops = append(ops, g.opProbe(c19Num(t[1:])))
		case t[0] == 'E':
			hd := strings.SplitN(t[1:], ":", 2)
			a := strings.Split(hd[1], ",")
			if len(a) != 4 {
				return nil, fmt.Errorf("bad exec %q", t)
			}
			ri, method, mode, sc := c19Num(hd[0]), c19Num(a[0]), c19Num(a[1]), c19Num(a[3])
			var path []c19Seg
			if a[2] != "_" {
				for _, p := range strings.Split(a[2], ".") {
					path = append(path, c19Seg{p[0] == 'p', c19Num(p[1:])})
				}
			}
			ops = append(ops, c19Op{[]string{t}, func(w *c19World) []string {
				return []string{w.exec(w.owners[ri], method, mode, path, sc)}
			}})
		case t[0] == 'S':
			hd := strings.SplitN(t[1:], ":", 2)
			o := c19Num(hd[0])
			a := strings.Split(hd[1], ",")
			isReq := g.isReq[o]
			var f func(w *c19World, c *Client, q *Request)
			arg := func(i int) int { return c19Num(a[i]) }
			switch a[0] {
			case "hs":
				f = func(w *c19World, c *Client, q *Request) {
					if isReq {
						q.SetHeader(c19HeaderName(arg(1)), c19HeaderValue(arg(2)))
					} else {
						c.SetCommonHeader(c19HeaderName(arg(1)), c19HeaderValue(arg(2)))
					}
				}
			case "qs":
				f = func(w *c19World, c *Client, q *Request) {
					if isReq {
						q.SetQueryParam(fmt.Sprintf("q%d", arg(1)), fmt.Sprintf("w%d", arg(2)))
					} else {
						c.SetCommonQueryParam(fmt.Sprintf("q%d", arg(1)), fmt.Sprintf("w%d", arg(2)))
					}
				}
			case "qa":
				f = func(w *c19World, c *Client, q *Request) {
					if isReq {
						q.AddQueryParam(fmt.Sprintf("q%d", arg(1)), fmt.Sprintf("w%d", arg(2)))
					} else {
						c.AddCommonQueryParam(fmt.Sprintf("q%d", arg(1)), fmt.Sprintf("w%d", arg(2)))
					}
				}
			case "ps":
				f = func(w *c19World, c *Client, q *Request) {
					if isReq {
						q.SetPathParam(fmt.Sprintf("p%d", arg(1)), fmt.Sprintf("y%d", arg(2)))
					} else {
						c.SetCommonPathParam(fmt.Sprintf("p%d", arg(1)), fmt.Sprintf("y%d", arg(2)))
					}
				}
			case "fs":
				f = func(w *c19World, c *Client, q *Request) {
					m := map[string]string{fmt.Sprintf("QQf%d", arg(1)): fmt.Sprintf("QQg%d", arg(2))}
					if isReq {
						q.SetFormData(m)
					} else {
						c.SetCommonFormData(m)
					}
				}
			case "ck":
				f = func(w *c19World, c *Client, q *Request) {
					var cs []*http.Cookie
					for _, id := range c19ParseInts(a[1]) {
						cs = append(cs, c19Cookie(id))
					}
					if isReq {
						q.SetCookies(cs...)
					} else {
						c.SetCommonCookies(cs...)
					}
				}
			case "bf":
				f = func(w *c19World, c *Client, q *Request) { c.OnBeforeRequest(w.mkBefore(arg(1))) }
			case "af":
				f = func(w *c19World, c *Client, q *Request) {
					if isReq {
						q.OnAfterResponse(w.mkAfter(4, arg(1)))
					} else {
						c.OnAfterResponse(w.mkAfter(3, arg(1)))
					}
				}
			case "wr":
				f = func(w *c19World, c *Client, q *Request) {
					before := w.snapWrappers()
					ws := make([]RoundTripWrapper, 0, len(c19ParseInts(a[1])))
					for _, id := range c19ParseInts(a[1]) {
						ws = append(ws, w.mkWrap(id))
					}
					c.WrapRoundTrip(ws...)
					w.checkClobber(before, c)
				}
			case "tw":
				f = func(w *c19World, c *Client, q *Request) {
					before := w.snapWrappers()
					ws := make([]HttpRoundTripWrapper, 0, len(c19ParseInts(a[1])))
					for _, id := range c19ParseInts(a[1]) {
						ws = append(ws, w.mkTWrap(id))
					}
					c.GetTransport().WrapRoundTrip(ws...)
					w.checkClobber(before, c)
				}
			case "rc":
				f = func(w *c19World, c *Client, q *Request) {
					if isReq {
						q.SetRetryCount(arg(1))
					} else {
						c.SetCommonRetryCount(arg(1))
					}
				}
			case "ri":
				f = func(w *c19World, c *Client, q *Request) {
					if isReq {
						q.SetRetryInterval(w.mkInterval(arg(1)))
					} else {
						c.SetCommonRetryInterval(w.mkInterval(arg(1)))
					}
				}
			case "ca":
				f = func(w *c19World, c *Client, q *Request) {
					if isReq {
						q.AddRetryCondition(w.mkCond(arg(1)))
					} else {
						c.AddCommonRetryCondition(w.mkCond(arg(1)))
					}
				}
			case "hka":
				f = func(w *c19World, c *Client, q *Request) {
					if isReq {
						q.AddRetryHook(w.mkHook(arg(1)))
					} else {
						c.AddCommonRetryHook(w.mkHook(arg(1)))
					}
				}
			case "jf":
				f = func(w *c19World, c *Client, q *Request) { c.SetCookieJarFactory(w.mkJarFactory(arg(1))) }
			case "dt":
				f = func(w *c19World, c *Client, q *Request) {
					if isReq {
						q.EnableDump()
					} else {
						w.checkDumpLink(c)
						c.EnableDumpAllTo(w.bufs[arg(1)])
					}
				}
			case "dw":
				f = func(w *c19World, c *Client, q *Request) {
					for _, v := range c19Without {
						if v.mask == arg(1) {
							if isReq {
								v.r(q)
							} else {
								w.checkDumpLink(c)
								v.c(c)
							}
						}
					}
				}
			case "h2c":
				f = func(w *c19World, c *Client, q *Request) {
					if arg(1) == 1 {
						c.EnableH2C()
					} else {
						c.DisableH2C()
					}
				}
			case "tc":
				f = func(w *c19World, c *Client, q *Request) { w.checkTLSShared(c, true); c.SetCerts(c19TLSCert(arg(1))) }
			case "tr":
				f = func(w *c19World, c *Client, q *Request) {
					w.checkTLSShared(c, false)
					c.SetRootCertFromString(w.rootPEM[arg(1)])
				}
			case "bd":
				f = func(w *c19World, c *Client, q *Request) {
					if arg(1) >= c19MarshalFrom {
						c19MarshalBody(q, arg(1), arg(1))
						return
					}
					q.SetBodyString(fmt.Sprintf("QQbody%d", arg(1)))
				}
			default:
				return nil, fmt.Errorf("setter %q not supported in hand-written programs", a[0])
			}
			ops = append(ops, c19Op{[]string{t}, func(w *c19World) []string {
				ow := w.owners[o]
				f(w, ow.c, ow.r)
				return c19Quiet(1)
			}})
		default:
			return nil, fmt.Errorf("bad op %q", t)
		}
	}
	return ops, nil
}

// c19Safely is verifh.Safely plus the stack (VERIF_C19_STACK=1) for harness debugging.
func c19Safely(f func()) (string, bool) {
	if os.Getenv("VERIF_C19_STACK") == "" {
		return verifh.Safely(f)
	}
	var txt string
	var p bool
	func() {
		defer func() {
			if r := recover(); r != nil {
				txt, p = fmt.Sprint(r)+"\n"+string(debug.Stack()), true
			}
		}()
		f()
	}()
	return txt, p
}
