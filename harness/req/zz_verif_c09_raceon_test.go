//go:build verif && race

package req

// c09RaceEnabled: this test binary was built with -race (thorough tier, lanes with "race": true).
const c09RaceEnabled = true
