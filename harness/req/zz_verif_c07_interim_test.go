//go:build verif

package req

// C07 round 4 — interim-response sequences on all three protocols.
//
// 0..7 interim heads (100 / 102 / 103, a 101 somewhere, HTTP/2: a 1xx with END_STREAM) before the
// final head, x request shape (GET, POST with body, POST with body and Expect: 100-continue) x
// connection reuse (keep-alive / Connection: close) — through the real client against script peers.
// The outcome (final status + number of interim heads reported to the trace, or error) is compared
// with the Lean model of the three interim loops (C07.Interim); then a follow-up request on the same
// client, and the stuck-goroutine census after every connection was closed.

import (
	"bufio"
	"bytes"
	"context"
	"fmt"
	"io"
	"net"
	"net/http/httptrace"
	"net/textproto"
	"strconv"
	"strings"
	"sync"
	"sync/atomic"
	"testing"
	"time"

	"github.com/imroc/req/v3/internal/verifh"
)

type c07InterimCase struct {
	codes     []int // interim heads, in order
	endStream int   // HTTP/2: index of the interim head that carries END_STREAM (-1 none)
	final     int
	shape     int // 0 GET, 1 POST body, 2 POST body + Expect
	close     bool
}

func (ic c07InterimCase) modelArg() string {
	var parts []string
	for i, c := range ic.codes {
		p := strconv.Itoa(c)
		if i == ic.endStream {
			p += "e"
		}
		parts = append(parts, p)
	}
	parts = append(parts, strconv.Itoa(ic.final))
	return strings.Join(parts, ",")
}

func (ic c07InterimCase) String() string {
	return fmt.Sprintf("interim=%v endStreamAt=%d final=%d request=%s close=%v", ic.codes, ic.endStream, ic.final,
		[]string{"GET", "POST(body)", "POST(body)+Expect:100-continue"}[ic.shape], ic.close)
}

func c07InterimCases(proto int) []c07InterimCase {
	var out []c07InterimCase
	pats := [][]int{{100}, {103}, {100, 102, 103}, {103, 100}, {102}}
	shapes := []int{0, 1, 2}
	for k := 0; k <= 7; k++ {
		for pi, pat := range pats {
			if !verifh.Thorough() && k > 0 && (k+pi+int(verifh.Seed()))%2 == 0 && pi >= 2 {
				continue
			}
			for _, sh := range shapes {
				for _, cl := range []bool{false, true} {
					if proto != 1 && cl {
						continue
					}
					codes := make([]int, k)
					for i := range codes {
						codes[i] = pat[i%len(pat)]
					}
					final := 200
					if (k+sh)%4 == 3 {
						final = 204
					}
					out = append(out, c07InterimCase{codes, -1, final, sh, cl})
					if k == 0 {
						break
					}
				}
			}
		}
		// a 101 inside the sequence (terminal on HTTP/1.1 and HTTP/3, interim on HTTP/2)
		if k >= 1 && k <= 6 {
			codes := make([]int, k)
			for i := range codes {
				codes[i] = 103
			}
			codes[k-1] = 101
			out = append(out, c07InterimCase{codes, -1, 200, 0, proto == 1})
		}
		if proto == 2 && k >= 1 {
			codes := make([]int, k)
			for i := range codes {
				codes[i] = 100
			}
			out = append(out, c07InterimCase{codes, k - 1, 200, k % 2, false})
		}
	}
	return out
}

// c07InterimRun performs the call; the answer is "final <code> <n1xx>" or "error".
func c07InterimRun(c *Client, url string, shape int) (ans string, panicked bool, ptxt string) {
	ptxt, panicked = verifh.Safely(func() {
		var n1xx int32
		trace := &httptrace.ClientTrace{Got1xxResponse: func(code int, header textproto.MIMEHeader) error {
			atomic.AddInt32(&n1xx, 1)
			return nil
		}}
		r := c.R().SetContext(httptrace.WithClientTrace(context.Background(), trace))
		var rp *Response
		var err error
		switch shape {
		case 1:
			rp, err = r.SetBodyString(strings.Repeat("b", 300)).Post(url)
		case 2:
			rp, err = r.SetHeader("Expect", "100-continue").SetBodyString(strings.Repeat("b", 3000)).Post(url)
		default:
			rp, err = r.Get(url)
		}
		switch {
		case rp == nil:
			ans = "nil-response"
		case err != nil || rp.Response == nil:
			ans = "error"
		default:
			ans = fmt.Sprintf("final %d %d", rp.StatusCode, atomic.LoadInt32(&n1xx))
		}
	})
	return
}

// c07InterimSlow counts calls that ended only through the client timeout: after three of them a
// lane stops early (enough evidence; the time budget is for the other lanes).
var c07InterimSlow int

func c07InterimJudge(s *verifh.Session, proto int, ic c07InterimCase, run func() (string, bool, string)) bool {
	t0 := time.Now()
	defer func() {
		if time.Since(t0) > 6*time.Second {
			c07InterimSlow++
		}
	}()
	human := fmt.Sprintf("HTTP/%d %s", proto, ic)
	id := fmt.Sprintf("interim:h%d:%s:%d:%v", proto, ic.modelArg(), ic.shape, ic.close)
	s.Begin(id, human)
	type res struct {
		ans  string
		pan  bool
		ptxt string
	}
	ch := make(chan res, 1)
	go func() { a, p, t := run(); ch <- res{a, p, t} }()
	line := fmt.Sprintf("c07interim %d %s", proto, ic.modelArg())
	select {
	case r := <-ch:
		if r.pan {
			s.Count("panic")
			s.Case(line, "panic: "+truncate(r.ptxt, 1500), false, "", true, human)
			return true
		}
		s.Count(strings.SplitN(r.ans, " ", 2)[0])
		s.Case(line, r.ans, r.ans != "nil-response", "", true, human+" -> "+r.ans)
		return true
	case <-time.After(15 * time.Second):
		s.Count("wedged")
		s.Case(line, "wedged", false, "", true, human+" -> the call did not return within 15 s (client timeout 8 s); the peer sent everything and "+map[bool]string{true: "closed", false: "keeps the connection open"}[ic.close])
		return false
	}
}

// ---------------------------------------------------------------------------- HTTP/1.1

func TestVerif_C07_interim1(t *testing.T) {
	s := verifh.New(t, "C07", "interim1",
		"HTTP/1.1: k in 0..7 interim heads (patterns 100* / 103* / 100,102,103 / 103,100 / 102*, and a 101 at the end of k 103s) then a final 200/204 head, x request GET / POST body / POST body + Expect: 100-continue x keep-alive / Connection: close; keep-alive script peer that reads the request body after sending the interim heads; answer = final status + number of interim heads the trace saw, or error; model = C07.Interim (at most 5 non-terminal 1xx, 101 terminal); after each case a follow-up GET on the same client; at the end the census of read/write loops after every connection was closed; every case non-trivial")
	ln, err := net.Listen("tcp", "127.0.0.1:0")
	if err != nil {
		t.Fatal(err)
	}
	defer ln.Close()
	var mu sync.Mutex
	scripts := map[string]c07InterimCase{}
	var conns []net.Conn
	go func() {
		for {
			c, err := ln.Accept()
			if err != nil {
				return
			}
			mu.Lock()
			conns = append(conns, c)
			mu.Unlock()
			go func(c net.Conn) {
				defer c.Close()
				br := bufio.NewReader(c)
				for {
					c.SetDeadline(time.Now().Add(20 * time.Second))
					line, err := br.ReadString('\n')
					if err != nil {
						return
					}
					cl := 0
					for {
						h, err := br.ReadString('\n')
						if err != nil {
							return
						}
						if h == "\r\n" {
							break
						}
						if k, v, ok := strings.Cut(h, ":"); ok && strings.EqualFold(k, "content-length") {
							cl, _ = strconv.Atoi(strings.TrimSpace(v))
						}
					}
					parts := strings.Split(line, " ")
					if len(parts) < 2 {
						return
					}
					mu.Lock()
					ic, ok := scripts[parts[1]]
					mu.Unlock()
					if !ok {
						if cl > 0 {
							if _, err := io.CopyN(io.Discard, br, int64(cl)); err != nil {
								return
							}
						}
						c.Write([]byte("HTTP/1.1 200 OK\r\nContent-Type: application/json\r\nContent-Length: 2\r\n\r\n{}"))
						continue
					}
					var out bytes.Buffer
					for _, code := range ic.codes {
						switch code {
						case 103:
							out.WriteString("HTTP/1.1 103 Early Hints\r\nLink: </x>; rel=preload\r\n\r\n")
						case 101:
							out.WriteString("HTTP/1.1 101 Switching Protocols\r\nContent-Length: 0\r\n\r\n")
						default:
							fmt.Fprintf(&out, "HTTP/1.1 %d Interim\r\n\r\n", code)
						}
					}
					c.Write(out.Bytes())
					if cl > 0 {
						// the client sends the body after the first 100 or after ExpectContinueTimeout
						c.SetReadDeadline(time.Now().Add(3 * time.Second))
						if _, err := io.CopyN(io.Discard, br, int64(cl)); err != nil {
							return
						}
					}
					body := "ok"
					if ic.final == 204 {
						body = ""
					}
					fin := fmt.Sprintf("HTTP/1.1 %d Final\r\nContent-Type: text/plain\r\n", ic.final)
					if ic.final != 204 {
						fin += "Content-Length: " + strconv.Itoa(len(body)) + "\r\n"
					}
					if ic.close {
						fin += "Connection: close\r\n"
					}
					c.Write([]byte(fin + "\r\n" + body))
					if ic.close {
						time.Sleep(20 * time.Millisecond)
						return
					}
				}
			}(c)
		}
	}()
	base := "http://" + ln.Addr().String()
	mkc := func() *Client {
		c := C().SetTimeout(8 * time.Second).SetLogger(nil)
		c.GetTransport().ExpectContinueTimeout = 60 * time.Millisecond
		return c
	}
	c := mkc()
	c07InterimSlow = 0
	for i, ic := range c07InterimCases(1) {
		if c07InterimSlow >= 3 {
			s.Count("stopped-early")
			break
		}
		path := "/i" + strconv.Itoa(i)
		mu.Lock()
		scripts[path] = ic
		mu.Unlock()
		s.Count("shape" + strconv.Itoa(ic.shape))
		s.Count("k" + strconv.Itoa(len(ic.codes)))
		if !c07InterimJudge(s, 1, ic, func() (string, bool, string) { return c07InterimRun(c, base+path, ic.shape) }) {
			c = mkc()
			continue
		}
		// the client must stay usable
		ok := false
		var ferr error
		for try := 0; try < 3 && !ok; try++ {
			done := make(chan struct{})
			go func() {
				defer close(done)
				rp, err := c.R().Get(base + "/follow")
				ferr = err
				ok = err == nil && rp != nil && rp.StatusCode == 200
			}()
			select {
			case <-done:
			case <-time.After(15 * time.Second):
				ferr = fmt.Errorf("follow-up did not return within 15 s")
				try = 3
			}
		}
		s.Observe("interim1-followup:"+path, ok, "", false, "", fmt.Sprintf("HTTP/1.1 %s: the follow-up request on the same client failed: %v", ic, ferr))
	}
	c.GetTransport().CloseIdleConnections()
	ln.Close()
	mu.Lock()
	for _, cn := range conns {
		cn.Close()
	}
	mu.Unlock()
	stuck, where := c07StuckLoops("(*persistConn).readLoop", "(*persistConn).writeLoop")
	s.Observe("stuck-h1-loops", stuck == 0, "", true, fmt.Sprintf("HTTP/1.1 connection loops still alive after every connection was closed: %d", stuck),
		fmt.Sprintf("%d HTTP/1.1 read/write loop goroutines are stuck after every connection was closed, e.g.:\n%s", stuck, where))
	s.Finish()
}

// ---------------------------------------------------------------------------- HTTP/2

func TestVerif_C07_interim2(t *testing.T) {
	s := verifh.New(t, "C07", "interim2",
		"HTTP/2 (prior knowledge): k in 0..7 interim HEADERS (:status 100 / 102 / 103 patterns, a 101, a 1xx carrying END_STREAM) then final HEADERS + DATA, x request GET / POST body / POST body + Expect: 100-continue; frame-script peer; answer = final status + number of interim heads the trace saw, or error; model = C07.Interim (every 100..199 counts, at most 5, END_STREAM on a 1xx is an error); follow-up request; census of HTTP/2 read-loop / request goroutines after every connection was closed; every case non-trivial")
	peer := newC07H2Peer(t)
	defer peer.closeAll()
	base := "http://" + peer.ln.Addr().String()
	mkc := func() *Client {
		c := C().SetTimeout(8 * time.Second).EnableH2C().EnableForceHTTP2().SetLogger(nil)
		c.GetTransport().ExpectContinueTimeout = 60 * time.Millisecond
		return c
	}
	c := mkc()
	c07InterimSlow = 0
	for i, ic := range c07InterimCases(2) {
		if c07InterimSlow >= 3 {
			s.Count("stopped-early")
			break
		}
		var out bytes.Buffer
		out.Write(c07Frame{-1, 4, 0, 0, nil}.bytes())
		for j, code := range ic.codes {
			fl := byte(0x4)
			if j == ic.endStream {
				fl |= 1
			}
			fields := [][2]string{{":status", strconv.Itoa(code)}}
			if code == 103 {
				fields = append(fields, [2]string{"link", "</x>; rel=preload"})
			}
			out.Write(c07Frame{-1, 1, fl, 1, c07Hpack(fields...)}.bytes())
		}
		if ic.final == 204 {
			out.Write(c07Frame{-1, 1, 0x5, 1, c07Hpack([2]string{":status", "204"})}.bytes())
		} else {
			out.Write(c07Frame{-1, 1, 0x4, 1, c07Hpack([2]string{":status", strconv.Itoa(ic.final)}, [2]string{"content-type", "text/plain"})}.bytes())
			out.Write(c07Frame{-1, 0, 1, 1, []byte("ok")}.bytes())
		}
		path := "/i" + strconv.Itoa(i)
		peer.set(path, c07Script{data: out.Bytes()})
		s.Count("shape" + strconv.Itoa(ic.shape))
		s.Count("k" + strconv.Itoa(len(ic.codes)))
		c07InterimJudge(s, 2, ic, func() (string, bool, string) { return c07InterimRun(c, base+path, ic.shape) })
		// the script peer serves one request per connection (stream 1): a new connection per case
		c.GetTransport().CloseIdleConnections()
		c = mkc()
	}
	ok := false
	var ferr error
	for try := 0; try < 4 && !ok; try++ {
		rp, err := c.R().Get(base + "/follow")
		ferr = err
		ok = err == nil && rp != nil && rp.StatusCode == 200
	}
	s.Observe("interim2-followup", ok, "", true, "follow-up request on the client", fmt.Sprintf("HTTP/2 client unusable after the interim sequences: %v", ferr))
	c.GetTransport().CloseIdleConnections()
	peer.closeAll()
	stuck, where := c07StuckLoops("http2.(*ClientConn).readLoop", "http2.(*clientStream).doRequest")
	s.Observe("stuck-h2-loops", stuck == 0, "", true, fmt.Sprintf("HTTP/2 connection/stream goroutines still alive after every connection was closed: %d", stuck),
		fmt.Sprintf("%d HTTP/2 read-loop / request goroutines are stuck after every connection was closed, e.g.:\n%s", stuck, where))
	s.Finish()
}

// ---------------------------------------------------------------------------- HTTP/3

func TestVerif_C07_interim3(t *testing.T) {
	s := verifh.New(t, "C07", "interim3",
		"HTTP/3: k in 0..7 interim HEADERS frames (:status 100 / 102 / 103 patterns, a 101) then final HEADERS + DATA on the request stream, x request GET / POST body / POST body + Expect: 100-continue; raw QUIC peer; answer = final status + number of interim heads the trace saw, or error; model = C07.Interim (at most 5 non-terminal 1xx, 101 terminal); follow-up request; goroutines settle; every case non-trivial")
	probe := C().EnableForceHTTP3()
	if probe.t3 == nil {
		t.Fatalf("HTTP/3 not available on this toolchain: no tests to run")
	}
	peer := newC07H3Peer(t)
	defer peer.closeAll()
	base := "https://" + peer.ln.Addr().String()
	mkc := func() *Client {
		return C().SetTimeout(8 * time.Second).EnableForceHTTP3().EnableInsecureSkipVerify().SetLogger(nil)
	}
	c := mkc()
	c07InterimSlow = 0
	for i, ic := range c07InterimCases(3) {
		if c07InterimSlow >= 3 {
			s.Count("stopped-early")
			break
		}
		var out bytes.Buffer
		for _, code := range ic.codes {
			fields := [][2]string{{":status", strconv.Itoa(code)}}
			if code == 103 {
				fields = append(fields, [2]string{"link", "</x>; rel=preload"})
			}
			out.Write(c07H3Frame(0x1, c07Qpack(fields...)))
		}
		if ic.final == 204 {
			out.Write(c07H3Frame(0x1, c07Qpack([2]string{":status", "204"})))
		} else {
			out.Write(c07H3Frame(0x1, c07Qpack([2]string{":status", strconv.Itoa(ic.final)}, [2]string{"content-type", "text/plain"})))
			out.Write(c07H3Frame(0x0, []byte("ok")))
		}
		path := "/i" + strconv.Itoa(i)
		peer.set(path, c07H3Script{response: out.Bytes(), reset: -1, control: []byte{0x00, 0x04, 0x00}})
		s.Count("shape" + strconv.Itoa(ic.shape))
		s.Count("k" + strconv.Itoa(len(ic.codes)))
		if !c07InterimJudge(s, 3, ic, func() (string, bool, string) { return c07InterimRun(c, base+path, ic.shape) }) {
			if c.t3 != nil {
				c.t3.Close()
			}
			c = mkc()
		}
	}
	ok := false
	var ferr error
	for try := 0; try < 3 && !ok; try++ {
		rp, err := c.R().Get(base + "/follow")
		ferr = err
		ok = err == nil && rp != nil && rp.StatusCode == 200
	}
	s.Observe("interim3-followup", ok, "", true, "follow-up request on the client", fmt.Sprintf("HTTP/3 client unusable after the interim sequences: %v", ferr))
	c.GetTransport().CloseIdleConnections()
	if c.t3 != nil {
		c.t3.Close()
	}
	s.Finish()
}
