//go:build verif

package req

// C07 round 6 — three classes of "one call costs without bound":
//
//   h1bodiless  in-package, model-judged (H1.parseResponse, lane c07h1pos; theorems
//               bodiless_framing_none / bodiless_needs_no_more_bytes): every status that forbids a body
//               (1xx, 204, 304) and HEAD, next to statuses that allow one, x every combination of framing
//               fields x what follows the head on the connection (nothing = the server stays silent).
//   announce    oracle-judged, the three protocols through real clients: a response that ANNOUNCES a
//               huge length (Content-Length, chunk size, frame length) and sends little; the bytes the
//               process allocates while the call runs (runtime.MemStats.TotalAlloc) must stay below
//               8 MiB + what was received.
//   exchanges   model-judged (C07.Exchanges.call, lane c07exchanges; theorem requests_bounded): a server
//               that answers every request with a fresh Digest challenge (stale=true) / a redirect to
//               itself / a retry-able status, in every cyclic pattern, x redirect policy x retry count x
//               digest on/off, over HTTP/1.1 and HTTP/2: requests counted at the server per call.

import (
	"fmt"
	"net/http"
	"net/http/httptest"
	"runtime"
	"strconv"
	"strings"
	"sync"
	"testing"
	"time"

	"github.com/imroc/req/v3/internal/verifh"
	"github.com/quic-go/quic-go/quicvarint"
)

// ---------------------------------------------------------------------------- h1bodiless

func TestVerif_C07_h1bodiless(t *testing.T) {
	s := verifh.New(t, "C07", "h1bodiless",
		"HTTP/1.x heads: status in {100, 101, 103, 199, 204, 304 (no body allowed), 200, 205, 404} x request method GET / HEAD x framing fields {none, Transfer-Encoding: chunked, Content-Length: 5, Content-Length: 0, both in either order, `Chunked`, two equal Content-Length, two Transfer-Encoding lines, gzip+chunked, Content-Length: -1} x Connection {none, close, keep-alive} x protocol 1.1 / 1.0 x what follows the head {nothing (the server stays silent), a chunked body, 5 raw bytes, a last-chunk, the next response} x delivery (whole, 1 byte per read); real persistConn._readResponse + body drain vs Lean H1.parseResponse on the outcome class (framing none / chunked / len / close, body length, end); a body reader that waits for bytes a bodiless response never gets shows as framing != none; every case non-trivial")
	statuses := []string{"100 Continue", "101 Switching Protocols", "103 Early Hints", "199 X", "204 No Content", "304 Not Modified", "200 OK", "205 Reset Content", "404 Not Found"}
	framings := []string{
		"",
		"Transfer-Encoding: chunked\r\n",
		"Content-Length: 5\r\n",
		"Content-Length: 0\r\n",
		"Transfer-Encoding: chunked\r\nContent-Length: 5\r\n",
		"Content-Length: 5\r\nTransfer-Encoding: chunked\r\n",
		"Transfer-Encoding: Chunked\r\n",
		"Content-Length: 5\r\nContent-Length: 5\r\n",
		"Transfer-Encoding: chunked\r\nTransfer-Encoding: chunked\r\n",
		"Transfer-Encoding: gzip, chunked\r\n",
		"Content-Length: -1\r\n",
		"Transfer-Encoding: chunked\r\nTrailer: X-T\r\n",
	}
	conns := []string{"", "Connection: close\r\n", "Connection: keep-alive\r\n"}
	rests := []string{"", "5\r\nhello\r\n0\r\n\r\n", "hello", "0\r\n\r\n", "HTTP/1.1 200 OK\r\nContent-Length: 0\r\n\r\n"}
	n := 0
	for _, st := range statuses {
		for _, fr := range framings {
			for _, cn := range conns {
				for _, rest := range rests {
					for _, proto := range []string{"HTTP/1.1", "HTTP/1.0"} {
						n++
						if proto == "HTTP/1.0" && !verifh.Thorough() && (n+int(verifh.Seed()))%3 != 0 {
							continue
						}
						for _, method := range []string{"GET", "HEAD"} {
							seg := 0
							if (n+len(method))%2 == 0 {
								seg = 1
							}
							stream := []byte(proto + " " + st + "\r\n" + fr + cn + "\r\n" + rest)
							ans, panicked, ptxt := c07ReadOne(stream, method, 4096, seg, 512, false)
							human := fmt.Sprintf("method=%s seg=%d stream=%q", method, seg, stream)
							line := "c07h1pos " + method[:1] + " 4096 " + verifh.Hex(string(stream))
							if panicked {
								s.Count("panic")
								s.Case(line, "panic: "+truncate(ptxt, 1500), false, "", true, human)
								continue
							}
							bodiless := method == "HEAD" || st[0] == '1' || strings.HasPrefix(st, "204") || strings.HasPrefix(st, "304")
							if bodiless {
								s.Count("bodiless:" + map[bool]string{true: "framing-none", false: "OTHER"}[strings.Contains(ans, "framing=none") || ans == "rej"])
							} else {
								s.Count("body-allowed")
							}
							s.Case(line, ans, true, "", true, human+" -> "+ans)
						}
					}
				}
			}
		}
	}
	s.Finish()
}

// ---------------------------------------------------------------------------- announce

func c07AllocDuring(f func()) uint64 {
	runtime.GC()
	var m0, m1 runtime.MemStats
	runtime.ReadMemStats(&m0)
	f()
	runtime.ReadMemStats(&m1)
	return m1.TotalAlloc - m0.TotalAlloc
}

func TestVerif_C07_announce(t *testing.T) {
	s := verifh.New(t, "C07", "announce",
		"a response that ANNOUNCES a huge length N in {64 MiB, 512 MiB, 2^40, 2^62} and sends little, on the three protocols through real clients (auto-read on): HTTP/1.1 Content-Length N + 1 byte + close; chunk size N + 1 byte + close; HTTP/2 content-length N + DATA of 1 byte / of 16 KiB (+ END_STREAM, RST_STREAM or connection close), DATA / HEADERS / CONTINUATION frame header with length 2^24-1 and no payload (allowance + 2^24: the Framer's one read buffer per connection follows the 24-bit length field); HTTP/3 content-length N + DATA frame of 1 byte, DATA frame declaring N with 1 byte, HEADERS frame declaring N; oracle: the call returns within 20 s and the process allocated (runtime.MemStats.TotalAlloc, GC before) at most 8 MiB + the bytes received while it ran; ascending N, escalation stops at the first violation; every case non-trivial")
	const slack = 8 << 20
	Ns := []uint64{64 << 20, 512 << 20, 1 << 40, 1 << 62}
	violated := false
	judge := func(human string, received int, run func() string) {
		if violated {
			s.Count("skipped-after-violation")
			return
		}
		s.Begin("announce:"+human, human)
		var kind string
		done := make(chan struct{})
		alloc := c07AllocDuring(func() {
			go func() {
				defer close(done)
				ptxt, pan := verifh.Safely(func() { kind = run() })
				if pan {
					kind = "panic: " + truncate(ptxt, 600)
				}
			}()
			select {
			case <-done:
			case <-time.After(20 * time.Second):
				kind = "wedged"
			}
		})
		ok := !strings.HasPrefix(kind, "panic") && kind != "wedged" && alloc <= uint64(slack+received)
		if !ok {
			violated = true
		}
		s.Count(strings.SplitN(kind, ":", 2)[0])
		detail := fmt.Sprintf("%s -> %s; the process allocated %d bytes while the call ran (bound %d = 8 MiB + %d received)", human, kind, alloc, slack+received, received)
		s.Observe("announce:"+human, ok, "", true, detail, detail)
	}
	call := func(c *Client, url string) string {
		rp, err := c.R().Get(url)
		if err != nil || rp == nil || rp.Err != nil {
			return "error"
		}
		return "response:" + strconv.Itoa(len(rp.Bytes()))
	}
	// ---- HTTP/1.1
	{
		peer := newC07Peer(t)
		base := "http://" + peer.ln.Addr().String()
		seq := 0
		for _, N := range Ns {
			shapes := map[string]string{
				"content-length":    "HTTP/1.1 200 OK\r\nContent-Length: " + strconv.FormatUint(N, 10) + "\r\n\r\nx",
				"chunk-size":        "HTTP/1.1 200 OK\r\nTransfer-Encoding: chunked\r\n\r\n" + strconv.FormatUint(N, 16) + "\r\nx",
				"content-length+ce": "HTTP/1.1 200 OK\r\nContent-Encoding: gzip\r\nContent-Length: " + strconv.FormatUint(N, 10) + "\r\n\r\n" + string(c07Gzip([]byte("x"))),
			}
			for _, name := range []string{"content-length", "chunk-size", "content-length+ce"} {
				seq++
				path := "/an" + strconv.Itoa(seq)
				peer.set(path, c07Script{data: []byte(shapes[name])})
				c := C().SetTimeout(10 * time.Second).SetLogger(nil)
				judge(fmt.Sprintf("HTTP/1.1 %s announces %d, sends 1 byte, closes", name, N), len(shapes[name]), func() string { return call(c, base+path) })
				c.GetTransport().CloseIdleConnections()
			}
		}
		peer.closeAll()
	}
	// ---- HTTP/2
	{
		peer := newC07H2Peer(t)
		base := "http://" + peer.ln.Addr().String()
		seq := 0
		settings := c07Frame{-1, 4, 0, 0, nil}.bytes()
		big := strings.Repeat("d", 16384)
		for _, N := range Ns {
			head := c07Frame{-1, 1, 0x4, 1, c07Hpack([2]string{":status", "200"}, [2]string{"content-length", strconv.FormatUint(N, 10)})}.bytes()
			type sh struct {
				name string
				tail []byte
			}
			shapes := []sh{
				{"DATA 1 byte, connection closed", c07Frame{-1, 0, 0, 1, []byte("x")}.bytes()},
				{"DATA 1 byte END_STREAM", c07Frame{-1, 0, 1, 1, []byte("x")}.bytes()},
				{"DATA 1 byte, RST_STREAM", append(c07Frame{-1, 0, 0, 1, []byte("x")}.bytes(), c07Frame{-1, 3, 0, 1, c07U32(8)}.bytes()...)},
				{"DATA 16 KiB + 1 byte END_STREAM", append(c07Frame{-1, 0, 0, 1, []byte(big)}.bytes(), c07Frame{-1, 0, 1, 1, []byte("x")}.bytes()...)},
			}
			for _, x := range shapes {
				seq++
				path := "/an" + strconv.Itoa(seq)
				data := append(append(append([]byte{}, settings...), head...), x.tail...)
				peer.set(path, c07Script{data: data})
				c := C().SetTimeout(10 * time.Second).EnableH2C().EnableForceHTTP2().SetLogger(nil)
				judge(fmt.Sprintf("HTTP/2 content-length %d, %s", N, x.name), len(data), func() string { return call(c, base+path) })
				c.GetTransport().CloseIdleConnections()
			}
		}
		for _, typ := range []int{0, 1, 9} {
			seq++
			path := "/an" + strconv.Itoa(seq)
			hdr := []byte{0xff, 0xff, 0xff, byte(typ), 0x4, 0, 0, 0, 1}
			data := append(append([]byte{}, settings...), hdr...)
			peer.set(path, c07Script{data: data})
			c := C().SetTimeout(10 * time.Second).EnableH2C().EnableForceHTTP2().SetLogger(nil)
			// the Framer's read buffer follows the 24-bit length field of the frame header (maxReadSize =
			// 2^24-1, one buffer per connection, reused): the announced length is part of the allowance
			judge(fmt.Sprintf("HTTP/2 frame header type %d announcing 2^24-1 bytes, nothing follows (allowance: one frame buffer of 2^24 bytes)", typ), len(data)+1<<24, func() string { return call(c, base+path) })
			c.GetTransport().CloseIdleConnections()
		}
		peer.closeAll()
	}
	// ---- HTTP/3
	if C().EnableForceHTTP3().t3 != nil {
		peer := newC07H3Peer(t)
		base := "https://" + peer.ln.Addr().String()
		c := C().SetTimeout(10 * time.Second).EnableForceHTTP3().EnableInsecureSkipVerify().SetLogger(nil)
		// warm the connection up: the handshake is not part of any case
		peer.set("/warm", c07H3Script{response: append(c07H3Frame(0x1, c07Qpack([2]string{":status", "200"})), c07H3Frame(0x0, []byte("ok"))...), reset: -1, control: []byte{0x00, 0x04, 0x00}})
		_ = call(c, base+"/warm")
		seq := 0
		for _, N := range Ns {
			if N >= 1<<62 {
				N = 1<<62 - 1
			}
			headCL := c07H3Frame(0x1, c07Qpack([2]string{":status", "200"}, [2]string{"content-length", strconv.FormatUint(N, 10)}))
			headPlain := c07H3Frame(0x1, c07Qpack([2]string{":status", "200"}))
			declared := func(typ uint64) []byte {
				b := quicvarint.Append(nil, typ)
				b = quicvarint.Append(b, N)
				return append(b, 'x')
			}
			type sh struct {
				name string
				data []byte
			}
			shapes := []sh{
				{"content-length N, DATA frame of 1 byte, FIN", append(append([]byte{}, headCL...), c07H3Frame(0x0, []byte("x"))...)},
				{"DATA frame declaring N with 1 byte, FIN", append(append([]byte{}, headPlain...), declared(0x0)...)},
				{"HEADERS frame declaring N", declared(0x1)},
				{"trailer HEADERS frame declaring N", append(append(append([]byte{}, headPlain...), c07H3Frame(0x0, []byte("x"))...), declared(0x1)...)},
				{"unknown frame declaring N before the head", append(declared(0x21), headPlain...)},
			}
			for _, x := range shapes {
				seq++
				path := "/an" + strconv.Itoa(seq)
				peer.set(path, c07H3Script{response: x.data, reset: -1, control: []byte{0x00, 0x04, 0x00}})
				judge(fmt.Sprintf("HTTP/3 N=%d: %s", N, x.name), len(x.data), func() string { return call(c, base+path) })
			}
		}
		c.GetTransport().CloseIdleConnections()
		if c.t3 != nil {
			c.t3.Close()
		}
		peer.closeAll()
	}
	s.Finish()
}

// ---------------------------------------------------------------------------- exchanges

type c07XServer struct {
	mu      sync.Mutex
	pattern map[string]string
	count   map[string]int
	nonce   int
}

const c07XCap = 120 // a runaway call is ended by the server after this many requests

func (x *c07XServer) ServeHTTP(w http.ResponseWriter, r *http.Request) {
	id := r.URL.Path
	x.mu.Lock()
	p := x.pattern[id]
	i := x.count[id]
	x.count[id] = i + 1
	x.nonce++
	nonce := x.nonce
	x.mu.Unlock()
	kind := byte('O')
	if p != "" && i < c07XCap {
		kind = p[i%len(p)]
	}
	switch kind {
	case 'C':
		alg := []string{"MD5", "SHA-256", "MD5-sess"}[nonce%3]
		w.Header().Set("WWW-Authenticate", fmt.Sprintf(`Digest realm="verif", nonce="n%d", qop="auth", algorithm=%s, stale=true, opaque="o"`, nonce, alg))
		w.WriteHeader(401)
		w.Write([]byte("challenge"))
	case 'R':
		w.Header().Set("Location", id)
		w.WriteHeader(302)
	case 'A':
		w.Header().Set("Retry-After", "0")
		w.WriteHeader(503)
		w.Write([]byte("again"))
	default:
		w.WriteHeader(200)
		w.Write([]byte("ok"))
	}
}

func TestVerif_C07_exchanges(t *testing.T) {
	s := verifh.New(t, "C07", "exchanges",
		"a server that answers the i-th request of a call by the i-th letter of a pattern repeated for ever — C = 401 with a fresh answerable Digest challenge marked stale=true (new nonce, algorithm MD5 / SHA-256 / MD5-sess), R = 302 to the same URL, A = 503 (the caller's retry condition), O = 200 — patterns: every word of length 1..2 over {C, R, A, O} and random words of length 3..5; client: MaxRedirectPolicy k in {0, 1, 2, 3, 10} x retry count n in {0, 1, 2, 3} (fixed 1 ms interval, condition = status 503) x digest auth on / off; HTTP/1.1 (plain) and HTTP/2 (TLS, ALPN); requests counted at the server per call; answer `n=<requests> <last answer>`; model = C07.Exchanges.call (theorem requests_bounded: n <= (retries+1) x (max k 1 + digest)); a call that does not return within 20 s is `wedged` (the server ends a runaway call after 120 requests); every case non-trivial")
	r := s.Rand()
	xs := &c07XServer{pattern: map[string]string{}, count: map[string]int{}}
	h1 := httptest.NewServer(xs)
	defer h1.Close()
	h2 := httptest.NewUnstartedServer(xs)
	h2.EnableHTTP2 = true
	h2.StartTLS()
	defer h2.Close()
	var patterns []string
	letters := "CRAO"
	for i := 0; i < 4; i++ {
		patterns = append(patterns, letters[i:i+1])
		for j := 0; j < 4; j++ {
			patterns = append(patterns, letters[i:i+1]+letters[j:j+1])
		}
	}
	type cfg struct {
		k, n   int
		digest bool
	}
	var cfgs []cfg
	for _, k := range []int{0, 1, 2, 3, 10} {
		for _, n := range []int{0, 1, 2, 3} {
			for _, d := range []bool{false, true} {
				cfgs = append(cfgs, cfg{k, n, d})
			}
		}
	}
	type xcase struct {
		c   cfg
		pat string
		h2  bool
	}
	var cases []xcase
	// the four "for ever" servers under every configuration, on both protocols
	for _, c := range cfgs {
		for _, p := range []string{"C", "R", "A", "CA", "RC"} {
			cases = append(cases, xcase{c, p, false})
			if c.k != 2 && c.n != 2 {
				cases = append(cases, xcase{c, p, true})
			}
		}
	}
	extra := verifh.N(150, 4000)
	for i := 0; i < extra; i++ {
		p := verifh.Pick(r, patterns)
		if r.Intn(3) == 0 {
			p = verifh.RandBytes(r, 3+r.Intn(3), letters)
		}
		cases = append(cases, xcase{verifh.Pick(r, cfgs), p, r.Intn(3) == 0})
	}
	clients := map[string]*Client{}
	client := func(x xcase) *Client {
		key := fmt.Sprintf("%d/%d/%v/%v", x.c.k, x.c.n, x.c.digest, x.h2)
		if c, ok := clients[key]; ok {
			return c
		}
		c := C().SetTimeout(15 * time.Second).SetLogger(nil).SetRedirectPolicy(MaxRedirectPolicy(x.c.k))
		if x.h2 {
			c.EnableInsecureSkipVerify().EnableForceHTTP2()
		}
		if x.c.n > 0 {
			c.SetCommonRetryCount(x.c.n).SetCommonRetryFixedInterval(time.Millisecond).
				SetCommonRetryCondition(func(resp *Response, err error) bool {
					return err == nil && resp != nil && resp.Response != nil && resp.StatusCode == 503
				})
		}
		if x.c.digest {
			c.SetCommonDigestAuth("user", "pass")
		}
		clients[key] = c
		return c
	}
	timeouts := 0
	for ci, x := range cases {
		if timeouts >= 3 {
			s.Count("skipped-after-wedges")
			continue
		}
		id := "/x" + strconv.Itoa(ci)
		xs.mu.Lock()
		xs.pattern[id] = x.pat
		xs.mu.Unlock()
		base := h1.URL
		if x.h2 {
			base = h2.URL
		}
		c := client(x)
		last := ""
		proto := ""
		done := make(chan struct{})
		go func() {
			defer close(done)
			ptxt, pan := verifh.Safely(func() {
				rp, err := c.R().Get(base + id)
				switch {
				case err != nil && strings.Contains(err.Error(), "stopped after"):
					last = "stopped"
				case err != nil:
					last = "error:" + truncate(err.Error(), 160)
				case rp == nil || rp.Response == nil:
					last = "nil"
				default:
					proto = rp.Proto
					switch rp.StatusCode {
					case 200:
						last = "ok"
					case 302:
						last = "redirect"
					case 401:
						last = "challenge"
					case 503:
						last = "again"
					default:
						last = "status" + strconv.Itoa(rp.StatusCode)
					}
				}
			})
			if pan {
				last = "panic:" + truncate(ptxt, 600)
			}
		}()
		wedged := false
		select {
		case <-done:
		case <-time.After(20 * time.Second):
			wedged = true
			timeouts++
		}
		xs.mu.Lock()
		n := xs.count[id]
		xs.mu.Unlock()
		d := "0"
		if x.c.digest {
			d = "1"
		}
		line := fmt.Sprintf("c07exchanges %d %d %s %s", x.c.k, x.c.n, d, x.pat)
		ans := "n=" + strconv.Itoa(n) + " " + last
		if wedged {
			ans = "wedged after " + strconv.Itoa(n) + " requests"
		}
		if !wedged && x.h2 && proto != "" && proto != "HTTP/2.0" {
			s.Count("h2-not-negotiated")
		}
		human := fmt.Sprintf("server pattern %q for ever, MaxRedirectPolicy(%d), retry count %d, digest auth %v, %s -> %s", x.pat, x.c.k, x.c.n, x.c.digest, map[bool]string{true: "HTTP/2", false: "HTTP/1.1"}[x.h2], ans)
		s.Count("proto:" + map[bool]string{true: "h2", false: "h1"}[x.h2])
		if n >= c07XCap {
			s.Count("runaway")
		}
		s.Case(line, ans, true, "", true, human)
	}
	for _, c := range clients {
		c.GetTransport().CloseIdleConnections()
	}
	s.Finish()
}
