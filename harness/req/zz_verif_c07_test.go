//go:build verif

package req

import (
	"bytes"
	"compress/flate"
	"compress/gzip"
	"context"
	"crypto/tls"
	"fmt"
	"io"
	"math/rand"
	"net"
	"os"
	"path/filepath"
	"runtime"
	"strconv"
	"strings"
	"sync"
	"sync/atomic"
	"syscall"
	"testing"
	"time"

	"github.com/andybalholm/brotli"
	"github.com/imroc/req/v3/internal/altsvcutil"
	"github.com/imroc/req/v3/internal/verifh"
	"github.com/klauspost/compress/zstd"
)

// c07Intn is rand.Intn that tolerates n <= 0 (an empty thing to cut / index: 0).
func c07Intn(r *rand.Rand, n int) int {
	if n <= 0 {
		return 0
	}
	return r.Intn(n)
}

// c07Gen runs a case generator of the harness itself: a panic in it is an error of the check (bin/check
// exit 2), never a finding about the implementation.
func c07Gen(t *testing.T, what string, f func()) {
	if ptxt, panicked := verifh.Safely(f); panicked {
		t.Fatalf("harness error: the %s generator panicked (the check is broken, not the implementation; no tests to run): %s", what, ptxt)
	}
}

// ---------------------------------------------------------------- Alt-Svc unit lane

func c07AltSvcImpl(v string) (ans string, panicked bool, ptxt string) {
	ptxt, panicked = verifh.Safely(func() {
		as, err := altsvcutil.ParseHeader(v)
		cls := "ok"
		if err != nil {
			cls = "err"
		}
		var items []string
		for _, a := range as {
			ma := "1"
			if a.Expire.Year() == 9999 {
				ma = "0"
			}
			items = append(items, verifh.Hex(a.Protocol)+","+verifh.Hex(a.Host)+","+verifh.Hex(a.Port)+","+ma)
		}
		if len(items) == 0 {
			ans = cls + " -"
		} else {
			ans = cls + " " + strings.Join(items, ";")
		}
	})
	return
}

// TestVerif_C07_altsvc: real altsvcutil.ParseHeader vs the Lean model (ASCII inputs compared
// exactly; arbitrary bytes checked for termination and absence of panics).
func TestVerif_C07_altsvc(t *testing.T) {
	s := verifh.New(t, "C07", "altsvc",
		"Alt-Svc header values: grammar-directed (entries proto=\"host:port\"; ma=N; persist=1, separators , ;) with faults (missing quotes, empty keys/values, stray delimiters, huge/negative/non-numeric ma, brackets) and random ASCII/binary strings; non-trivial = contains '=' and at least one delimiter; distinct by value")
	r := s.Rand()
	protos := []string{"h3", "h2", "h3-29", "", " h3", "quic", "h3 "}
	hosts := []string{"", "alt.example", "[::1]", "[", "]", "a:b", "127.0.0.1", "x"}
	ports := []string{":443", ":", "", ":8443", ":x", ":99999999999999999999"}
	mas := []string{"3600", "0", "-1", "9223372036854775807", "9223372036854775808", "abc", "", "+5", "1_0", " 7"}
	gen := func() string {
		switch r.Intn(10) {
		case 0:
			return verifh.RandBytes(r, r.Intn(40), "h3=\";:, ma0[]x\\")
		case 1:
			return verifh.RandBytes(r, r.Intn(30), "")
		}
		var b strings.Builder
		n := 1 + r.Intn(3)
		for i := 0; i < n; i++ {
			if i > 0 {
				b.WriteString(verifh.Pick(r, []string{",", ", ", " , ", ";", ""}))
			}
			b.WriteString(verifh.Pick(r, protos))
			b.WriteString(verifh.Pick(r, []string{"=", "=", "=", "", " = "}))
			q := verifh.Pick(r, []string{"\"", "\"", "\"", ""})
			q2 := q
			if r.Intn(8) == 0 {
				q2 = ""
			}
			b.WriteString(q + verifh.Pick(r, hosts) + verifh.Pick(r, ports) + q2)
			if r.Intn(3) > 0 {
				b.WriteString(verifh.Pick(r, []string{";", "; ", " ;", ";;"}))
				b.WriteString(verifh.Pick(r, []string{"ma", "ma", "ma", "MA", "persist", ""}))
				b.WriteString("=")
				b.WriteString(verifh.Pick(r, mas))
				for k := r.Intn(3); k > 0; k-- {
					b.WriteString(verifh.Pick(r, []string{"; persist=1", ";x=", ";=", ";;", "; v=\"46,43\"", ";a=\"", ";a=b"}))
				}
			}
		}
		return b.String()
	}
	n := verifh.N(6000, 300000)
	for i := 0; i < n; i++ {
		v := gen()
		done := make(chan struct{})
		var ans, ptxt string
		var panicked bool
		go func() { ans, panicked, ptxt = c07AltSvcImpl(v); close(done) }()
		select {
		case <-done:
		case <-time.After(10 * time.Second):
			s.Observe("altsvc:"+verifh.Hex(v), false, "", true, "Alt-Svc: "+strconv.Quote(v), "ParseHeader did not return within 10s (spin)")
			continue
		}
		if panicked {
			s.Crash("altsvc:"+verifh.Hex(v), "Alt-Svc: "+strconv.Quote(v), "panic: "+ptxt, "")
			continue
		}
		ascii := true
		for j := 0; j < len(v); j++ {
			if v[j] >= 0x80 || v[j] == 0x85 {
				ascii = false
			}
		}
		nontriv := strings.Contains(v, "=") && strings.ContainsAny(v, ",;")
		if strings.HasPrefix(ans, "err") {
			s.Count("error")
		} else if strings.HasSuffix(ans, " -") {
			s.Count("ok-empty")
		} else {
			s.Count("ok-entries")
		}
		if ascii {
			s.Case("c07altsvc "+verifh.Hex(v), ans, true, "", nontriv, "Alt-Svc: "+strconv.Quote(v)+" -> "+ans)
		} else {
			s.Count("non-ascii(total-only)")
			s.Observe("altsvc:"+verifh.Hex(v), true, "", false, "", "")
		}
	}
	s.Finish()
}

// ---------------------------------------------------------------- hostile HTTP/1.1 origin

type c07Conn struct {
	net.Conn
	reads *int64
}

func (c *c07Conn) Read(p []byte) (int, error) {
	n, err := c.Conn.Read(p)
	atomic.AddInt64(c.reads, int64(n))
	return n, err
}

// c07Peer serves scripted byte strings: the script for a connection is chosen by the request
// path "/<n>".
type c07Peer struct {
	tlsLn   net.Listener // the same origin behind TLS (ALPN http/1.1 only)
	ln      net.Listener
	mu      sync.Mutex
	scripts map[string]c07Script
	conns   []net.Conn
}

func (p *c07Peer) closeAll() {
	p.ln.Close()
	if p.tlsLn != nil {
		p.tlsLn.Close()
	}
	p.mu.Lock()
	for _, c := range p.conns {
		c.Close()
	}
	p.conns = nil
	p.mu.Unlock()
}

type c07Script struct {
	data    []byte
	endless []byte // repeated after data until the client goes away or cap is reached
	cap     int
}

func newC07Peer(t *testing.T) *c07Peer {
	ln, err := net.Listen("tcp", "127.0.0.1:0")
	if err != nil {
		t.Fatalf("listen: %v", err)
	}
	p := &c07Peer{ln: ln, scripts: map[string]c07Script{}}
	if raw, err := net.Listen("tcp", "127.0.0.1:0"); err == nil {
		p.tlsLn = tls.NewListener(raw, &tls.Config{Certificates: []tls.Certificate{c07SelfSigned(t)}, NextProtos: []string{"http/1.1"}})
		go func() {
			for {
				c, err := p.tlsLn.Accept()
				if err != nil {
					return
				}
				p.mu.Lock()
				p.conns = append(p.conns, c)
				p.mu.Unlock()
				go p.serve(c)
			}
		}()
	}
	go func() {
		for {
			c, err := ln.Accept()
			if err != nil {
				return
			}
			p.mu.Lock()
			p.conns = append(p.conns, c)
			p.mu.Unlock()
			go p.serve(c)
		}
	}()
	return p
}

func (p *c07Peer) serve(c net.Conn) {
	defer c.Close()
	c.SetDeadline(time.Now().Add(20 * time.Second))
	var head []byte
	buf := make([]byte, 4096)
	for !bytes.Contains(head, []byte("\r\n\r\n")) {
		n, err := c.Read(buf)
		head = append(head, buf[:n]...)
		if err != nil {
			return
		}
		if len(head) > 1<<20 {
			return
		}
	}
	line := string(head[:bytes.IndexByte(head, '\r')])
	parts := strings.Split(line, " ")
	if len(parts) < 2 {
		return
	}
	path := parts[1]
	if i := strings.IndexByte(path, '?'); i >= 0 {
		path = path[:i]
	}
	p.mu.Lock()
	sc, ok := p.scripts[path]
	p.mu.Unlock()
	if !ok {
		c.Write([]byte("HTTP/1.1 200 OK\r\nContent-Type: application/json\r\nContent-Length: 2\r\nConnection: close\r\n\r\n{}"))
		return
	}
	if _, err := c.Write(sc.data); err != nil {
		return
	}
	if len(sc.endless) > 0 {
		sent := 0
		chunk := bytes.Repeat(sc.endless, 1+4096/len(sc.endless))
		for sent < sc.cap {
			n, err := c.Write(chunk)
			sent += n
			if err != nil {
				return
			}
		}
	}
}

func (p *c07Peer) set(path string, sc c07Script) {
	p.mu.Lock()
	p.scripts[path] = sc
	p.mu.Unlock()
}

func c07Brotli(b []byte) []byte {
	var buf bytes.Buffer
	w := brotli.NewWriter(&buf)
	w.Write(b)
	w.Close()
	return buf.Bytes()
}

func c07Zstd(b []byte) []byte {
	var buf bytes.Buffer
	w, _ := zstd.NewWriter(&buf)
	w.Write(b)
	w.Close()
	return buf.Bytes()
}

func c07Flate(b []byte) []byte {
	var buf bytes.Buffer
	w, _ := flate.NewWriter(&buf, flate.DefaultCompression)
	w.Write(b)
	w.Close()
	return buf.Bytes()
}

func c07Gzip(b []byte) []byte {
	var buf bytes.Buffer
	w := gzip.NewWriter(&buf)
	w.Write(b)
	w.Close()
	return buf.Bytes()
}

// c07Response generates one hostile (or valid) response byte string; returns it with the list
// of fault tags applied.
func c07Response(s *verifh.Session, selfURL string) ([]byte, []string) {
	r := s.Rand()
	var tags []string
	tag := func(x string) { tags = append(tags, x) }
	body := []byte(verifh.Pick(r, []string{"", "hello", "{\"a\":1}", "<html><head><meta charset=\"gbk\"></head>\xc4\xe3\xba\xc3</html>", "<a>x</a>", strings.Repeat("z", 5000), "{\"a\":", "\xff\xfe<\x00", "<meta http-equiv=\"Content-Type\" content=\"text/html; charset=\">"}))
	status := verifh.Pick(r, []string{"200 OK", "200 OK", "200 OK", "404 Not Found", "500 X", "204 No Content", "304 Not Modified", "401 Unauthorized", "302 Found", "301 Moved", "101 Switching Protocols", "206 Partial"})
	statusLine := "HTTP/1.1 " + status
	if r.Intn(6) == 0 {
		statusLine = verifh.Pick(r, []string{"HTTP/1.1 000 X", "HTTP/1.1 99999 X", "HTTP/1.1 2 0 0", "HTTP/9.9 200 OK", "HTTP/1.0 200 OK", "HTTP/1.1  200 OK", "HTTP/1.1 200", "garbage", "", "HTTP/1.1 -200 OK", "HTTP/1.1 2e2 OK", "HTTP/1.1 \x00", "ICY 200 OK", "HTTP/1.1 200 OK\x00"})
		tag("bad-status-line")
	}
	var hdr []string
	add := func(k, v string) { hdr = append(hdr, k+": "+v) }
	// content type
	ct := verifh.Pick(r, []string{"", "text/html", "text/html; charset=gbk", "text/plain; charset=utf-8", "application/json", "application/json; charset=\"", "text/xml; charset=big5", "text/html; charset=", "text/html;charset=x-unknown", "text/html; charset=utf-16", "application/xml", ";;;", "text/html; charset=\"gbk", "a/b; charset=iso-8859-1; charset=gbk",
		// IANA-registered names with no decoder, aliases, odd spellings
		"text/html; charset=utf-7", "text/plain; charset=utf-32", "text/html; charset=cesu-8", "text/xml; charset=scsu", "text/html; charset=iso-2022-kr", "text/html; charset=hz-gb-2312",
		"text/html; charset=ebcdic-cp-us", "text/plain; charset=unicode-1-1-utf-7", "text/html; charset=utf-16le", "text/html; charset=iso-2022-jp", "text/html; charset=x-user-defined", "text/html; charset=bocu-1",
		"application/json; charset=utf-32be", "text/html; charset=\x00", "text/html; charset=" + strings.Repeat("x", 300), "text/html; CHARSET=Shift_JIS", "text/html;charset=windows-1252;charset=koi8-r"})
	if ct != "" {
		add("Content-Type", ct)
	}
	// content encoding
	payload := body
	if r.Intn(2) == 0 {
		ce := verifh.Pick(r, []string{"gzip", "gzip", "deflate", "br", "zstd", "identity", "GZIP", "x-gzip", "gzip, br", "", "unknown", "compress"})
		add("Content-Encoding", ce)
		tag("ce:" + ce)
		// compress with the codec the header names (or gzip), then maybe damage it
		comp := c07Gzip(body)
		switch ce {
		case "br":
			comp = c07Brotli(body)
		case "zstd":
			comp = c07Zstd(body)
		case "deflate":
			comp = c07Flate(body)
		}
		switch r.Intn(7) {
		case 0: // valid
			payload = comp
		case 1: // truncated
			payload = comp[:c07Intn(r, len(comp))]
			tag("ce-truncated")
		case 2: // garbage
			payload = []byte(verifh.RandBytes(r, r.Intn(64), ""))
			tag("ce-garbage")
		case 3: // valid stream followed by trailing garbage
			payload = append(append([]byte{}, comp...), verifh.RandBytes(r, 1+r.Intn(40), "")...)
			tag("ce-trailing-garbage")
		case 4: // bit flips
			payload = append([]byte{}, comp...)
			for k := 1 + r.Intn(3); k > 0 && len(payload) > 0; k-- {
				payload[c07Intn(r, len(payload))] ^= 1 << uint(r.Intn(8))
			}
			tag("ce-bitflip")
		case 5: // two members / frames back to back
			payload = append(append([]byte{}, comp...), comp...)
			tag("ce-two-members")
		default:
		}
	}
	// framing
	switch r.Intn(9) {
	case 0, 1, 2:
		add("Content-Length", strconv.Itoa(len(payload)))
	case 3:
		cl := verifh.Pick(r, []string{"-1", "1e3", "99999999999999999999", "5, 5", "abc", "", " 7", "+3", "0x10", strconv.Itoa(len(payload) + 3), "1"})
		add("Content-Length", cl)
		tag("bad-cl")
		if r.Intn(3) == 0 {
			add("Content-Length", strconv.Itoa(len(payload)))
			tag("dup-cl")
		}
	case 4, 5:
		te := "chunked"
		if r.Intn(4) == 0 {
			te = verifh.Pick(r, []string{"gzip, chunked", "chunked, chunked", "Chunked", "identity", "chunked;q=1", "x"})
			tag("odd-te")
		}
		add("Transfer-Encoding", te)
		if r.Intn(3) == 0 {
			add("Content-Length", strconv.Itoa(len(payload)))
			tag("te+cl")
		}
		if r.Intn(3) == 0 {
			add("Trailer", verifh.Pick(r, []string{"X-T", "Content-Length", "Transfer-Encoding, X", "", ",,,", "X-T\x01"}))
		}
		var cb bytes.Buffer
		rest := payload
		for len(rest) > 0 {
			n := 1 + c07Intn(r, len(rest))
			fmt.Fprintf(&cb, "%x", n)
			if r.Intn(6) == 0 {
				cb.WriteString(verifh.Pick(r, []string{";ext=1", ";" + strings.Repeat("e", 5000), " ", ";\"q\""}))
				tag("chunk-ext")
			}
			cb.WriteString("\r\n")
			cb.Write(rest[:n])
			cb.WriteString("\r\n")
			rest = rest[n:]
		}
		switch r.Intn(8) {
		case 0:
			cb.WriteString(verifh.Pick(r, []string{"ffffffffffffffff\r\n", "-1\r\n", "g\r\n", "\r\n", "00000000000000000000000000001\r\nx\r\n", "1\r\nxy\r\n", "1\nx\n", strings.Repeat("1", 5000) + "\r\n"}))
			tag("bad-chunk-size")
		case 1:
			tag("chunk-cut") // no terminator
		default:
			cb.WriteString("0\r\n")
			if r.Intn(3) == 0 {
				cb.WriteString(verifh.Pick(r, []string{"X-T: 1\r\n", "bad trailer\r\n", "X-T: 1\r\nX-U: 2\r\n", ": x\r\n", "X-T: \x00\r\n", "Content-Length: 9\r\n"}))
				tag("trailer")
			}
			if r.Intn(8) != 0 {
				cb.WriteString("\r\n")
			}
		}
		payload = cb.Bytes()
	default: // until close
	}
	// fuzzable response headers
	if r.Intn(3) == 0 {
		add("Alt-Svc", verifh.Pick(r, []string{"h3=\":443\"; ma=3600", "h3=\"", "=;=;=", "h3=:x;ma=", "clear", "h3=\":443\";ma=9223372036854775808", ",,,;;;", "h3=\"[\"", "h3=\"a:b:c\"; ma=1; persist=1", "\"=\"", "h2=\"" + selfURL + "\""}))
		tag("alt-svc")
	}
	if strings.HasPrefix(status, "401") || r.Intn(10) == 0 {
		add("WWW-Authenticate", verifh.Pick(r, []string{"Digest realm=\"r\", nonce=\"n\", qop=\"auth\", algorithm=MD5", "Digest", "Digest ", "Digest realm", "Digest realm=\"r\", nonce=\"n\", algorithm=SHA-512-256, qop=\"auth-int\"", "Digest =,=,=", "Basic realm=\"x\"", "Digest realm=\"r\", nonce=\"n\", algorithm=NOPE", "Digest realm=\"r\", nonce=\"n\", qop=\"auth,auth-int\"", "Digest realm=\"r\", nonce=\"n\", charset=latin1", "Digest realm=\"r\", nonce=\"n\", userhash=true, opaque=\"o\", algorithm=SHA-256-sess, qop=auth", "Digest \x00\xff", "Digest realm=\"r\", nonce=\"n\", stale=maybe, domain=\"/a /b\", foo=bar"}))
		tag("www-auth")
	}
	if strings.HasPrefix(status, "30") {
		add("Location", verifh.Pick(r, []string{selfURL + "/default", "/default", "", "://", "http://[::1", "http://a b/", "%zz", "\x00", "//", "http://127.0.0.1:1/", "/\r\nX: y", selfURL + "/default?" + strings.Repeat("a", 3000), "javascript:alert(1)", "http://user:pa ss@x/"}))
		tag("location")
	}
	if r.Intn(4) == 0 {
		add("Set-Cookie", verifh.Pick(r, []string{"a=b", "=", "a=b; Expires=garbage", "a=\"b; Max-Age=-1", "\x00=\x01", "a=b; Domain=.; Path=\\", ";;;", strings.Repeat("c", 5000) + "=1", "a=b; SameSite=What; Secure; HttpOnly; Max-Age=99999999999999999999"}))
		tag("set-cookie")
	}
	if r.Intn(6) == 0 {
		hdr = append(hdr, verifh.Pick(r, []string{"NoColonHere", " folded: x", "\tcontinued", "X-Ctl: a\x00b", "X-Long: " + strings.Repeat("L", 6000), ": emptyname", "X Y: z", "X-Bare: lf\nX-Next: v", "X-8bit: \xff\xfe", "Connection: close, keep-alive, \x01"}))
		tag("odd-header-line")
	}
	r.Shuffle(len(hdr), func(i, j int) { hdr[i], hdr[j] = hdr[j], hdr[i] })
	var out bytes.Buffer
	if r.Intn(6) == 0 {
		for k := 1 + r.Intn(7); k > 0; k-- {
			out.WriteString(verifh.Pick(r, []string{"HTTP/1.1 100 Continue\r\n\r\n", "HTTP/1.1 103 Early Hints\r\nLink: </x>\r\n\r\n", "HTTP/1.1 102 Processing\r\n\r\n"}))
		}
		tag("1xx-prefix")
	}
	out.WriteString(statusLine)
	eol := "\r\n"
	if r.Intn(15) == 0 {
		eol = "\n"
		tag("bare-lf")
	}
	out.WriteString(eol)
	for _, h := range hdr {
		out.WriteString(h + eol)
	}
	out.WriteString(eol)
	out.Write(payload)
	res := out.Bytes()
	// byte-level mutation
	if r.Intn(5) == 0 && len(res) > 0 {
		for k := 1 + r.Intn(3); k > 0; k-- {
			i := c07Intn(r, len(res))
			switch r.Intn(3) {
			case 0:
				res[i] = byte(r.Intn(256))
			case 1:
				res = append(res[:i], res[i+1:]...)
			default:
				res = append(res[:i], append([]byte{byte(r.Intn(256))}, res[i:]...)...)
			}
			if len(res) == 0 {
				break
			}
		}
		tag("mutated")
	}
	if r.Intn(8) == 0 && len(res) > 0 {
		res = res[:c07Intn(r, len(res))]
		tag("cut")
	}
	return res, tags
}

type c07Opt struct {
	name  string
	setup func(c *Client)
	req   func(r *Request, dir string, i int)
	// class returns a known-finding class for a failure under this option set ("" = none)
}

func c07Options() []c07Opt {
	return []c07Opt{
		{"plain", func(c *Client) {}, nil},
		{"autodecompress", func(c *Client) { c.EnableAutoDecompress() }, nil},
		{"autodecode-all", func(c *Client) { c.SetAutoDecodeAllContentType() }, nil},
		{"dump", func(c *Client) { c.EnableDumpAllTo(io.Discard) }, nil},
		{"dump-async", func(c *Client) { c.EnableDumpAllTo(io.Discard).EnableDumpAllAsync() }, nil},
		{"digest", func(c *Client) { c.SetCommonDigestAuth("u", "p") }, nil},
		{"result", func(c *Client) {}, func(r *Request, dir string, i int) {
			var ok map[string]interface{}
			var bad map[string]interface{}
			r.SetSuccessResult(&ok).SetErrorResult(&bad)
		}},
		{"download", func(c *Client) {}, func(r *Request, dir string, i int) {
			r.SetOutputFile(filepath.Join(dir, "out-"+strconv.Itoa(i)))
		}},
		{"noautoread", func(c *Client) { c.DisableAutoReadResponse().EnableAutoDecompress() }, nil},
		// talks to the TLS listener, so that Alt-Svc headers are honoured (https, no forced version)
		{"https-http3-enabled", func(c *Client) { c.EnableHTTP3().EnableInsecureSkipVerify() }, nil},
		{"everything", func(c *Client) {
			c.EnableAutoDecompress().SetAutoDecodeAllContentType().EnableDumpAllTo(io.Discard).SetCommonDigestAuth("u", "p").EnableTraceAll().SetCommonRetryCount(1)
		}, func(r *Request, dir string, i int) {
			var ok map[string]interface{}
			r.SetSuccessResult(&ok)
		}},
	}
}

// c07Watchdog: the client timeout is 10 s per attempt; the "everything" option set retries once.
func c07Watchdog(opt string) time.Duration {
	if opt == "everything" {
		return 35 * time.Second
	}
	return 15 * time.Second
}

func c07CPU() time.Duration {
	var ru syscall.Rusage
	syscall.Getrusage(syscall.RUSAGE_SELF, &ru)
	return time.Duration(ru.Utime.Nano() + ru.Stime.Nano())
}

// TestVerif_C07_h1hostile: a real client (one per processing-stage option set) against a raw
// TCP origin that answers with generated malformed / hostile responses. Every call must return
// (response or error) within the bound, never panic; afterwards the process must be idle (no
// spinning goroutine) and the goroutine count must settle.
func TestVerif_C07_h1hostile(t *testing.T) {
	s := verifh.New(t, "C07", "h1hostile",
		"grammar-directed HTTP/1.1 responses with faults (status line, duplicate/contradictory Content-Length and Transfer-Encoding, chunk sizes/extensions/trailers, bare LF, control bytes, long lines, 1xx prefixes, Content-Encoding/Content-Type/Alt-Svc/WWW-Authenticate/Location/Set-Cookie value fuzz, truncated/garbage compressed bodies) + byte mutation + cuts, x 10 option sets adding a processing stage; oracle: call returns resp-or-error within 15 s, no panic, no spin; non-trivial = at least one fault tag; distinct by (option, response bytes)")
	peer := newC07Peer(t)
	defer peer.closeAll()
	plainBase := "http://" + peer.ln.Addr().String()
	base := plainBase
	dir := t.TempDir()
	opts := c07Options()
	clients := make([]*Client, len(opts))
	var reads int64
	wedges := 0
	mk := func(i int) {
		o := opts[i]
		c := C().SetTimeout(10 * time.Second)
		c.SetDial(func(ctx context.Context, network, addr string) (net.Conn, error) {
			var d net.Dialer
			conn, err := d.DialContext(ctx, network, addr)
			if err != nil {
				return nil, err
			}
			return &c07Conn{Conn: conn, reads: &reads}, nil
		})
		c.SetLogger(nil)
		c.GetTransport().ExpectContinueTimeout = 150 * time.Millisecond // keep Expect: 100-continue cases fast
		o.setup(c)
		clients[i] = c
	}
	for i := range opts {
		mk(i)
	}
	g0 := runtime.NumGoroutine()
	n := verifh.N(700, 20000)
	for i := 0; i < n; i++ {
		var resp []byte
		var tags []string
		c07Gen(t, "h1hostile response", func() { resp, tags = c07Response(s, base) })
		oi := c07Intn(s.Rand(), len(opts))
		base := plainBase
		if opts[oi].name == "https-http3-enabled" && peer.tlsLn != nil {
			base = "https://" + peer.tlsLn.Addr().String()
		}
		method := verifh.Pick(s.Rand(), []int{0, 0, 0, 0, 1, 2, 2, 3})
		path := "/" + strconv.Itoa(i)
		peer.set(path, c07Script{data: resp})
		type result struct {
			kind string
			ptxt string
		}
		ch := make(chan result, 1)
		start := make(chan struct{})
		go func() {
			<-start
			var res result
			ptxt, panicked := verifh.Safely(func() {
				r := clients[oi].R()
				if opts[oi].req != nil {
					opts[oi].req(r, dir, i)
				}
				var rp *Response
				var err error
				switch method {
				case 1:
					rp, err = r.SetBodyString("k=v&x=1").Post(base + path)
				case 2:
					rp, err = r.SetHeader("Expect", "100-continue").SetBodyString(strings.Repeat("b", 3000)).Post(base + path)
				case 3:
					rp, err = r.Head(base + path)
				default:
					rp, err = r.Get(base + path)
				}
				if rp == nil {
					res.kind = "nil-response"
					return
				}
				if err != nil {
					res.kind = "error"
					return
				}
				res.kind = "response"
				if rp.Response != nil && rp.Body != nil {
					if opts[oi].name == "noautoread" || opts[oi].name == "autodecompress" {
						// small reads of varying size (decoders behave differently when starved)
						small := make([]byte, 1+i%7)
						for k := 0; k < 1<<20; k++ {
							if _, e := rp.Body.Read(small); e != nil {
								break
							}
						}
					}
					io.Copy(io.Discard, rp.Body)
					rp.Body.Close()
				}
				_ = rp.String()
			})
			if panicked {
				res = result{"panic", ptxt}
			}
			ch <- res
		}()
		human := fmt.Sprintf("opt=%s method=%s tags=%v resp=%q", opts[oi].name, []string{"GET", "POST", "POST+Expect:100-continue", "HEAD"}[method], tags, truncate(string(resp), 300))
		s.Count("method:" + []string{"GET", "POST", "POST+Expect", "HEAD"}[method])
		id := "h1hostile:" + opts[oi].name + ":" + verifh.Hex(string(resp))
		class := ""
		// known finding (DESIGN section 5 row 9): AutoDecompress + a Content-Encoding the reader
		// table does not know installs a nil reader
		if (opts[oi].name == "autodecompress" || opts[oi].name == "everything") && c07HasUnsupportedCE(resp) {
			class = "c14-unsupported-encoding-autodecompress"
		}
		s.Begin(id, human)
		close(start)
		select {
		case res := <-ch:
			s.Count(res.kind)
			for _, tg := range tags {
				if !strings.HasPrefix(tg, "ce:") {
					s.Count("tag:" + tg)
				}
			}
			switch res.kind {
			case "panic":
				s.Crash(id, human, "panic in caller goroutine: "+res.ptxt, class)
			case "nil-response":
				s.Observe(id, false, class, true, human, "call returned a nil *Response")
			default:
				s.Observe(id, true, "", len(tags) > 0, human, "")
			}
		case <-time.After(c07Watchdog(opts[oi].name)):
			s.Count("wedged")
			s.Observe(id, false, class, true, human, "call did not return within the watchdog bound (15 s per attempt) although the peer closed the connection and the client timeout is 10 s per attempt")
			wedges++
			mk(oi)
		}
		peer.mu.Lock()
		delete(peer.scripts, path)
		peer.mu.Unlock()
		if wedges >= 3 {
			break
		}
	}
	// follow-up: every client still works
	for i, c := range clients {
		if wedges > 0 {
			break
		}
		r := c.R()
		if opts[i].req != nil {
			opts[i].req(r, dir, 1<<30)
		}
		fbase := base
		if opts[i].name == "https-http3-enabled" && peer.tlsLn != nil {
			fbase = "https://" + peer.tlsLn.Addr().String()
		}
		rp, err := r.Get(fbase + "/default")
		ok := err == nil && rp != nil && rp.StatusCode == 200
		s.Observe("followup:"+opts[i].name, ok, "", true, "follow-up request on client "+opts[i].name, fmt.Sprintf("client unusable after hostile responses: %v", err))
	}
	for _, c := range clients {
		c.GetTransport().CloseIdleConnections()
	}
	// spin / leak detection
	deadline := time.Now().Add(10 * time.Second)
	for runtime.NumGoroutine() > g0+8 && time.Now().Before(deadline) {
		time.Sleep(50 * time.Millisecond)
	}
	g1 := runtime.NumGoroutine()
	cpu := c07IdleCPU()
	s.Observe("idle-cpu", cpu < 600*time.Millisecond, "", true, "process CPU time during 1 s of idleness after the run", fmt.Sprintf("a goroutine is spinning: %v CPU in 1 s idle", cpu))
	s.Observe("goroutines", g1 <= g0+8, "", true, fmt.Sprintf("goroutines before=%d after=%d", g0, g1), fmt.Sprintf("goroutines leaked: before=%d after=%d", g0, g1))
	peer.closeAll()
	stuck, where := c07StuckLoops("(*persistConn).readLoop", "(*persistConn).writeLoop")
	s.Observe("stuck-h1-loops", stuck == 0, "", true, fmt.Sprintf("HTTP/1.1 connection loops still alive after every connection was closed: %d", stuck),
		fmt.Sprintf("%d HTTP/1.1 read/write loop goroutines are stuck after every connection was closed by the peer and idle connections were closed, e.g.:\n%s", stuck, where))
	s.Finish()
}

// c07StuckLoops counts goroutines still running one of the given transport loops. After every
// connection has been closed by the peer and CloseIdleConnections was called, any such
// goroutine is stuck (e.g. a read loop blocked on a channel send nobody will ever receive).
func c07StuckLoops(frames ...string) (int, string) {
	var n int
	var first string
	deadline := time.Now().Add(10 * time.Second)
	for {
		buf := make([]byte, 1<<22)
		buf = buf[:runtime.Stack(buf, true)]
		n, first = 0, ""
		for _, g := range strings.Split(string(buf), "\n\n") {
			for _, f := range frames {
				if strings.Contains(g, f) {
					n++
					if first == "" {
						first = g
					}
					break
				}
			}
		}
		if n == 0 || time.Now().After(deadline) {
			break
		}
		time.Sleep(100 * time.Millisecond)
	}
	if len(first) > 3000 {
		first = first[:3000]
	}
	return n, first
}

// c07IdleCPU measures process CPU time over 1 s of idleness; it takes the minimum of up to
// five consecutive windows so that a short burst (GC, a connection still being torn down)
// is not mistaken for a spinning goroutine — a real spin shows in every window.
func c07IdleCPU() time.Duration {
	best := time.Duration(1 << 62)
	for i := 0; i < 5; i++ {
		c0 := c07CPU()
		time.Sleep(1 * time.Second)
		d := c07CPU() - c0
		if d < best {
			best = d
		}
		if best < 300*time.Millisecond {
			break
		}
	}
	return best
}

func truncate(s string, n int) string {
	if len(s) > n {
		return s[:n] + "…"
	}
	return s
}

func c07HasUnsupportedCE(resp []byte) bool {
	// every header-looking line of the stream (1xx blocks included)
	for _, line := range strings.Split(strings.ReplaceAll(string(resp), "\r\n", "\n"), "\n") {
		k, v, ok := strings.Cut(line, ":")
		if !ok || !strings.EqualFold(strings.TrimSpace(k), "content-encoding") {
			continue
		}
		switch strings.TrimSpace(v) {
		case "gzip", "deflate", "br", "zstd":
		default:
			return true
		}
	}
	// an obs-fold continuation line may extend the value (hostile streams contain those)
	return bytes.Contains(resp, []byte("\n\t")) || bytes.Contains(resp, []byte("\n ")) && bytes.Contains(bytes.ToLower(resp), []byte("content-encoding"))
}

// TestVerif_C07_budget: endless inputs must be cut off by the configured limits: the client
// reads only a bounded number of bytes before it gives up with an error.
func TestVerif_C07_budget(t *testing.T) {
	s := verifh.New(t, "C07", "budget",
		"endless server streams (header line without end, endless header lines, endless 1xx responses, endless chunk-size line, endless chunk extension, endless trailer) x MaxResponseHeaderBytes in {4 KiB, 64 KiB}; oracle: the call fails and the client read at most limit + 3 x 4 KiB (+ slack for one 1xx round) bytes from the socket; every case is non-trivial")
	peer := newC07Peer(t)
	defer peer.closeAll()
	base := "http://" + peer.ln.Addr().String()
	type bcase struct {
		name    string
		data    string
		endless string
		// extra allowance on top of the header limit
		extra int64
		body  bool // the endless part is in the body phase (read via auto-read)
	}
	cases := []bcase{
		{"endless-header-line", "HTTP/1.1 200 OK\r\nX-A: ", "aaaaaaaaaaaaaaaa", 0, false},
		{"endless-header-lines", "HTTP/1.1 200 OK\r\n", "X-A: b\r\n", 0, false},
		{"endless-status-line", "HTTP/1.1 200 ", "OKOKOKOKOK", 0, false},
		{"endless-1xx", "", "HTTP/1.1 100 Continue\r\n\r\n", 0, false},
		{"endless-1xx-with-headers", "", "HTTP/1.1 103 Early Hints\r\nLink: </a>; rel=preload\r\n\r\n", 0, false},
		{"endless-chunk-size-line", "HTTP/1.1 200 OK\r\nTransfer-Encoding: chunked\r\n\r\n", "11111111", 8192, true},
		{"endless-chunk-extension", "HTTP/1.1 200 OK\r\nTransfer-Encoding: chunked\r\n\r\n5;", "eeeeeeee", 8192, true},
		{"endless-trailer-line", "HTTP/1.1 200 OK\r\nTransfer-Encoding: chunked\r\n\r\n1\r\nx\r\n0\r\nX-T: ", "tttttttt", 8192, true},
		{"endless-trailer-lines", "HTTP/1.1 200 OK\r\nTransfer-Encoding: chunked\r\n\r\n1\r\nx\r\n0\r\n", "X-T: v\r\n", 8192, true},
		{"endless-folded-header", "HTTP/1.1 200 OK\r\nX-A: b\r\n", " cont\r\n", 0, false},
	}
	for _, limit := range []int64{4 << 10, 64 << 10} {
		for ci, bc := range cases {
			var reads int64
			c := C().SetTimeout(20 * time.Second).SetLogger(nil)
			c.GetTransport().SetMaxResponseHeaderBytes(limit)
			c.SetDial(func(ctx context.Context, network, addr string) (net.Conn, error) {
				var d net.Dialer
				conn, err := d.DialContext(ctx, network, addr)
				if err != nil {
					return nil, err
				}
				return &c07Conn{Conn: conn, reads: &reads}, nil
			})
			path := fmt.Sprintf("/b%d-%d", limit, ci)
			peer.set(path, c07Script{data: []byte(bc.data), endless: []byte(bc.endless), cap: 8 << 20})
			done := make(chan string, 1)
			go func() {
				ptxt, panicked := verifh.Safely(func() {
					rp, err := c.R().Get(base + path)
					if err != nil || rp == nil || rp.Err != nil {
						done <- "error"
					} else {
						done <- "response"
					}
				})
				if panicked {
					done <- "panic: " + ptxt
				}
			}()
			human := fmt.Sprintf("limit=%d %s", limit, bc.name)
			var kind string
			select {
			case kind = <-done:
			case <-time.After(30 * time.Second):
				kind = "wedged"
			}
			got := atomic.LoadInt64(&reads)
			// allowance: header limit + bufio read-ahead (4 KiB) + slack; 1xx rounds reset the limit
			// up to 5 times (max1xxResponses)
			bound := limit + 3*4096 + bc.extra
			if strings.HasPrefix(bc.name, "endless-1xx") {
				bound = 6*limit + 3*4096
			}
			ok := kind == "error" && got <= bound
			s.Count(kind)
			s.Observe("budget:"+human, ok, "", true, human+fmt.Sprintf(" -> %s after reading %d bytes (bound %d)", kind, got, bound),
				fmt.Sprintf("%s: outcome %s, client read %d bytes from the socket, bound %d", human, kind, got, bound))
			c.GetTransport().CloseIdleConnections()
		}
	}
	_ = os.Stderr
	s.Finish()
}
