//go:build verif

package req

// C07 round 5 — h2settings: hostile SETTINGS values, then requests that USE them.
//
// h2frames throws one hostile frame at one exchange; a SETTINGS value, however, does its damage in
// the NEXT thing the client writes: SETTINGS_MAX_FRAME_SIZE is the chunk size of
// ClientConn.writeHeaders and of the request-body writer (0 = an endless stream of empty frames, < 5
// with a header priority = a negative slice bound), INITIAL_WINDOW_SIZE and MAX_CONCURRENT_STREAMS
// decide whether the next request can move at all. Here the peer's FIRST SETTINGS frame carries the
// value(s); the client then makes a small GET and — on the same connection when it survived — a
// PUT with a header block of about 40 kB (several CONTINUATION frames at the minimal frame size)
// AND a 100 kB body. The peer measures what the client writes: the size of the first HEADERS
// fragment, the block length, empty HEADERS / CONTINUATION / DATA frames.
//
// Model-judged (C07.H2Settings.callOutcome; theorems h2_settings_frame_size_inv,
// h2_header_writer_terminates): connection error with which code, or a response with a first
// fragment of min(block, frame size) bytes. Oracles on every case: both calls return within the
// watchdog, no panic, the peer never sees a run of empty frames.

import (
	"bytes"
	"encoding/binary"
	"fmt"
	"io"
	"net"
	"strconv"
	"strings"
	"sync"
	"testing"
	"time"

	"github.com/imroc/req/v3/http2"
	"github.com/imroc/req/v3/internal/verifh"
)

type c07H2SetPeer struct {
	ln       net.Listener
	settings []byte
	mu       sync.Mutex
	conns    []net.Conn
	firstLen map[uint32]int // stream -> length of the fragment of its HEADERS frame
	blockLen map[uint32]int // stream -> total block length (complete blocks only)
	acc      map[uint32]int
	empty    int // empty HEADERS / CONTINUATION frames, empty DATA frames without END_STREAM
	nconn    int
	streamOn map[uint32]int
}

func newC07H2SetPeer(t *testing.T, settings []byte) *c07H2SetPeer {
	ln, err := net.Listen("tcp", "127.0.0.1:0")
	if err != nil {
		t.Fatalf("listen: %v", err)
	}
	p := &c07H2SetPeer{ln: ln, settings: settings, firstLen: map[uint32]int{}, blockLen: map[uint32]int{}, acc: map[uint32]int{}, streamOn: map[uint32]int{}}
	go func() {
		for {
			c, err := ln.Accept()
			if err != nil {
				return
			}
			p.mu.Lock()
			p.conns = append(p.conns, c)
			idx := p.nconn
			p.nconn++
			p.mu.Unlock()
			go p.serve(c, idx)
		}
	}()
	return p
}

func (p *c07H2SetPeer) closeAll() {
	p.ln.Close()
	p.mu.Lock()
	for _, c := range p.conns {
		c.Close()
	}
	p.conns = nil
	p.mu.Unlock()
}

func (p *c07H2SetPeer) serve(c net.Conn, idx int) {
	defer c.Close()
	c.SetDeadline(time.Now().Add(25 * time.Second))
	preface := make([]byte, 24)
	if _, err := io.ReadFull(c, preface); err != nil {
		return
	}
	if _, err := c.Write(c07Frame{-1, 4, 0, 0, p.settings}.bytes()); err != nil {
		return
	}
	hdr := make([]byte, 9)
	for {
		if _, err := io.ReadFull(c, hdr); err != nil {
			return
		}
		l := int(hdr[0])<<16 | int(hdr[1])<<8 | int(hdr[2])
		typ, flags := hdr[3], hdr[4]
		sid := binary.BigEndian.Uint32(hdr[5:]) & 0x7fffffff
		if _, err := io.CopyN(io.Discard, c, int64(l)); err != nil {
			return
		}
		switch typ {
		case 4:
			if flags&1 == 0 {
				c.Write(c07Frame{-1, 4, 1, 0, nil}.bytes())
			}
		case 6:
			// (payload discarded; an all-zero ack is not what the client waits for, and it does not wait)
		case 0:
			if l == 0 && flags&1 == 0 {
				p.mu.Lock()
				p.empty++
				p.mu.Unlock()
			}
		case 1, 9:
			frag := l
			if typ == 1 && flags&0x20 != 0 && frag >= 5 {
				frag -= 5
			}
			p.mu.Lock()
			if frag == 0 {
				p.empty++
			}
			if typ == 1 {
				p.firstLen[sid] = frag
				p.acc[sid] = 0
				p.streamOn[sid+uint32(idx)<<16] = idx
			}
			p.acc[sid] += frag
			done := flags&0x4 != 0
			if done {
				p.blockLen[sid+uint32(idx)<<16] = p.acc[sid]
				p.firstLen[sid+uint32(idx)<<16] = p.firstLen[sid]
			}
			p.mu.Unlock()
			if done {
				var out bytes.Buffer
				out.Write(c07Frame{-1, 1, 0x4, sid, c07Hpack([2]string{":status", "200"}, [2]string{"content-type", "text/plain"})}.bytes())
				out.Write(c07Frame{-1, 0, 1, sid, []byte("ok")}.bytes())
				if _, err := c.Write(out.Bytes()); err != nil {
					return
				}
			}
		}
	}
}

func TestVerif_C07_h2settings(t *testing.T) {
	s := verifh.New(t, "C07", "h2settings",
		"the peer's first SETTINGS frame carries one hostile setting — identifier in {0,1,2,3,4,5,6,8,255} x value in {0,1,2,4,5,2^14-1,2^14,2^14+1,65536,2^24-1,2^24,2^31-1,2^31,2^32-1} — or two (a legal one and a hostile one, both orders); the client then makes a GET and a PUT with a header block of ~40 kB AND a 100 kB body (same connection when it survived), with and without an HTTP/2 header priority; the peer measures the first HEADERS fragment, the block length and empty frames; model-judged (C07.H2Settings.callOutcome): connection error code (from the caller's error) or response + first fragment = min(block, MAX_FRAME_SIZE); MAX_CONCURRENT_STREAMS 0 (the request races with the SETTINGS on a new connection), small MAX_HEADER_LIST_SIZE values and the header-priority runs are oracle-judged; oracles on every case: both calls return response-or-error within the watchdog, no panic, no run of empty HEADERS/CONTINUATION/DATA frames; every case non-trivial")
	vals := []uint32{0, 1, 2, 4, 5, 1<<14 - 1, 1 << 14, 1<<14 + 1, 65536, 1<<24 - 1, 1 << 24, 1<<31 - 1, 1 << 31, 1<<32 - 1}
	ids := []uint16{0, 1, 2, 3, 4, 5, 6, 8, 255}
	type cse struct {
		sets [][2]uint32
		prio bool
	}
	var cases []cse
	for _, id := range ids {
		for _, v := range vals {
			cases = append(cases, cse{[][2]uint32{{uint32(id), v}}, false})
		}
	}
	for _, v := range vals {
		cases = append(cases, cse{[][2]uint32{{5, v}}, true})
		cases = append(cases, cse{[][2]uint32{{5, 32768}, {5, v}}, false})
		cases = append(cases, cse{[][2]uint32{{5, v}, {5, 32768}}, false})
		cases = append(cases, cse{[][2]uint32{{3, 100}, {4, v}}, false})
		cases = append(cases, cse{[][2]uint32{{4, v}, {5, 16384}}, true})
	}
	bigHeader := strings.Repeat("abcdefghijklmnopqrstuvwxyz0123456789-_", 1400) // ~53 kB raw, ~40 kB HPACK
	body := bytes.Repeat([]byte("U"), 100000)
	wedges := 0
	sh := int(verifh.Seed())
	for ci, cs := range cases {
		if wedges >= 2 {
			break
		}
		// quick tier: every MAX_FRAME_SIZE / INITIAL_WINDOW_SIZE / MAX_CONCURRENT_STREAMS case, a seed-dependent half of the rest
		if !verifh.Thorough() && len(cs.sets) == 1 && !cs.prio && cs.sets[0][0] != 5 && cs.sets[0][0] != 4 && cs.sets[0][0] != 3 && (ci+sh)%2 != 0 {
			continue
		}
		var payload []byte
		var toks []string
		blocked := false
		oracleOnly := cs.prio
		for _, st := range cs.sets {
			payload = append(payload, c07Setting(uint16(st[0]), st[1])...)
			toks = append(toks, fmt.Sprintf("%d:%d", st[0], st[1]))
			if st[0] == 3 && st[1] == 0 {
				// a connection that cannot take a stream is passed over for a new one, on which the
				// request races with the peer's SETTINGS: returns (response or time-out), oracle-judged
				blocked = true
				oracleOnly = true
			}
			if st[0] == 6 && st[1] < 1<<24-1 {
				oracleOnly = true // the client refuses its own request locally: not this model's business
			}
		}
		peer := newC07H2SetPeer(t, payload)
		base := "http://" + peer.ln.Addr().String()
		timeout := 4 * time.Second
		if blocked {
			timeout = 1200 * time.Millisecond
		}
		c := C().SetTimeout(timeout).EnableH2C().EnableForceHTTP2().SetLogger(nil)
		if cs.prio {
			c.SetHTTP2HeaderPriority(http2.PriorityParam{StreamDep: 0, Exclusive: false, Weight: 200})
		}
		human := fmt.Sprintf("first SETTINGS {%s}, header priority %v; GET then PUT(40 kB header block, 100 kB body)", strings.Join(toks, ", "), cs.prio)
		id := "h2settings:" + human
		s.Begin(id, human)
		type res struct {
			kind string
			err  string
		}
		call := func(put bool) (res, bool) {
			ch := make(chan res, 1)
			go func() {
				var rr res
				ptxt, pan := verifh.Safely(func() {
					var rp *Response
					var err error
					if put {
						rp, err = c.R().SetHeader("X-Big", bigHeader).SetBodyBytes(body).Put(base + "/put")
					} else {
						rp, err = c.R().Get(base + "/get")
					}
					switch {
					case err != nil:
						rr = res{"error", err.Error()}
					case rp == nil || rp.Response == nil:
						rr = res{"nil-response", ""}
					default:
						rr = res{"response", ""}
						_ = rp.String()
					}
				})
				if pan {
					rr = res{"panic", ptxt}
				}
				ch <- rr
			}()
			select {
			case rr := <-ch:
				return rr, true
			case <-time.After(12 * time.Second):
				return res{"wedged", ""}, false
			}
		}
		ra, okA := call(false)
		rb := res{"not-run", ""}
		okB := true
		if okA {
			rb, okB = call(true)
		}
		peer.mu.Lock()
		empty := peer.empty
		// the PUT is the stream with the largest block
		first, block := -1, -1
		for k, bl := range peer.blockLen {
			if bl > block {
				block, first = bl, peer.firstLen[k]
			}
		}
		peer.mu.Unlock()
		if !okA || !okB {
			wedges++
		}
		peer.closeAll()
		c.GetTransport().CloseIdleConnections()
		s.Count("get:" + ra.kind)
		s.Count("put:" + rb.kind)
		// oracles
		why := ""
		switch {
		case ra.kind == "panic" || rb.kind == "panic":
			why = "panic in the caller: " + truncate(ra.err+rb.err, 1200)
		case !okA || !okB:
			why = fmt.Sprintf("a call did not return within 12 s (client timeout %v); the peer saw %d empty HEADERS/CONTINUATION/DATA frames", timeout, empty)
		case ra.kind == "nil-response" || rb.kind == "nil-response":
			why = "nil response without error"
		case empty > 8:
			why = fmt.Sprintf("the client wrote %d empty HEADERS/CONTINUATION/DATA frames", empty)
		}
		if why != "" {
			if ra.kind == "panic" || rb.kind == "panic" {
				s.Crash(id, human, why, "")
			} else {
				s.Observe(id, false, "", true, human, why)
			}
			continue
		}
		if oracleOnly {
			s.Count("oracle-only")
			s.Observe(id, true, "", true, human, "")
			continue
		}
		// canonical answer
		ans := ""
		both := ra.err + " | " + rb.err
		switch {
		case ra.kind == "response" && rb.kind == "response":
			ans = "response first=" + strconv.Itoa(first)
		case strings.Contains(both, "PROTOCOL_ERROR"):
			ans = "conn-error 1"
		case strings.Contains(both, "FLOW_CONTROL_ERROR"):
			ans = "conn-error 3"
		default:
			ans = "other: GET " + ra.kind + " " + truncate(ra.err, 200) + "; PUT " + rb.kind + " " + truncate(rb.err, 200)
		}
		bl := block
		if bl < 0 {
			bl = 0
		}
		s.Count(strings.SplitN(ans, " ", 2)[0])
		s.Case("c07h2settings "+strings.Join(toks, ",")+" "+strconv.Itoa(bl), ans, true, "", true, human+" -> "+ans)
	}
	s.Finish()
}
