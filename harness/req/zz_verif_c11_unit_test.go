//go:build verif

package req

import (
	"errors"
	"net"
	"net/http"
	"net/netip"
	"net/url"
	"strconv"
	"strings"
	"testing"

	"github.com/imroc/req/v3/internal/verifh"
)

// c11RawStrings: the malformed / boundary stream — renderings with one byte deleted,
// inserted or replaced, and short random strings over the delimiter alphabet.
func c11RawString(s *c11Lane) string {
	r := s.Rand()
	const alpha = "ab.:[]%019AZ-"
	switch r.Intn(4) {
	case 0:
		return verifh.RandBytes(r, r.Intn(9), alpha)
	case 1:
		return verifh.RandBytes(r, r.Intn(5), ".:[]") + verifh.RandBytes(r, r.Intn(4), alpha)
	default:
		t := c11GenAuth(r, true).render()
		for k := 1 + r.Intn(2); k > 0 && len(t) > 0; k-- {
			i := r.Intn(len(t))
			switch r.Intn(3) {
			case 0:
				t = t[:i] + t[i+1:]
			case 1:
				t = t[:i] + string(alpha[r.Intn(len(alpha))]) + t[i:]
			default:
				t = t[:i] + string(alpha[r.Intn(len(alpha))]) + t[i+1:]
			}
		}
		return t
	}
}

func c11SplitAnswer(hp string) string {
	h, p, err := net.SplitHostPort(hp)
	if err == nil {
		return "ok " + verifh.Hex(h) + " " + verifh.Hex(p)
	}
	ae, _ := err.(*net.AddrError)
	if ae == nil {
		return "err ?"
	}
	switch ae.Err {
	case "missing port in address":
		return "err missing-port"
	case "too many colons in address":
		return "err too-many-colons"
	case "missing ']' in address":
		return "err missing-bracket"
	case "unexpected '[' in address":
		return "err unexpected-open"
	case "unexpected ']' in address":
		return "err unexpected-close"
	}
	return "err ?"
}

// TestVerif_C11_split ties the Lean model of net.SplitHostPort (which the pre-fix getHostname
// relied on, and on which the counter-example theorems are stated) to the stdlib.
func TestVerif_C11_split(t *testing.T) {
	s := c11New(t, "split",
		"net.SplitHostPort vs model on grammar-generated authorities (names/IPv4/IPv6, zone, port, empty port) and on mutated/random delimiter strings; non-trivial = every case (distinct by line)")
	r := s.Rand()
	n := verifh.N(6000, 150000)
	for i := 0; i < n; i++ {
		var hp string
		if r.Intn(2) == 0 {
			hp = c11GenAuth(r, true).render()
		} else {
			hp = c11RawString(s)
		}
		ans := c11SplitAnswer(hp)
		if strings.HasPrefix(ans, "ok") {
			s.Count("ok")
		} else {
			s.Count(ans)
		}
		s.Case("c11split "+verifh.Hex(hp), ans, true, "", true, hp+" -> "+ans)
	}
	s.FinishRequire("ok", "err missing-port", "err too-many-colons", "err missing-bracket", "err unexpected-open", "err unexpected-close")
}

// TestVerif_C11_legacy ties Legacy.getHostname/getDomain (Lean) to the verbatim copy of the
// pre-fix code, so that the `decide`d counter-examples are about code that really existed.
func TestVerif_C11_legacy(t *testing.T) {
	s := c11New(t, "legacy",
		"verbatim pre-fix getHostname/getDomain (over the real net.SplitHostPort) vs Legacy model; same input streams as lane host")
	r := s.Rand()
	fixed := []string{"[::1]", "[::2]", "10.2.3.4", "99.2.3.4", "example.com.", "evil.com.", "[::1]:80", "::1", ":80", "a:b:c"}
	n := verifh.N(6000, 150000)
	for i := 0; i < n+len(fixed); i++ {
		var a string
		switch {
		case i < len(fixed):
			a = fixed[i]
		case r.Intn(2) == 0:
			a = c11GenAuth(r, true).render()
		default:
			a = c11RawString(s)
		}
		ans := verifh.Hex(c11LegacyHostname(a)) + " " + verifh.Hex(c11LegacyDomain(a))
		if c11LegacyAffected(a) {
			s.Count("affected")
		} else {
			s.Count("unaffected")
		}
		s.Case("c11legacy "+verifh.Hex(a), ans, true, "", true, a+" -> "+c11LegacyHostname(a)+" / "+c11LegacyDomain(a))
	}
	s.FinishRequire("affected", "unaffected")
}

// TestVerif_C11_ip ties the model's isIPv4 (= net.ParseIP on ':'-free text) and the spec's
// RFC 3986 IPv4address / IPv6address recognisers to net/netip.
func TestVerif_C11_ip(t *testing.T) {
	s := c11New(t, "ip",
		"dotted strings built from boundary octet texts (0,00,01,255,256,…; 3–5 fields) and IPv6 texts (generated from the grammar, then mutated) vs netip.ParseAddr / net.ParseIP; non-trivial = accepted by one side")
	r := s.Rand()
	fields := []string{"0", "00", "01", "1", "9", "10", "099", "99", "100", "199", "249", "250", "255", "256", "260", "300", "1000", "", "a", "1a", "+1", " 1"}
	b01 := func(b bool) string {
		if b {
			return "1"
		}
		return "0"
	}
	n := verifh.N(4000, 200000)
	for i := 0; i < n; i++ {
		var t string
		switch r.Intn(6) {
		case 0, 1:
			k := 4
			if r.Intn(4) == 0 {
				k = 3 + r.Intn(3)
			}
			fs := make([]string, k)
			for j := range fs {
				if r.Intn(3) == 0 {
					fs[j] = verifh.Pick(r, fields)
				} else {
					fs[j] = verifh.Pick(r, c11Octets)
				}
			}
			t = strings.Join(fs, ".")
		case 2:
			t = c11RandV6(r)
		case 3:
			t = verifh.Pick(r, c11V6)
		default:
			t = c11RandV6(r)
			if r.Intn(2) == 0 {
				t = verifh.Pick(r, c11V6)
			}
			for k := 1 + r.Intn(2); k > 0 && len(t) > 0; k-- {
				j := r.Intn(len(t))
				switch r.Intn(3) {
				case 0:
					t = t[:j] + t[j+1:]
				case 1:
					t = t[:j] + string("0:.fF%g"[r.Intn(7)]) + t[j:]
				default:
					t = t[:j] + string("0:.fF%g"[r.Intn(7)]) + t[j+1:]
				}
			}
		}
		addr, err := netip.ParseAddr(t)
		is4 := err == nil && addr.Is4()
		is6 := err == nil && addr.Is6() && addr.Zone() == ""
		ok := true
		if !strings.Contains(t, ":") {
			ok = (net.ParseIP(t) != nil) == is4
		}
		switch {
		case is4:
			s.Count("v4")
		case is6:
			s.Count("v6")
		default:
			s.Count("neither")
		}
		s.Case("c11ip "+verifh.Hex(t), b01(is4)+" "+b01(is4)+" "+b01(is6), ok, "", is4 || is6, t)
	}
	s.FinishRequire("v4", "v6", "neither")
}

// c11HostCase records one getHostname/getDomain evaluation.
func c11HostCase(s *c11Lane, a string, valid bool) {
	var h, d string
	if p, bad := verifh.Safely(func() { h = getHostname(a); d = getDomain(a) }); bad {
		s.Crash("c11host "+verifh.Hex(a), a, p, "")
		return
	}
	ok := true
	oh, have := c11OracleHost(a)
	if valid && have {
		s.Count("oracle")
		ok = h == oh && d == c11OracleDomain(oh)
	}
	class := ""
	if c11IsLegacyAnswer(a, h, d) {
		class = c11LegacyClass
	}
	if c11LegacyAffected(a) {
		s.Count("legacy-affected-input")
	}
	s.Case("c11host "+verifh.Hex(a), verifh.Hex(h)+" "+verifh.Hex(d), ok, class, valid,
		a+" -> host="+h+" domain="+d)
}

// TestVerif_C11_host: the real getHostname and getDomain vs the model, and vs the net/url
// oracle on every authority net/url accepts.
func TestVerif_C11_host(t *testing.T) {
	s := c11New(t, "host",
		"real getHostname/getDomain on (a) authorities drawn from the RFC 3986 grammar: names of 1–5 labels in any case incl. numeric/odd labels, trailing dot, IPv4, bracketed IPv6 (fixed + generated, with/without zone), no/empty/numeric port; (b) the same with 1–2 byte edits and random delimiter strings. Oracle on (a): lower(url.Parse(..).Hostname()), domain = IP whole / name sans trailing dot minus first label when ≥3. non-trivial = stream (a)")
	r := s.Rand()
	for _, a := range []string{"[::1]", "[::2]", "[::1]:80", "[fe80::1%eth0]", "[fe80::1%eth0]:8080", "10.2.3.4", "99.2.3.4", "10.2.3.4:80",
		"example.com.", "evil.com.", "www.example.com.", "www.example.com.:443", "example.com:", "EXAMPLE.com", "a.b.c", "localhost", "[::ffff:1.2.3.4]"} {
		c11HostCase(s, a, true)
	}
	// spellings a configured entry (AllowedHost/AllowedDomain argument) or an odd Location can have and
	// that are NOT authorities of the grammar: userinfo, empty host, non-numeric or signed port,
	// IPv4-mapped IPv6 next to the IPv4 text, zone ids: the model must answer what the code answers
	for _, a := range []string{"", ":", ":80", ":abc", "host:abc", "host:80x", "host:-1", "host:+80", "user@host", "user:pw@host:80", "allowed.example@evil.example",
		"[::1]:x", "[::1]x", "[::1", "::1]", "[]", "[]:80", "[%eth0]", "[fe80::1%25eth0]", "[fe80::1%]", "::ffff:1.2.3.4", "1.2.3.4", "[::ffff:1.2.3.4]:80",
		"[::FFFF:1.2.3.4]", "[0:0:0:0:0:ffff:102:304]", "1.2.3.4.", "1.2.3", "1.2.3.4.5", "0x7f.1", "0177.0.0.1", "host..", ".", "..", ".host", "a..b.c"} {
		s.Count("fixed-odd-spelling")
		c11HostCase(s, a, false)
	}
	n := verifh.N(20000, 400000)
	for i := 0; i < n; i++ {
		if r.Intn(3) != 0 {
			a := c11GenAuth(r, true)
			s.Count(a.tricky)
			c11HostCase(s, a.render(), a.wf)
		} else {
			s.Count("raw")
			c11HostCase(s, c11RawString(s), false)
		}
	}
	s.FinishRequire("oracle", "raw", "name", "name+port", "name+emptyport", "name-dot", "name-dot+port", "ip4", "ip4+port", "ip6", "ip6+port", "ip6+emptyport", "ip6-zone", "ip6-zone+port", "legacy-affected-input", "fixed-odd-spelling")
}

// TestVerif_C11_spec: the Lean SPEC (structured authority → render / specHost / specDomain /
// RFC recogniser) against the Go side's own rendering and the net/url oracle, and the model's
// getHostname/getDomain of the rendering against the real functions.
func TestVerif_C11_spec(t *testing.T) {
	s := c11New(t, "spec",
		"well-formed structured authorities (WfAuthority) from the grammar generator, incl. non-RFC label bytes and empty inner labels; expected = own rendering, net/url oracle host+domain, generator's RFC flag, real getHostname/getDomain of the rendering")
	r := s.Rand()
	n := verifh.N(15000, 300000)
	for i := 0; i < n; i++ {
		a := c11GenAuth(r, true)
		if r.Intn(2) == 0 {
			a = c11Vary(r, a, true)
		}
		if !a.wf {
			continue
		}
		txt := a.render()
		// expected spec values: from the oracle when net/url accepts the text, else from the
		// definition applied to the host text (odd label bytes)
		oh, have := c11OracleHost(txt)
		if !have {
			if a.kind != "name" {
				t.Fatalf("net/url refuses grammar authority %q", txt)
			}
			oh = strings.ToLower(a.hostText())
			s.Count("no-url-oracle")
		}
		od := c11OracleDomain(oh)
		rfc := "0"
		if a.rfc {
			rfc = "1"
			s.Count("rfc")
		}
		h, d := getHostname(txt), getDomain(txt)
		class := ""
		if c11IsLegacyAnswer(txt, h, d) {
			class = c11LegacyClass
		}
		s.Count(a.tricky)
		s.Case(a.specLine(),
			verifh.Hex(txt)+" "+verifh.Hex(oh)+" "+verifh.Hex(od)+" "+rfc+" "+verifh.Hex(h)+" "+verifh.Hex(d),
			h == oh && d == od, class, true, txt+" host="+oh+" domain="+od)
	}
	s.FinishRequire("rfc", "no-url-oracle", "name", "name-dot", "ip4", "ip6", "ip6-zone", "ip6+port", "name+emptyport")
}

// TestVerif_C11_policy: every policy constructor and their compositions through the closure
// SetRedirectPolicy installs, called directly.
func TestVerif_C11_policy(t *testing.T) {
	s := c11New(t, "policy",
		"compositions of 1–4 policies (nil, No, Max around len(via), SameHost, SameDomain, AllowedHost/Domain with 0–3 entries written as other spellings of the hosts involved, AlwaysCopy with 0–3 header names in either case) evaluated through Client.httpClient.CheckRedirect on (req host, via of 1..limit+1 hosts) pairs that are related spellings/near misses; request and via[0] headers random subsets incl. a non-canonical map key; oracle: decision from the net/url host/domain oracle, first refusal wins; non-trivial = ≥1 host policy or copy policy present")
	r := s.Rand()
	hdrPool := []string{"Authorization", "Cookie", "X-Custom", "X-Multi", "X-Other", "Www-Authenticate", "Host", "Referer"}
	c := C()
	var prevCl *Client
	var prevPs, prevAlias, aliasPs []c11Pol
	var prevLine0, prevScen string
	n := verifh.N(15000, 300000)
	for i := 0; i < n; i++ {
		a := c11GenAuth(r, false)
		for !a.wf {
			a = c11GenAuth(r, false)
		}
		b := c11Vary(r, a, false)
		for !b.wf {
			b = c11Vary(r, a, false)
		}
		viaLen := 1 + r.Intn(4)
		via := []string{a.render()}
		for len(via) < viaLen {
			via = append(via, c11Vary(r, a, false).render())
		}
		req := b.render()
		ps := c11GenPols(r, []c11Auth{a, b}, viaLen, hdrPool)
		// headers
		var rh, vh [][2]string
		mk := func() [][2]string {
			var kv [][2]string
			for _, k := range hdrPool {
				switch r.Intn(5) {
				case 0:
					kv = append(kv, [2]string{k, "v-" + k})
				case 1:
					kv = append(kv, [2]string{k, "v1"}, [2]string{k, "v2"})
				case 2:
					if r.Intn(3) == 0 {
						kv = append(kv, [2]string{strings.ToLower(k), "raw"}) // non-canonical map key
					}
				}
			}
			return kv
		}
		rh, vh = mk(), mk()
		toHeader := func(kv [][2]string) http.Header {
			h := http.Header{}
			for _, p := range kv {
				h[p[0]] = append(h[p[0]], p[1])
			}
			return h
		}
		// Everything a *http.Request carries besides URL.Host is a DECOY for the host policies: the
		// Host field (what a Host header override sets), userinfo, scheme, method, path, the
		// response that caused the redirect. They are drawn from the same family of related
		// spellings / near misses as the URL hosts, so that a policy reading any of them instead of
		// URL.Host decides differently on many cases.
		decoyPool := []c11Auth{a, b}
		hreq := &http.Request{Method: "GET", URL: &url.URL{Scheme: "http", Host: req, Path: "/"}, Header: toHeader(rh)}
		c11Decoy(r, hreq, decoyPool, s)
		var hvia []*http.Request
		for j, v := range via {
			q := &http.Request{Method: "GET", URL: &url.URL{Scheme: "http", Host: v, Path: "/"}, Header: http.Header{}}
			if j == 0 {
				q.Header = toHeader(vh)
			}
			c11Decoy(r, q, decoyPool, s)
			if j > 0 {
				q.Response = &http.Response{StatusCode: 302, Request: hvia[j-1]}
			}
			hvia = append(hvia, q)
		}
		hreq.Response = &http.Response{StatusCode: 302, Request: hvia[len(hvia)-1]}
		nontriv := false
		// Either configure the shared client directly, or reach the policy through a family of
		// clients grown by Clone / SetRedirectPolicy calls: whatever the history, the client
		// evaluated must enforce what the Go-side bookkeeping (and the lifetime model) says.
		cl, line0, scen := c, "", ""
		if prevCl != nil && r.Intn(2) == 0 {
			// the SAME configured client and policy instances judge another, unrelated redirect:
			// a policy is a function of (req, via) only, whatever it was asked before
			cl, ps, line0, scen, aliasPs = prevCl, prevPs, prevLine0, prevScen, prevAlias
			s.Count("reused-policy-instance")
		} else if r.Intn(3) == 0 {
			fam := c11NewFamily(C(), c11DefaultPols)
			fam.writes = true // here the caller also overwrites its arrays after the calls
			fam.grow(r, func() []c11Pol {
				if r.Intn(2) == 0 {
					return ps
				}
				return c11GenPols(r, []c11Auth{a, b}, viaLen, hdrPool)
			})
			var j int
			j, scen = fam.pick(r)
			cl, ps = fam.clients[j], fam.want[j]
			line0 = "c11fam " + fam.encOps() + " " + strconv.Itoa(j) + " c11policyx"
			s.Count(scen)
			if fam.emptied {
				s.Count("family:empty-set-call")
			}
			if fam.shared {
				s.Count("args:clients-from-caller-owned-array")
			}
			if fam.callerWrote {
				s.Count("args:caller-wrote-after-call")
			}
			aliasPs = nil
			if ap := fam.aliasPols(j); ap != nil {
				s.Count("args:evaluated-client-set-from-slice")
				if c11EncPols(ap) != c11EncPols(ps) {
					aliasPs = append([]c11Pol{}, ap...)
					s.Count("args:slice-content-changed-since-call")
				}
			}
			scen = fam.show(j) + " ; "
		} else {
			real := make([]RedirectPolicy, len(ps))
			for j, p := range ps {
				real[j] = p.real()
			}
			c.SetRedirectPolicy(real...)
			line0 = "c11policyx " + c11EncPols(ps)
			aliasPs = nil
			s.Count("direct")
		}
		prevCl, prevPs, prevLine0, prevScen, prevAlias = cl, ps, line0, scen, aliasPs
		for _, b := range c11DegBuckets(ps) {
			s.Count(b)
		}
		for _, p := range ps {
			s.Count("pol:" + p.kind)
			if p.kind != "nil" && p.kind != "no" && p.kind != "max" {
				nontriv = true
			}
		}
		var err error
		check := cl.httpClient.CheckRedirect
		if check == nil {
			// no closure installed: net/http falls back to its default (10 requests, any host)
			s.Count("checkredirect-nil")
			check = func(_ *http.Request, via []*http.Request) error {
				if len(via) >= 10 {
					return errors.New("stopped after 10 redirects")
				}
				return nil
			}
		}
		// Known behaviour before fixes/C11-4: the closure reads the caller's slice at redirect time. When
		// that slice holds something else by now, what a client configured (with literal arguments) from
		// its CURRENT content answers is computed first, only to recognise exactly that behaviour.
		probes := append([]string{"x-custom"}, hdrPool...)
		aliasAns := ""
		if aliasPs != nil {
			refReal := make([]RedirectPolicy, len(aliasPs))
			for j, p := range aliasPs {
				refReal[j] = p.real()
			}
			ref := C().SetRedirectPolicy(refReal...)
			q := *hreq
			q.Header = hreq.Header.Clone()
			var e error
			verifh.Safely(func() { e = ref.httpClient.CheckRedirect(&q, hvia) })
			d := 0
			switch {
			case e == http.ErrUseLastResponse:
				d = 2
			case e != nil:
				d = 1
			}
			aliasAns = c11DecisionName[d] + " " + c11ShowProbes(func(k string) []string { return q.Header.Values(k) }, probes)
		}
		if p, bad := verifh.Safely(func() { err = check(hreq, hvia) }); bad {
			s.Crash("policy", scen+c11ShowPols(ps)+" req="+req, p, "")
			continue
		}
		dec := 0
		switch {
		case err == http.ErrUseLastResponse:
			dec = 2
		case err != nil:
			dec = 1
		}
		want := c11Decide(ps, req, via, c11OracleHostOf, c11OracleDomainOf)
		legacy := c11Decide(ps, req, via, c11LegacyHostname, c11LegacyDomain)
		class := ""
		if dec != want && dec == legacy {
			class = c11LegacyClass
			s.Count("legacy-decision")
		}
		s.Count("decision:" + c11DecisionName[dec])
		encVia := make([]string, len(hvia))
		for j, q := range hvia {
			encVia[j] = c11EncReq(q)
		}
		line := line0 + " " + c11EncReq(hreq) + " " + strings.Join(encVia, ";") + " " +
			c11EncHeaders(rh) + " " + c11EncHeaders(vh) + " " + verifh.HexList(probes)
		ans := c11DecisionName[dec] + " " + c11ShowProbes(func(k string) []string { return hreq.Header.Values(k) }, probes)
		if aliasPs != nil && ans == aliasAns { // takes precedence: the list that was enforced is not ps at all
			class = "policy-arg-aliased"
			s.Count("args:answers-like-current-slice-content")
		}
		s.Case(line, ans, dec == want, class, nontriv,
			scen+c11ShowPols(ps)+" req="+req+" via="+strings.Join(via, ",")+" -> "+c11DecisionName[dec])
	}
	s.FinishRequire("direct", "reused-policy-instance", "family:original", "family:set-on-clone", "family:clone-of-clone-inherits", "family:clone-inherits,parent-reconfigured-later", "family:clone-inherits", "family:empty-set-call", "pol:nil", "pol:no", "pol:max", "pol:samehost", "pol:samedomain", "pol:ahost", "pol:adomain", "pol:copy", "decision:allow", "decision:deny", "decision:uselast",
		"decoy:host-field", "decoy:host-field=other-authority", "decoy:userinfo", "decoy:https", "decoy:method",
		"args:clients-from-caller-owned-array", "args:caller-wrote-after-call", "args:evaluated-client-set-from-slice", "args:slice-content-changed-since-call")
}
