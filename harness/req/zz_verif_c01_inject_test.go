//go:build verif

package req

import (
	"fmt"
	"io"
	"log"
	"net/http"
	"net/textproto"
	"net/url"
	"os"
	"strings"
	"testing"
	"time"

	"golang.org/x/net/http/httpguts"

	"github.com/imroc/req/v3/internal/header"
	"github.com/imroc/req/v3/internal/verifh"
)

// TestVerif_C01_valid: every validation / sanitising predicate the request path applies to
// caller-supplied strings vs its Lean model, on hostile and random strings.
func TestVerif_C01_valid(t *testing.T) {
	s := c01New(t, "C01", "valid",
		"strings from the method / header-name / header-value / host / nasty-value pools, random bytes (all 256 values) and random picks from a structural alphabet; compared: validMethod, httpguts.ValidHeaderFieldName/Value, ValidHostHeader, stringContainsCTLByte, hasToken(·,\"close\"), headerNewlineToSpace+TrimString, removeZone, removeEmptyPort, header.IsExcluded, reqWriteExcludeHeader, requestMethodUsuallyLacksBody; non-trivial = at least one predicate accepts and one rejects")
	r := s.Rand()
	pools := [][]string{c01Methods, c01HdrNames, c01SpecialNames, c01HdrValues, c01BadValues, c01Values,
		{"example.com:", "[::1]:", "[fe80::1%25en0]:80", "[fe80::1%en0]", "a:b:", "close", "Close", "keep-alive, close", "xclose", "close,", "\tclose ", "closed", "a,Close\t", ":", "]:", "[::1]", "__header_order__", "__pseudo_header_order__", "__Header_Order__", "KEEP-ALIVE", "Proxy-connection", "upgrade", "HOST"}}
	n := verifh.N(8000, 300000)
	for i := 0; i < n; i++ {
		var v string
		switch r.Intn(5) {
		case 0:
			v = verifh.RandBytes(r, r.Intn(10), "")
		case 1:
			v = verifh.RandBytes(r, r.Intn(12), "aZ09-_ :;,[]%\r\n\t\x00\x7f\xc3close")
		default:
			v = verifh.Pick(r, verifh.Pick(r, pools))
		}
		san := textproto.TrimString(headerNewlineToSpace.Replace(v))
		ans := fmt.Sprintf("method=%s name=%s value=%s host=%s ctl=%s close=%s san=%s zone=%s port=%s excl2=%s excl1=%s lacks=%s",
			c01b(validMethod(v)), c01b(httpguts.ValidHeaderFieldName(v)), c01b(httpguts.ValidHeaderFieldValue(v)), c01b(httpguts.ValidHostHeader(v)),
			c01b(stringContainsCTLByte(v)), c01b(hasToken(v, "close")), verifh.Hex(san), verifh.Hex(removeZone(v)), verifh.Hex(removeEmptyPort(v)),
			c01b(header.IsExcluded(v)), c01b(reqWriteExcludeHeader[v]), c01b(requestMethodUsuallyLacksBody(v)))
		// property oracle: whatever passes the validators cannot break a line or a request line
		ok := true
		if validMethod(v) && strings.ContainsAny(v, " \r\n\x00:") {
			ok = false
		}
		if httpguts.ValidHeaderFieldName(v) && strings.ContainsAny(v, " \r\n\x00:") {
			ok = false
		}
		if httpguts.ValidHeaderFieldValue(v) && strings.ContainsAny(v, "\r\n\x00") {
			ok = false
		}
		if httpguts.ValidHostHeader(v) && strings.ContainsAny(v, " \r\n\x00/@#?") {
			ok = false
		}
		if strings.ContainsAny(san, "\r\n") {
			ok = false
		}
		if validMethod(v) {
			s.Count("method-ok")
		}
		if httpguts.ValidHeaderFieldValue(v) {
			s.Count("value-ok")
		} else {
			s.Count("value-bad")
		}
		if hasToken(v, "close") {
			s.Count("close-token")
		}
		if header.IsExcluded(v) {
			s.Count("excluded")
		}
		s.Case("c01valid "+verifh.Hex(v), ans, ok, "", strings.Contains(ans, "=1") && strings.Contains(ans, "=0"), fmt.Sprintf("%q", v))
	}
	s.Need(t, "method-ok", "value-ok", "value-bad", "close-token", "excluded")
	s.Finish()
}

// ---------------------------------------------------------------- injection through the public API

type c01Injection struct {
	where string
	apply func(c *Client, r *Request) (method, path string)
}

var c01Payloads = []string{
	"x\r\nX-Injected: 1", "x\nX-Injected: 1", "x\rX-Injected: 1", "x\r\n\r\nGET /smuggled HTTP/1.1\r\nHost: smuggled\r\n\r\n", "x HTTP/1.1\r\nX-Injected: 1\r\n\r\nGET /smuggled",
	"x\x00y", " ", "x y", "\r\n", "x\r\n X-Injected: 1", "x X-Injected: 1", "x\r\nContent-Length: 0\r\n\r\nGET /smuggled HTTP/1.1\r\n", "x\r\nTransfer-Encoding: chunked", "x\t", "\x7f",
	"x/../../smuggled", "x?smuggled=1", "x#smuggled", "x&smuggled=1", "x;smuggled", "x%0d%0aX-Injected:%201", "é", "x:y", "x@evil.example",
}

func c01Injections(p string) []c01Injection {
	return []c01Injection{
		{"method", func(c *Client, r *Request) (string, string) { return "GET" + p, "/inj/a" }},
		{"method-whole", func(c *Client, r *Request) (string, string) { return p, "/inj/a" }},
		{"header-value", func(c *Client, r *Request) (string, string) { r.SetHeader("X-Data", p); return "GET", "/inj/a" }},
		{"header-value-noncanonical", func(c *Client, r *Request) (string, string) { r.SetHeaderNonCanonical("x-data", p); return "GET", "/inj/a" }},
		{"header-value-client", func(c *Client, r *Request) (string, string) { c.SetCommonHeader("X-Data", p); return "POST", "/inj/a" }},
		{"header-name", func(c *Client, r *Request) (string, string) { r.SetHeader("X-Data"+p, "v"); return "GET", "/inj/a" }},
		{"header-name-noncanonical", func(c *Client, r *Request) (string, string) { r.SetHeaderNonCanonical("x-data"+p, "v"); return "GET", "/inj/a" }},
		{"user-agent", func(c *Client, r *Request) (string, string) { c.SetUserAgent("ua" + p); return "GET", "/inj/a" }},
		{"content-type", func(c *Client, r *Request) (string, string) { r.SetContentType("text/plain" + p).SetBodyString("b"); return "POST", "/inj/a" }},
		{"host-override", func(c *Client, r *Request) (string, string) { r.SetHeader("Host", "virtual.example"+p); return "GET", "/inj/a" }},
		{"host-override-whole", func(c *Client, r *Request) (string, string) { r.SetHeader("Host", p); return "GET", "/inj/a" }},
		{"path-param", func(c *Client, r *Request) (string, string) { r.SetPathParam("id", p); return "GET", "/inj/{id}/tail" }},
		{"path-param-client", func(c *Client, r *Request) (string, string) { c.SetCommonPathParam("id", p); return "GET", "/inj/{id}/tail" }},
		{"query-value", func(c *Client, r *Request) (string, string) { r.SetQueryParam("q", p); return "GET", "/inj/a" }},
		{"query-key", func(c *Client, r *Request) (string, string) { r.SetQueryParam("q"+p, "v"); return "GET", "/inj/a" }},
		{"query-value-client", func(c *Client, r *Request) (string, string) { c.SetCommonQueryParam("q", p); return "GET", "/inj/a" }},
		{"cookie-value", func(c *Client, r *Request) (string, string) { r.SetCookies(&http.Cookie{Name: "sid", Value: p}); return "GET", "/inj/a" }},
		{"cookie-name", func(c *Client, r *Request) (string, string) { r.SetCookies(&http.Cookie{Name: "sid" + p, Value: "v"}); return "GET", "/inj/a" }},
		{"header-order-entry", func(c *Client, r *Request) (string, string) { r.SetHeader("X-Data", "v").SetHeaderOrder("x-data", p); return "GET", "/inj/a" }},
		{"pseudo-order-entry", func(c *Client, r *Request) (string, string) { r.SetPseudoHeaderOrder(":path", p); return "GET", "/inj/a" }},
		{"basic-auth", func(c *Client, r *Request) (string, string) { r.SetBasicAuth("user"+p, "pw"+p); return "GET", "/inj/a" }},
		{"bearer", func(c *Client, r *Request) (string, string) { r.SetBearerAuthToken("tok" + p); return "GET", "/inj/a" }},
	}
}

// TestVerif_C01_inject: hostile data values through every API position x three protocols. The
// call must fail, or the origin must see exactly ONE request with the intended structure: the
// intended method, the intended number of path segments, no injected header line, no second
// request, no smuggled query key.
func TestVerif_C01_inject(t *testing.T) {
	s := c01New(t, "C01", "inject",
		"24 hostile payloads (CR LF header line, bare LF, bare CR, CRLFCRLF + second request, request-line split, NUL, space, TAB, DEL, obs-fold, U+2028, framing headers, ../, ?, #, &, ;, percent-encoded CRLF, non-ASCII, : and @) x 22 API positions (method, header value/name request-level, non-canonical and client-level, user-agent, content-type, Host override, path parameter request/client, query key/value request/client, cookie name/value, header-order and pseudo-order entries, basic auth, bearer token) x {HTTP/1.1, HTTP/2, HTTP/3}; oracle: call failed and nothing reached the origin, or exactly one request with the intended method, segment count, no x-injected field, no 'smuggled' anywhere in target/host; non-trivial = request reached an origin")
	log.SetOutput(io.Discard)
	defer log.SetOutput(os.Stderr)
	origins := c01StartOrigins(t)
	defer func() {
		for _, o := range origins {
			o.stop()
		}
	}()
	r := s.Rand()
	stride := verifh.N(3, 1) // quick tier: every third (payload, position) pair, rotated by the seed
	off := r.Intn(stride)
	k := 0
	for pi, p := range c01Payloads {
		for _, inj := range c01Injections(p) {
			k++
			if (k+off)%stride != 0 {
				continue
			}
			for _, proto := range []string{"h1", "h2", "h3"} {
				o := origins[proto]
				c := c01NewClient(proto, true, true)
				// a forced-HTTP/2 client does not validate the method before sending (the check in
				// Transport.roundTrip sits after the forced-version dispatch); net/http's server then
				// never answers and the call only ends at the client timeout: keep that short
				c.SetTimeout(1200 * time.Millisecond)
				if proto == "h2" && strings.HasPrefix(inj.where, "method") && pi%4 != 0 && !verifh.Thorough() {
					continue
				}
				rq := c.R()
				method, path := inj.apply(c, rq)
				o.take()
				var err error
				t0 := time.Now()
				pt, bad := verifh.Safely(func() { _, err = rq.Send(method, o.base+path) })
				if d := time.Since(t0); d > 1500*time.Millisecond {
					t.Logf("SLOW %v: %s payload=%q over %s err=%v", d, inj.where, p, proto, err)
				}
				seen := o.take()
				id := fmt.Sprintf("%s/%d/%s", inj.where, pi, proto)
				human := fmt.Sprintf("%s payload=%q over %s", inj.where, p, proto)
				if bad {
					s.Crash(id, human, pt, "")
					continue
				}
				ok, why := true, ""
				switch {
				case len(seen) == 0:
					if err == nil {
						ok, why = false, "no error and no request"
					}
					s.Count("failed")
				case len(seen) > 1:
					ok, why = false, fmt.Sprintf("%d requests reached the origin", len(seen))
				default:
					s.Count("sent")
					g := seen[0]
					wantMethod := method
					if g.method != wantMethod {
						ok, why = false, "method "+g.method
					}
					pathOnly := g.ruri
					if i := strings.IndexByte(pathOnly, '?'); i >= 0 {
						pathOnly = pathOnly[:i]
					}
					if strings.Count(pathOnly, "/") != strings.Count(path, "/") {
						ok, why = false, "path segments: "+g.ruri
					}
					if !strings.HasPrefix(pathOnly, "/inj/") || (strings.Contains(path, "{id}") && !strings.HasSuffix(pathOnly, "/tail")) {
						ok, why = false, "path "+g.ruri
					}
					wantHost := strings.TrimPrefix(strings.TrimPrefix(o.base, "https://"), "http://")
					switch inj.where {
					case "host-override":
						wantHost = "virtual.example" + p
					case "host-override-whole":
						wantHost = p
					}
					if strings.Contains(g.ruri, "#") || (g.host != wantHost && c01IsASCII(wantHost) && !(proto == "h1" && g.host == "")) {
						// (a non-ASCII host is sent in Punycode form: idna, external)
						// (HTTP/1.1 blanks a Host it cannot send: structure unchanged, net/http's choice)
						ok, why = false, "target/host "+g.ruri+" "+g.host
					}
					if q := strings.IndexByte(g.ruri, '?'); q >= 0 {
						for _, kv := range strings.Split(g.ruri[q+1:], "&") {
							key, _, _ := strings.Cut(kv, "=")
							if !strings.HasPrefix(key, "q") {
								ok, why = false, "query key "+key
							}
						}
						if strings.Count(g.ruri[q+1:], "&") > 0 {
							ok, why = false, "query pairs "+g.ruri
						}
					}
					for name := range g.header {
						ln := strings.ToLower(name)
						if ln == "x-injected" || ln == "smuggled" {
							ok, why = false, "injected header "+name
						}
					}
					if inj.where != "header-name" && inj.where != "header-name-noncanonical" {
						if len(g.header["Transfer-Encoding"]) > 0 && !strings.Contains(inj.where, "content-type") && proto != "h1" {
							ok, why = false, "transfer-encoding reached an h2/h3 origin"
						}
					}
					if strings.ContainsAny(g.ruri, " \r\n\x00") {
						ok, why = false, "raw control byte in target"
					}
					// a request that does reach the origin carries the value EXACTLY (a value that
					// cannot be sent as it is must make the call fail, not be rewritten)
					trim := func(v string) string { return strings.Trim(v, " \t") }
					switch inj.where {
					case "header-value", "header-value-client":
						if got := g.header.Get("X-Data"); trim(got) != trim(p) {
							ok, why = false, fmt.Sprintf("header value altered: %q", got)
						}
					case "header-value-noncanonical":
						got := ""
						for k, vs := range g.header {
							if strings.EqualFold(k, "x-data") && len(vs) > 0 {
								got = vs[0]
							}
						}
						if trim(got) != trim(p) {
							ok, why = false, fmt.Sprintf("header value altered: %q", got)
						}
					case "user-agent":
						if got := g.header.Get("User-Agent"); trim(got) != trim("ua"+p) {
							ok, why = false, fmt.Sprintf("user-agent altered: %q", got)
						}
					case "content-type":
						if got := g.header.Get("Content-Type"); trim(got) != trim("text/plain"+p) {
							ok, why = false, fmt.Sprintf("content-type altered: %q", got)
						}
					case "bearer":
						if got := g.header.Get("Authorization"); trim(got) != trim("Bearer tok"+p) {
							ok, why = false, fmt.Sprintf("authorization altered: %q", got)
						}
					case "path-param", "path-param-client":
						segs := strings.Split(pathOnly, "/")
						if len(segs) == 4 {
							if un, e := url.PathUnescape(segs[2]); e != nil || un != p {
								ok, why = false, fmt.Sprintf("path parameter altered: %q", segs[2])
							}
						}
					case "query-value", "query-value-client":
						if q := strings.IndexByte(g.ruri, '?'); q >= 0 {
							if vals, e := url.ParseQuery(g.ruri[q+1:]); e != nil || vals.Get("q") != p {
								ok, why = false, fmt.Sprintf("query value altered: %q", g.ruri[q+1:])
							}
						} else {
							ok, why = false, "query missing"
						}
					case "query-key":
						if q := strings.IndexByte(g.ruri, '?'); q >= 0 {
							if vals, e := url.ParseQuery(g.ruri[q+1:]); e != nil || vals.Get("q"+p) != "v" {
								ok, why = false, fmt.Sprintf("query key altered: %q", g.ruri[q+1:])
							}
						}
					}
				}
				s.Observe(id, ok, "", len(seen) == 1, human, why)
			}
		}
	}
	s.Need(t, "failed", "sent")
	s.Finish()
}
