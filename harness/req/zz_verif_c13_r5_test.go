//go:build verif

package req

import (
	"bytes"
	"fmt"
	"io"
	"net"
	"strings"
	"sync"
	"testing"
	"time"

	"github.com/imroc/req/v3/internal/dump"
	"github.com/imroc/req/v3/internal/verifh"
	"golang.org/x/net/http2"
	"golang.org/x/net/http2/hpack"
)

// ================================================================= lane rset: call order of the request-level setters

// c13WriterID30 names a writer like the model; the request's own dump buffer is writer 30.
func c13WriterID30(w io.Writer) int {
	if b, ok := w.(*bytes.Buffer); ok && b != nil {
		return 30
	}
	return c13WriterID(w)
}

func c13DumperView(d *dump.Dumper) string {
	if d == nil {
		return "no-dumper"
	}
	return fmt.Sprintf("%d:%d %d:%d %d:%d %d:%d out=%d",
		c13B2i(d.RequestHeader()), c13WriterID30(d.RequestHeaderOutput()),
		c13B2i(d.RequestBody()), c13WriterID30(d.RequestBodyOutput()),
		c13B2i(d.ResponseHeader()), c13WriterID30(d.ResponseHeaderOutput()),
		c13B2i(d.ResponseBody()), c13WriterID30(d.ResponseBodyOutput()),
		c13WriterID30(d.Output()))
}

// TestVerif_C13_rset: every ORDER of the request-level dump calls. What the transport reads through
// the dumper found in the request context (flags and the resolved writer of each part) must be what
// the calls produce when read as value updates in program order (theorem
// request_setters_follow_final): a dumper made by an early EnableDump… follows later setters.
func TestVerif_C13_rset(t *testing.T) {
	s := verifh.New(t, "C13", "rset",
		"sequences of 1..5 calls on a fresh Request in every order: EnableDump, EnableDumpWithoutRequestBody/ResponseBody/Response/Request/Header/Body, EnableDumpTo(w), SetDumpOptions(random flags, random subset of the seven writers incl. nil Output); then the dumper in the request context is asked like the transport asks it (RequestHeader() .. ResponseBody(), the four resolved writers, Output()); compared with the model's pointer semantics (c13rset: run false = value semantics by theorem); first sequences are the fixed shapes [EnableDump, Set], [Set, EnableDump], [WithoutBody, Set], [EnableDumpTo, Set], [Set, WithoutResponse, Set], [EnableDump, Set, Set]; non-trivial = a SetDumpOptions after an EnableDump…")
	r := s.Rand()
	cnt := c13Counter{}
	log := &c13Log{}
	fixed := [][]int{{0, -1}, {-1, 0}, {6, -1}, {100, -1}, {-1, 3, -1}, {0, -1, -1}, {-1}, {4, -1, 2}}
	n := verifh.N(800, 20000)
	for c := 0; c < n; c++ {
		var kinds []int // -1 = SetDumpOptions, otherwise a preset number
		if c < len(fixed) {
			kinds = fixed[c]
		} else {
			for i, k := 0, 1+r.Intn(5); i < k; i++ {
				switch r.Intn(5) {
				case 0, 1:
					kinds = append(kinds, -1)
				case 2:
					kinds = append(kinds, 0)
				case 3:
					kinds = append(kinds, 1+r.Intn(6))
				default:
					kinds = append(kinds, 100+r.Intn(5))
				}
			}
		}
		rq := C().R()
		var toks []string
		enabled, setAfterEnable := false, false
		for i, k := range kinds {
			switch {
			case k == -1:
				opt, enc := c13RandOpts(s, 40+10*i)
				rq.SetDumpOptions(opt)
				toks = append(toks, "s"+enc)
				if enabled {
					setAfterEnable = true
				}
			case k == 0:
				rq.EnableDump()
			case k == 1:
				rq.EnableDumpWithoutRequestBody()
			case k == 2:
				rq.EnableDumpWithoutResponseBody()
			case k == 3:
				rq.EnableDumpWithoutResponse()
			case k == 4:
				rq.EnableDumpWithoutRequest()
			case k == 5:
				rq.EnableDumpWithoutHeader()
			case k == 6:
				rq.EnableDumpWithoutBody()
			default:
				rq.EnableDumpTo(&c13LogWriter{id: k, log: log})
			}
			if k != -1 {
				toks = append(toks, fmt.Sprintf("p%d", k))
				enabled = true
			}
		}
		d, _ := rq.Context().Value(dump.DumperKey).(*dump.Dumper)
		ans := c13DumperView(d)
		if setAfterEnable {
			cnt.add(s, "set-after-enable")
		}
		if d == nil {
			cnt.add(s, "no-dumper")
		}
		s.Case("c13rset 30 "+strings.Join(toks, " "), ans, true, "", setAfterEnable, fmt.Sprintf("request-level calls %v (p0 EnableDump, p1..6 EnableDumpWithout{RequestBody,ResponseBody,Response,Request,Header,Body}, p100+ EnableDumpTo, s SetDumpOptions{out,reqOut,respOut,reqHOut,reqBOut,respHOut,respBOut,qh,qb,rh,rb,async})", toks))
	}
	for _, must := range []string{"set-after-enable", "no-dumper"} {
		if cnt[must] == 0 {
			t.Errorf("generator never reached bucket %q", must)
		}
	}
	s.Finish()
}

// ================================================================= lane stop: life cycle with data in flight

// c13Gate makes dump writers slow on demand: while held every Write blocks.
type c13Gate struct {
	mu   sync.Mutex
	cond *sync.Cond
	held bool
}

func c13NewGate() *c13Gate { g := &c13Gate{}; g.cond = sync.NewCond(&g.mu); return g }
func (g *c13Gate) set(h bool) {
	g.mu.Lock()
	g.held = h
	g.mu.Unlock()
	g.cond.Broadcast()
}
func (g *c13Gate) wait() {
	g.mu.Lock()
	for g.held {
		g.cond.Wait()
	}
	g.mu.Unlock()
}

type c13GateWriter struct {
	id   int
	log  *c13Log
	gate *c13Gate
}

func (w *c13GateWriter) Write(p []byte) (int, error) {
	w.gate.wait()
	w.log.mu.Lock()
	w.log.events = append(w.log.events, c13Event{w.id, string(p)})
	w.log.mu.Unlock()
	return len(p), nil
}

func c13GateWriterID(w io.Writer) int {
	if g, ok := w.(*c13GateWriter); ok {
		return g.id
	}
	return c13WriterID(w)
}

// TestVerif_C13_stop: the client-level asynchronous dumper's life-cycle operations interleaved
// with queued data under a writer that stalls: nothing that was handed to a dumper may be lost,
// duplicated or reordered when dump is switched off, re-enabled, re-configured or the client is
// cloned while chunks are still queued (theorems async_stop_flushes, lifecycle_stop_flushes).
func TestVerif_C13_stop(t *testing.T) {
	s := verifh.New(t, "C13", "stop",
		"sequences of 3..24 operations on one client (first: SetCommonDumpOptions with Async): dump calls as the transport makes them (DumpRequestHeader/RequestBody/ResponseHeader/ResponseBody on Client.Dump, 0..4 bytes), DisableDumpAll, EnableDumpAllAsync, Client.Clone (following operations go to the clone), SetCommonDumpOptions (new random routing over fresh writers), H/R = all dump writers block / resume (deterministic 'slow writer': chunks and the Stop sentinel pile up in the 20-slot queue; at most 17 items are queued per dumper while held); afterwards the writers resume, every dumper still alive is stopped, the harness waits until the bytes handed over have arrived (or 1 s); compared per dumper generation (first data byte = generation) with the model c13stop: sequence of (writer, bytes), adjacent writes to one writer joined; fixed shapes first: [O E H D D D X R], [O E H D D X E D R], [O E H D D C D X R], [O E H D O D X R]; non-trivial = a Disable / Clone / SetOptions while data is queued behind a held writer")
	r := s.Rand()
	cnt := c13Counter{}
	fixed := []string{"OEHDDDXR", "OEHDDXEDR", "OEHDDCDXR", "OEHDODXR", "OEDDX", "OEHDXEHDXR"}
	lost := 0
	n := verifh.N(200, 5000)
	for c := 0; c < n; c++ {
		var shape string
		if c < len(fixed) {
			shape = fixed[c]
		} else {
			shape = "OE"
			for i, k := 0, 1+r.Intn(22); i < k; i++ {
				shape += verifh.Pick(r, []string{"D", "D", "D", "D", "D", "X", "E", "C", "O", "H", "R"})
			}
		}
		gate := c13NewGate()
		log := &c13Log{}
		cl := C()
		all := []*Client{cl}
		gens := map[*dump.Dumper]int{}
		queued := map[*dump.Dumper]int{}
		held, inFlightOp := false, false
		var toks []string
		sentBytes := 0
		wbase := 50
		note := func() {
			if cl.Dump != nil {
				if _, ok := gens[cl.Dump]; !ok {
					gens[cl.Dump] = len(gens)
				}
			}
		}
		release := func() {
			gate.set(false)
			held = false
			for d := range queued {
				queued[d] = 0
			}
		}
		for _, op := range shape {
			// never let a sender block on a full queue behind a held writer
			if held && cl.Dump != nil && queued[cl.Dump] >= 17 {
				release()
				toks = append(toks, "R")
			}
			switch op {
			case 'O':
				ids := make([]int, 7)
				mk := func(i int, always bool) io.Writer {
					if !always && r.Intn(2) == 0 {
						return nil
					}
					ids[i] = wbase + i
					return &c13GateWriter{id: wbase + i, log: log, gate: gate}
				}
				o := &DumpOptions{Output: mk(0, true), RequestOutput: mk(1, false), ResponseOutput: mk(2, false),
					RequestHeaderOutput: mk(3, false), RequestBodyOutput: mk(4, false), ResponseHeaderOutput: mk(5, false), ResponseBodyOutput: mk(6, false),
					RequestHeader: true, RequestBody: r.Intn(2) == 0, ResponseHeader: true, ResponseBody: r.Intn(2) == 0, Async: true}
				wbase += 10
				cl.SetCommonDumpOptions(o)
				toks = append(toks, "O"+verifh.IntList(append(ids, 1, c13B2i(o.RequestBody), 1, c13B2i(o.ResponseBody), 1)))
				if held && cl.Dump != nil && queued[cl.Dump] > 0 {
					inFlightOp = true
				}
			case 'E':
				cl.EnableDumpAllAsync()
				toks = append(toks, "E")
			case 'X':
				if held && cl.Dump != nil {
					if queued[cl.Dump] > 0 {
						inFlightOp = true
					}
					queued[cl.Dump]++
				}
				cl.DisableDumpAll()
				toks = append(toks, "X")
			case 'C':
				if held && cl.Dump != nil && queued[cl.Dump] > 0 {
					inFlightOp = true
				}
				cl = cl.Clone()
				all = append(all, cl)
				toks = append(toks, "C")
			case 'H':
				// what was queued before must be out, so that the queue holds only what is counted
				if !held {
					for _, x := range all {
						if d := x.Dump; d != nil && d.Async() {
							done := make(chan struct{})
							go d.DumpTo([]byte("sentinel"), c13SignalWriter{done})
							select {
							case <-done:
							case <-time.After(time.Second):
							}
						}
					}
				}
				gate.set(true)
				held = true
				toks = append(toks, "H")
			case 'R':
				release()
				toks = append(toks, "R")
			case 'D':
				part := r.Intn(4)
				g := 0xFF
				if cl.Dump != nil {
					g = gens[cl.Dump]
				}
				data := string([]byte{byte(g)}) + verifh.RandBytes(r, r.Intn(4), "")
				if r.Intn(9) == 0 {
					data = ""
				}
				toks = append(toks, fmt.Sprintf("D%d:%s", part, verifh.Hex(data)))
				if d := cl.Dump; d != nil {
					buf := []byte(data)
					switch part {
					case 0:
						d.DumpRequestHeader(buf)
					case 1:
						d.DumpRequestBody(buf)
					case 2:
						d.DumpResponseHeader(buf)
					default:
						d.DumpResponseBody(buf)
					}
					for j := range buf {
						buf[j] = 0xEE
					}
					sentBytes += len(data)
					if held && data != "" {
						queued[d]++
					}
				}
			}
			note()
		}
		release()
		for _, x := range all {
			c13StopDump(x)
		}
		wait := time.Second
		if lost >= 3 {
			wait = 20 * time.Millisecond
		}
		deadline := time.Now().Add(wait)
		arrived := func() int {
			log.mu.Lock()
			defer log.mu.Unlock()
			k := 0
			for _, e := range log.events {
				k += len(e.data)
			}
			return k
		}
		for arrived() < sentBytes && time.Now().Before(deadline) {
			time.Sleep(200 * time.Microsecond)
		}
		if arrived() < sentBytes {
			lost++
		} else {
			time.Sleep(300 * time.Microsecond) // a duplicate would arrive now
		}
		log.mu.Lock()
		evs := append([]c13Event{}, log.events...)
		log.mu.Unlock()
		var parts []string
		for g := 0; g < len(gens); g++ {
			var run []c13Event
			for _, e := range evs {
				if len(e.data) > 0 && int(e.data[0]) == g {
					if k := len(run); k > 0 && run[k-1].w == e.w {
						run[k-1].data += e.data
					} else {
						run = append(run, e)
					}
				}
			}
			var l []string
			for _, e := range run {
				l = append(l, fmt.Sprintf("%d:%s", e.w, verifh.Hex(e.data)))
			}
			x := "-"
			if len(l) > 0 {
				x = strings.Join(l, ",")
			}
			parts = append(parts, fmt.Sprintf("g%d=%s", g, x))
		}
		ans := "-"
		if len(parts) > 0 {
			ans = strings.Join(parts, " ")
		}
		if inFlightOp {
			cnt.add(s, "lifecycle-op-with-data-in-flight")
		}
		if len(gens) > 1 {
			cnt.add(s, "several-dumper-generations")
		}
		s.Case("c13stop "+strings.Join(toks, " "), ans, true, "", inFlightOp, fmt.Sprintf("client ops %s (O SetCommonDumpOptions, E EnableDumpAllAsync, X DisableDumpAll, C Clone, D<part>:<hex> dump call, H/R writers stall/resume)", strings.Join(toks, " ")))
	}
	for _, must := range []string{"lifecycle-op-with-data-in-flight", "several-dumper-generations"} {
		if cnt[must] == 0 {
			t.Errorf("generator never reached bucket %q", must)
		}
	}
	s.Finish()
}

// ================================================================= lane parth2: HTTP/2 uploads cut short

type c13PartPeer struct {
	ln     net.Listener
	mu     sync.Mutex
	window int
	refuse int // answer once this many body bytes have arrived
	mode   int // 0: 413 + RST_STREAM(NO_ERROR); 1: RST_STREAM(CANCEL); 2: 413 with END_STREAM only; 3: silence
	frames []string
	conns  []net.Conn
}

func (p *c13PartPeer) arm(window, refuse, mode int) {
	p.mu.Lock()
	p.window, p.refuse, p.mode, p.frames = window, refuse, mode, nil
	p.mu.Unlock()
}

func (p *c13PartPeer) got() []string {
	p.mu.Lock()
	defer p.mu.Unlock()
	return append([]string{}, p.frames...)
}

func (p *c13PartPeer) serve(c net.Conn) {
	defer c.Close()
	preface := make([]byte, len(http2.ClientPreface))
	if _, err := io.ReadFull(c, preface); err != nil {
		return
	}
	p.mu.Lock()
	window, refuse, mode := p.window, p.refuse, p.mode
	p.mu.Unlock()
	fr := http2.NewFramer(c, c)
	fr.ReadMetaHeaders = hpack.NewDecoder(4096, nil)
	fr.WriteSettings(http2.Setting{ID: http2.SettingInitialWindowSize, Val: uint32(window)})
	var hbuf bytes.Buffer
	enc := hpack.NewEncoder(&hbuf)
	total, answered := 0, false
	for {
		f, err := fr.ReadFrame()
		if err != nil {
			return
		}
		switch f := f.(type) {
		case *http2.SettingsFrame:
			if !f.IsAck() {
				fr.WriteSettingsAck()
			}
		case *http2.PingFrame:
			if !f.IsAck() {
				fr.WritePing(true, f.Data)
			}
		case *http2.MetaHeadersFrame:
			if f.StreamEnded() { // the warm-up GET: the client has seen our SETTINGS when it gets the answer
				hbuf.Reset()
				enc.WriteField(hpack.HeaderField{Name: ":status", Value: "200"})
				fr.WriteHeaders(http2.HeadersFrameParam{StreamID: f.StreamID, BlockFragment: hbuf.Bytes(), EndStream: true, EndHeaders: true})
			}
		case *http2.DataFrame:
			if len(f.Data()) > 0 {
				p.mu.Lock()
				p.frames = append(p.frames, string(f.Data()))
				p.mu.Unlock()
				total += len(f.Data())
			}
			if !answered && (total >= refuse || f.StreamEnded()) {
				answered = true
				if mode == 0 || mode == 2 || f.StreamEnded() {
					hbuf.Reset()
					enc.WriteField(hpack.HeaderField{Name: ":status", Value: "413"})
					enc.WriteField(hpack.HeaderField{Name: "x-verif", Value: "c13"})
					fr.WriteHeaders(http2.HeadersFrameParam{StreamID: f.StreamID, BlockFragment: hbuf.Bytes(), EndStream: true, EndHeaders: true})
				}
				if !f.StreamEnded() {
					if mode == 0 {
						fr.WriteRSTStream(f.StreamID, http2.ErrCodeNo)
					} else if mode == 1 {
						fr.WriteRSTStream(f.StreamID, http2.ErrCodeCancel)
					}
				}
			}
		case *http2.GoAwayFrame:
			return
		}
	}
}

// TestVerif_C13_parth2: dump == wire when an HTTP/2 upload does not run to completion.
func TestVerif_C13_parth2(t *testing.T) {
	s := verifh.New(t, "C13", "parth2",
		"paired HTTP/2 (h2c) uploads, dump off / on, on a warmed-up connection (a GET first, so that the peer's SETTINGS are in force) against a frame peer (x/net Framer) that offers a stream window of 1..40000 bytes, never returns credit and, once `refuse` body bytes (= the window: the client is blocked in awaitFlowControl; or fewer: it may still be writing) have arrived, answers 413+RST_STREAM(NO_ERROR) / RST_STREAM(CANCEL) / 413 with END_STREAM only / nothing (the client's 250 ms timeout cancels the request); bodies of window+1 .. window+70000 bytes from SetBodyBytes or a reader of unknown length; request-body dump at client level (sync / async) or request level to a writer of its own; oracle: same caller-visible outcome in the pair, same bytes received when the refusal point is the window; the writes the request-body writer got = the DATA frames the peer received, frame by frame, and concatenate to a proper prefix of the body; model c13gdatap (sendBody: cut of the body by the observed schedule, first k frames); non-trivial = every pair")
	r := s.Rand()
	cnt := c13Counter{}
	ln, err := net.Listen("tcp", "127.0.0.1:0")
	if err != nil {
		t.Fatalf("listen: %v", err)
	}
	peer := &c13PartPeer{ln: ln}
	go func() {
		for {
			c, err := ln.Accept()
			if err != nil {
				return
			}
			peer.mu.Lock()
			peer.conns = append(peer.conns, c)
			peer.mu.Unlock()
			go peer.serve(c)
		}
	}()
	defer func() {
		ln.Close()
		peer.mu.Lock()
		for _, c := range peer.conns {
			c.Close()
		}
		peer.mu.Unlock()
	}()
	url := "http://" + ln.Addr().String() + "/upload"
	n := verifh.N(24, 480)
	skipped := 0
	for c := 0; c < n; c++ {
		window := verifh.Pick(r, []int{1, 7, 100, 1000, 1000, 5000, 16384, 20000, 40000})
		mode := c % 4
		refuse := window
		if c%3 == 2 && window > 1 {
			refuse = 1 + r.Intn(window)
		}
		body := verifh.RandBytes(r, window+1+r.Intn(verifh.Pick(r, []int{10, 2000, 20000, 70000})), "")
		via := verifh.Pick(r, []string{"bytes", "reader"})
		level := []string{"client", "request", "client-async"}[c%3]
		flags := r.Intn(16) | 2
		run := func(on bool) (c13Result, []string, []string) {
			peer.arm(window, refuse, mode)
			cl := C().EnableForceHTTP2().EnableH2C().SetTimeout(5 * time.Second)
			if mode == 3 {
				cl.SetTimeout(250 * time.Millisecond)
			}
			log := &c13Log{}
			opt := &DumpOptions{Output: &c13LogWriter{id: 10, log: log}, RequestBodyOutput: &c13LogWriter{id: 14, log: log},
				RequestHeader: flags&1 != 0, RequestBody: true, ResponseHeader: flags&4 != 0, ResponseBody: flags&8 != 0, Async: level == "client-async"}
			if on && level != "request" {
				cl.SetCommonDumpOptions(opt).EnableDumpAll()
			}
			if wr, werr := cl.R().Get(url); werr != nil || wr.StatusCode != 200 {
				return c13Result{err: "dial"}, nil, nil
			}
			rq := cl.R()
			if via == "bytes" {
				rq.SetBodyBytes([]byte(body))
			} else {
				b := body
				rq.SetBody(func() (io.ReadCloser, error) { return io.NopCloser(strings.NewReader(b)), nil })
			}
			if on && level == "request" {
				rq.EnableDump().SetDumpOptions(opt)
			}
			resp, err := rq.Post(url)
			res := c13ResultOf(resp, err)
			res.header, res.extra = "", ""
			if mode == 3 && res.err != "-" {
				res.err = "error(timeout)" // Client.Timeout surfaces as one of several error types, whichever timer path wins
			}
			// everything the client wrote has arrived once the peer's count stops moving
			last, still := -1, 0
			for i := 0; i < 400 && still < 4; i++ {
				k := len(peer.got())
				if k == last {
					still++
				} else {
					last, still = k, 0
				}
				time.Sleep(2 * time.Millisecond)
			}
			if on {
				c13Flush(cl)
			}
			got := peer.got()
			c13StopDump(cl)
			cl.CloseIdleConnections()
			return res, got, log.of(14)
		}
		off, offFrames, _ := run(false)
		on, frames, dumped := run(true)
		sent := strings.Join(frames, "")
		if len(frames) == 0 || off.err == "dial" || on.err == "dial" {
			skipped++ // loopback trouble under load: not judged
			continue
		}
		var why []string
		if off.String() != on.String() {
			why = append(why, fmt.Sprintf("caller-visible outcome differs: off %s, on %s", off, on))
		}
		if refuse == window && strings.Join(offFrames, "") != sent {
			why = append(why, fmt.Sprintf("bytes on the wire differ: off %d, on %d", len(strings.Join(offFrames, "")), len(sent)))
		}
		if d := strings.Join(dumped, ""); d != sent {
			why = append(why, fmt.Sprintf("%d request-body bytes were dumped, %d went over the wire (body %d bytes, window %d)", len(d), len(sent), len(body), window))
		}
		if !strings.HasPrefix(body, sent) {
			why = append(why, "harness: the peer received something that is not a prefix of the body")
		}
		sizes := make([]int, len(frames))
		for i, f := range frames {
			sizes[i] = len(f)
		}
		aborted := c13B2i(len(sent) < len(body))
		if aborted == 1 {
			cnt.add(s, "upload-cut-short")
		}
		cnt.add(s, fmt.Sprintf("mode=%d", mode))
		cnt.add(s, "level="+level)
		if len(frames) > 1 {
			cnt.add(s, "several-frames")
		}
		if d := strings.Join(dumped, ""); level == "client-async" && len(d) == len(sent) {
			// how often the drain loop of an asynchronous dumper calls Write is not part of the
			// property (it may gather queued chunks): judged on content, re-cut at the frame sizes
			dumped = nil
			for _, k := range sizes {
				dumped, d = append(dumped, d[:k]), d[k:]
			}
		}
		ans := verifh.HexList(dumped) + fmt.Sprintf(" aborted=%d", aborted)
		human := fmt.Sprintf("POST %dB via %s, window %d, peer refuses after %d bytes (mode %d), dump %s flags=%d: sent %v, dumped %v, outcome %s", len(body), via, window, refuse, mode, level, flags, sizes, c13Lens(dumped), c13Clip(on.String(), 80))
		if len(why) > 0 {
			human += "; " + strings.Join(why, "; ")
		}
		s.Case(fmt.Sprintf("c13gdatap 16384 %s %s %d", verifh.Hex(body), verifh.IntList(sizes), len(frames)), ans, len(why) == 0, "", true, human)
	}
	if skipped > n/3 {
		t.Errorf("parth2: %d of %d pairs could not be run", skipped, n)
	}
	for _, must := range []string{"upload-cut-short", "mode=0", "mode=1", "mode=2", "mode=3", "level=client", "level=request", "level=client-async", "several-frames"} {
		if cnt[must] == 0 {
			t.Errorf("generator never reached bucket %q", must)
		}
	}
	s.Finish()
}
