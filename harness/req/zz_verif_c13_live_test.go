//go:build verif

package req

import (
	"fmt"
	"io"
	"strings"
	"sync"
	"testing"
	"time"

	"github.com/imroc/req/v3/internal/verifh"
)

// ================================================================= lane live: interactive exchanges
//
// An exchange whose two sides depend on each other's progress: the request body hands out
// piece k+1 only after the peer has RECEIVED piece k, and the peer sends piece j+1 of the
// response body only after the caller has READ piece j. Such an exchange completes only if
// every piece leaves the client / reaches the caller as soon as it is produced, which the three
// stacks guarantee for bodies of unknown length (HTTP/1.1: flush after every chunk; HTTP/2 and
// HTTP/3: one flushed DATA frame per body read) and for response bodies read incrementally.
// Dump must not change that. The acknowledgements travel out of band (in-process), so nothing
// here depends on timing except the verdict "stalled", which needs a piece to be withheld for
// c13StallAfter although its successor depends on it.

var c13StallAfter = 2500 * time.Millisecond
var c13LiveStalledRuns int

type c13Live struct {
	up, down []string
	mu       sync.Mutex
	sig      chan struct{} // closed and replaced at every progress update
	upGot    int           // request body bytes the peer has received
	downRead int           // response body bytes the caller has read
	noWait   bool          // a stall was recorded: stop pacing, let the exchange finish
	stalls   []string      // "u<k>": upload piece k withheld; "d<j>": download piece j withheld
}

func c13NewLive(up, down []string) *c13Live {
	return &c13Live{up: up, down: down, sig: make(chan struct{})}
}

func (l *c13Live) bump(f func()) {
	l.mu.Lock()
	f()
	close(l.sig)
	l.sig = make(chan struct{})
	l.mu.Unlock()
}

func (l *c13Live) gotUpload(n int) { l.bump(func() { l.upGot += n }) }
func (l *c13Live) readDone(n int)  { l.bump(func() { l.downRead += n }) }

// waitFor blocks until cond holds; if it does not within c13StallAfter the piece `what` counts
// as withheld and pacing is switched off for the rest of the exchange.
func (l *c13Live) waitFor(cond func() bool, what string) {
	wait := c13StallAfter
	if c13LiveStalledRuns >= 3 { // delivery is broken: do not pay the full wait on every pair
		wait = 300 * time.Millisecond
	}
	deadline := time.After(wait)
	for {
		l.mu.Lock()
		ok, nw, sig := cond(), l.noWait, l.sig
		l.mu.Unlock()
		if ok || nw {
			return
		}
		select {
		case <-sig:
		case <-deadline:
			l.mu.Lock()
			if !cond() && !l.noWait {
				l.stalls = append(l.stalls, what)
				l.noWait = true
			}
			l.mu.Unlock()
			return
		}
	}
}

func c13Sum(l []string, n int) int {
	t := 0
	for _, s := range l[:n] {
		t += len(s)
	}
	return t
}

// waitRead: the peer has sent download piece j and waits for the caller to have read it.
func (l *c13Live) waitRead(j int) {
	need := c13Sum(l.down, j+1)
	l.waitFor(func() bool { return l.downRead >= need }, fmt.Sprintf("d%d", j))
}

// c13LiveBody is the request body of an interactive exchange.
type c13LiveBody struct {
	l        *c13Live
	idx, off int
}

func (b *c13LiveBody) Read(p []byte) (int, error) {
	if b.idx >= len(b.l.up) {
		return 0, io.EOF
	}
	if b.off == 0 && b.idx > 0 {
		need := c13Sum(b.l.up, b.idx)
		b.l.waitFor(func() bool { return b.l.upGot >= need }, fmt.Sprintf("u%d", b.idx-1))
	}
	n := copy(p, b.l.up[b.idx][b.off:])
	b.off += n
	if b.off == len(b.l.up[b.idx]) {
		b.idx, b.off = b.idx+1, 0
	}
	return n, nil
}

func (b *c13LiveBody) Close() error { return nil }

type c13LiveOut struct {
	res    c13Result
	stalls []string
	log    *c13Log
	cl     *Client
	h1     []c13Attempt
	g      []c13GAttempt
}

// c13RunLive: one interactive exchange with a fresh client.
func c13RunLive(mk func() *Client, url string, live *c13Live, cfg *c13DumpCfg, viaSet bool, collect func(*c13LiveOut)) c13LiveOut {
	out := c13LiveOut{log: &c13Log{}}
	cl := mk().SetTimeout(8*c13StallAfter + 5*time.Second)
	if cfg != nil {
		cl = cfg.applyClient(cl, out.log, viaSet)
	}
	rq := cl.R().DisableAutoReadResponse().SetHeader("Content-Type", "application/octet-stream")
	rq.SetBody(io.ReadCloser(&c13LiveBody{l: live}))
	if cfg != nil {
		cfg.applyRequest(rq, out.log)
	}
	resp, err := rq.Post(url)
	out.res = c13Result{err: c13ErrClass(err)}
	if err == nil && resp != nil && resp.Response != nil {
		out.res.status, out.res.proto = resp.StatusCode, resp.Proto
		var got strings.Builder
		for _, piece := range live.down {
			buf := make([]byte, len(piece))
			n, rerr := io.ReadFull(resp.Body, buf)
			got.Write(buf[:n])
			live.readDone(n)
			if rerr != nil {
				out.res.extra = "read: " + c13ErrClass(rerr)
				break
			}
		}
		rest, rerr := io.ReadAll(resp.Body)
		got.Write(rest)
		if rerr != nil {
			out.res.extra += " tail: " + c13ErrClass(rerr)
		}
		resp.Body.Close()
		out.res.body = got.String()
	}
	live.mu.Lock()
	live.noWait = true
	out.stalls = append([]string{}, live.stalls...)
	live.mu.Unlock()
	out.cl = cl
	cl.CloseIdleConnections()
	if cl.t3 != nil {
		cl.t3.Close()
	}
	collect(&out)
	return out
}

func c13GuardLive(d time.Duration, f func() c13LiveOut) (c13LiveOut, bool) {
	ch := make(chan c13LiveOut, 1)
	go func() { ch <- f() }()
	select {
	case o := <-ch:
		return o, false
	case <-time.After(d):
		return c13LiveOut{res: c13Result{err: "hung"}, log: &c13Log{}}, true
	}
}

func c13GenPieces(s *verifh.Session, n int) []string {
	r := s.Rand()
	var out []string
	for i := 0; i < n; i++ {
		size := verifh.Pick(r, []int{1, 2, 9, 100, 700, 3000, 5000})
		if size > 10 {
			size += r.Intn(size / 2)
		}
		out = append(out, verifh.RandBytes(r, size, "abcdefghijklmnopqrstuvwxyz0123456789 \r\n"))
	}
	return out
}

func c13Subset(cs []string, a []string) bool {
	m := map[string]bool{}
	for _, x := range a {
		m[x] = true
	}
	for _, x := range cs {
		if !m[x] {
			return false
		}
	}
	return true
}

// TestVerif_C13_live: interactive uploads and downloads on the three protocols, dump off / on.
func TestVerif_C13_live(t *testing.T) {
	s := verifh.New(t, "C13", "live",
		"interactive exchanges on HTTP/1.1 (chunked upload), HTTP/2 and HTTP/3, paired dump off / on with a fresh client each: POST whose body reader hands out piece k+1 (2..4 pieces of 1 B..7 KB, below and above the 4 KiB connection buffer) only after the peer has received piece k, response body of 1..3 pieces of which the peer sends piece j+1 only after the caller has read piece j from Response.Body (auto-read off); acknowledgements travel in-process; a piece not delivered within 2.5 s although its successor waits for it is recorded as withheld; dump configuration: the 16 part subsets (enumerated first) x 4 writer routings x sync/async x client / request / both levels; oracle: pieces withheld with dump on are a subset of those withheld without (none on the unchanged tree), peer-received request and caller-read body equal in the pair, every writer = the Lean model's expectedDump (c13exp); non-trivial = every pair")
	r := s.Rand()
	cnt := c13Counter{}
	h1 := c13NewPeer(t)
	defer h1.close()
	h1.lives = map[string]*c13Live{}
	h2 := c13NewH2Peer(t)
	defer h2.close()
	h2.lives = map[string]*c13Live{}
	h3 := c13NewH3Peer(t)
	defer h3.close()
	h3.lives = map[string]*c13Live{}
	type proto struct {
		name    string
		mk      func() *Client
		base    string
		n       int
		scripts *c13GScripts
	}
	protos := []proto{
		{"h1", func() *Client { return C().EnableForceHTTP1() }, "http://" + h1.addr(), verifh.N(60, 1500), nil},
		{"h2", func() *Client { return C().EnableForceHTTP2().EnableH2C() }, "http://" + h2.ln.Addr().String(), verifh.N(40, 1000), &h2.c13GScripts},
		{"h3", func() *Client { return c13H3Client(t) }, "https://" + h3.ln.Addr().String(), verifh.N(30, 700), &h3.c13GScripts},
	}
	var pend []*c13Pending
	seq := 0
	for _, pr := range protos {
		for c := 0; c < pr.n; c++ {
			seq++
			path := fmt.Sprintf("/c13/live/%d", seq)
			up := c13GenPieces(s, 2+r.Intn(3))
			down := c13GenPieces(s, 1+r.Intn(3))
			// dump configuration
			subset := (c*5 + r.Intn(16)) % 16
			if c < 16 {
				subset = (c*7 + 3) % 16 // all 16 subsets, the ones with request/response body first-ish
			}
			var cfg c13DumpCfg
			level := []string{"client", "request", "both"}[c%3]
			if level != "request" {
				cfg.cl = c13GenDumper(s, 10, subset, r.Intn(2) == 0)
			}
			if level != "client" {
				sub2 := subset
				if level == "both" {
					sub2 = r.Intn(16)
				}
				cfg.rq = c13GenDumper(s, 20, sub2, false)
			}
			viaSet := r.Intn(2) == 0
			respHead := "HTTP/1.1 200 OK\r\nContent-Type: application/octet-stream\r\nX-Verif: live\r\nTransfer-Encoding: chunked\r\n\r\n"
			gresp := c13GResp{fields: []c13Field{{":status", "200"}, {"content-type", "application/octet-stream"}, {"x-verif", "live"}}}
			run := func(cfg *c13DumpCfg) (c13LiveOut, bool) {
				live := c13NewLive(up, down)
				var collect func(*c13LiveOut)
				if pr.scripts == nil {
					h1.mu.Lock()
					h1.scripts[path] = []c13Resp{{raw: respHead, head: respHead}}
					h1.lives[path] = live
					h1.mu.Unlock()
					h1.reset()
					collect = func(o *c13LiveOut) { h1.waitIdle(); o.h1 = h1.reset() }
				} else {
					pr.scripts.mu.Lock()
					if pr.scripts.scripts == nil {
						pr.scripts.scripts = map[string][]c13GResp{}
					}
					pr.scripts.scripts[path] = []c13GResp{gresp}
					pr.scripts.lives[path] = live
					pr.scripts.mu.Unlock()
					pr.scripts.reset()
					collect = func(o *c13LiveOut) { o.g = pr.scripts.reset() }
				}
				return c13GuardLive(10*c13StallAfter+8*time.Second, func() c13LiveOut {
					return c13RunLive(pr.mk, pr.base+path, live, cfg, viaSet, collect)
				})
			}
			off, _ := run(nil)
			on, hung := run(&cfg)
			p := &c13Pending{
				id:    fmt.Sprintf("live %s #%d %s", pr.name, c, cfg.String()),
				log:   on.log, cl: on.cl, tokens: map[string]string{}, seqOf: map[string]int{},
				outputs: map[int]bool{10: true, 20: true}, nontrivial: true,
			}
			p.human = fmt.Sprintf("%s interactive POST, upload pieces %v, download pieces %v; %s; result %s", pr.name, c13Lens(up), c13Lens(down), cfg.String(), c13Clip(off.res.String(), 120))
			if hung {
				p.why = append(p.why, "the exchange with dump on never finished")
			}
			if off.res.err != "-" || off.res.status != 200 || off.res.body != strings.Join(down, "") {
				p.why = append(p.why, "harness: baseline exchange failed: "+off.res.String())
				cnt.add(s, "baseline-error")
			} else {
				cnt.add(s, "baseline-ok-"+pr.name)
			}
			if len(off.stalls) > 0 {
				cnt.add(s, "baseline-stalled")
			}
			if len(on.stalls) > 0 {
				c13LiveStalledRuns++
			}
			if !c13Subset(on.stalls, off.stalls) {
				p.why = append(p.why, fmt.Sprintf("interactive exchange stalls only with dump on: pieces withheld %v (u = upload piece not sent on although the body reader was asked for the next one, d = download piece not handed to the caller), without dump %v", on.stalls, off.stalls))
			}
			if off.res != on.res {
				p.why = append(p.why, fmt.Sprintf("caller-visible result differs: off {%s} on {%s}", c13Clip(off.res.String(), 300), c13Clip(on.res.String(), 300)))
			}
			// request as received + expected dump parts
			var parts []string
			add := func(i int, contents [4]string) {
				for j, content := range contents {
					tk := ""
					if content != "" {
						tk = fmt.Sprintf("%c%c%c", 'A'+i, "hbHB"[j], '.')
						p.tokens[tk] = content
						p.seqOf[tk] = []int{0, 0, 1, 2}[j]
					}
					parts = append(parts, tk)
				}
			}
			if pr.scripts == nil {
				if d := c13AttemptsEqual(off.h1, on.h1); d != "" {
					p.why = append(p.why, "bytes sent differ: "+d)
				}
				for i, at := range on.h1 {
					add(i, [4]string{at.head, at.payload, respHead, on.res.body})
				}
			} else {
				if d := c13GAttemptsEqual(off.g, on.g); d != "" {
					p.why = append(p.why, "request as received by the peer differs: "+d)
				}
				for i, at := range on.g {
					add(i, [4]string{c13Lines(at.fields), at.payload, gresp.headDump(false), on.res.body})
				}
			}
			if len(parts) == 0 {
				p.modelLine = "c13exp " + cfg.cl.modelArg() + " " + cfg.rq.modelArg() + " -"
			} else {
				p.modelLine = "c13exp " + cfg.cl.modelArg() + " " + cfg.rq.modelArg() + " " + verifh.HexList(parts)
			}
			pend = append(pend, p)
			cnt.add(s, "proto="+pr.name)
			cnt.add(s, "level="+level)
			cnt.add(s, fmt.Sprintf("subset=%d", subset))
			if subset&2 != 0 {
				cnt.add(s, "request-body-dumped-"+pr.name)
			}
			if subset&8 != 0 {
				cnt.add(s, "response-body-dumped-"+pr.name)
			}
		}
		c13Finish(t, s, pend)
		pend = nil
	}
	c13LiveUpgrade(t, s, cnt, h1)
	for _, must := range []string{"upgrade-baseline-ok", "upgrade-response-body-dumped", "baseline-ok-h1", "baseline-ok-h2", "baseline-ok-h3", "request-body-dumped-h1", "request-body-dumped-h2", "request-body-dumped-h3", "response-body-dumped-h1", "response-body-dumped-h2", "response-body-dumped-h3", "level=both"} {
		if cnt[must] == 0 {
			t.Errorf("generator never reached bucket %q", must)
		}
	}
	s.Finish()
}

// c13LiveUpgrade: 101 Switching Protocols over HTTP/1.1. The caller gets the connection as
// Response.Body (an io.ReadWriteCloser), speaks a line protocol over it and must be able to do so
// with dump on exactly as without: same Body capabilities, same transcript; the response head (the
// 101 head) and what the caller read are dumped as response header / body.
func c13LiveUpgrade(t *testing.T, s *verifh.Session, cnt c13Counter, h1 *c13Peer) {
	r := s.Rand()
	var pend []*c13Pending
	n := verifh.N(24, 500)
	for c := 0; c < n; c++ {
		path := fmt.Sprintf("/c13/upgrade/%d", c)
		var msgs []string
		for i, k := 0, 1+r.Intn(4); i < k; i++ {
			msgs = append(msgs, verifh.RandBytes(r, 1+r.Intn(40), "abcdefghijklmnopqrstuvwxyz "))
		}
		msgs = append(msgs, "bye")
		head := "HTTP/1.1 101 Switching Protocols\r\nConnection: Upgrade\r\nUpgrade: c13-echo\r\nX-Verif: upgrade\r\n\r\n"
		subset := (c*7 + 8) % 16 // response-body dump on in the first pairs
		if c >= 16 {
			subset = r.Intn(16)
		}
		var cfg c13DumpCfg
		level := []string{"client", "request", "both"}[c%3]
		if level != "request" {
			cfg.cl = c13GenDumper(s, 10, subset, r.Intn(2) == 0)
		}
		if level != "client" {
			sub2 := subset
			if level == "both" {
				sub2 = r.Intn(16)
			}
			cfg.rq = c13GenDumper(s, 20, sub2, false)
		}
		type upOut struct {
			res c13Result
			log *c13Log
			cl  *Client
			at  []c13Attempt
		}
		run := func(cfg *c13DumpCfg) (upOut, bool) {
			h1.mu.Lock()
			h1.scripts[path] = []c13Resp{{raw: head, head: head, upgrade: true}}
			h1.mu.Unlock()
			h1.reset()
			ch := make(chan upOut, 1)
			go func() {
				out := upOut{log: &c13Log{}}
				cl := C().EnableForceHTTP1().SetTimeout(0) // no Client.Timeout: net/http wraps the body of every response in a cancelTimerBody then
				if cfg != nil {
					cl = cfg.applyClient(cl, out.log, r.Intn(2) == 0)
				}
				rq := cl.R().DisableAutoReadResponse().SetHeader("Connection", "Upgrade").SetHeader("Upgrade", "c13-echo")
				if cfg != nil {
					cfg.applyRequest(rq, out.log)
				}
				resp, err := rq.Get("http://" + h1.addr() + path)
				out.res = c13Result{err: c13ErrClass(err)}
				if err == nil && resp != nil && resp.Response != nil {
					out.res.status, out.res.proto = resp.StatusCode, resp.Proto
					rwc, ok := resp.Body.(io.ReadWriteCloser)
					out.res.extra = fmt.Sprintf("body-is-ReadWriteCloser=%v", ok)
					if ok {
						var got strings.Builder
						buf := make([]byte, 256)
						for _, m := range msgs {
							if _, werr := rwc.Write([]byte(m + "\n")); werr != nil {
								out.res.extra += " write: " + c13ErrClass(werr)
								break
							}
							line := ""
							for !strings.HasSuffix(line, "\n") {
								k, rerr := rwc.Read(buf)
								line += string(buf[:k])
								if rerr != nil {
									break
								}
							}
							got.WriteString(line)
						}
						out.res.body = got.String()
					}
					resp.Body.Close()
				}
				out.cl = cl
				cl.CloseIdleConnections()
				h1.waitIdle()
				out.at = h1.reset()
				ch <- out
			}()
			select {
			case o := <-ch:
				return o, false
			case <-time.After(10 * time.Second):
				return upOut{res: c13Result{err: "hung"}, log: &c13Log{}}, true
			}
		}
		off, _ := run(nil)
		on, hung := run(&cfg)
		p := &c13Pending{
			id:  fmt.Sprintf("live upgrade #%d %s", c, cfg.String()),
			log: on.log, cl: on.cl, tokens: map[string]string{}, seqOf: map[string]int{},
			outputs: map[int]bool{10: true, 20: true}, nontrivial: true,
		}
		want := strings.ToUpper(strings.Join(msgs, "\n") + "\n")
		p.human = fmt.Sprintf("h1 GET with Upgrade: c13-echo -> 101, then %d lines over Response.Body; %s; result %s", len(msgs), cfg.String(), c13Clip(off.res.String(), 160))
		if hung {
			p.why = append(p.why, "the exchange with dump on never finished")
		}
		if off.res.err != "-" || off.res.status != 101 || off.res.body != want {
			p.why = append(p.why, "harness: baseline upgrade failed: "+off.res.String())
		} else {
			cnt.add(s, "upgrade-baseline-ok")
		}
		if off.res != on.res {
			p.why = append(p.why, fmt.Sprintf("caller-visible result differs: off {%s} on {%s}", c13Clip(off.res.String(), 300), c13Clip(on.res.String(), 300)))
		}
		bodyDumped := false
		for _, d := range []*c13DumperCfg{cfg.cl, cfg.rq} {
			if d != nil && d.flags[3] {
				bodyDumped = true
			}
		}
		if bodyDumped {
			cnt.add(s, "upgrade-response-body-dumped")
			p.class = "h1-upgrade-body-not-writable-with-response-body-dump"
		}
		var parts []string
		for i, at := range on.at {
			for j, content := range []string{at.head, "", head, on.res.body} {
				tk := ""
				if content != "" {
					tk = fmt.Sprintf("%c%c%c", 'A'+i, "hbHB"[j], '.')
					p.tokens[tk] = content
					p.seqOf[tk] = []int{0, 0, 1, 2}[j]
				}
				parts = append(parts, tk)
			}
		}
		if len(parts) == 0 {
			p.modelLine = "c13exp " + cfg.cl.modelArg() + " " + cfg.rq.modelArg() + " -"
		} else {
			p.modelLine = "c13exp " + cfg.cl.modelArg() + " " + cfg.rq.modelArg() + " " + verifh.HexList(parts)
		}
		pend = append(pend, p)
	}
	c13Finish(t, s, pend)
}
