//go:build verif

package req

// C07 round 4 — frame-field boundary matrix for HTTP/2 and HTTP/3 (the binary analogue of the
// byte-position matrix): every frame type x flags x stream id x numeric field value at its
// boundaries x payload length (exact, one short, one long, empty) x position in the exchange
// (before the response HEADERS, between HEADERS and DATA, after END_STREAM), through the real
// client. Oracle: the call returns response-or-error within the watchdog, no panic in the caller; a
// panic in a background goroutine kills the lane process (bin/check names the running case); the
// client answers a follow-up request; stuck-goroutine census at the end.

import (
	"bytes"
	"encoding/binary"
	"fmt"
	"io"
	"strconv"
	"strings"
	"testing"
	"time"

	"github.com/imroc/req/v3/internal/verifh"
	"github.com/quic-go/quic-go/quicvarint"
)

type c07H2Hostile struct {
	name string
	fr   c07Frame
}

// c07H2FrameMatrix: the hostile frames (one per case).
func c07H2FrameMatrix() []c07H2Hostile {
	var out []c07H2Hostile
	u32 := []uint32{0, 1, 2, 1<<14 - 1, 1 << 14, 1<<14 + 1, 1<<24 - 1, 1 << 24, 1<<31 - 1, 1 << 31, 1<<32 - 1}
	sids := []uint32{0, 1, 2, 3, 0x7fffffff, 0x80000001}
	add := func(name string, typ, flags byte, sid uint32, payload []byte) {
		out = append(out, c07H2Hostile{name, c07Frame{-1, typ, flags, sid, payload}})
	}
	lens := func(name string, typ, flags byte, sid uint32, payload []byte) {
		add(name, typ, flags, sid, payload)
		if len(payload) > 0 {
			add(name+"/short", typ, flags, sid, payload[:len(payload)-1])
			add(name+"/empty", typ, flags, sid, nil)
		}
		add(name+"/long", typ, flags, sid, append(append([]byte{}, payload...), 0))
	}
	hb := c07Hpack([2]string{":status", "200"})
	for _, sid := range sids {
		s := fmt.Sprintf("sid=%#x", sid)
		// SETTINGS: every identifier 0..7 and an unknown one x boundary values
		if sid == 0 || sid == 1 {
			for id := uint16(0); id <= 8; id++ {
				for _, v := range u32 {
					add(fmt.Sprintf("SETTINGS %s id=%d v=%d", s, id, v), 4, 0, sid, c07Setting(id, v))
				}
			}
			add("SETTINGS "+s+" two values of the same id", 4, 0, sid, append(c07Setting(4, 1), c07Setting(4, 1<<31-1)...))
			lens("SETTINGS "+s+" ack with payload", 4, 1, sid, c07Setting(3, 100))
			lens("SETTINGS "+s+" 7 bytes", 4, 0, sid, append(c07Setting(3, 100), 1))
		}
		// WINDOW_UPDATE increments
		for _, v := range u32 {
			lens(fmt.Sprintf("WINDOW_UPDATE %s incr=%d", s, v), 8, 0, sid, c07U32(v))
		}
		// RST_STREAM codes
		for _, v := range []uint32{0, 1, 2, 7, 8, 11, 13, 14, 1<<32 - 1} {
			lens(fmt.Sprintf("RST_STREAM %s code=%d", s, v), 3, 0, sid, c07U32(v))
		}
		// GOAWAY last-stream-id x code
		for _, last := range []uint32{0, 1, 2, 3, 1<<31 - 1, 1 << 31, 1<<32 - 1} {
			for _, code := range []uint32{0, 1, 11, 1<<32 - 1} {
				lens(fmt.Sprintf("GOAWAY %s last=%d code=%d", s, last, code), 7, 0, sid, append(append(c07U32(last), c07U32(code)...), "dbg"...))
			}
		}
		// PING
		for _, fl := range []byte{0, 1, 0xff} {
			lens(fmt.Sprintf("PING %s flags=%#x", s, fl), 6, fl, sid, []byte("12345678"))
		}
		// PRIORITY: dependency (self, zero, exclusive) x weight
		for _, dep := range []uint32{0, sid, 1, 0x80000000 | sid, 1<<32 - 1} {
			lens(fmt.Sprintf("PRIORITY %s dep=%#x", s, dep), 2, 0, sid, append(c07U32(dep), 255))
		}
		// DATA: flags x pad length
		for _, fl := range []byte{0, 1, 8, 9, 0xff} {
			for _, pad := range []int{0, 1, 4, 5, 6, 255} {
				pl := append([]byte{byte(pad)}, "hello"...)
				add(fmt.Sprintf("DATA %s flags=%#x pad-byte=%d", s, fl, pad), 0, fl, sid, pl)
			}
			add(fmt.Sprintf("DATA %s flags=%#x empty", s, fl), 0, fl, sid, nil)
		}
		// HEADERS: flags x pad / priority bytes (valid block inside)
		for _, fl := range []byte{0x4, 0x5, 0x0, 0xc, 0x24, 0x2c, 0x2d, 0xff} {
			for _, pad := range []int{0, 1, len(hb), len(hb) + 1, len(hb) + 5, len(hb) + 6, 255} {
				pl := append([]byte{byte(pad)}, hb...)
				add(fmt.Sprintf("HEADERS %s flags=%#x first-byte=%d", s, fl, pad), 1, fl, sid, pl)
				add(fmt.Sprintf("HEADERS %s flags=%#x first-byte=%d +5", s, fl, pad), 1, fl, sid, append(append([]byte{byte(pad)}, 0, 0, 0, 0, 9), hb...))
			}
			add(fmt.Sprintf("HEADERS %s flags=%#x empty", s, fl), 1, fl, sid, nil)
		}
		// CONTINUATION / PUSH_PROMISE / unknown types
		for _, fl := range []byte{0, 4, 0xff} {
			lens(fmt.Sprintf("CONTINUATION %s flags=%#x", s, fl), 9, fl, sid, hb)
			for _, prom := range []uint32{0, 1, 2, 4, 1<<31 - 1, 1 << 31} {
				lens(fmt.Sprintf("PUSH_PROMISE %s flags=%#x promised=%d", s, fl, prom), 5, fl, sid, append(c07U32(prom), hb...))
			}
			for _, typ := range []byte{0xa, 0xb, 0xc, 0x10, 0x7f, 0xff} {
				lens(fmt.Sprintf("type=%#x %s flags=%#x", typ, s, fl), typ, fl, sid, []byte("unknown-frame-payload"))
			}
		}
	}
	return out
}

func TestVerif_C07_h2frames(t *testing.T) {
	s := verifh.New(t, "C07", "h2frames",
		"HTTP/2 frame-field boundary matrix: one hostile frame per case — SETTINGS (ids 0..8 x values 0,1,2,2^14-1,2^14,2^14+1,2^24-1,2^24,2^31-1,2^31,2^32-1; duplicate id; ACK with payload; 7 bytes), WINDOW_UPDATE (same increments), RST_STREAM codes, GOAWAY (last-stream-id x code), PING (flags), PRIORITY (self / zero / exclusive dependency), DATA (flags x pad byte), HEADERS (flags x pad byte x priority bytes), CONTINUATION, PUSH_PROMISE (promised id), unknown types — each on stream 0 / the request's stream / an even / an idle / the maximal / a reserved-bit id, each with its exact length, one byte short, empty and one byte long, at one of three positions (before the response HEADERS, between HEADERS and DATA, after END_STREAM), for GET and for a 70 kB PUT, with and without a declared content-length; quick tier: a seed-dependent quarter (every frame kind still present), thorough: all; oracle: the call returns response-or-error within the watchdog, no panic; follow-up request; census of HTTP/2 goroutines; every case non-trivial")
	peer := newC07H2Peer(t)
	defer peer.closeAll()
	base := "http://" + peer.ln.Addr().String()
	mk := func() *Client {
		// a graceful GOAWAY makes the transport retry on a new connection (which gets the same script)
		// with exponential back-off until the client timeout: keep that timeout short, the watchdog
		// (the oracle) stays at 15 s
		return C().SetTimeout(4 * time.Second).EnableH2C().EnableForceHTTP2().SetLogger(nil)
	}
	matrix := c07H2FrameMatrix()
	s.Count("matrix-size:" + strconv.Itoa(len(matrix)))
	settings := c07Frame{-1, 4, 0, 0, nil}.bytes()
	head := c07Frame{-1, 1, 0x4, 1, c07Hpack([2]string{":status", "200"}, [2]string{"content-type", "text/plain"})}.bytes()
	headCL := c07Frame{-1, 1, 0x4, 1, c07Hpack([2]string{":status", "200"}, [2]string{"content-type", "text/plain"}, [2]string{"content-length", "5"})}.bytes()
	data := c07Frame{-1, 0, 1, 1, []byte("hello")}.bytes()
	wedges := 0
	seq := 0
	sh := int(verifh.Seed())
	for i, h := range matrix {
		for pos := 0; pos < 3; pos++ {
			if !verifh.Thorough() && (i*3+pos+sh)%4 != 0 {
				continue
			}
			if wedges >= 3 {
				break
			}
			seq++
			head := head
			if seq%2 == 0 {
				head = headCL // a declared content-length: extra DATA / END_STREAM variants hit the bytesRemain accounting
			}
			var out bytes.Buffer
			out.Write(settings)
			switch pos {
			case 0:
				out.Write(h.fr.bytes())
				out.Write(head)
				out.Write(data)
			case 1:
				out.Write(head)
				out.Write(h.fr.bytes())
				out.Write(data)
			default:
				out.Write(head)
				out.Write(data)
				out.Write(h.fr.bytes())
			}
			path := "/f" + strconv.Itoa(seq)
			peer.set(path, c07Script{data: out.Bytes()})
			put := seq%4 == 0
			human := fmt.Sprintf("%s at position %s, request %s", h.name, []string{"before-HEADERS", "between-HEADERS-and-DATA", "after-END_STREAM"}[pos], map[bool]string{true: "PUT(70000B)", false: "GET"}[put])
			id := "h2frames:" + human
			s.Begin(id, human)
			s.Count("kind:" + strings.SplitN(h.name, " ", 2)[0])
			c := mk()
			ch := make(chan [2]string, 1)
			go func() {
				kind := ""
				ptxt, panicked := verifh.Safely(func() {
					var rp *Response
					var err error
					if put {
						rp, err = c.R().SetBodyBytes(bytes.Repeat([]byte("U"), 70000)).Put(base + path)
					} else {
						rp, err = c.R().Get(base + path)
					}
					switch {
					case rp == nil:
						kind = "nil-response"
					case err != nil:
						kind = "error"
					default:
						kind = "response"
						if rp.Response != nil && rp.Body != nil {
							io.Copy(io.Discard, rp.Body)
							rp.Body.Close()
						}
					}
				})
				if panicked {
					ch <- [2]string{"panic", ptxt}
					return
				}
				ch <- [2]string{kind, ""}
			}()
			select {
			case res := <-ch:
				s.Count(res[0])
				switch res[0] {
				case "panic":
					s.Crash(id, human, "panic in caller goroutine: "+res[1], "")
				case "nil-response":
					s.Observe(id, false, "", true, human, "call returned a nil *Response")
				default:
					s.Observe(id, true, "", true, human, "")
				}
			case <-time.After(15 * time.Second):
				s.Count("wedged")
				s.Observe(id, false, "", true, human, "call did not return within 15 s although the peer closed the connection and the client timeout is 4 s")
				wedges++
			}
			c.GetTransport().CloseIdleConnections()
			peer.mu.Lock()
			delete(peer.scripts, path)
			peer.mu.Unlock()
		}
	}
	if wedges == 0 {
		c := mk()
		ok := false
		var err error
		for try := 0; try < 4 && !ok; try++ {
			var rp *Response
			rp, err = c.R().Get(base + "/default")
			ok = err == nil && rp != nil && rp.StatusCode == 200
		}
		s.Observe("h2frames-followup", ok, "", true, "a new client after the matrix", fmt.Sprintf("HTTP/2 unusable after the matrix: %v", err))
		c.GetTransport().CloseIdleConnections()
	}
	peer.closeAll()
	stuck, where := c07StuckLoops("http2.(*ClientConn).readLoop", "http2.(*clientStream).doRequest")
	s.Observe("stuck-h2-loops", stuck == 0, "", true, fmt.Sprintf("HTTP/2 goroutines still alive after every connection was closed: %d", stuck),
		fmt.Sprintf("%d HTTP/2 read-loop / request goroutines are stuck after every connection was closed, e.g.:\n%s", stuck, where))
	s.Finish()
}

// ---------------------------------------------------------------------------- HTTP/3

func c07VarintFrame(typ, declared uint64, payload []byte) []byte {
	b := quicvarint.Append(nil, typ)
	b = quicvarint.Append(b, declared)
	return append(b, payload...)
}

func TestVerif_C07_h3frames(t *testing.T) {
	s := verifh.New(t, "C07", "h3frames",
		"HTTP/3 frame matrix: (a) request stream: frame type in {0x0..0xe, 0x21 GREASE, 0x40, 2^30, 2^62-1} x declared length in {0, 1, exact, exact+1 (stream ends early), 2^14, 2^30, 2^62-1} x position (before HEADERS, between HEADERS and DATA, after DATA, after trailers) with a QPACK block / 5 data bytes / garbage as payload; (b) control stream on a fresh connection: first frame of each type x length, SETTINGS identifier x value (0x8 and 0x33 with 0/1/2, HTTP/2 identifiers 0x2..0x5, 0x1 / 0x6 / 0x7 with boundary values, duplicates, an odd-length payload), then GOAWAY / MAX_PUSH_ID / CANCEL_PUSH ids at their boundaries, a second SETTINGS, DATA / HEADERS on the control stream; (c) unidirectional streams of type control (duplicate) / push / QPACK encoder / QPACK decoder / GREASE / 0x40 / 2^62-1 with garbage, closed or left open; (d) staged interleavings: control + 1..2 more streams of type control / push / QPACK encoder / QPACK decoder, all type bytes first and the frames 40 ms later; oracle: the call returns response-or-error within the watchdog, no panic; a follow-up request on a fresh well-behaved connection; every case non-trivial")
	probe := C().EnableForceHTTP3()
	if probe.t3 == nil {
		t.Fatalf("HTTP/3 not available on this toolchain: no tests to run")
	}
	peer := newC07H3Peer(t)
	defer peer.closeAll()
	base := "https://" + peer.ln.Addr().String()
	var cur *Client
	mk := func() *Client {
		if cur != nil {
			cur.GetTransport().CloseIdleConnections()
			if cur.t3 != nil {
				cur.t3.Close()
			}
		}
		cur = C().SetTimeout(10 * time.Second).EnableForceHTTP3().EnableInsecureSkipVerify().SetLogger(nil)
		return cur
	}
	c := mk()
	wedges := 0
	seq := 0
	runOne := func(sc c07H3Script, fresh bool, human string) {
		if wedges >= 3 {
			return
		}
		seq++
		path := "/f" + strconv.Itoa(seq)
		peer.set(path, sc)
		if fresh {
			peer.mu.Lock()
			peer.next = &sc
			peer.mu.Unlock()
			c = mk()
		}
		id := "h3frames:" + human
		s.Begin(id, human)
		ch := make(chan [2]string, 1)
		cl := c
		go func() {
			kind := ""
			ptxt, panicked := verifh.Safely(func() {
				rp, err := cl.R().Get(base + path)
				switch {
				case rp == nil:
					kind = "nil-response"
				case err != nil:
					kind = "error"
				default:
					kind = "response"
					if rp.Response != nil && rp.Body != nil {
						io.Copy(io.Discard, rp.Body)
						rp.Body.Close()
					}
				}
			})
			if panicked {
				ch <- [2]string{"panic", ptxt}
				return
			}
			ch <- [2]string{kind, ""}
		}()
		select {
		case res := <-ch:
			s.Count(res[0])
			switch res[0] {
			case "panic":
				s.Crash(id, human, "panic in caller goroutine: "+res[1], "")
			case "nil-response":
				s.Observe(id, false, "", true, human, "call returned a nil *Response")
			default:
				s.Observe(id, true, "", true, human, "")
			}
		case <-time.After(15 * time.Second):
			s.Count("wedged")
			s.Observe(id, false, "", true, human, "call did not return within 15 s although the client timeout is 10 s")
			wedges++
			c = mk()
		}
		peer.mu.Lock()
		delete(peer.scripts, path)
		peer.next = nil
		peer.mu.Unlock()
	}
	okCtl := []byte{0x00, 0x04, 0x00}
	head := c07H3Frame(0x1, c07Qpack([2]string{":status", "200"}, [2]string{"content-type", "text/plain"}))
	data := c07H3Frame(0x0, []byte("hello"))
	trailers := c07H3Frame(0x1, c07Qpack([2]string{"x-t", "1"}))
	block := c07Qpack([2]string{":status", "200"})
	types := []uint64{0x0, 0x1, 0x2, 0x3, 0x4, 0x5, 0x6, 0x7, 0x8, 0x9, 0xa, 0xb, 0xc, 0xd, 0xe, 0x21, 0x40, 1 << 30, 1<<62 - 1}
	sh := int(verifh.Seed())
	k := 0
	// (a) request stream
	for _, ty := range types {
		for pi, payload := range [][]byte{block, []byte("hello"), {0x01}, nil} {
			exact := uint64(len(payload))
			for _, decl := range []uint64{0, 1, exact, exact + 1, 1 << 14, 1 << 30, 1<<62 - 1} {
				for pos := 0; pos < 4; pos++ {
					k++
					if !verifh.Thorough() && (k+sh)%3 != 0 {
						continue
					}
					fr := c07VarintFrame(ty, decl, payload)
					var out []byte
					switch pos {
					case 0:
						out = append(append(append(out, fr...), head...), data...)
					case 1:
						out = append(append(append(out, head...), fr...), data...)
					case 2:
						out = append(append(append(out, head...), data...), fr...)
					default:
						out = append(append(append(append(out, head...), data...), trailers...), fr...)
					}
					s.Count("request-stream")
					runOne(c07H3Script{response: out, reset: -1, control: okCtl}, false,
						fmt.Sprintf("request stream: frame type %#x declared length %d payload#%d (%d bytes) at position %d", ty, decl, pi, len(payload), pos))
				}
			}
		}
	}
	resp := append(append([]byte{}, head...), data...)
	// (b) control stream (fresh connection each)
	var ctls [][2]interface{}
	addCtl := func(name string, b []byte) { ctls = append(ctls, [2]interface{}{name, b}) }
	for _, ty := range types {
		for _, decl := range []uint64{0, 1, 3, 1 << 14, 1<<62 - 1} {
			addCtl(fmt.Sprintf("first frame type %#x declared %d", ty, decl), append([]byte{0x00}, c07VarintFrame(ty, decl, []byte{0x01, 0x00, 0x00})...))
		}
	}
	setting := func(id, v uint64) []byte { return quicvarint.Append(quicvarint.Append(nil, id), v) }
	for _, id := range []uint64{0x1, 0x2, 0x3, 0x4, 0x5, 0x6, 0x7, 0x8, 0x33, 0x21, 1<<62 - 1} {
		for _, v := range []uint64{0, 1, 2, 1 << 14, 1<<62 - 1} {
			addCtl(fmt.Sprintf("SETTINGS id=%#x value=%d", id, v), append([]byte{0x00}, c07H3Frame(0x4, setting(id, v))...))
		}
		addCtl(fmt.Sprintf("SETTINGS id=%#x twice", id), append([]byte{0x00}, c07H3Frame(0x4, append(setting(id, 1), setting(id, 1)...))...))
	}
	addCtl("SETTINGS odd payload", append([]byte{0x00}, c07H3Frame(0x4, []byte{0x08})...))
	addCtl("SETTINGS 9000 bytes", append([]byte{0x00}, c07H3Frame(0x4, bytes.Repeat(setting(0x21+0x1f*3, 1), 3000))...))
	for _, ty := range []uint64{0x7, 0xd, 0x3} {
		for _, v := range []uint64{0, 1, 3, 4, 1<<62 - 1} {
			addCtl(fmt.Sprintf("SETTINGS then frame %#x id=%d", ty, v), append(append([]byte{}, okCtl...), c07H3Frame(ty, quicvarint.Append(nil, v))...))
		}
		addCtl(fmt.Sprintf("SETTINGS then frame %#x empty", ty), append(append([]byte{}, okCtl...), c07H3Frame(ty, nil)...))
		addCtl(fmt.Sprintf("SETTINGS then frame %#x twice descending", ty), append(append(append([]byte{}, okCtl...), c07H3Frame(ty, quicvarint.Append(nil, 8))...), c07H3Frame(ty, quicvarint.Append(nil, 4))...))
		addCtl(fmt.Sprintf("SETTINGS then frame %#x twice ascending", ty), append(append(append([]byte{}, okCtl...), c07H3Frame(ty, quicvarint.Append(nil, 4))...), c07H3Frame(ty, quicvarint.Append(nil, 8))...))
	}
	addCtl("SETTINGS twice", append(append([]byte{}, okCtl...), c07H3Frame(0x4, nil)...))
	addCtl("SETTINGS then DATA", append(append([]byte{}, okCtl...), c07H3Frame(0x0, []byte("x"))...))
	addCtl("SETTINGS then HEADERS", append(append([]byte{}, okCtl...), head...))
	addCtl("stream type only", []byte{0x00})
	addCtl("nothing", nil)
	for i, ct := range ctls {
		if !verifh.Thorough() && (i+sh)%3 != 0 {
			continue
		}
		for _, closeCtl := range []bool{false, true} {
			if closeCtl && (i+sh)%2 != 0 && !verifh.Thorough() {
				continue
			}
			s.Count("control-stream")
			runOne(c07H3Script{response: resp, reset: -1, control: ct[1].([]byte), closeCtl: closeCtl}, true,
				fmt.Sprintf("control stream: %s (then closed=%v)", ct[0].(string), closeCtl))
		}
	}
	// (c) unidirectional streams
	for _, ty := range []uint64{0x0, 0x1, 0x2, 0x3, 0x21, 0x40, 1<<62 - 1} {
		for gi, garbage := range [][]byte{nil, {0x00}, {0xff, 0xff, 0xff, 0xff}, bytes.Repeat([]byte{0x3f}, 64), c07H3Frame(0x4, nil)} {
			b := append(quicvarint.Append(nil, ty), garbage...)
			// the peer closes a stream whose byte count is even and leaves the others open
			s.Count("uni-stream")
			runOne(c07H3Script{response: resp, reset: -1, control: okCtl, extraUni: [][]byte{b}}, true,
				fmt.Sprintf("unidirectional stream type %#x with payload #%d (%d bytes, %s)", ty, gi, len(garbage), map[bool]string{true: "closed", false: "left open"}[len(b)%2 == 0]))
		}
	}
	// (d) round 5: interleavings of several unidirectional streams of one type — the peer opens all of
	// them (its control stream included), writes only the stream-type byte of each, pauses, then writes
	// the frames: every stream is past the client's "only one of this type" guard before any of them
	// delivers its first frame (2 or 3 streams of each critical type, with a SETTINGS frame / garbage)
	for _, ty := range []uint64{0x0, 0x1, 0x2, 0x3} {
		for _, copies := range []int{1, 2} {
			for gi, garbage := range [][]byte{c07H3Frame(0x4, nil), c07H3Frame(0x4, setting(0x8, 1)), {0x3f, 0x3f}} {
				var extra [][]byte
				for k := 0; k < copies; k++ {
					extra = append(extra, append(quicvarint.Append(nil, ty), garbage...))
				}
				s.Count("uni-stream-staged")
				runOne(c07H3Script{response: resp, reset: -1, control: okCtl, extraUni: extra, stagedUni: true}, true,
					fmt.Sprintf("staged unidirectional streams: control + %d more of type %#x, type bytes first, then (40 ms later) payload #%d on each", copies, ty, gi))
			}
		}
	}
	// follow-up on a fresh, well-behaved connection
	if wedges == 0 {
		c = mk()
		ok := false
		var err error
		for try := 0; try < 3 && !ok; try++ {
			var rp *Response
			rp, err = c.R().Get(base + "/default")
			ok = err == nil && rp != nil && rp.StatusCode == 200
		}
		s.Observe("h3frames-followup", ok, "", true, "a new client after the matrix", fmt.Sprintf("HTTP/3 unusable after the matrix: %v", err))
	}
	c.GetTransport().CloseIdleConnections()
	if c.t3 != nil {
		c.t3.Close()
	}
	_ = binary.BigEndian
	s.Finish()
}
