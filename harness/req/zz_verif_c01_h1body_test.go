//go:build verif

package req

// C01 lane h1body (round 5): the real newTransferWriter + transferWriter.writeBody on a scripted body
// reader (the shared reader-behaviour generator of the three body lanes), written into a recording
// io.Writer. The framing chosen, how writeBody ends and EVERY byte it wrote are compared with the
// Lean model Req.H1.BodyWrite (plan / writeBody) — the model the theorems
// h1_overlong_reader_never_on_wire / h1_body_ok_exact / h1_reader_refines_serialize are about.

import (
	"bytes"
	"errors"
	"fmt"
	"net/http"
	"net/url"
	"strconv"
	"strings"
	"testing"
	"time"

	"github.com/imroc/req/v3/internal/verifh"
)

// c01PlainWriter is an io.Writer without ReadFrom / WriteString shortcuts: io.CopyBuffer runs its
// own read/write loop against it.
type c01PlainWriter struct {
	buf    bytes.Buffer
	writes int
}

func (w *c01PlainWriter) Write(p []byte) (int, error) {
	w.writes++
	return w.buf.Write(p)
}

// c01Dechunk: reference reading of a chunked body (RFC 9112 §7.1, no extensions / trailers as the
// writer produces none): the payload of the whole chunks and whether the terminating
// `0 CRLF CRLF` was reached with nothing behind it.
func c01Dechunk(w []byte) (payload []byte, chunks int, complete, wellFormed bool) {
	for {
		i := bytes.Index(w, []byte("\r\n"))
		if i < 0 {
			return payload, chunks, false, len(w) == 0
		}
		n, err := strconv.ParseUint(string(w[:i]), 16, 32)
		if err != nil {
			return payload, chunks, false, false
		}
		w = w[i+2:]
		if n == 0 {
			return payload, chunks, bytes.Equal(w, []byte("\r\n")), bytes.Equal(w, []byte("\r\n"))
		}
		if uint64(len(w)) < n+2 || w[n] != '\r' || w[n+1] != '\n' {
			return payload, chunks, false, false
		}
		payload = append(payload, w[:n]...)
		chunks++
		w = w[n+2:]
	}
}

func TestVerif_C01_h1body(t *testing.T) {
	s := c01New(t, "C01", "h1body",
		"real newTransferWriter + transferWriter.writeBody into a plain recording writer; body = the shared scripted reader (0..100 KiB around the 4 KiB bufio, 8 KiB discard and 32 KiB copy buffers, 1 MiB in the thorough tier; 0..6 scripted read sizes incl. zero-length reads; end signalled as (0,EOF), (n,EOF), (0,err), (n,err)); methods with and without the one-byte probe (POST PUT PATCH custom / GET HEAD DELETE OPTIONS PROPFIND empty / CONNECT); declared length absent / exact / larger / smaller than what the reader yields; compared with the Lean model: framing (nobody / chunked / identity / known:n), outcome (ok / reader error / ContentLength mismatch), every byte written; independent oracle: the payload on the wire is a prefix of the FIRST declared-length bytes of the body (nothing of the surplus), all of it when writeBody returns nil, a chunked body is terminated iff writeBody returned nil; non-trivial = at least two writes")
	r := s.Rand()
	n := verifh.N(3000, 24000)
	u, _ := url.Parse("http://example.com/upload")
	methods := []string{"POST", "POST", "PUT", "PATCH", "X-CUSTOM", "GET", "HEAD", "DELETE", "OPTIONS", "PROPFIND", "", "CONNECT"}
	bodySizes := []int{0, 0, 1, 2, 3, 100, 4095, 4096, 4097, 8191, 8192, 8193, 16384, 32767, 32768, 32769, 65536, 65537, 100 << 10}
	readSizes := []int{2, 512, 4095, 4096, 4097, 8192, 32767, 32768, 32769, 40000, 1 << 20}
	for i := 0; i < n; i++ {
		sc := verifh.C01GenReaderScript(r, bodySizes, 70000, readSizes)
		if verifh.Thorough() && i%400 == 0 {
			sc.N = 1<<20 + r.Intn(3) - 1
		}
		cl, clClass := verifh.C01GenDeclared(r, sc.N)
		if r.Intn(12) == 0 {
			cl = 0 // ContentLength 0 with a non-nil body = unknown
			clClass = "none"
		}
		method := verifh.Pick(r, methods)
		want := sc.Body()
		body := sc.Reader()
		human := fmt.Sprintf("method=%q cl=%d (%s) %s", method, cl, clClass, sc)
		id := fmt.Sprintf("h1body-%d", i)
		s.Begin(id, human)
		req := &http.Request{Method: method, URL: u, Header: http.Header{}, Proto: "HTTP/1.1", ProtoMajor: 1, ProtoMinor: 1,
			ContentLength: cl, Body: body}
		w := &c01PlainWriter{}
		var tw *transferWriter
		var err, werr error
		t0 := time.Now()
		if txt, p := verifh.Safely(func() {
			tw, err = newTransferWriter(req)
			if err == nil {
				werr = tw.writeBody(w, nil)
			}
		}); p {
			s.Crash(id, human, txt, "")
			continue
		}
		if err != nil {
			s.Observe(id, false, "", false, human, "newTransferWriter failed: "+err.Error())
			continue
		}
		if time.Since(t0) > 150*time.Millisecond {
			// the one-byte probe gives up after 200 ms and chooses the framing without its answer:
			// on a machine this busy the framing is a matter of timing, not of the code
			s.Count("skipped:slow-probe")
			continue
		}
		mode := "known:" + strconv.FormatInt(tw.ContentLength, 10)
		switch {
		case tw.Body == nil:
			mode = "nobody"
		case chunked(tw.TransferEncoding):
			mode = "chunked"
		case tw.ContentLength == -1:
			mode = "identity"
		}
		outcome := "ok"
		switch {
		case werr == nil:
		case errors.Is(werr, verifh.ErrC01Boom):
			outcome = "readerr"
		case strings.Contains(werr.Error(), "with Body length"):
			outcome = "bodylen"
		default:
			outcome = "other:" + werr.Error()
		}
		wire := w.buf.Bytes()
		impl := fmt.Sprintf("%s %s %s", mode, outcome, c01Blob(wire))
		buf := 32768
		body.Mu.Lock()
		if len(body.BufLens) > 0 {
			buf = 0
			for _, l := range body.BufLens {
				if l > buf {
					buf = l
				}
			}
		}
		body.Mu.Unlock()
		line := fmt.Sprintf("c01h1body %s %d %d %s %s %s", verifh.Hex(method), cl, buf, sc.Spec(), verifh.IntList(sc.Sizes), sc.Ending)
		// independent oracle
		ok, why := true, ""
		payload := wire
		limit := len(want)
		switch {
		case mode == "chunked":
			p, _, complete, wf := c01Dechunk(wire)
			payload = p
			if complete != (werr == nil) {
				ok, why = false, fmt.Sprintf("chunked body terminated=%v but writeBody returned %v", complete, werr)
			}
			if werr == nil && !wf {
				ok, why = false, "chunked body not well formed"
			}
		case strings.HasPrefix(mode, "known:"):
			if int(tw.ContentLength) < limit {
				limit = int(tw.ContentLength)
			}
		}
		switch {
		case !ok:
		case !bytes.HasPrefix(want[:limit], payload):
			ok, why = false, fmt.Sprintf("the %d payload bytes written are not a prefix of the first %d bytes of the body (surplus or altered bytes on the wire)", len(payload), limit)
		case werr == nil && !bytes.Equal(payload, want):
			ok, why = false, "writeBody returned nil but the payload is not the whole body"
		case werr == nil && !sc.Honest():
			ok, why = false, "writeBody returned nil although the body reader failed"
		case werr == nil && strings.HasPrefix(mode, "known:") && int(tw.ContentLength) != len(want):
			ok, why = false, "writeBody returned nil although the reader's length differs from the declared one"
		}
		s.Count("mode:" + strings.SplitN(mode, ":", 2)[0])
		s.Count("outcome:" + strings.SplitN(outcome, ":", 2)[0])
		if strings.HasPrefix(mode, "known:") {
			s.Count("known:" + clClass)
		}
		if mode == "chunked" && len(body.BufLens) > 0 && body.BufLens[0] == 1 {
			s.Count("probed")
		}
		s.Case(line, impl, ok, "", w.writes >= 2, human+" -> "+mode+" "+outcome+" "+why)
	}
	s.Need(t, "mode:nobody", "mode:chunked", "mode:identity", "mode:known", "outcome:ok", "outcome:readerr", "outcome:bodylen",
		"known:exact", "known:reader-long", "known:reader-short", "probed")
	s.Finish()
}
