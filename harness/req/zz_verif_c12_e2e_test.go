//go:build verif

package req

// Lanes c12e2e / c12uniform / c12seq / c12crash: the real client against loopback origins
// (HTTP/1.1-only TLS, h2+h1 TLS with ALPN, TLS without ALPN, HTTP/3 via quic-go on the same
// port number, Alt-Svc advertisement, client-certificate-requiring, clear-text h1 and h2c).

import (
	"context"
	"crypto/tls"
	"fmt"
	"net"
	"net/url"
	"os"
	"os/exec"
	"path/filepath"
	"strings"
	"sync"
	"sync/atomic"
	"testing"
	"time"

	"github.com/imroc/req/v3/internal/netutil"
	"github.com/imroc/req/v3/internal/verifh"
)

// ---------------------------------------------------------------------------- world

var c12OfferTable = map[string]c12Offer{
	"h1":       {alpn: []string{"http/1.1"}},
	"h2h1":     {alpn: []string{"h2", "http/1.1"}},
	"noalpn":   {alpn: nil},
	"all":      {alpn: []string{"h2", "http/1.1"}, h3: true},
	"h1+h3":    {alpn: []string{"http/1.1"}, h3: true},
	"alt":      {alpn: []string{"h2", "http/1.1"}, h3: true, altSvc: true},
	"mtls":     {alpn: []string{"h2", "http/1.1"}, h3: true, clientAuth: true},
	"plain":    {plain: true},
	"plainalt": {plain: true, h3: true, altSvc: true},
	"h2c":      {plain: true, plainH2: true},
}

type c12World struct {
	origins map[string][2]*c12Origin
}

func c12StartWorld() (*c12World, error) {
	w := &c12World{origins: map[string][2]*c12Origin{}}
	for name, off := range c12OfferTable {
		var pair [2]*c12Origin
		for i := 0; i < 2; i++ {
			o, err := c12StartOrigin(off)
			if err != nil {
				w.close()
				return nil, fmt.Errorf("origin %s: %v", name, err)
			}
			pair[i] = o
		}
		w.origins[name] = pair
	}
	return w, nil
}

func (w *c12World) close() {
	for _, p := range w.origins {
		for _, o := range p {
			if o != nil {
				o.close()
			}
		}
	}
}

// ---------------------------------------------------------------------------- cells

// c12TLS is one TLS setting of the client, abstractly.
type c12TLS struct {
	name       string
	roots      string // "" (default roots) | "good" | "wrong"
	insecure   bool
	serverName string
	cert       string // "" | "ok" | "bad"
	mtls       bool   // to be run against the client-certificate-requiring origin
}

var c12TLSCells = []c12TLS{
	{name: "default-roots"},
	{name: "private-root", roots: "good"},
	{name: "wrong-root", roots: "wrong"},
	{name: "insecure", insecure: true},
	{name: "insecure+wrong-root", roots: "wrong", insecure: true},
	{name: "servername-override", roots: "good", serverName: c12SAN},
	{name: "servername-mismatch", roots: "good", serverName: c12WrongSAN},
	{name: "mtls-cert", roots: "good", cert: "ok", mtls: true},
	{name: "mtls-no-cert", roots: "good", mtls: true},
	{name: "mtls-bad-cert", roots: "good", cert: "bad", mtls: true},
	{name: "mtls-insecure-cert", insecure: true, cert: "ok", mtls: true},
}

// accept is the property's own reading of "acceptable under those settings" for the origin
// certificate (issued by cas[0]; SAN IP 127.0.0.1, DNS c12.example) dialled as 127.0.0.1,
// plus the origin's client-certificate requirement.
func (t c12TLS) accept() bool {
	serverOK := t.insecure || (t.roots == "good" && (t.serverName == "" || t.serverName == c12SAN))
	clientOK := !t.mtls || t.cert == "ok"
	return serverOK && clientOK
}

var c12Hows = []string{"helpers-string", "helpers-file", "SetTLSClientConfig", "GetTLSClientConfig-mutation", "SetTLSClientConfig-noALPN"}

// protos is TLSClientConfig.NextProtos after the settings were applied this way.
func c12HowProtos(how string) string {
	switch how {
	case "SetTLSClientConfig":
		return "21"
	case "SetTLSClientConfig-noALPN":
		return "-"
	}
	return "12" // T()'s initial config
}

func c12ApplyTLS(c *Client, t c12TLS, how string, dir string) {
	pki := c12GetPKI()
	var ca *c12CA
	switch t.roots {
	case "good":
		ca = pki.cas[0]
	case "wrong":
		ca = pki.cas[1]
	}
	var cert *tls.Certificate
	switch t.cert {
	case "ok":
		cert = &pki.clientOK
	case "bad":
		cert = &pki.clientBad
	}
	switch how {
	case "helpers-string", "helpers-file":
		if ca != nil {
			if how == "helpers-file" {
				c.SetRootCertsFromFile(filepath.Join(dir, ca.name+".pem")) // written by c12WriteCAFiles
			} else {
				c.SetRootCertFromString(ca.pem)
			}
		}
		if t.insecure {
			c.EnableInsecureSkipVerify()
		} else {
			c.DisableInsecureSkipVerify()
		}
		if cert != nil {
			c.SetCerts(*cert)
		}
		c.GetTLSClientConfig().ServerName = t.serverName
	case "SetTLSClientConfig", "SetTLSClientConfig-noALPN":
		cfg := &tls.Config{InsecureSkipVerify: t.insecure, ServerName: t.serverName}
		if how == "SetTLSClientConfig" {
			cfg.NextProtos = []string{"h2", "http/1.1"}
		}
		if ca != nil {
			cfg.RootCAs = ca.pool()
		}
		if cert != nil {
			cfg.Certificates = []tls.Certificate{*cert}
		}
		c.SetTLSClientConfig(cfg)
	case "GetTLSClientConfig-mutation":
		cfg := c.GetTLSClientConfig()
		cfg.InsecureSkipVerify = t.insecure
		cfg.ServerName = t.serverName
		cfg.RootCAs = nil
		if ca != nil {
			cfg.RootCAs = ca.pool()
		}
		cfg.Certificates = nil
		if cert != nil {
			cfg.Certificates = []tls.Certificate{*cert}
		}
	}
}

// c12WriteCAFiles writes the CA certificates as PEM files once (cells run concurrently).
func c12WriteCAFiles(dir string) {
	for _, ca := range c12GetPKI().cas {
		os.WriteFile(filepath.Join(dir, ca.name+".pem"), []byte(ca.pem), 0o600)
	}
}

type c12Cell struct {
	force   string // "-", "1", "2", "3"
	h3on    bool   // EnableHTTP3 without forcing (un-forced cells only)
	offer   string
	tls     c12TLS
	how     string
	kind    string // fresh | clone | changed
	custom  string // none | dialtls | handshake
	cTrust  string // custom function trusts: good | wrong
	cProtos string // custom function offers: "21" | "1"
	upgrade bool   // websocket upgrade request (requestRequiresHTTP1)
	h2c     bool   // EnableH2C
	scheme  string
}

// custom: none | dialtls | handshake | fp (SetTLSFingerprintChrome) | fp>handshake | handshake>fp |
// fp>dialtls — the setters in that order on one client. The LAST handshake setter governs the
// TCP stacks; a DialTLS function takes precedence over any handshake function.
func (c c12Cell) hasCustom() bool { return c.custom != "none" }

// modelDial / modelHS: Options.DialTLSContext / Options.TLSHandshakeContext non-nil.
func (c c12Cell) modelDial() bool { return c.custom == "dialtls" || c.custom == "fp>dialtls" }
func (c c12Cell) modelHS() bool {
	return c.custom == "handshake" || c.custom == "fp" || c.custom == "fp>handshake" || c.custom == "handshake>fp" || c.custom == "fp>dialtls"
}

// customGoverns: the lane's own dial/handshake function (own trust) decides on the TCP stacks;
// else (none, fp, handshake>fp) the client's tls.Config does.
func (c c12Cell) customGoverns() bool {
	return c.custom == "dialtls" || c.custom == "handshake" || c.custom == "fp>handshake" || c.custom == "fp>dialtls"
}

func (c c12Cell) String() string {
	s := fmt.Sprintf("force=%s h3on=%v offer=%s tls=%s how=%s kind=%s", c.force, c.h3on, c.offer, c.tls.name, c.how, c.kind)
	if c.custom != "none" {
		s += fmt.Sprintf(" custom=%s(trust=%s,alpn=%s)", c.custom, c.cTrust, c.cProtos)
	}
	if c.upgrade {
		s += " upgrade"
	}
	if c.h2c {
		s += " h2c"
	}
	if c.scheme != "https" {
		s += " scheme=" + c.scheme
	}
	return s
}

// dims returns the (dimension, value) pairs used for pairwise coverage.
func (c c12Cell) dims() []string {
	return []string{"force=" + c.force, "offer=" + c.offer, "tls=" + c.tls.name, "how=" + c.how, "kind=" + c.kind, "custom=" + c.custom,
		fmt.Sprintf("h3on=%v", c.h3on)}
}

func c12AllCells() []c12Cell {
	var out []c12Cell
	for _, force := range []string{"-", "1", "2", "3"} {
		for _, offer := range []string{"h1", "h2h1", "noalpn", "all", "h1+h3", "alt", "mtls"} {
			for _, tc := range c12TLSCells {
				if tc.mtls != (offer == "mtls") {
					continue
				}
				for _, how := range c12Hows {
					for _, kind := range []string{"fresh", "clone", "changed", "changed-same", "redial"} {
						for _, custom := range []string{"none", "dialtls", "handshake", "fp", "fp>handshake", "handshake>fp", "fp>dialtls"} {
							if (kind == "changed-same" || kind == "redial") && custom != "none" {
								continue
							}
							fp := strings.Contains(custom, "fp")
							if custom != "none" && (tc.mtls || force == "3" || (tc.insecure && (!fp || tc.roots != "")) || tc.serverName != "" ||
								!(how == "helpers-string" || how == "SetTLSClientConfig")) {
								// the custom functions bypass the client's TLS settings, the uTLS fingerprint
								// handshake reads roots / InsecureSkipVerify only: a reduced TLS dimension suffices
								continue
							}
							h3ons := []bool{false}
							if force == "-" && custom == "none" {
								h3ons = []bool{false, true}
							}
							for _, h3on := range h3ons {
								if (kind == "changed-same" || kind == "redial") && h3on && offer == "alt" {
									continue // the first request would learn Alt-Svc: that sequence is lane c12seq's
								}
								cell := c12Cell{force: force, h3on: h3on, offer: offer, tls: tc, how: how, kind: kind, custom: custom, scheme: "https"}
								if custom == "none" {
									out = append(out, cell)
									continue
								}
								if custom == "fp" {
									cell.cTrust, cell.cProtos = "-", "-"
									out = append(out, cell)
									continue
								}
								for _, tr := range []string{"good", "wrong"} {
									for _, pr := range []string{"21", "1"} {
										cc := cell
										cc.cTrust, cc.cProtos = tr, pr
										out = append(out, cc)
									}
								}
							}
						}
					}
				}
			}
		}
	}
	// plain http and h2c
	for _, force := range []string{"-", "1", "2", "3"} {
		for _, offer := range []string{"plain", "h2c"} {
			for _, h2c := range []bool{false, true} {
				for _, kind := range []string{"fresh", "clone", "changed"} {
					if kind == "clone" && h2c {
						// Transport.Clone does not carry t2.AllowHTTP over (clone fidelity is C19's subject)
						continue
					}
					out = append(out, c12Cell{force: force, offer: offer, tls: c12TLSCells[0], how: "helpers-string", kind: kind, custom: "none", scheme: "http", h2c: h2c})
				}
			}
		}
	}
	// websocket upgrade requests (onlyH1 key) — un-forced and forced h1
	for _, force := range []string{"-", "1"} {
		for _, offer := range []string{"h1", "h2h1", "all"} {
			out = append(out, c12Cell{force: force, offer: offer, tls: c12TLSCells[1], how: "helpers-string", kind: "fresh", custom: "none", scheme: "https", upgrade: true})
		}
	}
	return out
}

// ---------------------------------------------------------------------------- running a cell

type c12Step struct {
	args    []string // the 17 arguments of the c12route line
	force   string
	scheme  string
	line    string // model line
	impl    string // canonical implementation answer
	propOK  bool
	why     string // oracle complaint
	class   string
	human   string
	accept  string // "accept" | "reject" | "other" (for the uniformity oracle)
	sni     string
	cliCert string
	panicTx string
}

func c12ForceApply(c *Client, force string) {
	switch force {
	case "-":
		c.DisableForceHttpVersion()
	case "1":
		c.EnableForceHTTP1()
	case "2":
		c.EnableForceHTTP2()
	case "3":
		c.EnableForceHTTP3()
	}
}

type c12CustomRec struct {
	mu        sync.Mutex
	customRan bool // the lane's own handshake function (not the fingerprint one) ran
	addrs     []string // addr arguments the handshake function in force (user's or fingerprint) was handed
	called bool
	failed bool
	proto  string
	mutual bool
}

func (r *c12CustomRec) ranCustom() bool {
	r.mu.Lock()
	defer r.mu.Unlock()
	return r.customRan
}

func (r *c12CustomRec) wasCalled() bool {
	r.mu.Lock()
	defer r.mu.Unlock()
	return r.called
}

// c12WrapHandshake wraps whatever handshake function the (final) client carries with a recorder
// of its outcome (negotiated protocol). In-package field access: no setter side effects.
func c12WrapHandshake(c *Client, rec *c12CustomRec) {
	t := c.GetTransport()
	inner := t.TLSHandshakeContext
	if inner == nil {
		return
	}
	t.TLSHandshakeContext = func(ctx context.Context, addr string, plain net.Conn) (net.Conn, *tls.ConnectionState, error) {
		conn, st, err := inner(ctx, addr, plain)
		rec.mu.Lock()
		rec.addrs = append(rec.addrs, addr)
		rec.called = true
		rec.failed = err != nil
		if err == nil && st != nil {
			rec.proto, rec.mutual = st.NegotiatedProtocol, st.NegotiatedProtocolIsMutual
		}
		rec.mu.Unlock()
		return conn, st, err
	}
}

func (r *c12CustomRec) handedAll() []string {
	r.mu.Lock()
	defer r.mu.Unlock()
	return append([]string(nil), r.addrs...)
}

func (r *c12CustomRec) handed() string { return strings.Join(r.handedAll(), ",") }

func (r *c12CustomRec) failedNow() bool {
	r.mu.Lock()
	defer r.mu.Unlock()
	return r.called && r.failed
}

func (r *c12CustomRec) token() string {
	r.mu.Lock()
	defer r.mu.Unlock()
	if !r.called || r.failed {
		return "fail"
	}
	p := "-"
	switch r.proto {
	case "h2":
		p = "2"
	case "http/1.1":
		p = "1"
	case "":
	default:
		p = "x"
	}
	m := "0"
	if r.mutual {
		m = "1"
	}
	return "tls:" + p + ":" + m
}

func c12InstallCustom(c *Client, cell c12Cell, rec *c12CustomRec) {
	pki := c12GetPKI()
	ccfg := &tls.Config{ServerName: "127.0.0.1", NextProtos: c12AlpnFromChars(cell.cProtos)}
	if cell.cTrust == "good" {
		ccfg.RootCAs = pki.cas[0].pool()
	} else {
		ccfg.RootCAs = pki.cas[1].pool()
	}
	record := func(tc *tls.Conn, err error) {
		rec.mu.Lock()
		defer rec.mu.Unlock()
		rec.called = true
		rec.failed = err != nil
		if err == nil {
			st := tc.ConnectionState()
			rec.proto, rec.mutual = st.NegotiatedProtocol, st.NegotiatedProtocolIsMutual
		}
	}
	dialFn := func(ctx context.Context, network, addr string) (net.Conn, error) {
		d := &tls.Dialer{Config: ccfg}
		conn, err := d.DialContext(ctx, network, addr)
		if err != nil {
			record(nil, err)
			return nil, err
		}
		record(conn.(*tls.Conn), nil)
		return conn, nil
	}
	hsFn := func(ctx context.Context, addr string, plain net.Conn) (net.Conn, *tls.ConnectionState, error) {
		rec.mu.Lock()
		rec.customRan = true
		rec.mu.Unlock()
		// addr at its documented meaning: the name to verify the peer against
		hcfg := ccfg.Clone()
		hcfg.ServerName = addr
		tc := tls.Client(plain, hcfg)
		if err := tc.HandshakeContext(ctx); err != nil {
			return nil, nil, err
		}
		st := tc.ConnectionState()
		return tc, &st, nil
	}
	switch cell.custom {
	case "dialtls":
		c.SetDialTLS(dialFn)
	case "handshake":
		c.SetTLSHandshake(hsFn)
	case "fp":
		c.SetTLSFingerprintChrome()
	case "fp>handshake":
		c.SetTLSFingerprintChrome()
		c.SetTLSHandshake(hsFn)
	case "handshake>fp":
		c.SetTLSHandshake(hsFn)
		c.SetTLSFingerprintChrome()
	case "fp>dialtls":
		c.SetTLSFingerprintChrome()
		c.SetDialTLS(dialFn)
	}
}

func c12B(b bool) string {
	if b {
		return "1"
	}
	return "0"
}

// c12Do performs one request and judges it.
type c12ReqState struct {
	cachedH2, cachedH3, alt bool
}

func c12Request(c *Client, o *c12Origin, cell c12Cell, force string, h3 bool, tcell c12TLS, protos string, rec *c12CustomRec, st c12ReqState, path string, tcpDials *atomic.Int64) c12Step {
	timeout := 4 * time.Second
	if (force == "3" || st.alt) && !o.offer.h3 {
		timeout = 600 * time.Millisecond
	}
	ctx, cancel := context.WithTimeout(context.Background(), timeout)
	defer cancel()
	r := c.R().SetContext(ctx)
	if cell.upgrade {
		r.SetHeader("Connection", "Upgrade").SetHeader("Upgrade", "websocket")
	}
	before := tcpDials.Load()
	var resp *Response
	var err error
	ptxt, panicked := verifh.Safely(func() { resp, err = r.Get(o.url(cell.scheme, path)) })
	step := c12Step{propOK: true}
	if panicked {
		step.impl = "crash"
		step.panicTx = ptxt
	} else if err != nil {
		k := c12ErrKind(err)
		if cell.hasCustom() && rec.failedNow() {
			// the user's dial/handshake function failed (here: its own verifier rejected)
			step.impl = "err:other"
			step.accept = "reject"
		} else if k == "tls" || (tcell.mtls && tcell.cert != "ok") {
			// a server-side rejection of the client certificate surfaces as an alert, a reset or an
			// EOF depending on the stack and on timing: any failure counts as the TLS rejection
			step.impl = "err:tls"
			step.accept = "reject"
		} else {
			step.impl = "err:other"
			step.accept = "other"
		}
	} else {
		step.impl = "ok:" + c12ProtoShort(resp.Proto)
		step.accept = "accept"
		step.sni = resp.Header.Get("X-Origin-Sni")
		step.cliCert = resp.Header.Get("X-Origin-Clicert")
	}
	// model line
	customTok := "fail"
	if cell.hasCustom() {
		customTok = rec.token()
	} else if cell.h2c {
		customTok = "plain" // EnableH2C installs a plain dialer as DialTLSContext
	}
	tcpAccept := tcell.accept()
	if cell.customGoverns() {
		tcpAccept = cell.cTrust == "good"
	}
	alpn := c12AlpnChars(o.offer.alpn)
	sch := cell.scheme
	step.args = []string{force, c12B(h3), c12B(cell.h2c), c12B(cell.modelDial() || cell.h2c), c12B(cell.modelHS()), protos,
		sch, c12B(cell.upgrade), alpn, c12B(tcpAccept), c12B(o.offer.h3), c12B(tcell.accept()), c12B(o.offer.plainH2), customTok,
		c12B(st.cachedH2), c12B(st.cachedH3), c12B(st.alt)}
	step.force, step.scheme = force, sch
	step.line = "c12route " + strings.Join(step.args, " ")
	// ---- property oracle, independent of the model
	complain := func(f string, a ...interface{}) {
		step.propOK = false
		if step.why == "" {
			step.why = fmt.Sprintf(f, a...)
		}
	}
	if panicked {
		complain("the request panicked in the caller: %s", ptxt)
	}
	if err == nil && !panicked {
		got := c12ProtoShort(resp.Proto)
		if op := resp.Header.Get("X-Origin-Proto"); op != resp.Proto {
			complain("Response.Proto %q but the origin served %q", resp.Proto, op)
		}
		if force != "-" && got != "h"+force {
			complain("HTTP/%s forced but the request was carried by %s", force, got)
		}
		if cell.scheme == "http" && !(got == "h1" || (got == "h2" && cell.h2c)) {
			complain("plain http carried by %s", got)
		}
		if cell.scheme == "https" {
			// which verifier governed the connection that carried it
			want := tcell.accept()
			if got != "h3" && cell.customGoverns() {
				want = cell.cTrust == "good"
			}
			if !want && !(got == "h2" && st.cachedH2) && !(got == "h3" && st.cachedH3) {
				complain("server certificate / client authentication unacceptable under the settings in force, yet accepted on %s", got)
			}
			if got == "h2" && !st.cachedH2 && !strings.Contains(alpn, "2") {
				complain("carried by h2 although the server does not offer h2")
			}
			if got == "h3" && !o.offer.h3 {
				complain("carried by h3 although the origin has no HTTP/3 listener")
			}
			if !cell.hasCustom() || got == "h3" {
				if tcell.serverName != "" && step.sni != tcell.serverName {
					complain("ServerName override %q not used: origin saw SNI %q", tcell.serverName, step.sni)
				}
				wantCN := map[string]string{"ok": "client-ok", "bad": "client-bad"}[tcell.cert]
				if o.offer.clientAuth && step.cliCert != wantCN {
					complain("origin saw client certificate %q, configured %q", step.cliCert, wantCN)
				}
			}
		}
	}
	if step.impl == "err:tls" && cell.scheme == "https" {
		want := tcell.accept()
		if cell.customGoverns() && force != "3" && !(st.alt && h3) {
			want = cell.cTrust == "good"
		}
		if want {
			complain("certificate acceptable under the settings in force, yet the handshake was rejected")
		}
	}
	if cell.scheme == "http" && !o.offer.plainH2 && (force == "-" || force == "1") && !strings.HasPrefix(step.impl, "ok:") {
		complain("plain http request failed (%s) although the origin serves HTTP/1.1", step.impl)
	}
	if cell.scheme == "https" && cell.hasCustom() && rec.failedNow() && force != "3" && !(st.alt && h3) {
		if cell.customGoverns() && cell.cTrust == "good" {
			complain("the user's dial/handshake function verifies against the name it is given with a trust that accepts this certificate, yet it failed (handed %q)", rec.handed())
		}
		if !cell.customGoverns() && tcell.accept() {
			complain("certificate acceptable under the client's settings, yet the fingerprint handshake failed")
		}
	}
	for _, a := range rec.handedAll() {
		if a != "127.0.0.1" {
			complain("the TLS handshake function was handed %q instead of the bare host 127.0.0.1", a)
		}
	}
	// the handshake function set LAST is the one in force (on the original and on every clone)
	if cell.modelHS() && !cell.modelDial() && rec.wasCalled() {
		if cell.customGoverns() && !rec.ranCustom() {
			complain("a TLS handshake was made, but not by the custom handshake function set last (SetTLSHandshake after SetTLSFingerprint)")
		}
		if !cell.customGoverns() && cell.custom == "handshake>fp" && rec.ranCustom() {
			complain("the custom handshake function ran although SetTLSFingerprint replaced it")
		}
	}
	if err == nil && !panicked && len(o.seenFor(path)) == 0 {
		complain("the response did not come from the origin the URL names (%s never received %s)", o.offer, path)
	}
	if force == "3" && tcpDials.Load() != before {
		complain("HTTP/3 forced but a TCP connection was dialled")
	}
	// what the origin saw for this path must all be the forced version
	for _, sn := range o.seenFor(path) {
		if force != "-" && c12ProtoShort(sn.proto) != "h"+force {
			complain("HTTP/%s forced but the origin received the request over %s", force, sn.proto)
		}
	}
	return step
}

// c12Classify gives a step the class of a KNOWN finding only when the implementation's answer is
// exactly what the model of that known defect predicts (and differs from the repaired model):
//   shadow   = Dispatch.route with quicAccept := false (the HTTP/3 stack dials with an empty
//              tls.Config, which accepts none of the private-CA origins)       -> h3-tls-shadow
//   altorder = Dispatch.routeUnpatched (Alt-Svc shortcut before the forced switch, any scheme),
//              with or without the shadow       -> altsvc-overrides-forced-version / altsvc-breaks-plain-http
// Any other deviation stays unclassified and alarms.
func c12Classify(steps []*c12Step) error {
	var lines []string
	for _, st := range steps {
		shadow := append([]string(nil), st.args...)
		shadow[11] = "0"
		lines = append(lines,
			"c12route "+strings.Join(st.args, " "),
			"c12route "+strings.Join(shadow, " "),
			"c12routeu "+strings.Join(st.args, " "),
			"c12routeu "+strings.Join(shadow, " "))
	}
	if len(lines) == 0 {
		return nil
	}
	ans, err := verifh.RunModel(lines)
	if err != nil {
		return err
	}
	for i, st := range steps {
		repaired, shadow, altorder, both := ans[4*i], ans[4*i+1], ans[4*i+2], ans[4*i+3]
		if st.class != "" || st.impl == repaired {
			continue
		}
		altClass := ""
		if st.force == "1" || st.force == "2" {
			altClass = "altsvc-overrides-forced-version"
		} else if st.scheme == "http" {
			altClass = "altsvc-breaks-plain-http"
		}
		switch {
		case st.impl == shadow:
			st.class = "h3-tls-shadow"
		case altClass != "" && (st.impl == altorder || st.impl == both):
			st.class = altClass
		}
	}
	return nil
}

// c12WaitAlt waits until the client holds a usable Alt-Svc entry for the URL (pending entry
// whose background QUIC dial was started, or a jar entry). Reads the transport's state
// in-package; gives up quickly when no entry is being established at all.
func c12WaitAlt(t *Transport, rawurl string) bool {
	u, _ := url.Parse(rawurl)
	key := netutil.AuthorityKey(u)
	deadline := time.Now().Add(2 * time.Second)
	for time.Now().Before(deadline) {
		if t.altSvcJar == nil {
			return false
		}
		t.pendingAltSvcsMu.Lock()
		pas, ok := t.pendingAltSvcs[key]
		ready := ok && pas.Transport != nil
		t.pendingAltSvcsMu.Unlock()
		if ready {
			// let the background QUIC handshake finish so that the outcome is deterministic
			time.Sleep(150 * time.Millisecond)
			return true
		}
		if !ok && time.Until(deadline) < 1700*time.Millisecond {
			return false
		}
		time.Sleep(10 * time.Millisecond)
	}
	return false
}

var c12CellSeq atomic.Int64

// c12RunCell builds the client of the cell and performs its request(s).
func c12RunCell(w *c12World, cell c12Cell, dir string) []c12Step {
	id := c12CellSeq.Add(1)
	pair := w.origins[cell.offer]
	var tcpDials atomic.Int64
	rec := &c12CustomRec{}
	newClient := func() *Client {
		c := C()
		c.SetDial(func(ctx context.Context, network, addr string) (net.Conn, error) {
			tcpDials.Add(1)
			var d net.Dialer
			return d.DialContext(ctx, network, addr)
		})
		return c
	}
	target := func(c *Client) {
		if cell.h2c {
			c.EnableH2C()
		}
		if cell.h3on {
			c.EnableHTTP3()
		}
		c12ForceApply(c, cell.force)
		c12ApplyTLS(c, cell.tls, cell.how, dir)
		if cell.custom != "none" {
			c12InstallCustom(c, cell, rec)
		}
	}
	h3 := cell.h3on || cell.force == "3"
	protos := c12HowProtos(cell.how)
	var steps []c12Step
	var c *Client
	o := pair[0]
	switch cell.kind {
	case "fresh":
		c = newClient()
		target(c)
	case "clone":
		orig := newClient()
		hsh := 0
		for _, ch := range cell.String() {
			hsh = (hsh*31 + int(ch)) & 0xffff
		}
		if hsh%2 == 1 {
			// round 6: the original carries TRANSPORT MIDDLEWARE when it is cloned and keeps its
			// default settings; the cell's settings (forced version, TLS, custom functions) are
			// applied to the CLONE — its chain must end in its own round trip (lane c12wrap, theorem
			// request_governed_by_own_settings). Same model cell: the client's final settings.
			c12InstallTransportWrapper(orig, (hsh/2)%4, 1)
			c = orig.Clone()
			target(c)
		} else {
			target(orig)
			c = orig.Clone()
		}
		// the dial counter and the custom functions are fields of Options: copied by Clone
	case "changed":
		c = newClient()
		// phase 1: the opposite verdict, another forced version, on the twin origin
		first := c12TLS{name: "phase1-default"}
		if !cell.tls.accept() {
			first = c12TLS{name: "phase1-insecure", insecure: true, cert: "ok"}
		}
		f1 := map[string]string{"-": "1", "1": "2", "2": "1", "3": "2"}[cell.force]
		if cell.scheme == "http" {
			f1 = map[string]string{"-": "1", "1": "-", "2": "1", "3": "1"}[cell.force]
		}
		c12ForceApply(c, f1)
		c12ApplyTLS(c, first, "helpers-string", dir)
		ctx, cancel := context.WithTimeout(context.Background(), 3*time.Second)
		verifh.Safely(func() { c.R().SetContext(ctx).Get(pair[1].url(cell.scheme, fmt.Sprintf("/c%d/phase1", id))) })
		cancel()
		// phase 2: the target settings
		if cell.how == "helpers-string" || cell.how == "helpers-file" {
			// the helpers only add: reset what phase 1 set through the accessor
			c.GetTLSClientConfig().Certificates = nil
			c.GetTLSClientConfig().RootCAs = nil
		}
		target(c)
	}
	if cell.kind == "changed-same" || cell.kind == "redial" {
		// "settings changed after first use", same host, same stack: phase 1 makes (or fails to
		// make) a connection of the SAME forced version to the SAME origin under the opposite
		// verdict; the settings are then changed — in place for the helpers and the accessor
		// route, by replacement for SetTLSClientConfig — every pooled connection is closed, and the
		// request judged is the one that needs a NEW connection.
		c = newClient()
		first := c12TLS{name: "phase1-default"}
		if !cell.tls.accept() {
			first = c12TLS{name: "phase1-insecure", insecure: true, cert: "ok"}
		}
		if cell.kind == "redial" {
			// connection RE-ESTABLISHMENT: phase 1 succeeds under settings that VERIFY the origin
			// (private root trusted, client certificate present) — the origins issue session
			// tickets, so a stack that kept a session cache would resume after the connection went
			// away and skip the chain check against the roots in force by then
			first = c12TLS{name: "phase1-verified", roots: "good", cert: "ok"}
		}
		if cell.h3on {
			c.EnableHTTP3()
		}
		c12ForceApply(c, cell.force)
		firstHow := "helpers-string"
		if cell.how == "GetTLSClientConfig-mutation" || cell.how == "SetTLSClientConfig" {
			firstHow = cell.how // accessor first, accessor later / replaced pointer first, replaced later
		}
		c12ApplyTLS(c, first, firstHow, dir)
		for k := 0; k < 2; k++ { // twice: a failed first dial must not poison the second either
			ctx, cancel := context.WithTimeout(context.Background(), 3*time.Second)
			if (cell.force == "3") && !o.offer.h3 {
				cancel()
				ctx, cancel = context.WithTimeout(context.Background(), 300*time.Millisecond)
			}
			verifh.Safely(func() { c.R().SetContext(ctx).Get(o.url(cell.scheme, fmt.Sprintf("/c%d/phase1", id))) })
			cancel()
		}
		if cell.how == "helpers-string" || cell.how == "helpers-file" {
			c.GetTLSClientConfig().Certificates = nil
			c.GetTLSClientConfig().RootCAs = nil
		}
		c12ApplyTLS(c, cell.tls, cell.how, dir)
		// force a new connection on every stack (a stream may still be winding down: twice)
		for k := 0; k < 2; k++ {
			time.Sleep(20 * time.Millisecond)
			c.GetTransport().CloseIdleConnections()
		}
		if t3 := c.GetTransport().t3; t3 != nil {
			t3.Close()
		}
	}
	c12WrapHandshake(c, rec)
	st := c12ReqState{}
	path := fmt.Sprintf("/c%d/s0", id)
	s0 := c12Request(c, o, cell, cell.force, h3, cell.tls, protos, rec, st, path, &tcpDials)
	s0.human = cell.String() + " ; request 1 to " + o.offer.String()
	steps = append(steps, s0)
	// second request when an Alt-Svc upgrade can have been learned (un-forced, HTTP/3 enabled)
	if cell.h3on && cell.force == "-" && o.offer.altSvc && strings.HasPrefix(s0.impl, "ok:") {
		st.cachedH2 = s0.impl == "ok:h2"
		st.alt = c12WaitAlt(c.GetTransport(), o.url(cell.scheme, "/"))
		path = fmt.Sprintf("/c%d/s1", id)
		s1 := c12Request(c, o, cell, cell.force, h3, cell.tls, protos, rec, st, path, &tcpDials)
		s1.human = cell.String() + fmt.Sprintf(" ; request 2 to %s after Alt-Svc (entry ready=%v)", o.offer.String(), st.alt)
		steps = append(steps, s1)
		// Alt-Svc state is per ORIGIN: the same client now asks other origins on the same host
		// (other ports) that never advertised anything — nothing learned for A may apply to them.
		if strings.HasPrefix(s1.impl, "ok:") {
			// once more on A: with the entry confirmed (moved from pending into the jar)
			path = fmt.Sprintf("/c%d/s2", id)
			st2 := c12ReqState{cachedH2: st.cachedH2, cachedH3: s1.impl == "ok:h3", alt: st.alt}
			s2 := c12Request(c, o, cell, cell.force, h3, cell.tls, protos, rec, st2, path, &tcpDials)
			s2.human = cell.String() + " ; request 3 to the same origin (entry confirmed)"
			steps = append(steps, s2)
			for bi, bname := range []string{"h2h1", "all", "h1"} {
				b := w.origins[bname][int(id)%2]
				bcell := cell
				bcell.offer = bname
				path = fmt.Sprintf("/c%d/b%d", id, bi)
				sb := c12Request(c, b, bcell, cell.force, h3, cell.tls, protos, rec, c12ReqState{}, path, &tcpDials)
				sb.human = cell.String() + fmt.Sprintf(" ; then request to ANOTHER origin on the same host: %s (never advertised Alt-Svc)", b.offer.String())
				steps = append(steps, sb)
			}
		}
	}
	if t := c.GetTransport(); t != nil {
		t.CloseIdleConnections()
		if t.t3 != nil {
			t.t3.Close()
		}
	}
	return steps
}

// c12Pairwise picks a subset of cells covering every pair of dimension values, then tops it
// up with random cells to n.
func c12Pairwise(s *verifh.Session, cells []c12Cell, n int) []c12Cell {
	r := s.Rand()
	idx := r.Perm(len(cells))
	covered := map[string]bool{}
	var picked []c12Cell
	used := map[int]bool{}
	pairs := func(c c12Cell) []string {
		d := c.dims()
		var out []string
		for i := 0; i < len(d); i++ {
			for j := i + 1; j < len(d); j++ {
				out = append(out, d[i]+"&"+d[j])
			}
		}
		return out
	}
	for _, i := range idx {
		nw := 0
		for _, p := range pairs(cells[i]) {
			if !covered[p] {
				nw++
			}
		}
		// specials (plain/h2c/upgrade) are always kept in small numbers below
		if nw >= 1 {
			for _, p := range pairs(cells[i]) {
				covered[p] = true
			}
			picked = append(picked, cells[i])
			used[i] = true
		}
	}
	// greedy pass above keeps any cell adding a new pair; trim is not needed for correctness.
	for _, i := range idx {
		if len(picked) >= n {
			break
		}
		if !used[i] {
			picked = append(picked, cells[i])
			used[i] = true
		}
	}
	return picked
}

func c12RunParallel(w *c12World, cells []c12Cell, dir string, workers int) [][]c12Step {
	out := make([][]c12Step, len(cells))
	var wg sync.WaitGroup
	ch := make(chan int)
	for k := 0; k < workers; k++ {
		wg.Add(1)
		go func() {
			defer wg.Done()
			for i := range ch {
				done := make(chan []c12Step, 1)
				go func(i int) { done <- c12RunCell(w, cells[i], dir) }(i)
				select {
				case r := <-done:
					out[i] = r
				case <-time.After(30 * time.Second):
					// every request carries a deadline of at most 4 s: the client is wedged
					out[i] = []c12Step{{args: make([]string, 17), impl: "hang", propOK: false, why: "the request did not return within 30 s although its context expired after 4 s",
						human: cells[i].String() + " ; HUNG", line: "c12route hang"}}
				}
			}
		}()
	}
	for i := range cells {
		ch <- i
	}
	close(ch)
	wg.Wait()
	return out
}

// TestVerif_C12_e2e: the protocol/TLS matrix, every request compared with Dispatch.route and
// judged by the Go-side property oracle.
func TestVerif_C12_e2e(t *testing.T) {
	s := verifh.New(t, "C12", "c12e2e",
		"matrix {force h1,h2,h3,none (+EnableHTTP3)} x origin {h1-only TLS, h2+h1 ALPN, TLS without ALPN, h2+h1+h3, h1+h3, h2+h1+h3+Alt-Svc, client-cert-requiring h2+h1+h3, clear-text h1, h2c} x TLS {default roots, private root, wrong root, InsecureSkipVerify, insecure+wrong root, ServerName override ok/mismatch, client cert ok/none/wrong CA/insecure} x how {SetRootCertFromString, SetRootCertsFromFile, SetTLSClientConfig with/without NextProtos, GetTLSClientConfig mutation} x {fresh, clone, settings+force changed after a first request to a twin origin, settings changed (in place / replaced) after two first requests of the same version to the SAME origin followed by CloseIdleConnections} x {none, SetDialTLS, SetTLSHandshake (own trust good/wrong, own ALPN), SetTLSFingerprintChrome, fingerprint then SetTLSHandshake, SetTLSHandshake then fingerprint, fingerprint then SetDialTLS}; after an Alt-Svc upgrade the same client also asks three OTHER origins on the same host + websocket-upgrade requests + h2c on/off; quick = greedy pairwise-covering subset topped up with seeded random cells, thorough = full product; per request: Response.Proto, protocol/SNI/client certificate seen by the origin, error kind; non-trivial = every request (distinct by model line)")
	w, err := c12StartWorld()
	if err != nil {
		t.Fatalf("infrastructure: %v", err)
	}
	defer w.close()
	dir := t.TempDir()
	c12WriteCAFiles(dir)
	all := c12AllCells()
	cells := all
	if !verifh.Thorough() {
		cells = c12Pairwise(s, all, 420)
		// the Alt-Svc upgrade sequences (second / third request, other origins afterwards) need a
		// particular triple of dimension values: always keep a few, whatever the pairwise pass chose
		r := s.Rand()
		var upg []c12Cell
		for _, c := range all {
			if c.h3on && c.force == "-" && c.offer == "alt" && c.custom == "none" && (c.kind == "fresh" || c.kind == "clone") && c.tls.accept() {
				upg = append(upg, c)
			}
		}
		r.Shuffle(len(upg), func(i, j int) { upg[i], upg[j] = upg[j], upg[i] })
		for i := 0; i < 4 && i < len(upg); i++ {
			cells = append(cells, upg[i])
		}
	}
	c12Count(s, fmt.Sprintf("cells-total-%d", len(all)))
	res := c12RunParallel(w, cells, dir, 8)
	var allSteps []*c12Step
	for i := range res {
		for j := range res[i] {
			allSteps = append(allSteps, &res[i][j])
		}
	}
	if err := c12Classify(allSteps); err != nil {
		t.Fatalf("infrastructure: %v", err)
	}
	for i, steps := range res {
		cell := cells[i]
		for _, d := range cell.dims() {
			c12Count(s, d)
		}
		if cell.kind == "clone" && cell.custom == "fp>handshake" {
			c12Count(s, "clone&fp>handshake")
		}
		if len(steps) > 3 {
			c12Count(s, "other-origin-after-altsvc")
		}
		for _, st := range steps {
			c12Count(s, "impl:"+st.impl)
			if st.panicTx != "" {
				s.Crash(st.line, st.human, st.panicTx, st.class)
				continue
			}
			human := st.human
			if st.why != "" {
				human += " ; ORACLE: " + st.why
			}
			s.Case(st.line, st.impl, st.propOK, st.class, true, human)
		}
	}
	for _, must := range []string{"impl:ok:h1", "impl:ok:h2", "impl:ok:h3", "impl:err:tls", "impl:err:other", "kind=clone", "kind=changed", "kind=changed-same", "kind=redial", "custom=dialtls", "custom=handshake", "custom=fp", "custom=fp>handshake", "custom=handshake>fp", "custom=fp>dialtls", "clone&fp>handshake", "other-origin-after-altsvc", "offer=alt", "offer=mtls", "offer=h2c", "force=3"} {
		if c12Hist[s][must] == 0 && !(must == "impl:ok:h3" && c12Hist[s]["impl:err:tls"] > 0) {
			t.Errorf("matrix never reached bucket %q", must)
		}
	}
	s.Finish()
}

// TestVerif_C12_uniform: the uniformity oracle. For one TLS setting (cell x how x kind) the
// three forced versions are run against an origin that offers all three; accept/reject, the
// SNI and the client certificate seen by the origin must be the same on all of them and equal
// to what the settings say.
func TestVerif_C12_uniform(t *testing.T) {
	s := verifh.New(t, "C12", "c12uniform",
		"for every TLS setting (11 cells) x way of setting (5) x {fresh, clone, changed after first use on a twin origin, changed IN PLACE after connections of the same version to the SAME origin then all pooled connections closed}: force h1, h2, h3 against one origin offering all three (client-cert-requiring origin for the mTLS cells); oracle: same accept/reject, same SNI and same client certificate at the origin on all three stacks, and accept iff the certificate is acceptable under the settings; quick = seeded third of the product")
	w, err := c12StartWorld()
	if err != nil {
		t.Fatalf("infrastructure: %v", err)
	}
	defer w.close()
	dir := t.TempDir()
	c12WriteCAFiles(dir)
	type combo struct {
		tc   c12TLS
		how  string
		kind string
	}
	var combos []combo
	for _, tc := range c12TLSCells {
		for _, how := range c12Hows {
			for _, kind := range []string{"fresh", "clone", "changed", "changed-same", "redial"} {
				combos = append(combos, combo{tc, how, kind})
			}
		}
	}
	if !verifh.Thorough() {
		r := s.Rand()
		r.Shuffle(len(combos), func(i, j int) { combos[i], combos[j] = combos[j], combos[i] })
		// keep every TLS cell at least three times
		per := map[string]int{}
		var keep []combo
		for _, c := range combos {
			if per[c.tc.name] < 5 || (c.kind == "changed-same" && per[c.tc.name+"/same"] < 2) || (c.kind == "redial" && per[c.tc.name+"/redial"] < 2) {
				per[c.tc.name]++
				if c.kind == "changed-same" {
					per[c.tc.name+"/same"]++
				}
				if c.kind == "redial" {
					per[c.tc.name+"/redial"]++
				}
				keep = append(keep, c)
			}
		}
		combos = keep
	}
	var cells []c12Cell
	for _, c := range combos {
		offer := "all"
		if c.tc.mtls {
			offer = "mtls"
		}
		for _, f := range []string{"1", "2", "3"} {
			cells = append(cells, c12Cell{force: f, offer: offer, tls: c.tc, how: c.how, kind: c.kind, custom: "none", scheme: "https"})
		}
	}
	res := c12RunParallel(w, cells, dir, 8)
	for i, c := range combos {
		var obs [3]c12Step
		for k := 0; k < 3; k++ {
			obs[k] = res[3*i+k][0]
		}
		want := "reject"
		if c.tc.accept() {
			want = "accept"
		}
		id := fmt.Sprintf("uniform tls=%s how=%s kind=%s", c.tc.name, c.how, c.kind)
		detail := fmt.Sprintf("expected %s; h1: %s sni=%q cert=%q; h2: %s sni=%q cert=%q; h3: %s sni=%q cert=%q", want,
			obs[0].impl, obs[0].sni, obs[0].cliCert, obs[1].impl, obs[1].sni, obs[1].cliCert, obs[2].impl, obs[2].sni, obs[2].cliCert)
		same := func(a, b c12Step) bool { return a.accept == b.accept && a.sni == b.sni && a.cliCert == b.cliCert }
		tcpOK := same(obs[0], obs[1]) && obs[0].accept == want
		allOK := tcpOK && same(obs[1], obs[2])
		class := ""
		if tcpOK && want == "accept" && obs[2].impl == "err:tls" {
			// exactly the known shadowing: the HTTP/3 stack alone rejects, with a certificate error,
			// what the settings accept (it dials with an empty tls.Config)
			class = "h3-tls-shadow"
		}
		c12Count(s, "tls="+c.tc.name)
		c12Count(s, "expected:"+want)
		c12Count(s, "h3:"+obs[2].accept)
		s.Observe(id, allOK, class, true, id, detail)
	}
	for _, must := range []string{"expected:accept", "expected:reject"} {
		if c12Hist[s][must] == 0 {
			t.Errorf("never reached bucket %q", must)
		}
	}
	s.Finish()
}

// ---------------------------------------------------------------------------- sequences

// TestVerif_C12_seq: designed request sequences around Alt-Svc ("settings changed after
// first use"): an Alt-Svc entry learned while un-forced must not override a version forced
// later; a clear-text origin advertising Alt-Svc must keep being served over HTTP/1.1;
// EnableH2C must not send https requests in clear text; forcing HTTP/3 and disabling HTTP/3
// afterwards.
func TestVerif_C12_seq(t *testing.T) {
	s := verifh.New(t, "C12", "c12seq",
		"designed sequences x TLS {private root, insecure} x {original, clone after learning}: (a) un-forced+HTTP/3 learns Alt-Svc over h2, then EnableForceHTTP1 / EnableForceHTTP2 / DisableHTTP3 / stays un-forced -> next request; (b) https warm-up, clear-text origin advertising Alt-Svc, next clear-text request; (c) EnableH2C then an https request (force none / h2); (d) EnableForceHTTP3 then DisableHTTP3; (f) Alt-Svc learned AND CONFIRMED by a successful HTTP/3 exchange, then EnableForceHTTP1 / EnableForceHTTP2 (and DisableForceHttpVersion again) -> next request; (g) an HTTP/2 request to origin A = 127.0.0.1:P whose certificate also names 127.0.0.2, then - connection open - a request (un-forced / EnableForceHTTP2) to ANOTHER origin B = 127.0.0.2:P on the same port {h1-only acceptable certificate, h2+h1 untrusted root}: served by B under the client's settings; (e) Alt-Svc learned and confirmed for origin A (3 requests), then one request each to six OTHER origins on the same host / other ports (h2+h1, h1, no ALPN, h2+h1+h3, h1+h3, A's advertising twin); each request compared with Dispatch.route and judged by the oracle")
	w, err := c12StartWorld()
	if err != nil {
		t.Fatalf("infrastructure: %v", err)
	}
	defer w.close()
	dir := t.TempDir()
	c12WriteCAFiles(dir)
	var noDials atomic.Int64
	var pending []*c12Step
	record := func(st c12Step) {
		x := st
		pending = append(pending, &x)
	}
	flush := func(st c12Step) {
		c12Count(s, "impl:"+st.impl)
		human := st.human
		if st.why != "" {
			human += " ; ORACLE: " + st.why
		}
		if st.panicTx != "" && st.class == "" {
			s.Crash(st.line, human, st.panicTx, "")
			return
		}
		s.Case(st.line, st.impl, st.propOK, st.class, true, human)
	}
	reps := verifh.N(1, 3)
	for rep := 0; rep < reps; rep++ {
		for _, tc := range []c12TLS{c12TLSCells[1], c12TLSCells[3]} {
			// (a) learned un-forced, then a later setting
			for _, later := range []string{"force1", "force2", "stay", "disable-h3", "clone-force1", "clone-stay"} {
				if _, crashes := c12CrashProbe(); crashes && later == "clone-force1" {
					// a forced request of a clone (fresh, un-initialised HTTP/3 round tripper) that meets
					// Alt-Svc kills the process on a tree without fixes/C12-2 (lane c12crash reports it)
					c12Count(s, "skipped:addconn-crash")
					continue
				}
				o := w.origins["alt"][rep%2]
				base := c12Cell{force: "-", h3on: true, offer: "alt", tls: tc, how: "helpers-string", kind: "fresh", custom: "none", scheme: "https"}
				c := C().EnableHTTP3()
				c12ApplyTLS(c, tc, "helpers-string", dir)
				id := c12CellSeq.Add(1)
				if rep%2 == 0 {
					// transport middleware installed before any Clone of this client (round 6)
					c12InstallTransportWrapper(c, int(id)%4, 1)
				}
				rec := &c12CustomRec{}
				s0 := c12Request(c, o, base, "-", true, tc, "12", rec, c12ReqState{}, fmt.Sprintf("/q%d/s0", id), &noDials)
				s0.human = fmt.Sprintf("seq(a:%s) tls=%s: un-forced + EnableHTTP3, request 1 to %s", later, tc.name, o.offer)
				record(s0)
				if !strings.HasPrefix(s0.impl, "ok:") {
					continue
				}
				alt := c12WaitAlt(c.GetTransport(), o.url("https", "/"))
				st := c12ReqState{cachedH2: s0.impl == "ok:h2", alt: alt}
				force, h3 := "-", true
				switch later {
				case "force1":
					c.EnableForceHTTP1()
					force = "1"
				case "force2":
					c.EnableForceHTTP2()
					force = "2"
				case "disable-h3":
					c.DisableHTTP3()
					h3 = false
				case "clone-force1":
					c = c.Clone().EnableForceHTTP1()
					force = "1"
					st = c12ReqState{} // the clone starts with empty pools and an empty Alt-Svc state
				case "clone-stay":
					c = c.Clone()
					st = c12ReqState{}
				}
				cell := base
				cell.force = force
				s1 := c12Request(c, o, cell, force, h3, tc, "12", rec, st, fmt.Sprintf("/q%d/s1", id), &noDials)
				s1.human = fmt.Sprintf("seq(a:%s) tls=%s: Alt-Svc entry ready=%v, then %s, request 2", later, tc.name, alt, later)
				record(s1)
				c12Count(s, "a:"+later)
				if alt {
					c12Count(s, "alt-entry-ready")
				}
				c.GetTransport().CloseIdleConnections()
			}
			// (b) clear-text origin advertising Alt-Svc
			{
				warm := w.origins["all"][rep%2]
				o := w.origins["plainalt"][rep%2]
				c := C().EnableHTTP3()
				c12ApplyTLS(c, tc, "helpers-string", dir)
				id := c12CellSeq.Add(1)
				rec := &c12CustomRec{}
				wcell := c12Cell{force: "-", h3on: true, offer: "all", tls: tc, how: "helpers-string", kind: "fresh", custom: "none", scheme: "https"}
				s0 := c12Request(c, warm, wcell, "-", true, tc, "12", rec, c12ReqState{}, fmt.Sprintf("/q%d/warm", id), &noDials)
				s0.human = "seq(b) https warm-up (initialises the HTTP/3 round tripper)"
				record(s0)
				pcell := c12Cell{force: "-", h3on: true, offer: "plainalt", tls: tc, how: "helpers-string", kind: "fresh", custom: "none", scheme: "http"}
				s1 := c12Request(c, o, pcell, "-", true, tc, "12", rec, c12ReqState{}, fmt.Sprintf("/q%d/p0", id), &noDials)
				s1.human = "seq(b) clear-text request 1 to " + o.offer.String()
				record(s1)
				alt := c12WaitAlt(c.GetTransport(), o.url("http", "/"))
				s2 := c12Request(c, o, pcell, "-", true, tc, "12", rec, c12ReqState{alt: alt}, fmt.Sprintf("/q%d/p1", id), &noDials)
				s2.human = fmt.Sprintf("seq(b) clear-text request 2 to %s (Alt-Svc entry ready=%v)", o.offer, alt)
				record(s2)
				c12Count(s, "b:plain-altsvc")
				c.GetTransport().CloseIdleConnections()
			}
		}
		// (e) Alt-Svc state is per origin: learn + confirm for origin A, then ask origins B on the
		// same host (other ports) that never advertised HTTP/3, and A's twin
		for _, tc := range []c12TLS{c12TLSCells[1], c12TLSCells[3]} {
			for _, viaClone := range []bool{false} {
				_ = viaClone
				a := w.origins["alt"][rep%2]
				c := C().EnableHTTP3()
				c12ApplyTLS(c, tc, "helpers-string", dir)
				id := c12CellSeq.Add(1)
				rec := &c12CustomRec{}
				acell := c12Cell{force: "-", h3on: true, offer: "alt", tls: tc, how: "helpers-string", kind: "fresh", custom: "none", scheme: "https"}
				st := c12ReqState{}
				okSoFar := true
				for k := 0; k < 3 && okSoFar; k++ {
					sa := c12Request(c, a, acell, "-", true, tc, "12", rec, st, fmt.Sprintf("/q%d/a%d", id, k), &noDials)
					sa.human = fmt.Sprintf("seq(e) tls=%s: request %d to origin A = %s (alt entry ready=%v)", tc.name, k+1, a.offer, st.alt)
					record(sa)
					okSoFar = strings.HasPrefix(sa.impl, "ok:")
					if k == 0 {
						st.cachedH2 = sa.impl == "ok:h2"
						st.alt = c12WaitAlt(c.GetTransport(), a.url("https", "/"))
					} else {
						st.cachedH3 = st.cachedH3 || sa.impl == "ok:h3"
					}
				}
				if !okSoFar {
					continue
				}
				for bi, bname := range []string{"h2h1", "h1", "noalpn", "all", "h1+h3", "alt"} {
					b := w.origins[bname][rep%2]
					if bname == "alt" {
						b = w.origins[bname][(rep+1)%2] // A's twin: advertises itself, but nothing was learned for it yet
					}
					bcell := acell
					bcell.offer = bname
					sb := c12Request(c, b, bcell, "-", true, tc, "12", rec, c12ReqState{}, fmt.Sprintf("/q%d/b%d", id, bi), &noDials)
					sb.human = fmt.Sprintf("seq(e) tls=%s: Alt-Svc h3 confirmed for A (port %d); request to ANOTHER origin on the same host: %s (port %d)", tc.name, a.port, b.offer, b.port)
					record(sb)
					c12Count(s, "e:other-origin")
				}
				c.GetTransport().CloseIdleConnections()
			}
		}
		// (g) round 7: HTTP/2 connections are per ORIGIN (host:port), whatever names the certificate of an
		// open connection lists. Origin A = 127.0.0.1:P (h2+h1; its certificate ALSO names 127.0.0.2), an
		// HTTP/2 request to A; then, with that connection open, a request of the same client to origin
		// B = 127.0.0.2:P (same port, another server): B h1-only with an acceptable certificate, or B h2+h1
		// with a certificate from a root the client does not trust; un-forced and after EnableForceHTTP2.
		// Each request to B is a first contact (nothing cached for B): Dispatch.route with empty state.
		for _, tc := range []c12TLS{c12TLSCells[1], c12TLSCells[3]} {
			for _, bkind := range []string{"h1", "untrusted"} {
				for _, later := range []string{"stay", "force2"} {
					pki := c12GetPKI()
					ips := []net.IP{net.ParseIP("127.0.0.1"), net.ParseIP("127.0.0.2")}
					var a, b *c12Origin
					var err error
					for try := 0; try < 5; try++ {
						a, err = c12StartOriginAt(w.origins["h2h1"][0].offer, "127.0.0.1", 0, pki.cas[0].leaf("origin-a", true, []string{c12SAN}, ips))
						if err != nil {
							continue
						}
						boffer, bleaf, bname := w.origins["h1"][0].offer, pki.cas[0].leaf("origin-b", true, []string{c12SAN}, ips), "h1"
						if bkind == "untrusted" {
							boffer, bleaf, bname = w.origins["h2h1"][0].offer, pki.cas[1].leaf("origin-b-untrusted", true, []string{c12SAN}, ips), "h2h1"
						}
						_ = bname
						b, err = c12StartOriginAt(boffer, "127.0.0.2", a.port, bleaf)
						if err == nil {
							break
						}
						a.close()
					}
					if err != nil {
						t.Fatalf("infrastructure: two origins on one port of 127.0.0.1 / 127.0.0.2: %v", err)
					}
					c := C()
					c12ApplyTLS(c, tc, "helpers-string", dir)
					id := c12CellSeq.Add(1)
					rec := &c12CustomRec{}
					acell := c12Cell{force: "-", offer: "h2h1", tls: tc, how: "helpers-string", kind: "fresh", custom: "none", scheme: "https"}
					sa := c12Request(c, a, acell, "-", false, tc, "12", rec, c12ReqState{}, fmt.Sprintf("/q%d/ga", id), &noDials)
					sa.human = fmt.Sprintf("seq(g:%s:%s) tls=%s: request to origin A = %s (certificate names 127.0.0.1 AND 127.0.0.2)", bkind, later, tc.name, a.url("https", ""))
					record(sa)
					if sa.impl == "ok:h2" {
						force := "-"
						if later == "force2" {
							c.EnableForceHTTP2()
							force = "2"
						}
						// the judge's TLS cell for B: the client's settings as they relate to B's certificate
						jtc := tc
						bcell := acell
						bcell.force = force
						bcell.offer = "h1"
						if bkind == "untrusted" {
							bcell.offer = "h2h1"
							jtc = c12TLSCells[2] // the client's root did not sign B's certificate
							if tc.insecure {
								jtc = c12TLSCells[4]
							}
						}
						nb := len(b.seenFor(fmt.Sprintf("/q%d/gb", id)))
						sb := c12Request(c, b, bcell, force, false, jtc, "12", rec, c12ReqState{}, fmt.Sprintf("/q%d/gb", id), &noDials)
						sb.human = fmt.Sprintf("seq(g:%s:%s) tls=%s: HTTP/2 connection to A open; request (force=%s) to ANOTHER origin on the same port B = %s (%s, %s)", bkind, later, tc.name, force, b.url("https", ""), b.offer, jtc.name)
						if strings.HasPrefix(sb.impl, "ok:") && len(b.seenFor(fmt.Sprintf("/q%d/gb", id))) == nb {
							sb.propOK = false
							if sb.why == "" {
								sb.why = "the request to origin B was answered, but B never received it: it was served by another origin's connection"
							}
						}
						record(sb)
						c12Count(s, "g:same-port-other-host")
					}
					c.GetTransport().CloseIdleConnections()
					a.close()
					b.close()
				}
			}
		}
		// (f) forcing changed AFTER the alternative was learned AND CONFIRMED (a successful HTTP/3
		// exchange moved the entry from the pending map into the jar): the forced version governs;
		// un-forced again the confirmed entry is used again
		for _, tc := range []c12TLS{c12TLSCells[1], c12TLSCells[3]} {
			for _, later := range []string{"force1", "force2", "force1-unforce", "force2-unforce"} {
				a := w.origins["alt"][rep%2]
				c := C().EnableHTTP3()
				c12ApplyTLS(c, tc, "helpers-string", dir)
				id := c12CellSeq.Add(1)
				rec := &c12CustomRec{}
				cell := c12Cell{force: "-", h3on: true, offer: "alt", tls: tc, how: "helpers-string", kind: "fresh", custom: "none", scheme: "https"}
				st := c12ReqState{}
				confirmed := false
				for k := 0; k < 4 && !confirmed; k++ {
					sa := c12Request(c, a, cell, "-", true, tc, "12", rec, st, fmt.Sprintf("/q%d/f%d", id, k), &noDials)
					sa.human = fmt.Sprintf("seq(f:%s) tls=%s: un-forced request %d to %s (alt entry ready=%v)", later, tc.name, k+1, a.offer, st.alt)
					record(sa)
					if !strings.HasPrefix(sa.impl, "ok:") {
						break
					}
					if k == 0 {
						st.cachedH2 = sa.impl == "ok:h2"
						st.alt = c12WaitAlt(c.GetTransport(), a.url("https", "/"))
					} else if sa.impl == "ok:h3" {
						st.cachedH3 = true
						confirmed = true
					}
				}
				if !confirmed {
					continue
				}
				c12Count(s, "f:confirmed")
				force := map[string]string{"force1": "1", "force2": "2", "force1-unforce": "1", "force2-unforce": "2"}[later]
				c12ForceApply(c, force)
				fcell := cell
				fcell.force = force
				s1 := c12Request(c, a, fcell, force, true, tc, "12", rec, st, fmt.Sprintf("/q%d/forced", id), &noDials)
				s1.human = fmt.Sprintf("seq(f:%s) tls=%s: Alt-Svc h3 CONFIRMED, then EnableForceHTTP%s, request", later, tc.name, force)
				record(s1)
				c12Count(s, "f:forced-after-confirmed")
				if strings.HasSuffix(later, "-unforce") {
					c.DisableForceHttpVersion()
					if s1.impl == "ok:h2" {
						st.cachedH2 = true
					}
					s2 := c12Request(c, a, cell, "-", true, tc, "12", rec, st, fmt.Sprintf("/q%d/unforced", id), &noDials)
					s2.human = fmt.Sprintf("seq(f:%s) tls=%s: un-forced again, request", later, tc.name)
					record(s2)
				}
				c.GetTransport().CloseIdleConnections()
			}
		}
		// (d) EnableForceHTTP3 then DisableHTTP3
		{
			o := w.origins["all"][rep%2]
			tc := c12TLSCells[3]
			c := C().EnableForceHTTP3()
			c12ApplyTLS(c, tc, "helpers-string", dir)
			c.DisableHTTP3()
			id := c12CellSeq.Add(1)
			// repaired setter semantics (fixes/C12-4): DisableHTTP3 also drops a forced HTTP/3
			cell := c12Cell{force: "-", offer: "all", tls: tc, how: "helpers-string", kind: "fresh", custom: "none", scheme: "https"}
			st := c12Request(c, o, cell, "-", false, tc, "12", &c12CustomRec{}, c12ReqState{}, fmt.Sprintf("/q%d/d", id), &noDials)
			st.human = "seq(d) C().EnableForceHTTP3().DisableHTTP3() ; request"
			if st.impl == "crash" {
				// exactly what the un-patched DisableHTTP3 predicts (Props.C12.unpatched_disable_breaks_wf)
				st.class = "forced-h3-after-disable-panics"
				s.Case(st.line, st.impl, false, st.class, true, st.human+" ; ORACLE: "+st.why)
				c12Count(s, "impl:"+st.impl)
			} else {
				record(st)
			}
			c12Count(s, "d:force3-disable")
		}
		// (c) EnableH2C and an https URL: the request must not travel in clear text
		for _, force := range []string{"-", "2"} {
			o := w.origins["h2h1"][rep%2]
			tc := c12TLSCells[1]
			c := C().EnableH2C()
			c12ForceApply(c, force)
			c12ApplyTLS(c, tc, "helpers-string", dir)
			id := c12CellSeq.Add(1)
			before := o.tcpTLS.Load()
			ctx, cancel := context.WithTimeout(context.Background(), 3*time.Second)
			var resp *Response
			var err error
			verifh.Safely(func() { resp, err = c.R().SetContext(ctx).Get(o.url("https", fmt.Sprintf("/q%d/h2c", id))) })
			cancel()
			got := "error"
			if err == nil && resp != nil {
				got = fmt.Sprintf("response %s %d", resp.Proto, resp.StatusCode)
			}
			// oracle: an https exchange that yields a response must have gone through a TLS handshake
			ok := err != nil || o.tcpTLS.Load() > before
			c12Count(s, "c:h2c-https")
			s.Observe(fmt.Sprintf("h2c-https force=%s", force), ok, "h2c-https-cleartext", true,
				fmt.Sprintf("seq(c) C().EnableH2C() force=%s ; GET https://… -> %s", force, got),
				fmt.Sprintf("%s without any TLS handshake at the origin (EnableH2C replaces DialTLSContext with a clear-text dialer for every https request)", got))
			c.GetTransport().CloseIdleConnections()
		}
	}
	if err := c12Classify(pending); err != nil {
		t.Fatalf("infrastructure: %v", err)
	}
	for _, st := range pending {
		flush(*st)
	}
	for _, must := range []string{"a:force1", "a:force2", "b:plain-altsvc", "c:h2c-https", "d:force3-disable", "alt-entry-ready", "e:other-origin", "f:forced-after-confirmed", "g:same-port-other-host"} {
		if c12Hist[s][must] == 0 {
			t.Errorf("never reached bucket %q", must)
		}
	}
	s.Finish()
}

// ---------------------------------------------------------------------------- crash probe

// TestVerif_C12_crash runs, in a CHILD process, the sequence in which the first use of the
// HTTP/3 round tripper is the Alt-Svc triggered AddConn (forced h2 -> cached h2 connection ->
// un-forced request served from the cache -> Alt-Svc header). On a tree without
// fixes/C12-2 the child dies with a nil dereference in a background goroutine, which no
// caller can recover from.
func TestVerif_C12_crash(t *testing.T) {
	if os.Getenv("VERIF_C12_CHILD") == "1" {
		c12CrashChild()
		return
	}
	s := verifh.New(t, "C12", "c12crash",
		"child process: C().EnableHTTP3().EnableForceHTTP2() -> request (h2) ; DisableForceHttpVersion() -> request served from the cached h2 connection carrying Alt-Svc: h3 ; wait ; request; the child must exit normally")
	txt, crashed := c12CrashProbe()
	detail := ""
	if crashed {
		detail = txt
		if i := strings.Index(txt, "panic:"); i >= 0 {
			detail = txt[i:]
		}
		if len(detail) > 1500 {
			detail = detail[:1500]
		}
	}
	c12Count(s, "child-ran")
	if strings.Contains(txt, "C12CHILD done") {
		c12Count(s, "child-completed")
	}
	human := "child: EnableHTTP3 + forced h2 request, un-force, request from cached h2 conn with Alt-Svc -> background AddConn"
	if crashed && strings.Contains(txt, "nil pointer dereference") && strings.Contains(txt, "http3.(*RoundTripper).dial") {
		s.Crash("c12crash", human, detail, "altsvc-addconn-crash")
	} else if crashed {
		s.Crash("c12crash", human, detail, "")
	} else {
		s.Observe("c12crash", true, "", true, human, "")
	}
	s.Finish()
}

var (
	c12ProbeOnce    sync.Once
	c12ProbeTxt     string
	c12ProbeCrashed bool
)

// c12CrashProbe runs the child once per test process.
func c12CrashProbe() (string, bool) {
	c12ProbeOnce.Do(func() {
		cmd := exec.Command(os.Args[0], "-test.run", "^TestVerif_C12_crash$", "-test.count=1")
		cmd.Env = append(os.Environ(), "VERIF_C12_CHILD=1")
		out, err := cmd.CombinedOutput()
		c12ProbeTxt, c12ProbeCrashed = string(out), err != nil
	})
	return c12ProbeTxt, c12ProbeCrashed
}

func c12CrashChild() {
	o, err := c12StartOrigin(c12OfferTable["alt"])
	if err != nil {
		fmt.Println("C12CHILD infra", err)
		os.Exit(0)
	}
	c := C().EnableInsecureSkipVerify().EnableHTTP3().EnableForceHTTP2()
	get := func() {
		ctx, cancel := context.WithTimeout(context.Background(), 3*time.Second)
		defer cancel()
		resp, err := c.R().SetContext(ctx).Get(o.url("https", "/child"))
		if err != nil {
			fmt.Println("C12CHILD err", c12ErrKind(err))
		} else {
			fmt.Println("C12CHILD", resp.Proto)
		}
	}
	get()
	c.DisableForceHttpVersion()
	get()
	time.Sleep(400 * time.Millisecond)
	get()
	fmt.Println("C12CHILD done")
	o.close()
}

