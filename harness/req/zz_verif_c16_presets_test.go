//go:build verif

package req

import (
	"bufio"
	"fmt"
	"io"
	"log"
	"net"
	"net/http"
	"net/http/httptest"
	"os"
	"sort"
	"strconv"
	"strings"
	"sync"
	"testing"

	"github.com/imroc/req/v3/internal/verifh"
)

// c16RawPeer is a raw TCP HTTP/1.1 peer: it records the request head bytes exactly as received
// (header order and spelling intact) and answers 200.
type c16RawPeer struct {
	ln    net.Listener
	mu    sync.Mutex
	heads []string
}

func c16StartRawPeer(t testing.TB) *c16RawPeer {
	ln, err := net.Listen("tcp", "127.0.0.1:0")
	if err != nil {
		t.Fatalf("listen: %v", err)
	}
	p := &c16RawPeer{ln: ln}
	go func() {
		for {
			conn, err := ln.Accept()
			if err != nil {
				return
			}
			go func(c net.Conn) {
				defer c.Close()
				br := bufio.NewReader(c)
				for {
					var head strings.Builder
					cl := 0
					chunked := false
					for {
						line, err := br.ReadString('\n')
						if err != nil {
							return
						}
						head.WriteString(line)
						l := strings.ToLower(strings.TrimRight(line, "\r\n"))
						if strings.HasPrefix(l, "content-length:") {
							cl, _ = strconv.Atoi(strings.TrimSpace(l[len("content-length:"):]))
						}
						if strings.HasPrefix(l, "transfer-encoding:") && strings.Contains(l, "chunked") {
							chunked = true
						}
						if line == "\r\n" {
							break
						}
					}
					if chunked {
						for {
							line, err := br.ReadString('\n')
							if err != nil {
								return
							}
							n, _ := strconv.ParseInt(strings.TrimSpace(line), 16, 64)
							if _, err := io.CopyN(io.Discard, br, n+2); err != nil {
								return
							}
							if n == 0 {
								break
							}
						}
					} else if _, err := io.CopyN(io.Discard, br, int64(cl)); err != nil {
						return
					}
					p.mu.Lock()
					p.heads = append(p.heads, head.String())
					p.mu.Unlock()
					io.WriteString(c, "HTTP/1.1 200 OK\r\nContent-Length: 2\r\nContent-Type: text/plain\r\n\r\nok")
				}
			}(conn)
		}
	}()
	return p
}

func (p *c16RawPeer) take() []string {
	p.mu.Lock()
	defer p.mu.Unlock()
	h := p.heads
	p.heads = nil
	return h
}

type c16Preset struct {
	name    string
	apply   func(*Client) *Client
	headers map[string]string
	order   []string
	pseudo  []string
}

// TestVerif_C16_presets: the impersonation presets (client_impersonate.go) and client-level /
// request-level order lists through the public API over HTTP/1.1 (raw TCP capture: exact header
// lines in arrival order), HTTP/2 and HTTP/3 (origin handlers): every preset header and every
// request header arrives exactly once with its value, no bookkeeping key arrives, and on the raw
// HTTP/1.1 capture the listed headers appear in list order with non-canonical spellings kept.
func TestVerif_C16_presets(t *testing.T) {
	s := c01New(t, "C16", "presets",
		"presets Chrome / Firefox / Safari (ImpersonateXxx: header map, header order, pseudo-header order, HTTP/2 settings; TLS fingerprint replaced by the plain TLS stack for the loopback origins) and a hand-made client-level order, x {HTTP/1.1 raw TCP capture, HTTP/2 origin, HTTP/3 origin} x {no body, body} x {no cookies, cookies} x {no extra request headers, 1..40 extra request headers incl. non-canonical names, request-level order list}; oracle: header multiset = preset + request headers (+ own fields), no bookkeeping key, listed headers in list order on the raw capture; non-trivial = request observed")
	log.SetOutput(io.Discard)
	defer log.SetOutput(os.Stderr)
	origins := c01StartOrigins(t)
	defer func() {
		for _, o := range origins {
			o.stop()
		}
	}()
	raw := c16StartRawPeer(t)
	defer raw.ln.Close()
	presets := []c16Preset{
		{"chrome", (*Client).ImpersonateChrome, chromeHeaders, chromeHeaderOrder, chromePseudoHeaderOrder},
		{"firefox", (*Client).ImpersonateFirefox, firefoxHeaders, firefoxHeaderOrder, firefoxPseudoHeaderOrder},
		{"safari", (*Client).ImpersonateSafari, safariHeaders, safariHeaderOrder, safariPseudoHeaderOrder},
		{"custom", func(c *Client) *Client {
			return c.SetCommonHeaders(map[string]string{"X-One": "1", "X-Two": "2", "Accept": "*/*"}).
				SetCommonHeaderOrder("x-two", "accept", "user-agent", "x-one", "host").
				SetCommonPseudoHeaderOder(":path", ":scheme", ":authority", ":method")
		}, map[string]string{"X-One": "1", "X-Two": "2", "Accept": "*/*"}, []string{"x-two", "accept", "user-agent", "x-one", "host"}, []string{":path", ":scheme", ":authority", ":method"}},
	}
	r := s.Rand()
	rounds := verifh.N(12, 80)
	for round := 0; round < rounds; round++ {
		for _, ps := range presets {
			for _, proto := range []string{"raw", "h2", "h3"} {
				withBody := r.Intn(2) == 0
				withCookies := r.Intn(2) == 0
				cproto := proto
				if proto == "raw" {
					cproto = "h1"
				}
				c := c01NewClient(cproto, r.Intn(2) == 0, true)
				ps.apply(c)
				// the TLS fingerprint (utls ClientHello) is C12's subject; loopback origins use the plain stack
				c.Transport.SetTLSHandshake(nil)
				rq := c.R()
				extra := map[string]string{}
				nExtra := 0
				if r.Intn(2) == 0 {
					nExtra = 1 + r.Intn(40)
				}
				for i := 0; i < nExtra; i++ {
					extra["X-Req-"+strconv.Itoa(i)] = "v" + strconv.Itoa(i)
				}
				rq.SetHeaders(extra)
				nc := ""
				if r.Intn(2) == 0 {
					nc = "x-Non-canonical_" + strconv.Itoa(r.Intn(9))
					rq.SetHeaderNonCanonical(nc, "nc")
				}
				var reqOrder []string
				if r.Intn(3) == 0 && nExtra > 1 {
					// a request-level list is replaced by the client-level one (documented: client wrapper runs last)
					reqOrder = []string{"x-req-1", "x-req-0"}
					rq.SetHeaderOrder(reqOrder...)
				}
				if withCookies {
					rq.SetCookies(&http.Cookie{Name: "sid", Value: "abc"}, &http.Cookie{Name: "theme", Value: "dark"})
				}
				method := "GET"
				if withBody {
					method = "POST"
					rq.SetContentType("application/octet-stream").SetBodyBytes(c01GenBody(verifh.Pick(r, []int{1, 100, 5000, 70000}), 3, 1))
				}
				base := raw.ln.Addr().String()
				if proto != "raw" {
					origins[proto].take()
					base = origins[proto].base
				} else {
					base = "http://" + base
					raw.take()
				}
				_, err := rq.Send(method, base+"/preset/"+ps.name)
				id := fmt.Sprintf("%s/%s/%d body=%v cookies=%v extra=%d nc=%q", ps.name, proto, round, withBody, withCookies, nExtra, nc)
				// expected header multiset (lower-cased names)
				want := map[string][]string{}
				for k, v := range ps.headers {
					want[strings.ToLower(k)] = append(want[strings.ToLower(k)], v)
				}
				for k, v := range extra {
					want[strings.ToLower(k)] = append(want[strings.ToLower(k)], v)
				}
				if nc != "" {
					want[strings.ToLower(nc)] = append(want[strings.ToLower(nc)], "nc")
				}
				if withCookies {
					want["cookie"] = []string{"sid=abc; theme=dark"}
				}
				if withBody {
					want["content-type"] = []string{"application/octet-stream"}
				}
				if _, ok := want["user-agent"]; !ok {
					want["user-agent"] = []string{"req/v3 (https://github.com/imroc/req)"}
				}
				got := map[string][]string{}
				var wireNames []string
				ok, why := true, ""
				if proto == "raw" {
					heads := raw.take()
					if len(heads) != 1 {
						s.Observe(id, false, "", false, id, fmt.Sprintf("%d requests at the raw peer, err=%v", len(heads), err))
						continue
					}
					lines := strings.Split(strings.TrimSuffix(heads[0], "\r\n\r\n"), "\r\n")
					for _, l := range lines[1:] {
						k, v, _ := strings.Cut(l, ":")
						wireNames = append(wireNames, k)
						got[strings.ToLower(k)] = append(got[strings.ToLower(k)], strings.TrimSpace(v))
					}
					if nc != "" {
						found := false
						for _, k := range wireNames {
							if k == nc {
								found = true
							}
						}
						if !found {
							ok, why = false, "non-canonical spelling lost: "+nc
						}
					}
					last := -1
					for _, k := range wireNames {
						ix := c01OrderIndex(ps.order, k)
						if ix < 0 {
							continue
						}
						if ix < last {
							ok, why = false, "listed header out of order on the wire: "+k
						}
						last = ix
					}
					s.Count("raw-order-checked")
				} else {
					seen := origins[proto].take()
					if len(seen) != 1 {
						s.Observe(id, false, "", false, id, fmt.Sprintf("%d requests at the %s origin, err=%v", len(seen), proto, err))
						continue
					}
					for k, vs := range seen[0].header {
						for _, v := range vs {
							got[strings.ToLower(k)] = append(got[strings.ToLower(k)], strings.TrimSpace(v))
						}
					}
					if ck := got["cookie"]; len(ck) > 1 {
						got["cookie"] = []string{strings.Join(ck, "; ")}
					}
				}
				for _, drop := range []string{"host", "content-length", "transfer-encoding", "connection"} {
					delete(got, drop)
				}
				if _, set := want["accept-encoding"]; !set {
					delete(got, "accept-encoding")
				}
				for k := range got {
					if verifh.C16IsBookKey(k) {
						ok, why = false, "bookkeeping key on the wire: "+k
					}
				}
				var gk, wk []string
				for k, vs := range got {
					sort.Strings(vs)
					gk = append(gk, k+"="+strings.Join(vs, "|"))
				}
				for k, vs := range want {
					sort.Strings(vs)
					wk = append(wk, k+"="+strings.Join(vs, "|"))
				}
				sort.Strings(gk)
				sort.Strings(wk)
				if strings.Join(gk, "\n") != strings.Join(wk, "\n") {
					ok = false
					why += "\nheader set differs:\n got: " + strings.Join(gk, " ; ") + "\nwant: " + strings.Join(wk, " ; ")
				}
				s.Count(ps.name + "/" + proto)
				s.Observe(id, ok, "", true, id, why)
			}
		}
	}
	s.Need(t, "chrome/raw", "chrome/h2", "chrome/h3", "firefox/h2", "safari/h3", "custom/raw", "raw-order-checked")
	s.Finish()
}

// TestVerif_C16_apimerge: the header part of the request pipeline judged for C16 — client-level
// and request-level headers of the same name in every spelling and with every kind of value,
// registered through the public setters or assigned as maps, first attempts, retried attempts and
// second sends: the header map handed to the transport must carry every header the caller set at
// request level untouched, client defaults only under keys the request does not set, on EVERY
// attempt (real Request.Send → middlewares → Client.roundTrip vs the Lean model Merge.buildRequest).
func TestVerif_C16_apimerge(t *testing.T) {
	s := c01New(t, "C16", "apimerge",
		"as C01/pipeline with the generator turned towards headers: 1..5 extra client-level headers drawn from names in canonical, lower-case, mixed-case and underscore spellings (x-trace-id / X-Trace-Id / x-Trace-ID, x_feature, accept / Accept / ACCEPT …), each client key overlapped at request level in 6 of 7 cases by: the same spelling with a value, the lower-cased spelling, no value, the empty string (blanking a client default), [\"\", second]; maps assigned directly or registered with SetHeader / SetHeaderNonCanonical / SetCommonHeader / SetCommonHeaderNonCanonical; a fifth retried (503 then 200), a fifth sent twice; compared: the *http.Request of every attempt vs the model; non-trivial = request reached the transport")
	c01LanePipe(t, s, "headers", verifh.N(2500, 60000))
	s.Need(t, "sent", "attempt:2", "second-send", "via-setters", "cookies")
	s.Finish()
}

// TestVerif_C16_connseq: SEQUENCES of requests through one client on one reused HTTP/2 connection
// whose peer advertises a small SETTINGS_MAX_HEADER_LIST_SIZE (http.Server.MaxHeaderBytes = 2048):
// ordinary requests, requests whose header list exceeds the limit (refused locally, or rejected by
// the server), and legal requests that re-use name/value pairs of the previous ones. Whatever
// happened before on the connection, a request that reaches the handler must show exactly the
// header set the caller gave it (client-level + request-level, request wins per exact key).
func TestVerif_C16_connseq(t *testing.T) {
	s := c01New(t, "C16", "connseq",
		"per sequence one forced-HTTP/2 client (keep-alive) against an in-process TLS origin with MaxHeaderBytes=2048; 6..14 requests, each deriving its 0..12 request headers from the previous request (kept, dropped, changed, added), a third blown up with 4..14 values of 100..400 bytes so that the header list exceeds the peer's limit; client-level defaults overlapped at request level (same non-canonical spelling, empty string); oracle: the call fails and nothing reaches the handler, or the handler sees exactly the expected header multiset; non-trivial = a legal request observed after a refused one on the same connection")
	log.SetOutput(io.Discard)
	defer log.SetOutput(os.Stderr)
	o := &c01Origin{name: "h2"}
	srv := httptest.NewUnstartedServer(o)
	srv.EnableHTTP2 = true
	srv.Config.MaxHeaderBytes = 2048
	srv.StartTLS()
	defer srv.Close()
	o.base = srv.URL
	r := s.Rand()
	nseq := verifh.N(40, 600)
	for q := 0; q < nseq; q++ {
		c := c01NewClient("h2", r.Intn(2) == 0, true)
		c.SetCommonHeaderNonCanonical("x-trace-id", "client-default")
		c.SetCommonHeader("X-Feature", "on")
		c.SetCommonHeader("X-Client-Only", "c")
		hdr := map[string]string{}
		refusedBefore := false
		for k, n := 0, 6+r.Intn(9); k < n; k++ {
			for name := range hdr {
				if strings.HasPrefix(name, "X-Big-") || r.Intn(5) == 0 {
					delete(hdr, name)
				}
			}
			for i, m := 0, r.Intn(4); i < m; i++ {
				hdr["X-H-"+strconv.Itoa(r.Intn(12))] = "v" + strconv.Itoa(r.Intn(5))
			}
			big := r.Intn(3) == 0
			if big {
				for i, m := 0, 4+r.Intn(11); i < m; i++ {
					hdr["X-Big-"+strconv.Itoa(i)] = strings.Repeat(string(rune('a'+i)), 100+r.Intn(300))
				}
			}
			rq := c.R().SetHeaders(hdr)
			want := map[string][]string{"x-client-only": {"c"}, "x-trace-id": {"client-default"}, "x-feature": {"on"}, "user-agent": {"req/v3 (https://github.com/imroc/req)"}}
			for name, v := range hdr {
				want[strings.ToLower(name)] = []string{v}
			}
			switch r.Intn(4) {
			case 0:
				rq.SetHeaderNonCanonical("x-trace-id", "request-"+strconv.Itoa(k))
				want["x-trace-id"] = []string{"request-" + strconv.Itoa(k)}
			case 1:
				rq.SetHeader("X-Feature", "")
				want["x-feature"] = []string{""}
			}
			o.take()
			resp, err := rq.Get(o.base + "/seq/" + strconv.Itoa(k))
			seen := o.take()
			id := fmt.Sprintf("seq%d/req%d big=%v after-refusal=%v", q, k, big, refusedBefore)
			switch {
			case len(seen) == 0:
				ok := err != nil || (resp != nil && resp.StatusCode >= 400)
				if ok {
					refusedBefore = true
					s.Count("refused")
				}
				s.Observe(id, ok, "", false, id, fmt.Sprintf("nothing reached the handler, err=%v", err))
			case len(seen) > 1:
				s.Observe(id, false, "", false, id, fmt.Sprintf("%d requests reached the handler", len(seen)))
			default:
				got := map[string][]string{}
				for name, vs := range seen[0].header {
					ln := strings.ToLower(name)
					if ln == "accept-encoding" || ln == "content-length" {
						continue
					}
					got[ln] = append(got[ln], vs...)
				}
				var gk, wk []string
				for name, vs := range got {
					sort.Strings(vs)
					gk = append(gk, name+"="+strings.Join(vs, "|"))
				}
				for name, vs := range want {
					wk = append(wk, name+"="+strings.Join(vs, "|"))
				}
				sort.Strings(gk)
				sort.Strings(wk)
				ok := strings.Join(gk, "\n") == strings.Join(wk, "\n")
				why := ""
				if !ok {
					why = "header set differs:\n got: " + strings.Join(gk, " ; ") + "\nwant: " + strings.Join(wk, " ; ")
				}
				s.Count("observed")
				if refusedBefore {
					s.Count("observed-after-refusal")
				}
				s.Observe(id, ok, "", refusedBefore, id, why)
			}
		}
	}
	s.Need(t, "refused", "observed", "observed-after-refusal")
	s.Finish()
}
