//go:build verif

package req

import (
	"bufio"
	"fmt"
	"io"
	"log"
	"net"
	"net/http"
	"os"
	"sort"
	"strconv"
	"strings"
	"sync"
	"testing"

	"github.com/imroc/req/v3/internal/verifh"
)

// c16RawPeer is a raw TCP HTTP/1.1 peer: it records the request head bytes exactly as received
// (header order and spelling intact) and answers 200.
type c16RawPeer struct {
	ln    net.Listener
	mu    sync.Mutex
	heads []string
}

func c16StartRawPeer(t testing.TB) *c16RawPeer {
	ln, err := net.Listen("tcp", "127.0.0.1:0")
	if err != nil {
		t.Fatalf("listen: %v", err)
	}
	p := &c16RawPeer{ln: ln}
	go func() {
		for {
			conn, err := ln.Accept()
			if err != nil {
				return
			}
			go func(c net.Conn) {
				defer c.Close()
				br := bufio.NewReader(c)
				for {
					var head strings.Builder
					cl := 0
					chunked := false
					for {
						line, err := br.ReadString('\n')
						if err != nil {
							return
						}
						head.WriteString(line)
						l := strings.ToLower(strings.TrimRight(line, "\r\n"))
						if strings.HasPrefix(l, "content-length:") {
							cl, _ = strconv.Atoi(strings.TrimSpace(l[len("content-length:"):]))
						}
						if strings.HasPrefix(l, "transfer-encoding:") && strings.Contains(l, "chunked") {
							chunked = true
						}
						if line == "\r\n" {
							break
						}
					}
					if chunked {
						for {
							line, err := br.ReadString('\n')
							if err != nil {
								return
							}
							n, _ := strconv.ParseInt(strings.TrimSpace(line), 16, 64)
							if _, err := io.CopyN(io.Discard, br, n+2); err != nil {
								return
							}
							if n == 0 {
								break
							}
						}
					} else if _, err := io.CopyN(io.Discard, br, int64(cl)); err != nil {
						return
					}
					p.mu.Lock()
					p.heads = append(p.heads, head.String())
					p.mu.Unlock()
					io.WriteString(c, "HTTP/1.1 200 OK\r\nContent-Length: 2\r\nContent-Type: text/plain\r\n\r\nok")
				}
			}(conn)
		}
	}()
	return p
}

func (p *c16RawPeer) take() []string {
	p.mu.Lock()
	defer p.mu.Unlock()
	h := p.heads
	p.heads = nil
	return h
}

type c16Preset struct {
	name    string
	apply   func(*Client) *Client
	headers map[string]string
	order   []string
	pseudo  []string
}

// TestVerif_C16_presets: the impersonation presets (client_impersonate.go) and client-level /
// request-level order lists through the public API over HTTP/1.1 (raw TCP capture: exact header
// lines in arrival order), HTTP/2 and HTTP/3 (origin handlers): every preset header and every
// request header arrives exactly once with its value, no bookkeeping key arrives, and on the raw
// HTTP/1.1 capture the listed headers appear in list order with non-canonical spellings kept.
func TestVerif_C16_presets(t *testing.T) {
	s := c01New(t, "C16", "presets",
		"presets Chrome / Firefox / Safari (ImpersonateXxx: header map, header order, pseudo-header order, HTTP/2 settings; TLS fingerprint replaced by the plain TLS stack for the loopback origins) and a hand-made client-level order, x {HTTP/1.1 raw TCP capture, HTTP/2 origin, HTTP/3 origin} x {no body, body} x {no cookies, cookies} x {no extra request headers, 1..40 extra request headers incl. non-canonical names, request-level order list}; oracle: header multiset = preset + request headers (+ own fields), no bookkeeping key, listed headers in list order on the raw capture; non-trivial = request observed")
	log.SetOutput(io.Discard)
	defer log.SetOutput(os.Stderr)
	origins := c01StartOrigins(t)
	defer func() {
		for _, o := range origins {
			o.stop()
		}
	}()
	raw := c16StartRawPeer(t)
	defer raw.ln.Close()
	presets := []c16Preset{
		{"chrome", (*Client).ImpersonateChrome, chromeHeaders, chromeHeaderOrder, chromePseudoHeaderOrder},
		{"firefox", (*Client).ImpersonateFirefox, firefoxHeaders, firefoxHeaderOrder, firefoxPseudoHeaderOrder},
		{"safari", (*Client).ImpersonateSafari, safariHeaders, safariHeaderOrder, safariPseudoHeaderOrder},
		{"custom", func(c *Client) *Client {
			return c.SetCommonHeaders(map[string]string{"X-One": "1", "X-Two": "2", "Accept": "*/*"}).
				SetCommonHeaderOrder("x-two", "accept", "user-agent", "x-one", "host").
				SetCommonPseudoHeaderOder(":path", ":scheme", ":authority", ":method")
		}, map[string]string{"X-One": "1", "X-Two": "2", "Accept": "*/*"}, []string{"x-two", "accept", "user-agent", "x-one", "host"}, []string{":path", ":scheme", ":authority", ":method"}},
	}
	r := s.Rand()
	rounds := verifh.N(12, 80)
	for round := 0; round < rounds; round++ {
		for _, ps := range presets {
			for _, proto := range []string{"raw", "h2", "h3"} {
				withBody := r.Intn(2) == 0
				withCookies := r.Intn(2) == 0
				cproto := proto
				if proto == "raw" {
					cproto = "h1"
				}
				c := c01NewClient(cproto, r.Intn(2) == 0, true)
				ps.apply(c)
				// the TLS fingerprint (utls ClientHello) is C12's subject; loopback origins use the plain stack
				c.Transport.SetTLSHandshake(nil)
				rq := c.R()
				extra := map[string]string{}
				nExtra := 0
				if r.Intn(2) == 0 {
					nExtra = 1 + r.Intn(40)
				}
				for i := 0; i < nExtra; i++ {
					extra["X-Req-"+strconv.Itoa(i)] = "v" + strconv.Itoa(i)
				}
				rq.SetHeaders(extra)
				nc := ""
				if r.Intn(2) == 0 {
					nc = "x-Non-canonical_" + strconv.Itoa(r.Intn(9))
					rq.SetHeaderNonCanonical(nc, "nc")
				}
				var reqOrder []string
				if r.Intn(3) == 0 && nExtra > 1 {
					// a request-level list is replaced by the client-level one (documented: client wrapper runs last)
					reqOrder = []string{"x-req-1", "x-req-0"}
					rq.SetHeaderOrder(reqOrder...)
				}
				if withCookies {
					rq.SetCookies(&http.Cookie{Name: "sid", Value: "abc"}, &http.Cookie{Name: "theme", Value: "dark"})
				}
				method := "GET"
				if withBody {
					method = "POST"
					rq.SetContentType("application/octet-stream").SetBodyBytes(c01GenBody(verifh.Pick(r, []int{1, 100, 5000, 70000}), 3, 1))
				}
				base := raw.ln.Addr().String()
				if proto != "raw" {
					origins[proto].take()
					base = origins[proto].base
				} else {
					base = "http://" + base
					raw.take()
				}
				_, err := rq.Send(method, base+"/preset/"+ps.name)
				id := fmt.Sprintf("%s/%s/%d body=%v cookies=%v extra=%d nc=%q", ps.name, proto, round, withBody, withCookies, nExtra, nc)
				// expected header multiset (lower-cased names)
				want := map[string][]string{}
				for k, v := range ps.headers {
					want[strings.ToLower(k)] = append(want[strings.ToLower(k)], v)
				}
				for k, v := range extra {
					want[strings.ToLower(k)] = append(want[strings.ToLower(k)], v)
				}
				if nc != "" {
					want[strings.ToLower(nc)] = append(want[strings.ToLower(nc)], "nc")
				}
				if withCookies {
					want["cookie"] = []string{"sid=abc; theme=dark"}
				}
				if withBody {
					want["content-type"] = []string{"application/octet-stream"}
				}
				if _, ok := want["user-agent"]; !ok {
					want["user-agent"] = []string{"req/v3 (https://github.com/imroc/req)"}
				}
				got := map[string][]string{}
				var wireNames []string
				ok, why := true, ""
				if proto == "raw" {
					heads := raw.take()
					if len(heads) != 1 {
						s.Observe(id, false, "", false, id, fmt.Sprintf("%d requests at the raw peer, err=%v", len(heads), err))
						continue
					}
					lines := strings.Split(strings.TrimSuffix(heads[0], "\r\n\r\n"), "\r\n")
					for _, l := range lines[1:] {
						k, v, _ := strings.Cut(l, ":")
						wireNames = append(wireNames, k)
						got[strings.ToLower(k)] = append(got[strings.ToLower(k)], strings.TrimSpace(v))
					}
					if nc != "" {
						found := false
						for _, k := range wireNames {
							if k == nc {
								found = true
							}
						}
						if !found {
							ok, why = false, "non-canonical spelling lost: "+nc
						}
					}
					last := -1
					for _, k := range wireNames {
						ix := c01OrderIndex(ps.order, k)
						if ix < 0 {
							continue
						}
						if ix < last {
							ok, why = false, "listed header out of order on the wire: "+k
						}
						last = ix
					}
					s.Count("raw-order-checked")
				} else {
					seen := origins[proto].take()
					if len(seen) != 1 {
						s.Observe(id, false, "", false, id, fmt.Sprintf("%d requests at the %s origin, err=%v", len(seen), proto, err))
						continue
					}
					for k, vs := range seen[0].header {
						for _, v := range vs {
							got[strings.ToLower(k)] = append(got[strings.ToLower(k)], strings.TrimSpace(v))
						}
					}
					if ck := got["cookie"]; len(ck) > 1 {
						got["cookie"] = []string{strings.Join(ck, "; ")}
					}
				}
				for _, drop := range []string{"host", "content-length", "transfer-encoding", "connection"} {
					delete(got, drop)
				}
				if _, set := want["accept-encoding"]; !set {
					delete(got, "accept-encoding")
				}
				for k := range got {
					if strings.HasPrefix(k, "__") {
						ok, why = false, "bookkeeping key on the wire: "+k
					}
				}
				var gk, wk []string
				for k, vs := range got {
					sort.Strings(vs)
					gk = append(gk, k+"="+strings.Join(vs, "|"))
				}
				for k, vs := range want {
					sort.Strings(vs)
					wk = append(wk, k+"="+strings.Join(vs, "|"))
				}
				sort.Strings(gk)
				sort.Strings(wk)
				if strings.Join(gk, "\n") != strings.Join(wk, "\n") {
					ok = false
					why += "\nheader set differs:\n got: " + strings.Join(gk, " ; ") + "\nwant: " + strings.Join(wk, " ; ")
				}
				s.Count(ps.name + "/" + proto)
				s.Observe(id, ok, "", true, id, why)
			}
		}
	}
	s.Need(t, "chrome/raw", "chrome/h2", "chrome/h3", "firefox/h2", "safari/h3", "custom/raw", "raw-order-checked")
	s.Finish()
}
