//go:build verif

package req

import (
	"bytes"
	"context"
	"crypto/tls"
	"fmt"
	"io"
	"log"
	"net"
	"net/http"
	"net/http/httptest"
	"net/http/httptrace"
	"runtime"
	"sort"
	"strconv"
	"strings"
	"sync"
	"sync/atomic"
	"testing"
	"time"

	"github.com/imroc/req/v3/internal/testcert"
	"github.com/imroc/req/v3/internal/verifh"
	"github.com/quic-go/quic-go"
	h3ref "github.com/quic-go/quic-go/http3"
	xh2c08 "golang.org/x/net/http2"
)

// =========================================================================================
// C08 crowd lanes — the multi-request face of the property ("… and the client remains fully
// usable"): a request B is cancelled (or its deadline passes) while it is parked at a WAITING
// POINT, and OTHER requests share the resource B waits for or holds:
//
//   waiting points      h1: queued for a MaxConnsPerHost slot (connsPerHostWait; with keep-alives
//                           also idleConnWait), dial in flight (slot taken, result handed over
//                           through the wantConn), "Expect: 100-continue" wait, header wait,
//                           body partly buffered and unread, upload stalled on a peer that does
//                           not read, retry wait
//                       h2: waiting for a MAX_CONCURRENT_STREAMS slot, header wait, upload stalled
//                           on flow control, body partly buffered and unread, 100-continue wait,
//                           dial in flight, retry wait
//                       h3: waiting for QUIC stream credit (peer's MaxIncomingStreams), header
//                           wait, upload stalled on flow control, body partly buffered and unread,
//                           dial in flight (shared by everybody who wants the connection), retry wait
//   crowd               `limit` requests HOLD the resource (each parked at one of the points above),
//                       further requests are QUEUED for it in a known order, others run alongside;
//                       any non-empty subset is the victim set (cancelled together)
//   oracle              every victim returns promptly with its own cancellation error; every OTHER
//                       request completes successfully (nobody is stranded, nobody inherits the
//                       victim's error); afterwards the full capacity is available again
//                       (saturation probe: `limit` concurrent requests all reach the peer, a
//                       download larger than any connection window completes); the HTTP/1.1 pool
//                       counters are back at rest; no library goroutine is left.
//
// The HTTP/1.1 pool state (per-host count, both wait queues with their live/dead entries, idle
// list) is sampled in-package at every quiescent moment and judged by the Lean pool model's
// invariants (driver lane c08snap: no_stranded_waiter, handoff, limit).
// =========================================================================================

type c08Role struct {
	mode   string // plain | hold | expect | upload | body | failonce
	dial   bool   // parked in the dial (the request's own dial is held back by the dialer)
	victim bool
}

func (r c08Role) String() string {
	s := r.mode
	if r.dial {
		s = "dial"
	}
	if r.victim {
		s += "*"
	}
	return s
}

type c08CrowdCase struct {
	proto   string
	limit   int
	closing string // h1: keepalive | nokeepalive | serverclose
	warm    bool
	extras  []c08Role // alongside, holding no slot when the injection happens (retry wait)
	holders []c08Role
	queue   []c08Role
	along   []c08Role // started after the holders, not expected to be held back by the limit
	late    []c08Role // started right after the victims were cancelled, before anything is released
	kind    string    // canceled | deadline
	rev     bool      // cancel the victims in reverse order of arrival
}

func (c c08CrowdCase) String() string {
	j := func(l []c08Role) string {
		var s []string
		for _, r := range l {
			s = append(s, r.String())
		}
		return "[" + strings.Join(s, " ") + "]"
	}
	cl := c.closing
	if cl != "" {
		cl = " " + cl
	}
	w := ""
	if c.warm {
		w = " warm"
	}
	return fmt.Sprintf("%s limit=%d%s%s retry-wait=%s holding=%s queued=%s alongside=%s after-the-cancel=%s kind=%s (*=victim)", c.proto, c.limit, cl, w, j(c.extras), j(c.holders), j(c.queue), j(c.along), j(c.late), c.kind)
}

// ---------------------------------------------------------------------------------------
// peer
// ---------------------------------------------------------------------------------------

type c08CrowdPeer struct {
	proto     string
	srv       *httptest.Server
	h3srv     *h3ref.Server
	udp       *net.UDPConn
	base      string
	connClose bool
	mu        sync.Mutex
	entered   map[int]chan struct{}
	release   map[int]chan struct{}
	reset     map[int]bool
	seen      map[int]int
	over      chan struct{}
}

func newC08CrowdPeer(proto string, limit int, connClose bool) (*c08CrowdPeer, error) {
	p := &c08CrowdPeer{proto: proto, connClose: connClose, entered: map[int]chan struct{}{}, release: map[int]chan struct{}{},
		reset: map[int]bool{}, seen: map[int]int{}, over: make(chan struct{})}
	h := http.HandlerFunc(p.handle)
	switch proto {
	case "h1":
		p.srv = httptest.NewUnstartedServer(h)
		p.srv.Config.ErrorLog = log.New(io.Discard, "", 0)
		p.srv.Start()
		p.base = p.srv.URL
	case "h2":
		p.srv = httptest.NewUnstartedServer(h)
		p.srv.Config.ErrorLog = log.New(io.Discard, "", 0)
		if err := xh2c08.ConfigureServer(p.srv.Config, &xh2c08.Server{MaxConcurrentStreams: uint32(limit),
			MaxUploadBufferPerStream: 64 << 10, MaxUploadBufferPerConnection: 128 << 10}); err != nil {
			return nil, err
		}
		p.srv.TLS = p.srv.Config.TLSConfig
		p.srv.StartTLS()
		p.base = p.srv.URL
	case "h3":
		cert, err := tls.X509KeyPair(testcert.LocalhostCert, testcert.LocalhostKey)
		if err != nil {
			return nil, err
		}
		udp, err := net.ListenUDP("udp", &net.UDPAddr{IP: net.IPv4(127, 0, 0, 1)})
		if err != nil {
			return nil, err
		}
		p.udp = udp
		p.h3srv = &h3ref.Server{
			Handler:    h,
			TLSConfig:  h3ref.ConfigureTLSConfig(&tls.Config{Certificates: []tls.Certificate{cert}}),
			QUICConfig: &quic.Config{MaxIdleTimeout: 30 * time.Second, MaxIncomingStreams: int64(limit)},
		}
		go p.h3srv.Serve(udp)
		p.base = "https://" + udp.LocalAddr().String()
	}
	return p, nil
}

func (p *c08CrowdPeer) close() {
	c08Open(p.over)
	if p.srv != nil {
		p.srv.CloseClientConnections()
		p.srv.Close()
	}
	if p.h3srv != nil {
		p.h3srv.Close()
		p.udp.Close()
	}
}

func (p *c08CrowdPeer) ch(m map[int]chan struct{}, id int) chan struct{} {
	p.mu.Lock()
	defer p.mu.Unlock()
	c := m[id]
	if c == nil {
		c = make(chan struct{})
		m[id] = c
	}
	return c
}

func (p *c08CrowdPeer) sawReset(id int) bool {
	p.mu.Lock()
	defer p.mu.Unlock()
	return p.reset[id]
}

func (p *c08CrowdPeer) arrivals(id int) int {
	p.mu.Lock()
	defer p.mu.Unlock()
	return p.seen[id]
}

func (p *c08CrowdPeer) handle(w http.ResponseWriter, r *http.Request) {
	parts := strings.Split(strings.Trim(r.URL.Path, "/"), "/")
	if len(parts) != 2 {
		http.Error(w, "bad path", 400)
		return
	}
	mode := parts[0]
	id, _ := strconv.Atoi(parts[1])
	p.mu.Lock()
	p.seen[id]++
	nth := p.seen[id]
	p.mu.Unlock()
	if p.connClose {
		w.Header().Set("Connection", "close")
	}
	// park: the request stays where it is until the harness releases it or the client gives it up
	park := func() {
		c08Open(p.ch(p.entered, id))
		select {
		case <-p.ch(p.release, id):
			return
		case <-r.Context().Done():
			p.mu.Lock()
			p.reset[id] = true
			p.mu.Unlock()
		case <-p.over:
		case <-time.After(c08HardLimit + 5*time.Second):
		}
		panic(http.ErrAbortHandler)
	}
	reply := func(extra string) {
		b := "ok " + strconv.Itoa(id) + extra
		w.Header().Set("Content-Length", strconv.Itoa(len(b)))
		io.WriteString(w, b)
	}
	q := r.URL.Query()
	switch mode {
	case "plain":
		io.Copy(io.Discard, r.Body)
		reply("")
	case "hold":
		park()
		reply("")
	case "expect", "upload":
		// the body is not touched before the release: no "100 Continue", no window updates
		park()
		n, _ := io.Copy(io.Discard, r.Body)
		reply(" " + strconv.FormatInt(n, 10))
	case "body":
		total, _ := strconv.Atoi(q.Get("n"))
		part, _ := strconv.Atoi(q.Get("part"))
		w.Header().Set("Content-Type", "application/octet-stream")
		w.Header().Set("Content-Length", strconv.Itoa(total))
		w.WriteHeader(200)
		w.Write(bytes.Repeat([]byte{'p'}, part))
		w.(http.Flusher).Flush()
		park()
		w.Write(bytes.Repeat([]byte{'q'}, total-part))
	case "big":
		total, _ := strconv.Atoi(q.Get("n"))
		w.Header().Set("Content-Type", "application/octet-stream")
		w.Header().Set("Content-Length", strconv.Itoa(total))
		w.Write(bytes.Repeat([]byte{'b'}, total))
	case "failonce":
		if nth == 1 {
			c08Open(p.ch(p.entered, id))
			panic(http.ErrAbortHandler)
		}
		reply("")
	default:
		http.Error(w, "bad mode", 400)
	}
}

// ---------------------------------------------------------------------------------------
// crowd members
// ---------------------------------------------------------------------------------------

type c08Member struct {
	id       int
	role     c08Role
	where    string // extras | holders | queue | probe
	ctx      context.Context
	inject   func()
	stop     context.CancelFunc
	done     chan struct{}
	err      error
	body     string
	n        int
	when     time.Time
	gotConn  int32
	wroteHdr int32
	hdrAt    chan struct{}
	drain    chan struct{}
	sleeping chan struct{}
	up       *c08Flood
	gate     *c08DialGate
	firedAt  time.Time
	total    int
	part     int
}

type c08DialGate struct {
	reached chan struct{}
	open    chan struct{}
}

type c08Crowd struct {
	cs    c08CrowdCase
	c     *Client
	peer  *c08CrowdPeer
	armed atomic.Pointer[c08DialGate]
	dials int32
	gates []*c08DialGate
	next  int
	snaps []string
}

func (cw *c08Crowd) dial(ctx context.Context, network, addr string) (net.Conn, error) {
	atomic.AddInt32(&cw.dials, 1)
	if g := cw.armed.Swap(nil); g != nil {
		close(g.reached)
		select {
		case <-g.open:
		case <-time.After(c08HardLimit):
		}
	}
	var nd net.Dialer
	return nd.DialContext(context.Background(), network, addr)
}

func (cw *c08Crowd) h3dial(ctx context.Context, addr string, tlsCfg *tls.Config, cfg *quic.Config) (quic.EarlyConnection, error) {
	atomic.AddInt32(&cw.dials, 1)
	if g := cw.armed.Swap(nil); g != nil {
		close(g.reached)
		select {
		case <-g.open:
		case <-time.After(c08HardLimit):
		}
	}
	return quic.DialAddrEarly(ctx, addr, tlsCfg, cfg)
}

func (cw *c08Crowd) newMember(role c08Role, where string) *c08Member {
	m := &c08Member{id: cw.next, role: role, where: where, done: make(chan struct{}), hdrAt: make(chan struct{}),
		drain: make(chan struct{}), sleeping: make(chan struct{})}
	cw.next++
	outer, stop := context.WithCancel(context.Background())
	m.stop = stop
	switch {
	case !role.victim:
		m.ctx, m.inject = outer, func() {}
	case cw.cs.kind == "canceled":
		c, cancel := context.WithCancel(outer)
		m.ctx, m.inject = c, cancel
	default:
		d := newC08DeadlineCtx()
		child, cancel := context.WithCancel(d)
		go func() { // wind-down of the harness also ends it
			select {
			case <-outer.Done():
				cancel()
			case <-child.Done():
			}
		}()
		m.ctx, m.inject = child, func() { d.expire(); <-child.Done() }
	}
	return m
}

func (cw *c08Crowd) start(m *c08Member) {
	if m.role.dial {
		m.gate = &c08DialGate{reached: make(chan struct{}), open: make(chan struct{})}
		cw.gates = append(cw.gates, m.gate)
		cw.armed.Store(m.gate)
	}
	go func() {
		defer close(m.done)
		ctx := httptrace.WithClientTrace(m.ctx, &httptrace.ClientTrace{
			GotConn:      func(httptrace.GotConnInfo) { atomic.StoreInt32(&m.gotConn, 1) },
			WroteHeaders: func() { atomic.StoreInt32(&m.wroteHdr, 1) },
		})
		rq := cw.c.R().SetContext(ctx)
		mode := m.role.mode
		url := fmt.Sprintf("%s/%s/%d", cw.peer.base, mode, m.id)
		method := "GET"
		switch mode {
		case "expect":
			method = "POST"
			rq.SetHeader("Expect", "100-continue").SetBodyBytes(bytes.Repeat([]byte{'e'}, 16<<10))
		case "upload":
			method = "POST"
			m.up = &c08Flood{}
			rq.SetBody(GetContentFunc(func() (io.ReadCloser, error) { return m.up, nil }))
		case "body":
			rq.DisableAutoReadResponse()
			url += fmt.Sprintf("?n=%d&part=%d", m.total, m.part)
		case "big":
			url += fmt.Sprintf("?n=%d", m.total)
		case "failonce":
			rq.SetRetryCount(1).SetRetryInterval(func(*Response, int) time.Duration {
				c08Open(m.sleeping)
				return 3 * time.Second
			})
		}
		resp, err := rq.Send(method, url)
		if err != nil {
			m.err, m.when = err, time.Now()
			return
		}
		if mode == "body" {
			close(m.hdrAt)
			select {
			case <-m.drain:
			case <-time.After(c08HardLimit + 5*time.Second):
			}
			b, rerr := io.ReadAll(resp.Body)
			m.when = time.Now()
			resp.Body.Close()
			m.n, m.err = len(b), rerr
			return
		}
		m.when = time.Now()
		if resp.StatusCode != 200 {
			m.err = fmt.Errorf("status %d", resp.StatusCode)
			return
		}
		b := resp.Bytes()
		m.n, m.body = len(b), ""
		if len(b) < 64 {
			m.body = string(b)
		}
	}()
}

func (m *c08Member) finished() bool {
	select {
	case <-m.done:
		return true
	default:
		return false
	}
}

func (m *c08Member) wait(d time.Duration) bool {
	select {
	case <-m.done:
		return true
	case <-time.After(d):
		return false
	}
}

// okResult: the member got the complete response to its own request.
func (m *c08Member) okResult() string {
	if m.err != nil {
		return "error(" + c08Class(m.err) + "): " + m.err.Error()
	}
	switch m.role.mode {
	case "body", "big":
		if m.n != m.total {
			return fmt.Sprintf("%d of %d body bytes", m.n, m.total)
		}
		return ""
	case "expect":
		if m.body != fmt.Sprintf("ok %d %d", m.id, 16<<10) {
			return fmt.Sprintf("body %q", m.body)
		}
		return ""
	}
	if m.body != "ok "+strconv.Itoa(m.id) {
		return fmt.Sprintf("body %q", m.body)
	}
	return ""
}

func c08CountStacks(marker string) int {
	buf := make([]byte, 1<<20)
	for {
		n := runtime.Stack(buf, true)
		if n < len(buf) {
			buf = buf[:n]
			break
		}
		buf = make([]byte, 2*len(buf))
	}
	n := 0
	for _, g := range strings.Split(string(buf), "\n\n") {
		if strings.Contains(g, marker) {
			n++
		}
	}
	return n
}

// ---------------------------------------------------------------------------------------
// in-package view of the HTTP/1.1 pool
// ---------------------------------------------------------------------------------------

// c08PoolSnap renders, per connection key in use, MaxConnsPerHost, the per-host count, the two
// wait queues (w = still waiting, d = done: delivered or cancelled) and the number of idle
// connections, all read under the pool's own locks.
func c08PoolSnap(t *Transport) []string {
	t.idleMu.Lock()
	t.connsPerHostMu.Lock()
	defer t.idleMu.Unlock()
	defer t.connsPerHostMu.Unlock()
	keys := map[connectMethodKey]bool{}
	for k := range t.connsPerHost {
		keys[k] = true
	}
	for k := range t.connsPerHostWait {
		keys[k] = true
	}
	for k := range t.idleConnWait {
		keys[k] = true
	}
	for k := range t.idleConn {
		keys[k] = true
	}
	flags := func(q wantConnQueue) string {
		var b strings.Builder
		q.all(func(w *wantConn) {
			if w.waiting() {
				b.WriteByte('w')
			} else {
				b.WriteByte('d')
			}
		})
		if b.Len() == 0 {
			return "-"
		}
		return b.String()
	}
	var out []string
	for k := range keys {
		usable := 0
		for _, pc := range t.idleConn[k] {
			if pc.alt == nil && !pc.isBroken() {
				usable++
			}
		}
		out = append(out, fmt.Sprintf("%d %d %s %s %d", t.MaxConnsPerHost, t.connsPerHost[k], flags(t.connsPerHostWait[k]), flags(t.idleConnWait[k]), usable))
	}
	sort.Strings(out)
	return out
}

func c08PoolLive(t *Transport) (dialWait, idleWait int) {
	for _, s := range c08PoolSnap(t) {
		f := strings.Fields(s)
		dialWait += strings.Count(f[2], "w")
		idleWait += strings.Count(f[3], "w")
	}
	return
}

// c08PoolAtRest: nothing is queued, and the per-host count equals the number of idle connections.
func c08PoolAtRest(t *Transport) string {
	for _, s := range c08PoolSnap(t) {
		f := strings.Fields(s)
		if strings.Contains(f[2], "w") || strings.Contains(f[3], "w") {
			return "waiter left in a queue: " + s
		}
		if f[0] != "0" && f[1] != f[4] {
			return "per-host count differs from the number of idle connections: " + s
		}
	}
	return ""
}

// ---------------------------------------------------------------------------------------
// one crowd case
// ---------------------------------------------------------------------------------------

type c08CrowdObs struct {
	infra    string // the scene could not be set up (not judged)
	formed   bool   // everybody was parked where the case wants them before the injection
	failed   []string
	snaps    []string
	dials    int
	resets   int
	victims  int
	others   int
	maxLate  time.Duration
	maxOther time.Duration
	orphan   int
	class    string
	h3lines  [][2]string // HTTP/3: victims the stream-level lifecycle model speaks about (c08h3life line, observed outcome)
}

func (cw *c08Crowd) snap() {
	if cw.cs.proto != "h1" {
		return
	}
	cw.snaps = append(cw.snaps, c08PoolSnap(cw.c.GetTransport())...)
}

// parkHolder waits until a resource holder is where its role wants it.
func (cw *c08Crowd) parkHolder(m *c08Member) string {
	bound := 3 * time.Second
	var ev <-chan struct{}
	switch {
	case m.role.dial:
		ev = m.gate.reached
	case m.role.mode == "failonce":
		ev = m.sleeping
	case m.role.mode == "body":
		ev = cw.peer.ch(cw.peer.entered, m.id)
	default:
		ev = cw.peer.ch(cw.peer.entered, m.id)
	}
	select {
	case <-ev:
	case <-m.done:
		return fmt.Sprintf("request %d (%s) ended before reaching its point: %v", m.id, m.role, m.err)
	case <-time.After(bound):
		return fmt.Sprintf("request %d (%s) did not reach its point within %v", m.id, m.role, bound)
	}
	if m.role.mode == "body" && !m.role.dial {
		select {
		case <-m.hdrAt:
		case <-m.done:
			return fmt.Sprintf("request %d (%s) ended before its response headers: %v", m.id, m.role, m.err)
		case <-time.After(bound):
			return fmt.Sprintf("request %d (%s) did not get its response headers within %v", m.id, m.role, bound)
		}
		time.Sleep(30 * time.Millisecond) // the first part of the body arrives and is buffered, unread
	}
	if m.role.mode == "upload" && !m.role.dial {
		// the writer is stalled once the source is no longer asked for data
		last, stable := int64(-1), 0
		deadline := time.Now().Add(time.Second)
		for stable < 3 && time.Now().Before(deadline) {
			time.Sleep(10 * time.Millisecond)
			n := atomic.LoadInt64(&m.up.reads)
			if n == last {
				stable++
			} else {
				stable = 0
			}
			last = n
		}
	}
	return ""
}

// parkQueued waits until the k-th queued request (k from 1) is waiting for the resource.
func (cw *c08Crowd) parkQueued(m *c08Member, k int) (parked bool, early bool) {
	tr := cw.c.GetTransport()
	cond := func() bool { return false }
	switch cw.cs.proto {
	case "h1":
		cond = func() bool {
			dw, _ := c08PoolLive(tr)
			return dw >= k
		}
	case "h2":
		cond = func() bool {
			if atomic.LoadInt32(&m.gotConn) == 0 {
				return false
			}
			return c08CountStacks("awaitOpenSlotForStream") >= 1
		}
	case "h3":
		cond = func() bool { return c08CountStacks("OpenStreamSync") >= k }
	}
	deadline := time.Now().Add(700 * time.Millisecond)
	for {
		if m.finished() {
			return false, true
		}
		if cond() {
			if cw.cs.proto == "h2" {
				time.Sleep(5 * time.Millisecond)
			}
			return true, false
		}
		if time.Now().After(deadline) {
			// not confirmed by the marker (a renamed function?): the request has had ample time to
			// get there, provided it did not reach the peer
			return cw.peer.arrivals(m.id) == 0, false
		}
		time.Sleep(2 * time.Millisecond)
	}
}

// c08OnlyTiming: every failure of the run is of the "too late" kind (nothing wrong was observed, something
// expected was not observed in time).
func c08OnlyTiming(failed []string) bool {
	if len(failed) == 0 {
		return false
	}
	for _, f := range failed {
		if !(strings.Contains(f, "was not served within") || strings.Contains(f, "after its cancellation") ||
			strings.Contains(f, "had not returned") || strings.Contains(f, "did not reach its point")) {
			return false
		}
	}
	return true
}

func c08CrowdRun(cs c08CrowdCase) (o c08CrowdObs) {
	base := len(c08Census())
	peer, err := newC08CrowdPeer(cs.proto, cs.limit, cs.closing == "serverclose")
	if err != nil {
		o.infra = "peer: " + err.Error()
		return
	}
	defer peer.close()
	c := C().SetTimeout(0)
	c.SetLogger(nil)
	tr := c.GetTransport()
	tr.Proxy = nil
	cw := &c08Crowd{cs: cs, c: c, peer: peer}
	tr.SetExpectContinueTimeout(5 * time.Second)
	switch cs.proto {
	case "h1":
		c.SetDial(cw.dial)
		tr.SetMaxConnsPerHost(cs.limit)
		if cs.closing == "nokeepalive" {
			c.DisableKeepAlives()
		}
	case "h2":
		c.SetDial(cw.dial)
		c.EnableInsecureSkipVerify()
		c.SetHTTP2StrictMaxConcurrentStreams(true)
		c.SetHTTP2ConnectionFlow(1) // connection window 64 KiB: lost credit shows after a few requests
	case "h3":
		c.EnableForceHTTP3()
		if tr.t3 == nil {
			o.infra = "HTTP/3 not available on this toolchain"
			return
		}
		c.EnableInsecureSkipVerify()
		tr.t3.Dial = cw.h3dial
		defer tr.t3.Close()
	}
	var all []*c08Member
	windDown := func() {
		for _, m := range all {
			m.stop()
			c08Open(m.drain)
			c08Open(peer.ch(peer.release, m.id))
		}
		for _, g := range cw.gates {
			c08Open(g.open)
		}
		for _, m := range all {
			m.wait(3 * time.Second)
		}
	}
	fail := func(f string, a ...interface{}) { o.failed = append(o.failed, fmt.Sprintf(f, a...)) }

	if cs.warm {
		m := cw.newMember(c08Role{mode: "plain"}, "warm")
		all = append(all, m)
		cw.start(m)
		if !m.wait(5*time.Second) || m.okResult() != "" {
			o.infra = "warm-up failed: " + m.okResult()
			windDown()
			return
		}
		if cs.proto == "h1" && cs.closing == "keepalive" {
			c08WaitFor(c08Bound, func() bool { return c08IdleCount(tr) > 0 })
		}
	}

	// ---- set the scene: alongside, then the holders, then the queue, one after the other
	o.formed = true
	var extras, holders, queued []*c08Member
	for _, r := range cs.extras {
		m := cw.newMember(r, "alongside")
		all = append(all, m)
		extras = append(extras, m)
		cw.start(m)
		if msg := cw.parkHolder(m); msg != "" {
			o.infra = msg
			windDown()
			return
		}
	}
	for _, r := range cs.holders {
		m := cw.newMember(r, "holding")
		if r.mode == "body" {
			m.total, m.part = 48000, 24000
		}
		all = append(all, m)
		holders = append(holders, m)
		cw.start(m)
		if msg := cw.parkHolder(m); msg != "" {
			o.infra = msg
			windDown()
			return
		}
		cw.snap()
	}
	for i, r := range cs.queue {
		m := cw.newMember(r, "queued")
		all = append(all, m)
		queued = append(queued, m)
		cw.start(m)
		parked, early := cw.parkQueued(m, i+1)
		if early || !parked {
			o.formed = false // the limit did not hold the request back: nothing to learn from this case
		}
		cw.snap()
	}
	for _, r := range cs.along {
		m := cw.newMember(r, "alongside")
		all = append(all, m)
		cw.start(m)
	}
	if len(cs.along) > 0 {
		time.Sleep(20 * time.Millisecond)
	}
	if !o.formed {
		windDown()
		return
	}

	// ---- inject: the victims are cancelled together
	var victims, others []*c08Member
	for _, m := range all {
		if m.where == "warm" {
			continue
		}
		if m.role.victim {
			victims = append(victims, m)
		} else {
			others = append(others, m)
		}
	}
	for _, m := range victims {
		if m.finished() && !(m.role.mode == "body" && !m.role.dial) {
			o.formed = false // over before the injection: it was not waiting anywhere
		}
	}
	if !o.formed {
		windDown()
		return
	}
	o.victims, o.others = len(victims), len(others)+len(cs.late)
	order := append([]*c08Member(nil), victims...)
	if cs.rev {
		for i, j := 0, len(order)-1; i < j; i, j = i+1, j-1 {
			order[i], order[j] = order[j], order[i]
		}
	}
	for _, m := range order {
		m.firedAt = time.Now()
		m.inject()
	}
	injected := time.Now()
	for _, m := range victims {
		if m.role.mode == "body" && !m.role.dial {
			m.firedAt = time.Now()
			close(m.drain) // the caller now reads what is left of the body
		}
	}
	hung := false
	for _, m := range victims {
		left := c08HardLimit - time.Since(injected)
		if left < time.Second {
			left = time.Second
		}
		if !m.wait(left) {
			fail("victim %d (%s, %s) had not returned %v after its cancellation", m.id, m.where, m.role, c08HardLimit)
			hung = true
			continue
		}
		late := m.when.Sub(m.firedAt)
		if late > o.maxLate {
			o.maxLate = late
		}
		cl := c08Class(m.err)
		if cl != cs.kind && !(cs.proto == "h3" && cl == "h3cancel") {
			fail("victim %d (%s, %s) returned %s (%v), want %s", m.id, m.where, m.role, cl, m.err, cs.kind)
		}
		if late > c08Bound {
			fail("victim %d (%s, %s) returned %v after its cancellation", m.id, m.where, m.role, late.Round(time.Millisecond))
		}
		if m.up != nil {
			if !c08WaitFor(c08Bound/2, func() bool { return atomic.LoadInt32(&m.up.closes) > 0 }) {
				fail("victim %d: request body not closed", m.id)
			}
		}
		if cs.proto == "h3" && !m.role.dial {
			// the victim's waiting point in the HTTP/3 lifecycle model (Req/Pool/CancelH3.lean): queued =
			// openRequestStream waiting for stream credit; hold = header wait; upload = stream write
			// blocked on flow control
			tr, hasBody := "", 0
			switch {
			case m.where == "queued" && m.role.mode == "plain":
				tr = "ev:hsDone"
			case m.where == "queued" && m.role.mode == "upload":
				tr, hasBody = "ev:hsDone", 1
			case m.where == "holding" && m.role.mode == "hold":
				tr = "ev:hsDone,ev:streamOpen,act:cSendHdr"
			case m.where == "holding" && m.role.mode == "upload":
				tr, hasBody = "ev:hsDone,ev:streamOpen,act:cSendHdr,act:uRead", 1
			}
			if tr != "" && (hasBody == 1) == (m.up != nil) {
				closes := 0
				if m.up != nil {
					closes = int(atomic.LoadInt32(&m.up.closes))
				}
				impl := fmt.Sprintf("ret=%s;read=-;closes=%d;upl=?;rst=?;stop=?", cl, closes)
				o.h3lines = append(o.h3lines, [2]string{fmt.Sprintf("c08h3life %d %s %s %s", hasBody, tr, cs.kind, impl), impl})
			}
		}
	}
	cw.snap()
	for _, r := range cs.late {
		m := cw.newMember(r, "after-the-cancel")
		all = append(all, m)
		others = append(others, m)
		cw.start(m)
	}

	// ---- everybody else must get through: the holders are released, the held-back dials go on
	released := time.Now()
	for _, m := range others {
		c08Open(peer.ch(peer.release, m.id))
		c08Open(m.drain)
	}
	for _, g := range cw.gates {
		c08Open(g.open)
	}
	for _, m := range others {
		left := 2*c08Bound - time.Since(released)
		if left < 50*time.Millisecond {
			left = 50 * time.Millisecond
		}
		if !m.wait(left) {
			fail("request %d (%s, %s) was not served within %v after the victims were cancelled and the holders released", m.id, m.where, m.role, 2*c08Bound)
			hung = true
			continue
		}
		if d := m.when.Sub(released); d > o.maxOther {
			o.maxOther = d
		}
		if msg := m.okResult(); msg != "" {
			fail("request %d (%s, %s) failed: %s", m.id, m.where, m.role, msg)
		}
	}
	cw.snap()
	for _, m := range victims {
		if peer.sawReset(m.id) {
			o.resets++
		}
	}
	// recorded defect, exactly its symptom: on HTTP/3 the dial runs under the context of the request
	// that started it; requests waiting for the same dial fail with THAT request's context error
	if cs.proto == "h3" && len(o.failed) > 0 {
		dialVictim := false
		for _, h := range cs.holders {
			if h.dial && h.victim {
				dialVictim = true
			}
		}
		only := dialVictim
		for _, m := range others {
			if m.finished() && m.err != nil && c08Class(m.err) != cs.kind {
				only = false
			}
		}
		for _, f := range o.failed {
			if !strings.HasPrefix(f, "request ") || !strings.Contains(f, " failed: error("+cs.kind+")") {
				only = false
			}
		}
		if only {
			o.class = "h3-shared-dial-inherits-cancel"
		}
	}
	if hung {
		cw.snap()
		windDown()
		o.snaps = cw.snaps
		return // the stuck calls keep their goroutines: no probe, no census
	}

	// ---- the full capacity is available again
	var probes []*c08Member
	for i := 0; i < cs.limit; i++ {
		m := cw.newMember(c08Role{mode: "hold"}, "probe")
		all = append(all, m)
		probes = append(probes, m)
		cw.start(m)
	}
	pdead := time.Now().Add(2 * c08Bound)
	for _, m := range probes {
		left := time.Until(pdead)
		if left < 50*time.Millisecond {
			left = 50 * time.Millisecond
		}
		select {
		case <-peer.ch(peer.entered, m.id):
		case <-m.done:
			fail("capacity probe: request %d failed: %v", m.id, m.err)
			hung = true
		case <-time.After(left):
			fail("capacity probe: only part of %d concurrent requests reached the peer afterwards (a slot is lost)", cs.limit)
			hung = true
		}
		if hung {
			break
		}
	}
	cw.snap()
	for _, m := range probes {
		c08Open(peer.ch(peer.release, m.id))
	}
	for _, m := range probes {
		if !hung && (!m.wait(2*c08Bound) || m.okResult() != "") {
			fail("capacity probe: request %d: %s", m.id, m.okResult())
			hung = true
		}
	}
	if !hung {
		m := cw.newMember(c08Role{mode: "big"}, "probe")
		m.total = 300000
		all = append(all, m)
		cw.start(m)
		if !m.wait(2*c08Bound) || m.okResult() != "" {
			fail("window probe: a %d-byte download afterwards: %s (done=%v)", m.total, m.okResult(), m.finished())
			hung = true
		}
	}
	if hung {
		windDown()
		o.snaps = cw.snaps
		return
	}

	// ---- counters at rest, nothing left running
	if cs.proto == "h1" {
		var msg string
		c08WaitFor(c08Bound, func() bool { msg = c08PoolAtRest(tr); return msg == "" })
		if msg != "" {
			fail("pool not at rest: %s", msg)
		}
		cw.snap()
	}
	o.dials = int(atomic.LoadInt32(&cw.dials))
	windDown()
	if cs.proto == "h3" {
		tr.t3.Close()
	}
	tr.CloseIdleConnections()
	if cs.proto == "h1" {
		ok := c08WaitFor(c08Bound, func() bool {
			tr.connsPerHostMu.Lock()
			defer tr.connsPerHostMu.Unlock()
			return len(tr.connsPerHost) == 0
		})
		if !ok {
			fail("per-host connection count not back to zero after CloseIdleConnections: %v", c08PoolSnap(tr))
		}
	}
	if l := c08CrowdLeft(cs.proto, base, &o); len(l) > 0 {
		fail("goroutines left: %s", c08TopFrames(l))
	}
	if cs.proto == "h3" {
		peer.close() // ends a QUIC connection the round tripper forgot without closing it
		c08Settle(base, c08Bound)
	}
	o.snaps = cw.snaps
	return
}

// c08CrowdLeft: library goroutines still running once everything is over and the idle connections
// are closed. On HTTP/3 the connection-level goroutines of a QUIC connection that the round tripper
// dropped from its cache without closing (after a deadline / non-context error) live until the QUIC
// idle timeout: bounded and not work for a request — counted (o.orphan), not judged (as in script_h3).
func c08CrowdLeft(proto string, base int, o *c08CrowdObs) []string {
	look := func(bound time.Duration) []string {
		deadline := time.Now().Add(bound)
		for {
			var per []string
			orphan := 0
			for _, g := range c08Census() {
				if proto == "h3" && c08H3ConnLevel(g) {
					orphan++
				} else {
					per = append(per, g)
				}
			}
			if len(per) <= base || time.Now().After(deadline) {
				o.orphan = orphan
				if len(per) <= base {
					return nil
				}
				return per
			}
			time.Sleep(5 * time.Millisecond)
		}
	}
	l := look(c08Bound + time.Second)
	if len(l) > 0 {
		l = look(2 * c08Bound) // a stalled machine delays goroutine exit too: look again, longer
	}
	return l
}

// ---------------------------------------------------------------------------------------
// repeated cancellations on one connection: the shared accounts must not drift
// ---------------------------------------------------------------------------------------

// c08RoundsRun: `rounds` requests in a row, each parked at `point` and cancelled there (a body
// that is partly buffered is then drained by the caller), all on the same client with small
// limits; round k > 1 needs what round k-1 must have given back. Then the capacity probes.
func c08RoundsRun(proto, point, kind string, rounds int) (o c08CrowdObs, human string) {
	cs := c08CrowdCase{proto: proto, limit: 1, closing: "keepalive", kind: kind, warm: true}
	human = fmt.Sprintf("%s limit=1: %d requests in a row on ONE client, each %s at the point %q, then capacity probes", proto, rounds, kind, point)
	base := len(c08Census())
	peer, err := newC08CrowdPeer(proto, 2, false)
	if err != nil {
		o.infra = err.Error()
		return
	}
	defer peer.close()
	c := C().SetTimeout(0)
	c.SetLogger(nil)
	tr := c.GetTransport()
	tr.Proxy = nil
	cw := &c08Crowd{cs: cs, c: c, peer: peer}
	tr.SetExpectContinueTimeout(5 * time.Second)
	switch proto {
	case "h1":
		tr.SetMaxConnsPerHost(1)
	case "h2":
		c.EnableInsecureSkipVerify()
		c.SetHTTP2StrictMaxConcurrentStreams(true)
		c.SetHTTP2ConnectionFlow(1)
	case "h3":
		c.EnableForceHTTP3()
		if tr.t3 == nil {
			o.infra = "HTTP/3 not available on this toolchain"
			return
		}
		c.EnableInsecureSkipVerify()
		defer tr.t3.Close()
	}
	var all []*c08Member
	windDown := func() {
		for _, m := range all {
			m.stop()
			c08Open(m.drain)
			c08Open(peer.ch(peer.release, m.id))
		}
		for _, m := range all {
			m.wait(3 * time.Second)
		}
	}
	fail := func(f string, a ...interface{}) { o.failed = append(o.failed, fmt.Sprintf(f, a...)) }
	o.formed = true
	warm := cw.newMember(c08Role{mode: "plain"}, "warm")
	all = append(all, warm)
	cw.start(warm)
	if !warm.wait(5*time.Second) || warm.okResult() != "" {
		o.infra = "warm-up failed: " + warm.okResult()
		windDown()
		return
	}
	hung := false
	for i := 0; i < rounds && !hung; i++ {
		m := cw.newMember(c08Role{mode: point, victim: true}, "holding")
		m.total, m.part = 60000, 30000
		all = append(all, m)
		cw.start(m)
		if msg := cw.parkHolder(m); msg != "" {
			if i == 0 {
				o.infra = msg
				windDown()
				return
			}
			fail("round %d after %d cancelled requests: %s", i+1, i, msg)
			hung = true
			break
		}
		cw.snap()
		o.victims++
		m.firedAt = time.Now()
		m.inject()
		if point == "body" {
			time.Sleep(5 * time.Millisecond)
			m.firedAt = time.Now()
			close(m.drain)
		}
		if !m.wait(c08HardLimit) {
			fail("round %d: the cancelled request had not returned after %v", i+1, c08HardLimit)
			hung = true
			break
		}
		late := m.when.Sub(m.firedAt)
		if late > o.maxLate {
			o.maxLate = late
		}
		if cl := c08Class(m.err); cl != kind && !(proto == "h3" && cl == "h3cancel") {
			fail("round %d: returned %s (%v), want %s", i+1, cl, m.err, kind)
		}
		if late > c08Bound {
			fail("round %d: returned %v after the cancellation", i+1, late.Round(time.Millisecond))
		}
		if m.up != nil && !c08WaitFor(c08Bound/2, func() bool { return atomic.LoadInt32(&m.up.closes) > 0 }) {
			fail("round %d: request body not closed", i+1)
		}
		cw.snap()
	}
	if !hung {
		for _, mode := range []string{"plain", "big"} {
			m := cw.newMember(c08Role{mode: mode}, "probe")
			m.total = 300000
			all = append(all, m)
			cw.start(m)
			if !m.wait(2*c08Bound) || m.okResult() != "" {
				fail("after %d cancelled requests an ordinary %s request: %s (done=%v)", rounds, mode, m.okResult(), m.finished())
				hung = true
				break
			}
		}
	}
	o.snaps = cw.snaps
	if hung {
		windDown()
		return
	}
	if proto == "h1" {
		var msg string
		c08WaitFor(c08Bound, func() bool { msg = c08PoolAtRest(tr); return msg == "" })
		if msg != "" {
			fail("pool not at rest: %s", msg)
		}
		cw.snap()
		o.snaps = cw.snaps
	}
	windDown()
	if proto == "h3" {
		tr.t3.Close()
	}
	tr.CloseIdleConnections()
	if l := c08CrowdLeft(proto, base, &o); len(l) > 0 {
		fail("goroutines left: %s", c08TopFrames(l))
	}
	if proto == "h3" {
		peer.close()
		c08Settle(base, c08Bound)
	}
	return
}

// ---------------------------------------------------------------------------------------
// generator
// ---------------------------------------------------------------------------------------

func c08HoldPoints(proto string) []string {
	switch proto {
	case "h1":
		return []string{"hold", "dial", "expect", "body", "upload"}
	case "h2":
		return []string{"hold", "dial", "expect", "body", "upload"}
	}
	return []string{"hold", "dial", "body", "upload"}
}

func c08CrowdLane(t *testing.T, proto, lane string) {
	c08Mu.Lock()
	defer c08Mu.Unlock()
	s := verifh.New(t, "C08", lane,
		"crowds on "+proto+": `limit` (1..2) requests HOLD the shared resource (MaxConnsPerHost slot / MAX_CONCURRENT_STREAMS slot / QUIC stream credit), each parked at a waiting point (header wait, dial in flight, Expect: 100-continue wait, body partly buffered and unread, upload stalled on a peer that does not read), 1..4 further requests are QUEUED for the resource in a known order (h1: verified in connsPerHostWait under the pool lock), one may sit in its retry wait alongside; HTTP/1.1 connections end in the three ways {keep-alive, DisableKeepAlives, peer says Connection: close}; a non-empty victim subset (stratified: queue front with live requests behind, queue middle/back, several at once, a holder at each waiting point, holder and queue front together; plus seeded random subsets) is cancelled / hits its deadline together; plus rounds of repeated cancellations on one connection with 64 KiB connection windows; oracle: every victim returns within 2 s with its own cancellation error and its request body closed, every OTHER request completes with the response to its own request within 4 s after the holders are released, afterwards `limit` concurrent requests reach the peer again, a 300 kB download completes, the HTTP/1.1 pool is at rest (nothing queued, count = idle connections; zero after CloseIdleConnections) and no library goroutine is left; every in-package sample of the HTTP/1.1 pool (per-host count, live/dead entries of both wait queues, usable idle connections) is judged by the Lean pool invariants (c08snap); non-trivial = the crowd was formed as wanted before the injection")
	rnd := s.Rand()
	cnt := map[string]int{}
	count := func(k string) { cnt[k]++; s.Count(k) }
	closings := []string{""}
	if proto == "h1" {
		closings = []string{"nokeepalive", "serverclose", "keepalive"}
	}
	kinds := []string{"canceled", "deadline"}
	var cases []c08CrowdCase
	plainQ := func(n int, victims ...int) []c08Role {
		q := make([]c08Role, n)
		for i := range q {
			q[i] = c08Role{mode: "plain"}
		}
		for _, v := range victims {
			if v < n {
				q[v].victim = true
			}
		}
		return q
	}
	holdH := func(n int) []c08Role {
		h := make([]c08Role, n)
		for i := range h {
			h[i] = c08Role{mode: "hold"}
		}
		return h
	}
	warmFor := func(cs *c08CrowdCase) {
		// h2/h3 learn the peer's limit from the established connection; a holder parked in its dial
		// needs a connection that is not there yet
		cs.warm = true
		for _, h := range cs.holders {
			if h.dial {
				cs.warm = false
			}
		}
		if proto == "h1" && cs.warm {
			cs.warm = rnd.Intn(2) == 0
		}
	}
	add := func(cs c08CrowdCase) {
		cs.proto = proto
		warmFor(&cs)
		cases = append(cases, cs)
	}
	// stratum 1: the victim is at the FRONT of the queue, live requests behind it — for every way a
	// connection can end
	for _, cl := range closings {
		add(c08CrowdCase{limit: 1, closing: cl, holders: holdH(1), queue: plainQ(2+rnd.Intn(2), 0), kind: verifh.Pick(rnd, kinds)})
	}
	// stratum 2: victims in the middle / at the back / several, limit 2
	add(c08CrowdCase{limit: 2, closing: verifh.Pick(rnd, closings), holders: holdH(2), queue: plainQ(4, 1, 2), kind: verifh.Pick(rnd, kinds), rev: true})
	add(c08CrowdCase{limit: 1 + rnd.Intn(2), closing: verifh.Pick(rnd, closings), holders: holdH(1), queue: plainQ(3, 0, 2), kind: verifh.Pick(rnd, kinds)})
	// stratum 3: a holder is the victim, at each waiting point, with a queue behind it
	for _, pt := range c08HoldPoints(proto) {
		h := c08Role{mode: pt, victim: true}
		if pt == "dial" {
			h = c08Role{mode: "plain", dial: true, victim: true}
		}
		cs := c08CrowdCase{limit: 1, closing: verifh.Pick(rnd, closings), holders: []c08Role{h}, queue: plainQ(2), kind: verifh.Pick(rnd, kinds)}
		if rnd.Intn(2) == 0 {
			// … and the queue front goes at the same moment
			cs.queue = plainQ(3, 0)
		}
		if pt == "dial" && proto != "h1" {
			// no connection yet, so no limit is known: the others run alongside (h2: they dial for
			// themselves; h3: they wait for the victim's dial)
			cs.queue, cs.along = nil, plainQ(2)
			if proto == "h2" {
				// (a connection dialled by somebody else would be shared with the victim at once)
				cs.along, cs.late = nil, plainQ(2)
			}
		}
		add(cs)
	}
	// stratum 4: the retry wait alongside a held resource
	add(c08CrowdCase{limit: 1, closing: verifh.Pick(rnd, closings), extras: []c08Role{{mode: "failonce", victim: true}}, holders: holdH(1), queue: plainQ(2, 0), kind: verifh.Pick(rnd, kinds)})
	// seeded random crowds
	for i := 0; i < verifh.N(3, 40); i++ {
		cs := c08CrowdCase{limit: 1 + rnd.Intn(2), closing: verifh.Pick(rnd, closings), kind: verifh.Pick(rnd, kinds), rev: rnd.Intn(2) == 0}
		any := false
		for j := 0; j < cs.limit; j++ {
			h := c08Role{mode: "hold"}
			if rnd.Intn(3) == 0 {
				pt := verifh.Pick(rnd, c08HoldPoints(proto))
				h = c08Role{mode: pt, victim: true}
				if pt == "dial" {
					if j > 0 || proto != "h1" {
						h = c08Role{mode: "hold", victim: true}
					} else {
						h = c08Role{mode: "plain", dial: true, victim: true}
					}
				}
				any = true
			}
			cs.holders = append(cs.holders, h)
		}
		nq := 1 + rnd.Intn(4)
		cs.queue = plainQ(nq)
		for j := range cs.queue {
			if rnd.Intn(3) == 0 {
				cs.queue[j].victim = true
				any = true
			}
		}
		if !any {
			cs.queue[0].victim = true
		}
		if rnd.Intn(4) == 0 {
			cs.extras = []c08Role{{mode: "failonce", victim: true}}
		}
		add(cs)
	}

	snapSeen := map[string]bool{}
	stopped := false
	judge := func(id, human string, o c08CrowdObs) {
		if o.infra != "" {
			count("scene-not-set")
			s.Observe(id, true, "", false, human, o.infra)
			return
		}
		if !o.formed {
			count("queue-not-formed")
			s.Observe(id, true, "", false, human, "")
			return
		}
		count("formed")
		if o.resets > 0 {
			count("peer-saw-victim-die")
		}
		h := fmt.Sprintf("%s -> %d victims returned (latest %v after the cancellation), %d others served (latest %v after the release)", human, o.victims, o.maxLate.Round(time.Millisecond), o.others, o.maxOther.Round(time.Millisecond))
		if len(o.failed) > 0 {
			h += " FAILED: " + strings.Join(o.failed, "; ")
		}
		if o.orphan > 0 {
			count("h3-forgotten-conn-left-to-idle-timeout")
		}
		s.Observe(id, len(o.failed) == 0, o.class, true, h, strings.Join(o.failed, "; "))
		for _, sn := range o.snaps {
			if !snapSeen[sn] {
				snapSeen[sn] = true
				count("pool-sample")
			}
			// judged by the model's invariants; the sample is reported with the case it came from
			s.Case("c08snap "+sn, "ok", true, "", false, "pool sample (MaxConnsPerHost, count, connsPerHostWait, idleConnWait, usable idle) "+sn+" in: "+human)
		}
	}
	for i, cs := range cases {
		id := fmt.Sprintf("%s/crowd/%d", proto, i)
		human := cs.String()
		s.Begin(id, human)
		o := c08CrowdRun(cs)
		if len(o.failed) > 0 || o.infra != "" {
			// a failure has to show twice: a stalled, shared machine produces late returns, unserved
			// requests and lingering goroutines once; a defect produces them again
			count("failed-case-run-again")
			if o2 := c08CrowdRun(cs); len(o2.failed) == 0 && o2.infra == "" && o2.formed {
				o = o2
			} else if c08OnlyTiming(o.failed) && c08OnlyTiming(o2.failed) {
				// (round 5) both runs show nothing but requests that were late / not served in time: on
				// the shared machine a burst of load outlasts two back-to-back runs (seen once in ~10 full
				// runs at load 50, never alone). Let the machine breathe and look a third time — a defect
				// is deterministic in the schedule the crowd forces and shows again.
				count("timing-only-failure-third-look")
				time.Sleep(1500 * time.Millisecond)
				if o3 := c08CrowdRun(cs); len(o3.failed) == 0 && o3.infra == "" && o3.formed {
					o = o3
				}
			}
		}
		if o.infra == "" && o.formed {
			for _, h := range cs.holders {
				if h.victim {
					count("victim-holding:" + h.String())
				}
			}
			for j, q := range cs.queue {
				if q.victim && j == 0 && len(cs.queue) > 1 && !cs.queue[1].victim {
					count("victim-at-queue-front-live-behind")
				} else if q.victim {
					count("victim-in-queue")
				}
			}
			for _, e := range cs.extras {
				if e.victim {
					count("victim-in-retry-wait")
				}
			}
			if cs.closing != "" {
				count("closing=" + cs.closing)
			}
		}
		judge(id, human, o)
		if o.infra == "" && o.formed {
			for _, l := range o.h3lines {
				count("h3life")
				s.Case(l[0], l[1], true, "", true, "victim of: "+human)
			}
		}
		if len(o.failed) > 0 && strings.Contains(strings.Join(o.failed, " "), "had not returned") {
			stopped = true
			break // stuck calls keep their goroutines: later censuses would be polluted
		}
	}
	// repeated cancellations on one connection
	points := []string{"body", "hold"}
	if verifh.Thorough() {
		points = []string{"body", "hold", "upload", "expect"}
	}
	for _, pt := range points {
		if (pt == "expect" && proto == "h3") || stopped {
			continue
		}
		kind := verifh.Pick(rnd, kinds)
		rounds := 4
		id := fmt.Sprintf("%s/rounds/%s", proto, pt)
		s.Begin(id, id)
		o, human := c08RoundsRun(proto, pt, kind, rounds)
		if len(o.failed) > 0 || o.infra != "" {
			count("failed-case-run-again")
			if o2, _ := c08RoundsRun(proto, pt, kind, rounds); len(o2.failed) == 0 && o2.infra == "" {
				o = o2
			}
		}
		if o.infra == "" {
			count("rounds:" + pt)
		}
		judge(id, human, o)
	}
	must := []string{"formed", "victim-at-queue-front-live-behind", "victim-in-queue", "victim-holding:hold*", "victim-holding:dial*",
		"victim-holding:body*", "victim-holding:upload*", "rounds:body", "rounds:hold"}
	if proto == "h1" {
		must = append(must, "closing=nokeepalive", "closing=serverclose", "closing=keepalive", "pool-sample", "victim-holding:expect*")
	}
	if stopped {
		must = nil // the lane stopped at the first call that never returned (reported above)
	}
	for _, want := range must {
		if cnt[want] == 0 {
			t.Errorf("lane %s: bucket %q not reached", lane, want)
		}
	}
	s.Finish()
}

func TestVerif_C08_crowd_h1(t *testing.T) { c08CrowdLane(t, "h1", "crowd_h1") }
func TestVerif_C08_crowd_h2(t *testing.T) { c08CrowdLane(t, "h2", "crowd_h2") }
func TestVerif_C08_crowd_h3(t *testing.T) { c08CrowdLane(t, "h3", "crowd_h3") }

var _ = sync.Mutex{}
