//go:build verif

package req

import (
	"bytes"
	"encoding/json"
	"encoding/xml"
	"fmt"
	"mime"
	"net/http"
	"path/filepath"
	"reflect"
	"sort"
	"strconv"
	"strings"
	"testing"
	"time"

	"github.com/imroc/req/v3/internal/verifh"
)

func c17Bit(b bool) string {
	if b {
		return "1"
	}
	return "0"
}

// sortedKV returns m with keys sorted (the canonical order used for map-born multipart fields).
func (m c17KV) sorted() c17KV {
	idx := make([]int, len(m.keys))
	for i := range idx {
		idx[i] = i
	}
	sort.SliceStable(idx, func(a, b int) bool { return m.keys[idx[a]] < m.keys[idx[b]] })
	var out c17KV
	for _, i := range idx {
		out.keys = append(out.keys, m.keys[i])
		out.vals = append(out.vals, m.vals[i])
	}
	return out
}

// TestVerif_C17_e2e: real client → loopback origin (HTTP/1.1 and HTTP/2); what arrived is
// parsed with the standard server-side parsers and compared (a) with the Lean server applied to
// the Lean client's output, (b) by an independent oracle with what the caller supplied.
func TestVerif_C17_e2e(t *testing.T) {
	s := verifh.New(t, "C17", "e2e",
		"requests over HTTP/1.1 (cleartext), HTTP/2 (TLS, x/net/http2 server) and HTTP/3 (quic-go server): urlencoded forms (request + client level, ordered, both), multipart (ordered / map fields, client-level fields, 0..4 files by path/bytes/reader/FileUpload with sizes around 512 B and 32 KiB, names needing quoting, default and custom boundaries, forced multipart without files, forced chunked encoding), marshalled JSON/XML with Content-Type presets, raw bodies, GET/HEAD/OPTIONS with AllowGetMethodPayload on/off; server side: ParseForm, MultipartReader + ReadForm rules, json/xml decoders; non-trivial = a request whose body carried at least 2 items")
	r := s.Rand()
	dir := t.TempDir()
	origins := map[string]*c17Origin{"h1": c17NewOrigin("h1"), "h2": c17NewOrigin("h2"), "h3": c17NewOrigin("h3")}
	defer origins["h1"].stop()
	defer origins["h2"].stop()
	defer origins["h3"].stop()
	n := verifh.N(1000, 15000)
	boundaries := []string{"", "", "B", "a b", "with:colon=and?q", "----WebKitFormBoundary7MA4YWxkTrZu0gW"}
	for i := 0; i < n; i++ {
		proto := verifh.Pick(r, []string{"h1", "h1", "h1", "h2", "h2", "h3"})
		o := origins[proto]
		c := c17Client(proto)
		s.Count(proto)
		kind := verifh.Pick(r, []string{"form", "form", "ordered", "multipart", "multipart", "multipart", "marshal", "raw", "forbid"})
		method := verifh.Pick(r, []string{"POST", "PUT", "PATCH", "DELETE"})
		allowGet := true
		if kind == "forbid" {
			method = verifh.Pick(r, []string{"GET", "HEAD", "OPTIONS", "GET"})
			allowGet = r.Intn(2) == 0
			if !allowGet {
				c.DisableAllowGetMethodPayload()
			}
		}
		req := c.R()
		var rq, cl c17KV
		var ordArgs []string
		var pairs [][2]string
		clientCT, reqCT := "", ""
		switch r.Intn(6) {
		case 0:
			clientCT = verifh.Pick(r, []string{"application/json", "text/xml", "text/plain", "application/soap+xml", "application/vnd.api+json; charset=utf-8", "Text/XML"})
			switch (i / 5) % 3 {
			case 0:
				c.SetCommonContentType(clientCT)
			case 1:
				c.SetCommonHeader("content-type", clientCT)
			default:
				c.SetCommonHeaders(map[string]string{"Content-Type": clientCT})
			}
			s.Count("client-preset-route-" + strconv.Itoa((i/5)%3))
		case 1:
			reqCT = verifh.Pick(r, []string{"application/json", "application/xml", "text/plain", "application/XML", "application/atom+xml; charset=utf-8"})
			switch (i / 3) % 3 {
			case 0:
				req.SetContentType(reqCT)
			case 1:
				req.SetHeader("content-type", reqCT)
			default:
				req.SetHeaders(map[string]string{"Content-Type": reqCT})
			}
			s.Count("request-preset-route-" + strconv.Itoa((i/3)%3))
		}
		exoticField := "" // "" | "ctl" | "empty": a multipart field name outside the plain class
		genOrdered := func(maxPairs int, mp bool) {
			np := 1 + r.Intn(maxPairs)
			for j := 0; j < np; j++ {
				k, v := c17Str(r, 8), c17Str(r, 24)
				if r.Intn(3) == 0 {
					k = verifh.Pick(r, []string{"dup", "a b", "ключ"})
				}
				if mp && (k == "" || c17HasUnsafe(k)) {
					// multipart field names: any bytes are carried (quoted like file names); kept in
					// 1/3 of the draws (their own class of finding on an unpatched tree), an empty
					// name (refused) in 1/3 of the empty draws
					switch {
					case k == "" && r.Intn(3) == 0 && exoticField == "":
						exoticField = "empty"
					case k != "" && r.Intn(3) == 0 && exoticField != "empty":
						exoticField = "ctl"
					default:
						k = "k" + strconv.Itoa(j)
					}
				}
				ordArgs = append(ordArgs, k, v)
				pairs = append(pairs, [2]string{k, v})
			}
			req.SetOrderedFormData(ordArgs...)
		}
		genMaps := func(mp bool) {
			if r.Intn(4) != 0 {
				rq = c17GenValues(r, 4, nil)
			}
			// one class of known finding per case: in multipart requests client-level fields are
			// not combined with ordered pairs
			if r.Intn(4) == 0 && !(mp && len(pairs) > 0) {
				cl = c17GenValues(r, 3, rq.keys)
			}
			if mp {
				fix := func(m *c17KV) {
					for j, k := range m.keys {
						if k != "" && c17HasUnsafe(k) && exoticField != "empty" && len(pairs) == 0 && r.Intn(3) == 0 {
							exoticField = "ctl"
							continue
						}
						if k == "" || c17HasUnsafe(k) {
							m.keys[j] = "mk" + strconv.Itoa(j) + strings.Map(func(c rune) rune {
								if c < 0x20 || c == 0x7f {
									return -1
								}
								return c
							}, strings.ToValidUTF8(k, ""))
						}
					}
				}
				fix(&rq)
				fix(&cl)
				// distinctness may have been lost by the renaming: keep first occurrences only
				dedup := func(m c17KV) c17KV {
					seen := map[string]bool{}
					var out c17KV
					for j, k := range m.keys {
						if !seen[c17Arrives(k)] {
							seen[c17Arrives(k)] = true
							out.keys = append(out.keys, k)
							out.vals = append(out.vals, m.vals[j])
						}
					}
					return out
				}
				rq, cl = dedup(rq), dedup(cl)
			}
			if len(rq.keys) > 0 {
				req.SetFormDataFromValues(rq.values())
			}
			if len(cl.keys) > 0 {
				c.SetCommonFormDataFromValues(cl.values())
			}
		}
		// this case's requests only: a request that broke off (a streamed body whose writer refused a
		// field) may be recorded by the origin after the case that sent it has moved on
		cid := "cid=" + strconv.Itoa(i)
		takeMine := func() (mine []c17Seen) {
			for _, sn := range o.take() {
				if sn.Query == cid {
					mine = append(mine, sn)
				}
			}
			return
		}
		class := ""
		setClass := func(cls string) {
			if class == "" {
				class = cls
			}
		}
		var line, impl, human string
		ok := true
		nontriv := false
		o.take()
		switch kind {
		case "form", "ordered":
			if kind == "ordered" || r.Intn(6) == 0 {
				genOrdered(5, false)
			}
			if kind == "form" || r.Intn(6) == 0 {
				genMaps(false)
			}
			if len(pairs) == 0 && len(rq.keys) == 0 && len(cl.keys) == 0 {
				rq = c17KV{keys: []string{"only"}, vals: [][]string{{"1"}}}
				req.SetFormDataFromValues(rq.values())
			}
			if len(pairs) > 0 && (len(rq.keys) > 0 || len(cl.keys) > 0) {
				setClass("c17-plain-and-ordered")
			}
			req.Method = method
			resp, err := req.Send(method, o.base+"/f"+"?"+cid)
			seen := takeMine()
			line = "c17forme2e " + rq.line() + " " + cl.line() + " " + verifh.HexList(ordArgs)
			// supplied multimap: ordered pairs first, then request values, then client values
			want := map[string][]string{}
			for _, p := range pairs {
				want[p[0]] = append(want[p[0]], p[1])
			}
			for k, vs := range c17Merged(rq, cl) {
				want[k] = append(want[k], vs...)
			}
			if err != nil || resp.StatusCode != 200 || len(seen) != 1 {
				impl, ok = "err", false
			} else {
				sr := c17AsRequest(seen[0])
				perr := sr.ParseForm()
				var ks, vs []string
				for _, k := range c17SortedKeys(sr.PostForm) {
					for _, v := range sr.PostForm[k] {
						ks = append(ks, k)
						vs = append(vs, v)
					}
				}
				st := "ok"
				if perr != nil {
					st = "err"
				}
				impl = verifh.HexList(ks) + " " + verifh.HexList(vs) + " " + st
				ok = perr == nil && c17SameMultimap(map[string][]string(sr.PostForm), want) &&
					seen[0].Header.Get("Content-Type") == "application/x-www-form-urlencoded" && seen[0].Method == method
				if len(pairs) > 0 && len(rq.keys) == 0 && len(cl.keys) == 0 {
					ok = ok && c17OrderedOracle(string(seen[0].Body), pairs)
				}
				nontriv = len(ks) >= 2
			}
			human = fmt.Sprintf("%s %s form req=%q client=%q ordered=%q -> %s", proto, method, rq.values(), cl.values(), ordArgs, c17Trunc(impl, 200))
			s.Count(kind)
		case "multipart":
			b := verifh.Pick(r, boundaries)
			if b != "" {
				bb := b
				c.SetMultipartBoundaryFunc(func() string { return bb })
				s.Count("custom-boundary")
			} else {
				s.Count("default-boundary")
			}
			switch r.Intn(4) {
			case 0:
				genOrdered(4, true)
			case 1:
				genMaps(true)
			case 2:
				genOrdered(3, true)
				if r.Intn(3) == 0 {
					genMaps(true)
				}
			}
			if len(pairs) > 0 && (len(rq.keys) > 0 || len(cl.keys) > 0) {
				setClass("c17-plain-and-ordered")
			}
			if len(cl.keys) > 0 {
				setClass("c17-client-form-multipart")
			}
			switch exoticField {
			case "ctl":
				class = "c17-field-name-ctl"
				s.Count("multipart-ctl-field-name")
			case "empty":
				class = "c17-field-name-empty"
				s.Count("multipart-empty-field-name")
			}
			nf := r.Intn(5)
			if nf == 0 {
				req.EnableForceMultipart()
				s.Count("forced-multipart-no-file")
			}
			var files []c17File
			for j := 0; j < nf; j++ {
				bd := b
				if bd == "" {
					bd = "zzzzzzzzzzzzzzzzzzzzzzzzzzzzzzzzzzzzzzzzzzzzzzzzzzzzzzzzzzzzzzzzzzzzzz" // random default boundary: 60 hex digits, cannot match
				}
				f := c17GenFile(r, req, dir, i*10+j, r.Intn(5) == 0, bd, class != "")
				files = append(files, f)
				differs := c17QuoteDiffers(f.param) || c17QuoteDiffers(f.name)
				for _, e := range f.extras {
					differs = differs || c17QuoteDiffers(e[1])
				}
				if differs {
					class = "c17-quote-ctl"
				}
				s.Count("file-" + f.how)
			}
			chunked := r.Intn(3) == 0
			if chunked {
				req.EnableForceChunkedEncoding()
				s.Count("forced-chunked")
			}
			resp, err := req.Send(method, o.base+"/m"+"?"+cid)
			seen := takeMine()
			// the model's field list: ordered pairs, then the merged map sorted by key
			merged := c17KV{}
			mm := c17Merged(rq, cl)
			mkeys := c17SortedKeys(mm)
			sort.SliceStable(mkeys, func(a, b int) bool { return c17Arrives(mkeys[a]) < c17Arrives(mkeys[b]) })
			for _, k := range mkeys {
				merged.keys = append(merged.keys, k)
				merged.vals = append(merged.vals, mm[k])
			}
			fields := append([][2]string(nil), pairs...)
			for j, k := range merged.keys {
				for _, v := range merged.vals[j] {
					fields = append(fields, [2]string{k, v})
				}
			}
			if exoticField == "empty" {
				// a field without a name cannot be represented: the call fails, nothing is sent
				line = "c17mpe2e " + verifh.Hex("X") + " " + c17FlatPairs(fields) + " " + c17FilesLine(files)
				// buffered: nothing is sent; streamed: the request may have started, but the origin must
				// not get a body it can read to its end
				impl, ok = "err", err != nil
				if err != nil && !chunked {
					time.Sleep(2 * time.Millisecond)
				}
				for _, sn := range seen {
					if !chunked || sn.BodyErr == nil {
						ok = false
					}
				}
				if err == nil {
					impl = "sent"
				}
			} else if err != nil || resp.StatusCode != 200 || len(seen) != 1 {
				impl, ok = "err", false
				line = "c17mpe2e " + verifh.Hex("X") + " " + c17FlatPairs(fields) + " " + c17FilesLine(files)
			} else {
				ct := seen[0].Header.Get("Content-Type")
				mt, params, perr := mime.ParseMediaType(ct)
				gotB := params["boundary"]
				line = "c17mpe2e " + verifh.Hex(gotB) + " " + c17FlatPairs(fields) + " " + c17FilesLine(files)
				items, ierr := c17ServerItems(gotB, seen[0].Body)
				if ierr != nil {
					impl = "reject"
					ok = false
				} else {
					// canonical order for the map-born fields
					nFieldItems := 0
					for _, it := range items {
						if !it.file {
							nFieldItems++
						}
					}
					c17SortFieldItems(items, len(pairs), nFieldItems)
					impl = c17ShowItems(items)
				}
				ok = ok && perr == nil && mt == "multipart/form-data" && (b == "" || gotB == b) && len(items) == len(fields)+len(files)
				if ok {
					for j, fl := range fields {
						it := items[j]
						if it.file || it.name != c17Arrives(fl[0]) || it.value != fl[1] {
							ok = false
						}
					}
					for j, f := range files {
						it := items[len(fields)+j]
						if !it.file || it.name != c17Arrives(f.param) || it.filename != c17Arrives(f.name) || it.content != string(f.content) || !it.baseNameOK {
							ok = false
						}
						if strings.TrimSpace(f.ct) != "" && it.ct != f.ct {
							ok = false
						}
					}
				}
				if ok {
					// the map-based standard entry point must agree as well
					sr := c17AsRequest(seen[0])
					if e := sr.ParseMultipartForm(1 << 20); e != nil {
						ok = false
					} else {
						nv := 0
						for _, vs := range sr.MultipartForm.Value {
							nv += len(vs)
						}
						nfh := 0
						for _, fhs := range sr.MultipartForm.File {
							for _, fh := range fhs {
								nfh++
								if fh.Filename != filepath.Base(fh.Filename) {
									ok = false
								}
							}
						}
						if nv != len(fields) || nfh != len(files) {
							ok = false
						}
						sr.MultipartForm.RemoveAll()
					}
				}
				if chunked && proto == "h1" && !(len(seen[0].TE) == 1 && seen[0].TE[0] == "chunked") {
					ok = false
				}
				nontriv = len(items) >= 2
			}
			human = fmt.Sprintf("%s %s multipart boundary=%q fields=%q files=%s chunked=%v -> %s", proto, method, b, fields, c17DescribeFiles(files), chunked, c17Trunc(impl, 160))
			s.Count("multipart")
		default: // marshal | raw | forbid
			var marshalVal interface{}
			marshalSet, rawSet := false, false
			var raw []byte
			pick := kind
			if kind == "forbid" {
				pick = verifh.Pick(r, []string{"marshal", "raw", "formbody", "files"})
			}
			switch pick {
			case "marshal":
				marshalSet = true
				switch r.Intn(3) {
				case 0:
					marshalVal = &c17Doc{Name: c17Text(r), N: r.Intn(1000), Tags: []string{c17Text(r), "t"}}
				case 1:
					marshalVal = map[string]interface{}{"k": c17Text(r), "n": r.Intn(10)}
				default:
					marshalVal = []string{c17Text(r), c17Text(r)}
				}
				req.SetBody(marshalVal)
			case "raw":
				rawSet = true
				raw = []byte(verifh.Pick(r, []string{"", `{"a":1}`, "<html><p>x</p></html>", "plain text", "\x89PNG\r\n\x1a\n0000", verifh.RandBytes(r, 700, "")}))
				req.SetBodyBytes(raw)
			case "formbody":
				rq = c17KV{keys: []string{"a"}, vals: [][]string{{"1"}}}
				req.SetFormDataFromValues(rq.values())
			case "files":
				req.SetFileBytes("f", "n.txt", []byte("data"))
			}
			resp, err := req.Send(method, o.base+"/b"+"?"+cid)
			seen := takeMine()
			js, jerr := json.Marshal(marshalVal)
			xs, xerr := xml.Marshal(marshalVal)
			sniffed := ""
			if rawSet {
				sniffed = http.DetectContentType(raw)
			}
			forbid := method == "HEAD" || method == "OPTIONS" || (method == "GET" && !allowGet)
			if kind == "forbid" && !forbid && (pick == "formbody" || pick == "files") {
				// GET with payload allowed and a form/multipart body: covered by the other kinds
				s.Count("skipped")
				c17Done(c)
				continue
			}
			var noFiles []c17File
			line = strings.Join([]string{"c17wire", verifh.Hex(method), c17Bit(allowGet), "0", cl.line(), rq.line(), "-", verifh.Hex("B"),
				c17FilesLine(noFiles), c17Bit(marshalSet), c17OptHex(js, jerr != nil), c17OptHex(xs, xerr != nil),
				c17OptHex(raw, !rawSet), verifh.Hex(reqCT), verifh.Hex(clientCT), verifh.Hex(sniffed)}, " ")
			if forbid {
				// the model is asked about the same request; whatever body description it has, nothing goes out
				line = strings.Join([]string{"c17wire", verifh.Hex(method), c17Bit(allowGet), c17Bit(pick == "files"), cl.line(), rq.line(), "-", verifh.Hex("B"),
					c17FilesLine(noFiles), c17Bit(marshalSet), c17OptHex(js, jerr != nil), c17OptHex(xs, xerr != nil),
					c17OptHex(raw, !rawSet), verifh.Hex(reqCT), verifh.Hex(clientCT), verifh.Hex(sniffed)}, " ")
			}
			effCT := reqCT
			if effCT == "" {
				effCT = clientCT
			}
			isXML := strings.Contains(strings.ToLower(effCT), "xml")
			if marshalSet && !forbid && c17XMLOnlyByCase(reqCT, clientCT) {
				class = "c17-xml-type-case"
			}
			marshalFails := marshalSet && !forbid && ((isXML && xerr != nil) || (!isXML && jerr != nil))
			if marshalFails {
				// the marshaller refuses the value: the call must fail and nothing may be sent
				impl, ok = "err", err != nil && len(seen) == 0
				s.Count("marshal-refused")
			} else if err != nil || resp.StatusCode != 200 || len(seen) != 1 {
				impl, ok = "err", false
			} else {
				got := seen[0]
				gct := got.Header.Get("Content-Type")
				if len(got.Body) == 0 {
					impl = "nil " + verifh.Hex(gct)
				} else {
					impl = verifh.Hex(string(got.Body)) + " " + verifh.Hex(gct)
				}
				eff := reqCT
				if eff == "" {
					eff = clientCT
				}
				switch {
				case forbid:
					s.Count("forbidden-" + method)
					ok = len(got.Body) == 0 && got.CL <= 0 && len(got.TE) == 0 && got.Method == method
				case marshalSet && strings.Contains(strings.ToLower(eff), "xml"):
					s.Count("marshal-xml")
					ok = xerr == nil && bytes.Equal(got.Body, xs) && gct == eff
					if d, isDoc := marshalVal.(*c17Doc); ok && isDoc {
						var back c17Doc
						ok = xml.Unmarshal(got.Body, &back) == nil && back.Name == d.Name && back.N == d.N && reflect.DeepEqual(back.Tags, d.Tags)
					}
				case marshalSet:
					s.Count("marshal-json")
					var back interface{}
					ok = json.Unmarshal(got.Body, &back) == nil && bytes.Equal(got.Body, js)
					if eff == "" {
						ok = ok && gct == "application/json; charset=utf-8"
					} else {
						ok = ok && gct == eff
					}
					if d, isDoc := marshalVal.(*c17Doc); ok && isDoc {
						var bd c17Doc
						ok = json.Unmarshal(got.Body, &bd) == nil && bd.Name == d.Name && bd.N == d.N && reflect.DeepEqual(bd.Tags, d.Tags)
					}
				case rawSet:
					s.Count("raw")
					ok = bytes.Equal(got.Body, raw)
					if eff == "" {
						ok = ok && gct == sniffed
					} else {
						ok = ok && gct == eff
					}
				}
				nontriv = len(got.Body) > 0
			}
			human = fmt.Sprintf("%s %s allowGet=%v %s marshal=%v(%T) raw=%q reqCT=%q clientCT=%q -> %s", proto, method, allowGet, pick, marshalSet, marshalVal, c17Trunc(string(raw), 40), reqCT, clientCT, c17Trunc(impl, 200))
		}
		s.Case(line, impl, ok, class, nontriv, human)
		c17Done(c)
	}
	s.Finish()
}
