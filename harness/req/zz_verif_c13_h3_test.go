//go:build verif

package req

import (
	"bufio"
	"bytes"
	"context"
	"crypto/ecdsa"
	"crypto/elliptic"
	"crypto/rand"
	"crypto/tls"
	"crypto/x509"
	"crypto/x509/pkix"
	"fmt"
	"io"
	"math/big"
	"net"
	"testing"
	"time"

	"github.com/imroc/req/v3/internal/verifh"
	"github.com/quic-go/qpack"
	"github.com/quic-go/quic-go"
	"github.com/quic-go/quic-go/quicvarint"
)

// ================================================================= HTTP/3 frame peer on raw QUIC

func c13SelfSigned(t testing.TB) tls.Certificate {
	key, err := ecdsa.GenerateKey(elliptic.P256(), rand.Reader)
	if err != nil {
		t.Fatal(err)
	}
	tmpl := &x509.Certificate{
		SerialNumber: big.NewInt(13), Subject: pkix.Name{CommonName: "c13"},
		NotBefore: time.Now().Add(-time.Hour), NotAfter: time.Now().Add(24 * time.Hour),
		KeyUsage: x509.KeyUsageDigitalSignature, ExtKeyUsage: []x509.ExtKeyUsage{x509.ExtKeyUsageServerAuth},
		IPAddresses: []net.IP{net.ParseIP("127.0.0.1")}, DNSNames: []string{"localhost"},
	}
	der, err := x509.CreateCertificate(rand.Reader, tmpl, tmpl, &key.PublicKey, key)
	if err != nil {
		t.Fatal(err)
	}
	return tls.Certificate{Certificate: [][]byte{der}, PrivateKey: key}
}

type c13H3Peer struct {
	c13GScripts
	ln *quic.Listener
}

func c13NewH3Peer(t testing.TB) *c13H3Peer {
	tlsConf := &tls.Config{Certificates: []tls.Certificate{c13SelfSigned(t)}, NextProtos: []string{"h3"}}
	ln, err := quic.ListenAddr("127.0.0.1:0", tlsConf, &quic.Config{MaxIncomingStreams: 1000, MaxIncomingUniStreams: 1000})
	if err != nil {
		t.Fatalf("quic listen: %v", err)
	}
	p := &c13H3Peer{ln: ln}
	go func() {
		for {
			conn, err := ln.Accept(context.Background())
			if err != nil {
				return
			}
			go p.serveConn(conn)
		}
	}()
	return p
}

func (p *c13H3Peer) close() { p.ln.Close() }

func (p *c13H3Peer) serveConn(conn quic.Connection) {
	// our control stream: type 0x00, then an empty SETTINGS frame (type 0x04, length 0)
	if ctrl, err := conn.OpenUniStream(); err == nil {
		ctrl.Write([]byte{0x00, 0x04, 0x00})
	}
	go func() { // the client's control / QPACK streams: drain
		for {
			us, err := conn.AcceptUniStream(context.Background())
			if err != nil {
				return
			}
			go io.Copy(io.Discard, us)
		}
	}()
	for {
		str, err := conn.AcceptStream(context.Background())
		if err != nil {
			return
		}
		go p.serveStream(str)
	}
}

func c13H3Frame(typ uint64, payload []byte) []byte {
	b := quicvarint.Append(nil, typ)
	b = quicvarint.Append(b, uint64(len(payload)))
	return append(b, payload...)
}

func c13QpackBlock(block []c13Field) []byte {
	var buf bytes.Buffer
	enc := qpack.NewEncoder(&buf)
	for _, f := range block {
		enc.WriteField(qpack.HeaderField{Name: f.name, Value: f.value})
	}
	return buf.Bytes()
}

func (p *c13H3Peer) serveStream(str quic.Stream) {
	br := bufio.NewReader(str)
	var att c13GAttempt
	gotHeaders := false
	for {
		typ, err := quicvarint.Read(br)
		if err != nil {
			break // FIN: request complete
		}
		n, err := quicvarint.Read(br)
		if err != nil {
			return
		}
		payload := make([]byte, n)
		if _, err := io.ReadFull(br, payload); err != nil {
			return
		}
		switch typ {
		case 0x1: // HEADERS
			if !gotHeaders {
				gotHeaders = true
				hfs, err := qpack.NewDecoder(nil).DecodeFull(payload)
				if err != nil {
					return
				}
				for _, hf := range hfs {
					att.fields = append(att.fields, c13Field{hf.Name, hf.Value})
				}
				att.live = p.liveFor(att.fields)
			}
		case 0x0: // DATA
			att.payload += string(payload)
			if att.live != nil {
				att.live.gotUpload(len(payload))
			}
		}
	}
	if !gotHeaders {
		return
	}
	resp, _ := p.record(att)
	var out []byte
	for _, blk := range resp.interim {
		out = append(out, c13H3Frame(0x1, c13QpackBlock(blk))...)
	}
	out = append(out, c13H3Frame(0x1, c13QpackBlock(resp.fields))...)
	if att.live != nil {
		// interactive download: one DATA frame per piece, the next only after the caller read the previous
		str.Write(out)
		for j, piece := range att.live.down {
			str.Write(c13H3Frame(0x0, []byte(piece)))
			att.live.waitRead(j)
		}
		str.Close()
		return
	}
	data := resp.wire
	n := resp.pieces
	if n < 1 {
		n = 1
	}
	per := len(data)/n + 1
	for len(data) > 0 {
		k := per
		if k > len(data) {
			k = len(data)
		}
		out = append(out, c13H3Frame(0x0, []byte(data[:k]))...)
		data = data[k:]
	}
	if len(resp.trailers) > 0 {
		out = append(out, c13H3Frame(0x1, c13QpackBlock(resp.trailers))...)
	}
	str.Write(out)
	str.Close()
}

func c13H3Client(t testing.TB) *Client {
	cl := C().EnableForceHTTP3().EnableInsecureSkipVerify()
	if cl.t3 == nil {
		t.Fatalf("HTTP/3 not available on this toolchain")
	}
	// also set the round tripper's own field, for trees where it shadows the client's TLS config
	cl.t3.TLSClientConfig = &tls.Config{InsecureSkipVerify: true, NextProtos: []string{"h3"}}
	return cl
}

// TestVerif_C13_e2eh3: paired runs over HTTP/3 against a frame-level peer on raw quic-go
// (QPACK via github.com/quic-go/qpack), loopback UDP.
func TestVerif_C13_e2eh3(t *testing.T) {
	s := verifh.New(t, "C13", "e2eh3",
		"HTTP/3 paired runs (dump off / on, fresh client and QUIC connection each) against a frame-script peer on raw quic-go streams that records the QPACK-decoded request field section in wire order and the DATA payload; flows, bodies, response features and dump configurations as in e2eh2 (no CONTINUATION; trailers are sent but the HTTP/3 stack does not dump them); oracle as in e2eh2; non-trivial = every pair")
	r := s.Rand()
	cnt := c13Counter{}
	peer := c13NewH3Peer(t)
	defer peer.close()
	mk := func() *Client { return c13H3Client(t) }
	base := "https://" + peer.ln.Addr().String()
	flows := []string{"single", "single", "single", "retry", "redirect", "single", "head"}
	features := []string{"", "", "", "1xx", "long", "many", "trailer", "empty-value"}
	n := verifh.N(100, 2500)
	reqAsync := verifh.N(2, 40)
	flatSeq, fileBudget := 0, verifh.N(6, 80)
	var pend []*c13Pending
	for c := 0; c < n; c++ {
		flow := flows[c%len(flows)]
		feature := verifh.Pick(r, features)
		sc := c13GenGScenario(s, flow, feature, 100000)
		budget := &reqAsync
		if sc.body != "" {
			budget = new(int) // a pair belongs to one finding only: no request-level async where the HTTP/3 body dump is involved
		}
		cfg, level, subset := c13GenCfg(s, c, budget, sc)
		c13GFlat(t, s, cnt, c, &flatSeq, &fileBudget, &cfg, sc)
		timeout := 5 * time.Second
		margin := 3 * time.Second
		if cfg.rq != nil && cfg.rq.async {
			timeout, margin = 900*time.Millisecond, 800*time.Millisecond
		}
		// HTTP/3 known finding (fixes/C13-5): sendRequestBody hands the body to EVERY dumper's
		// request-body writer directly (no RequestBody() filter, not through the dumper's queue).
		if sc.body != "" && sc.class == "" {
			sc.class = "h3-request-body-dump"
		}
		viaSet := r.Intn(2) == 0
		off, _ := c13GuardG(timeout+margin, func() c13GRunOut { return c13RunG(&peer.c13GScripts, mk, base, sc, nil, false, timeout, cfg.clone) })
		on, hung := c13GuardG(timeout+margin, func() c13GRunOut { return c13RunG(&peer.c13GScripts, mk, base, sc, &cfg, viaSet, timeout, cfg.clone) })
		p := c13GPending(fmt.Sprintf("h3 #%d %s %s %s", c, sc.name, cfg.String(), sc.method),
			fmt.Sprintf("%s %s body=%dB via %q; %s; result %s", sc.method, sc.name, len(sc.body), sc.bodyVia, cfg.String(), c13Clip(off.res.String(), 160)),
			sc, cfg, off, on, false)
		if hung {
			p.why = append(p.why, "the call with dump on never returned")
		}
		cnt.add(s, "flow="+flow)
		cnt.add(s, "feature="+feature)
		cnt.add(s, "level="+level)
		cnt.add(s, fmt.Sprintf("subset=%d", subset))
		if off.res.err == "-" && off.res.proto == "HTTP/3.0" {
			cnt.add(s, "baseline-ok-h3")
		} else {
			cnt.add(s, "baseline-error")
			p.why = append(p.why, "harness: baseline run failed: "+off.res.String())
		}
		if sc.body != "" {
			cnt.add(s, "req-body-via-"+sc.bodyVia)
		}
		pend = append(pend, p)
		if len(pend) >= 200 { // judge in batches: the recorded dumps are large
			c13Finish(t, s, pend)
			pend = nil
		}
	}
	c13Finish(t, s, pend)
	for _, must := range []string{"flow=retry", "flow=redirect", "feature=long", "feature=many", "feature=1xx", "level=both", "req-body-via-reader", "req-body-via-multipart", "flow=head", "baseline-ok-h3", "via-each-request", "via-dump-all-to-file", "via-dump-to-file"} {
		if cnt[must] == 0 {
			t.Errorf("generator never reached bucket %q", must)
		}
	}
	s.Finish()
}
