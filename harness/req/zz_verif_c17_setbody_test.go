//go:build verif

package req

import (
	"bytes"
	"encoding/json"
	"encoding/xml"
	"errors"
	"fmt"
	"io"
	"net/url"
	"strings"
	"testing"
	"time"

	"github.com/imroc/req/v3/internal/verifh"
)

type c17NamedBytes []byte
type c17NamedString string
type c17NamedInt int

// c17BodyArg is one value for Request.SetBody with the class the LANE assigns to it by
// construction (independently of the code's type switch) and what must arrive.
type c17BodyArg struct {
	class string // nil readcloser reader bytes string func composite scalar
	desc  string
	make  func() interface{}
	raw   []byte // class bytes/string/scalar: the exact bytes; stream/func: what the reader yields
}

const c17ProviderMark = "from a body provider"

func c17BodyArgs() []c17BodyArg {
	rd := func(s string) func() interface{} { return func() interface{} { return strings.NewReader(s) } }
	return []c17BodyArg{
		{"nil", "untyped nil", func() interface{} { return nil }, nil},
		{"composite", "typed nil pointer", func() interface{} { return (*c17Doc)(nil) }, nil},
		{"composite", "pointer to struct", func() interface{} { return &c17Doc{Name: "p", N: 1, Tags: []string{"x"}} }, nil},
		{"composite", "struct", func() interface{} { return c17Doc{Name: "s<&>", N: -2} }, nil},
		{"composite", "empty struct", func() interface{} { return struct{}{} }, nil},
		{"composite", "map", func() interface{} { return map[string]interface{}{"k": "v", "n": 3} }, nil},
		{"composite", "url.Values (a map: marshalled, not form-encoded)", func() interface{} { return url.Values{"a": {"1", "2"}, "b c": {"&"}} }, nil},
		{"composite", "slice of strings", func() interface{} { return []string{"a", "b"} }, nil},
		{"composite", "empty slice", func() interface{} { return []int{} }, nil},
		{"composite", "nil slice of ints", func() interface{} { return []int(nil) }, nil},
		{"composite", "array", func() interface{} { return [2]int{7, 8} }, nil},
		{"composite", "named byte slice", func() interface{} { return c17NamedBytes("named bytes") }, nil},
		{"composite", "json.RawMessage", func() interface{} { return json.RawMessage(`{"raw":true}`) }, nil},
		{"composite", "error value (a pointer)", func() interface{} { return errors.New("e") }, nil},
		{"bytes", "[]byte", func() interface{} { return []byte("raw \x00 bytes") }, []byte("raw \x00 bytes")},
		{"bytes", "empty []byte", func() interface{} { return []byte{} }, []byte{}},
		{"bytes", "nil []byte", func() interface{} { return []byte(nil) }, []byte{}},
		{"string", "string", func() interface{} { return "a string ü" }, []byte("a string ü")},
		{"string", "JSON-looking string", func() interface{} { return `{"not":"marshalled"}` }, []byte(`{"not":"marshalled"}`)},
		{"string", "empty string", func() interface{} { return "" }, []byte{}},
		{"scalar", "named string", func() interface{} { return c17NamedString("named") }, []byte("named")},
		{"scalar", "int", func() interface{} { return 42 }, []byte("42")},
		{"scalar", "named int", func() interface{} { return c17NamedInt(-9) }, []byte("-9")},
		{"scalar", "int64", func() interface{} { return int64(-7) }, []byte("-7")},
		{"scalar", "float", func() interface{} { return 3.5 }, []byte("3.5")},
		{"scalar", "bool", func() interface{} { return true }, []byte("true")},
		{"scalar", "rune", func() interface{} { return 'x' }, []byte("120")},
		{"scalar", "time.Duration (Stringer)", func() interface{} { return 5 * time.Second }, []byte("5s")},
		{"reader", "strings.Reader", rd("stream of bytes"), []byte("stream of bytes")},
		{"reader", "bytes.Buffer", func() interface{} { return bytes.NewBufferString("buffered") }, []byte("buffered")},
		{"readcloser", "io.NopCloser", func() interface{} { return io.NopCloser(strings.NewReader("closing stream")) }, []byte("closing stream")},
		{"func", "func() (io.ReadCloser, error)", func() interface{} {
			return func() (io.ReadCloser, error) { return io.NopCloser(strings.NewReader(c17ProviderMark)), nil }
		}, []byte(c17ProviderMark)},
		{"func", "GetContentFunc", func() interface{} {
			return GetContentFunc(func() (io.ReadCloser, error) { return io.NopCloser(strings.NewReader(c17ProviderMark)), nil })
		}, []byte(c17ProviderMark)},
	}
}

// TestVerif_C17_setbody: Request.SetBody(value) for every class of value — which slot it fills
// (vs the model Req.Client.SetBody) and what arrives at an origin.
func TestVerif_C17_setbody(t *testing.T) {
	s := verifh.New(t, "C17", "setbody",
		"Request.SetBody with values of every class: untyped nil, typed nil pointer, pointer / struct / map / url.Values / slices / array / named byte slice / json.RawMessage (marshalled), []byte and string (exact types: raw), named string / numbers / bool / rune / Stringer (fmt.Sprint), io.Reader, io.ReadCloser, body provider functions; unit: the slot the real SetBody fills (marshalBody, Body, GetBody, stream) vs the model; end to end (HTTP/1.1, HTTP/2, HTTP/3; Content-Type unset / JSON / an XML type in upper case): the origin receives the JSON (or XML) marshalling of the value under a matching Content-Type, the exact bytes, or nothing; non-trivial = a body arrived")
	r := s.Rand()
	args := c17BodyArgs()
	origins := map[string]*c17Origin{"h1": c17NewOrigin("h1"), "h2": c17NewOrigin("h2"), "h3": c17NewOrigin("h3")}
	defer origins["h1"].stop()
	defer origins["h2"].stop()
	defer origins["h3"].stop()
	n := verifh.N(len(args)*2, len(args)*40)
	for i := 0; i < n; i++ {
		a := args[i%len(args)]
		// ---- unit: the slot
		c0 := C()
		rq := c0.R()
		if txt, bad := verifh.Safely(func() { rq.SetBody(a.make()) }); bad {
			s.Crash("setbody "+a.desc, a.desc, txt, "")
			continue
		}
		// the slot is read off BEHAVIOUR (exported fields and the body middleware), not off the
		// unexported fields: a marshalled value comes out of parseRequestBody as bytes under the
		// JSON content type; a stream is a GetBody that hands out the same, drained reader again
		slot := "unchanged"
		failed, body, bct := c17RunBodyMiddleware(c0, rq)
		switch {
		case failed:
			slot = "err"
		case body != nil && bct == "application/json; charset=utf-8":
			slot = "marshal"
		case body != nil:
			slot = "raw " + verifh.Hex(string(body))
		case rq.GetBody != nil:
			rc1, _ := rq.GetBody()
			b1, _ := io.ReadAll(rc1)
			rc2, _ := rq.GetBody()
			b2, _ := io.ReadAll(rc2)
			switch {
			case len(b1) > 0 && len(b2) == 0:
				slot = "stream"
			case string(b1) == c17ProviderMark:
				slot = "provider"
			default:
				slot = "raw " + verifh.Hex(string(b1))
			}
		}
		arg := "_"
		if a.class == "bytes" || a.class == "string" || a.class == "scalar" {
			arg = verifh.Hex(string(a.raw))
		}
		s.Count("class:" + a.class)
		// ---- end to end
		proto := []string{"h1", "h2", "h3"}[(i/len(args)+i)%3]
		o := origins[proto]
		c := c17Client(proto)
		ct := verifh.Pick(r, []string{"", "", "application/json", "Application/XML"})
		req := c.R()
		if ct != "" {
			req.SetContentType(ct)
		}
		req.SetBody(a.make())
		o.take()
		resp, err := req.Post(o.base + "/sb")
		seen := o.take()
		ok := err == nil && resp != nil && resp.StatusCode == 200 && len(seen) == 1
		detail := ""
		class := ""
		if !ok {
			detail = fmt.Sprintf("err=%v requests=%d", err, len(seen))
			if a.class == "composite" && strings.Contains(strings.ToLower(ct), "xml") {
				// encoding/xml refuses maps, nil pointers marshal to nothing…: a marshal error must fail the call
				if _, xerr := c17XMLMarshal(a.make()); xerr != nil && err != nil && len(seen) == 0 {
					ok, detail = true, "xml marshaller refuses the value: the call failed, nothing sent"
				}
			}
		} else {
			got := seen[0]
			gct := got.Header.Get("Content-Type")
			switch a.class {
			case "nil":
				ok = len(got.Body) == 0
			case "composite":
				if strings.Contains(strings.ToLower(ct), "xml") {
					if !strings.Contains(ct, "xml") {
						class = "c17-xml-type-case"
					}
					want, xerr := c17XMLMarshal(a.make())
					ok = xerr == nil && bytes.Equal(got.Body, want) && gct == ct
				} else {
					want, jerr := json.Marshal(a.make())
					ok = jerr == nil && bytes.Equal(got.Body, want)
					if ct == "" {
						ok = ok && gct == "application/json; charset=utf-8"
					} else {
						ok = ok && gct == ct
					}
				}
			default:
				ok = bytes.Equal(got.Body, a.raw)
				if ct != "" {
					ok = ok && gct == ct
				}
			}
			if !ok {
				detail = fmt.Sprintf("arrived %q under %q", c17Trunc(string(got.Body), 80), gct)
			}
			if len(got.Body) > 0 {
				s.Count("body-arrived")
			}
		}
		s.Case("c17setbody "+a.class+" "+arg, slot, ok, class, ok && len(seen) == 1 && len(seen[0].Body) > 0,
			fmt.Sprintf("SetBody(%s) content-type=%q %s -> slot %s; %s", a.desc, ct, proto, c17Trunc(slot, 60), detail))
		c17Done(c)
	}
	s.Finish()
}

func c17XMLMarshal(v interface{}) (b []byte, err error) {
	defer func() {
		if p := recover(); p != nil {
			err = fmt.Errorf("xml.Marshal panicked: %v", p)
		}
	}()
	return xml.Marshal(v)
}
