//go:build verif

package req

import (
	"bufio"
	"bytes"
	"fmt"
	"io"
	"net"
	"net/http"
	"os"
	"path/filepath"
	"strconv"
	"strings"
	"sync"
	"testing"
	"time"

	"github.com/imroc/req/v3/internal/verifh"
)

// ---------------------------------------------------------------------------------------
// C02 end-to-end lanes, shared part: response specs, read modes, the caller's canonical view.
// ---------------------------------------------------------------------------------------

type c02Interim struct {
	status int
	fields []c02Field
}

// c02Spec is what the scripted origin produces.
type c02Spec struct {
	head     bool
	interim  []c02Interim
	status   int
	fields   []c02Field // X-… fields and possibly Content-Type, names as the origin writes them
	body     string
	trailers []c02Field
	declared bool     // body length declared (Content-Length)
	writes   []string // how the origin cuts the body (chunks / DATA frames / Write calls)
}

func (sp *c02Spec) bodyAllowed() bool {
	return !sp.head && sp.status != 204 && sp.status != 304
}

// c02ExpectedView: what the caller must see, derived from the spec alone (the lane's oracle).
func (sp *c02Spec) expectedView(trailersSupported bool) string {
	h := http.Header{}
	for _, f := range sp.fields {
		h.Add(f.k, strings.Trim(f.v, " \t"))
	}
	tr := http.Header{}
	body := ""
	if sp.bodyAllowed() {
		body = sp.body
		if trailersSupported {
			for _, f := range sp.trailers {
				tr.Add(f.k, strings.Trim(f.v, " \t"))
			}
		}
	}
	return c02ViewString(sp.status, h, tr, []byte(body), "ok")
}

func c02KeepField(k string) bool {
	return strings.HasPrefix(k, "X-") || k == "Content-Type" || k == "Cache-Control" || k == "Pragma"
}

func c02ViewString(status int, h, tr http.Header, body []byte, end string) string {
	return "status=" + strconv.Itoa(status) + " hdr=" + c02CanonHeader(h, c02KeepField) +
		" trailer=" + c02CanonHeader(tr, nil) + " body=" + verifh.Hex(string(body)) + " end=" + end
}

var c02E2ELens = []int{0, 1, 2, 100, 4095, 4096, 4097, 16383, 16384, 16385, 65535, 65536, 65537}

var c02FinalStatuses = []int{200, 200, 200, 200, 201, 202, 203, 206, 226, 300, 400, 403, 404, 418, 500, 503, 599, 204, 304, 205}

func c02GenFields(s *verifh.Session, lower bool) []c02Field {
	r := s.Rand()
	var out []c02Field
	names := []string{"X-A", "X-B", "X-Request-Id", "x-lower", "X-UPPER", "X-Mixed-cASE", "X-A", "X-0", "X-A-B-C", "X-Set"}
	for i := r.Intn(6); i > 0; i-- {
		k := verifh.Pick(r, names)
		if lower {
			k = strings.ToLower(k)
		}
		v := verifh.RandBytes(r, r.Intn(20), "abcdefXYZ0189 -_=;,/:\"()<>@?")
		v = strings.Trim(v, " ")
		if r.Intn(12) == 0 {
			v = verifh.RandBytes(r, 300+r.Intn(3000), "abcdef0123456789")
		}
		out = append(out, c02Field{k, v})
	}
	switch r.Intn(5) {
	case 0:
		out = append(out, c02Field{c02Case(lower, "Content-Type"), "application/octet-stream"})
	case 1:
		out = append(out, c02Field{c02Case(lower, "Content-Type"), "text/plain; charset=utf-8"})
	case 2:
		out = append(out, c02Field{c02Case(lower, "Content-Type"), "image/png"})
	}
	return out
}

func c02Case(lower bool, k string) string {
	if lower {
		return strings.ToLower(k)
	}
	return k
}

func c02GenSpec(s *verifh.Session, lower bool, allowHuge bool) *c02Spec {
	r := s.Rand()
	sp := &c02Spec{}
	sp.head = r.Intn(8) == 0
	sp.status = verifh.Pick(r, c02FinalStatuses)
	for i := 0; i < 3 && r.Intn(4) == 0; i++ {
		sp.interim = append(sp.interim, c02Interim{verifh.Pick(r, []int{100, 102, 103, 103}), []c02Field{{c02Case(lower, "X-Early"), strconv.Itoa(i)}, {c02Case(lower, "X-A"), "interim"}}})
	}
	sp.fields = c02GenFields(s, lower)
	n := verifh.Pick(r, c02E2ELens)
	if r.Intn(3) == 0 {
		n = r.Intn(5000)
	}
	if allowHuge && r.Intn(40) == 0 {
		n = 1<<20 + r.Intn(3) - 1
	}
	if r.Intn(10) == 0 {
		n = 0
	}
	alpha := ""
	if r.Intn(4) == 0 {
		alpha = "\r\n0123abcdef;: HTP/."
	}
	sp.body = verifh.RandBytes(r, n, alpha)
	sp.declared = r.Intn(2) == 0
	sp.trailers = nil
	if !sp.declared && r.Intn(2) == 0 {
		for i := 1 + r.Intn(3); i > 0; i-- {
			k := c02Case(lower, verifh.Pick(r, []string{"X-T", "X-Trail-Sum", "X-T2-A", "Grpc-Status"}))
			sp.trailers = append(sp.trailers, c02Field{k, strings.Trim(verifh.RandBytes(r, r.Intn(12), "abcXYZ019 -_=;,/"), " ")})
		}
	}
	// how the origin cuts the body
	body := sp.body
	style := r.Intn(5)
	for len(body) > 0 {
		var k int
		switch style {
		case 0:
			k = len(body)
		case 1:
			k = 1 + r.Intn(7)
			if len(sp.body) > 20000 {
				k = 1 + r.Intn(3000)
			}
		case 2:
			k = verifh.Pick(r, []int{1, 255, 256, 4095, 4096, 4097, 16383, 16384, 16385})
		case 3:
			k = 1 + r.Intn(20000)
		default:
			k = 16384
		}
		if k > len(body) {
			k = len(body)
		}
		sp.writes = append(sp.writes, body[:k])
		body = body[k:]
	}
	return sp
}

// c02Mode: how the caller obtains the body.
type c02Mode struct {
	name string
	k    int // read size for streaming
}

func c02GenMode(s *verifh.Session) c02Mode {
	r := s.Rand()
	switch r.Intn(9) {
	case 0, 1:
		return c02Mode{"auto", 0}
	case 2, 3, 4:
		return c02Mode{"stream", verifh.Pick(r, []int{1, 7, 512, 4096, 65536})}
	case 5:
		return c02Mode{"output", 0}
	case 6:
		return c02Mode{"file", 0}
	case 7:
		return c02Mode{"cdis-tobytes", 0}
	default:
		return c02Mode{"reread", verifh.Pick(r, []int{1, 7, 512, 4096, 65536})}
	}
}

// c02Fetch runs one request in the given mode and renders the caller's view. A call that does
// not come back within 25 s (the client timeout is 10 s) is reported as stalled: the
// implementation is spinning or blocked where no timeout reaches it.
func c02Fetch(cl *Client, sp *c02Spec, mode c02Mode, url string, dir string, id int) (view string, extraOK bool) {
	return c02FetchWith(cl, sp, mode, url, dir, id, nil)
}

// c02FetchWith: c02Fetch with a hook that configures the request (request-level options).
func c02FetchWith(cl *Client, sp *c02Spec, mode c02Mode, url string, dir string, id int, hook func(*Request)) (view string, extraOK bool) {
	type res struct {
		view string
		ok   bool
		pan  interface{}
	}
	ch := make(chan res, 1)
	go func() {
		defer func() {
			if r := recover(); r != nil {
				ch <- res{pan: r}
			}
		}()
		v, ok := c02FetchInner(cl, sp, mode, url, dir, id, hook)
		ch <- res{view: v, ok: ok}
	}()
	select {
	case r := <-ch:
		if r.pan != nil {
			panic(r.pan)
		}
		return r.view, r.ok
	case <-time.After(25 * time.Second):
		return "error:stalled (no return within 25s)", false
	}
}

func c02FetchInner(cl *Client, sp *c02Spec, mode c02Mode, url string, dir string, id int, hook func(*Request)) (view string, extraOK bool) {
	extraOK = true
	rq := cl.R()
	if hook != nil {
		hook(rq)
	}
	var w *c02Writer
	var fpath string
	switch mode.name {
	case "stream":
		rq.DisableAutoReadResponse()
	case "output":
		w = &c02Writer{}
		rq.SetOutput(w)
	case "file":
		fpath = filepath.Join(dir, "dl"+strconv.Itoa(id))
		rq.SetOutputFile(fpath)
	case "cdis-tobytes":
		rq.DisableAutoReadResponse()
	}
	var resp *Response
	var err error
	if sp.head {
		resp, err = rq.Head(url)
	} else {
		resp, err = rq.Get(url)
	}
	if err != nil {
		return "error:" + err.Error(), true
	}
	if resp.Response == nil {
		return "error:nil-response", true
	}
	var body []byte
	end := "ok"
	switch mode.name {
	case "auto":
		body = resp.Bytes()
		if s := resp.String(); s != string(body) {
			extraOK = false
		}
		if b2, e := resp.ToBytes(); e != nil || !bytes.Equal(b2, body) {
			extraOK = false
		}
	case "reread": // auto-read, then read the restored Body again with small reads
		body = resp.Bytes()
		var again []byte
		p := make([]byte, mode.k)
		for {
			m, e := resp.Body.Read(p)
			again = append(again, p[:m]...)
			if e != nil {
				if e != io.EOF {
					end = c02IOErrClass(e)
				}
				break
			}
		}
		if !bytes.Equal(again, body) {
			extraOK = false
		}
	case "stream":
		if resp.Bytes() != nil {
			extraOK = false // must not have been read
		}
		if resp.Body == nil {
			return "error:nil-body", true
		}
		p := make([]byte, mode.k)
		for {
			m, e := resp.Body.Read(p)
			body = append(body, p[:m]...)
			if e != nil {
				if e != io.EOF {
					end = c02IOErrClass(e)
				}
				break
			}
		}
		resp.Body.Close()
	case "cdis-tobytes":
		b, e := resp.ToBytes()
		if e != nil {
			end = c02IOErrClass(e)
		}
		body = b
		if !bytes.Equal(resp.Bytes(), b) {
			extraOK = false
		}
	case "output":
		body = w.buf.Bytes()
	case "file":
		body, _ = os.ReadFile(fpath)
		os.Remove(fpath)
	}
	return c02ViewString(resp.StatusCode, resp.Header, resp.Trailer, body, end), extraOK
}

// c02Earlier performs, on the SAME client (hence normally the same connection) and right before
// the case under test, an exchange whose outcome is not judged: a response the caller abandons
// after the first byte, or (limit > 0) a response whose header list exceeds the limit the
// client advertised and is refused. Whatever it leaves behind in the connection must not leak
// into the next response. Returns the kind for the histogram ("" = none).
func c02Earlier(s *verifh.Session, cl *Client, put func(path string, sp *c02Spec), del func(path string), base string, id int, limit int) string {
	r := s.Rand()
	pick := r.Intn(8)
	if pick > 1 || (pick == 1 && limit == 0) {
		return ""
	}
	path := "/e" + strconv.Itoa(id)
	sp := &c02Spec{status: 200}
	kind := "abandoned"
	if pick == 1 {
		kind = "oversized-header-list"
		total, want := 0, limit+limit/6+r.Intn(limit/2)
		for j := 0; total < want; j++ {
			v := verifh.RandBytes(r, 300+r.Intn(300), "abcdef0123456789")
			sp.fields = append(sp.fields, c02Field{"X-Big-" + strconv.Itoa(j), v})
			total += len(v) + 40
		}
		sp.body = "big"
		sp.writes = []string{"big"}
	} else {
		sp.body = verifh.RandBytes(r, 20000+r.Intn(100000), "")
		sp.declared = r.Intn(2) == 0
		sp.writes = []string{sp.body}
	}
	put(path, sp)
	defer del(path)
	done := make(chan struct{})
	go func() {
		defer close(done)
		defer func() { recover() }()
		resp, err := cl.R().DisableAutoReadResponse().Get(base + path)
		if err == nil && resp.Response != nil && resp.Body != nil {
			if kind == "abandoned" {
				resp.Body.Read(make([]byte, 1))
			} else {
				io.Copy(io.Discard, resp.Body)
			}
			resp.Body.Close()
		}
	}()
	select {
	case <-done:
	case <-time.After(25 * time.Second):
	}
	return kind
}

// c02ClampFields keeps a spec's header list well below a small advertised limit.
func c02ClampFields(sp *c02Spec) {
	for i := range sp.fields {
		if len(sp.fields[i].v) > 120 {
			sp.fields[i].v = sp.fields[i].v[:120]
		}
	}
}

// ---------------------------------------------------------------------------------------
// HTTP/1.1: raw TCP peer writing a generated byte stream in a generated segmentation.
// ---------------------------------------------------------------------------------------

type c02H1Wire struct {
	segs       []string
	closeAfter bool
	pause      bool
}

type c02H1Peer struct {
	ln    net.Listener
	mu    sync.Mutex
	cases map[string]*c02H1Wire
	conns int
}

func c02NewH1Peer(t testing.TB) *c02H1Peer {
	ln, err := net.Listen("tcp", "127.0.0.1:0")
	if err != nil {
		t.Fatalf("listen: %v", err)
	}
	p := &c02H1Peer{ln: ln, cases: map[string]*c02H1Wire{}}
	go func() {
		for {
			c, err := ln.Accept()
			if err != nil {
				return
			}
			p.mu.Lock()
			p.conns++
			p.mu.Unlock()
			go p.serve(c)
		}
	}()
	return p
}

func (p *c02H1Peer) serve(c net.Conn) {
	defer c.Close()
	br := bufio.NewReader(c)
	for {
		line, err := br.ReadString('\n')
		if err != nil {
			return
		}
		parts := strings.Fields(line)
		if len(parts) < 2 {
			return
		}
		for {
			l, err := br.ReadString('\n')
			if err != nil {
				return
			}
			if l == "\r\n" {
				break
			}
		}
		p.mu.Lock()
		w := p.cases[parts[1]]
		p.mu.Unlock()
		if w == nil {
			return
		}
		for _, sg := range w.segs {
			if _, err := c.Write([]byte(sg)); err != nil {
				return
			}
			if w.pause {
				time.Sleep(150 * time.Microsecond)
			}
		}
		if w.closeAfter {
			return
		}
	}
}

func c02StatusText(code int) string {
	if t := http.StatusText(code); t != "" {
		return t
	}
	return "Status " + strconv.Itoa(code)
}

// c02H1Serialize: the origin's HTTP/1.x byte stream for the spec.
func c02H1Serialize(s *verifh.Session, sp *c02Spec) (wire string, framing string, closeAfter bool) {
	r := s.Rand()
	var sb strings.Builder
	for _, in := range sp.interim {
		sb.WriteString("HTTP/1.1 " + strconv.Itoa(in.status) + " " + c02StatusText(in.status) + "\r\n")
		for _, f := range in.fields {
			sb.WriteString(f.k + ": " + f.v + "\r\n")
		}
		sb.WriteString("\r\n")
	}
	proto := "HTTP/1.1"
	framing = "chunked"
	if sp.declared {
		framing = "len"
	} else if len(sp.trailers) == 0 && r.Intn(2) == 0 {
		framing = "close"
		if r.Intn(2) == 0 {
			proto = "HTTP/1.0"
		}
	}
	sb.WriteString(proto + " " + strconv.Itoa(sp.status) + " " + c02StatusText(sp.status) + "\r\n")
	// framing fields somewhere among the others
	var lines []string
	for _, f := range sp.fields {
		pad1, pad2 := " ", ""
		switch r.Intn(6) {
		case 0:
			pad1 = ""
		case 1:
			pad1 = "  "
			pad2 = " "
		case 2:
			pad1 = "\t"
			pad2 = "\t "
		}
		lines = append(lines, f.k+":"+pad1+f.v+pad2)
	}
	var flines []string // framing fields, inserted at random positions among the others
	switch framing {
	case "len":
		flines = append(flines, "Content-Length: "+strconv.Itoa(len(sp.body)))
		if r.Intn(4) == 0 {
			flines = append(flines, "Connection: close")
			closeAfter = true
		}
	case "chunked":
		flines = append(flines, verifh.Pick(r, []string{"Transfer-Encoding: chunked", "transfer-encoding: chunked", "Transfer-Encoding: Chunked"}))
		if len(sp.trailers) > 0 && r.Intn(2) == 0 {
			var ks []string
			for _, t := range sp.trailers {
				ks = append(ks, t.k)
			}
			flines = append(flines, "Trailer: "+strings.Join(ks, ", "))
		}
	case "close":
		if proto == "HTTP/1.1" && (r.Intn(2) == 0 || !sp.bodyAllowed()) {
			flines = append(flines, "Connection: close")
		}
		closeAfter = true
	}
	for _, fl := range flines {
		i := r.Intn(len(lines) + 1)
		lines = append(lines[:i], append([]string{fl}, lines[i:]...)...)
	}
	for _, l := range lines {
		sb.WriteString(l + "\r\n")
	}
	sb.WriteString("\r\n")
	if sp.bodyAllowed() {
		switch framing {
		case "len", "close":
			sb.WriteString(sp.body)
		case "chunked":
			sb.WriteString(c02EncodeChunked(s, sp.writes, sp.trailers, r.Intn(3) == 0))
		}
	}
	return sb.String(), framing, closeAfter
}

func c02MinInt(a, b int) int {
	if a < b {
		return a
	}
	return b
}

func TestVerif_C02_e2eh1(t *testing.T) {
	s := verifh.New(t, "C02", "e2eh1",
		"real client <-> raw TCP peer on loopback writing a generated HTTP/1.x response in a generated segmentation: 0..3 interim 1xx, final status {2xx,3xx,4xx,5xx,204,304,205}, GET/HEAD, 0..5 X- fields (repeated names, mixed case, OWS, long values) + Content-Type, framing {Content-Length, chunked (+trailers, extensions), until-close (1.0/1.1)}, body lengths {0,1,2,100,4095..4097,16383..16385,65535..65537, random <5000, 1 MiB+-1} (random or CR/LF/hex alphabet), keep-alive reuse across cases, now and then preceded on the same client by a response the caller abandons after one byte; modes {auto-read, re-read after auto-read, streaming with read sizes 1/7/512/4096/65536, SetOutput, SetOutputFile, DisableAutoReadResponse+ToBytes}; view = status, X-/Content-Type fields, trailers, body; compared with the origin's spec (oracle) and with the Lean models' readings of the same byte stream (bodies <= 70000): Req.C02.parseResponse (own head grammar) and Req.C02.h1ReceiveView (C04's byte-exact head reader Req.H1.parseFinalHead + C02 body automata over the written segmentation: the reader of h1_response_roundtrip_*); non-trivial = non-empty delivered body")
	r := s.Rand()
	peer := c02NewH1Peer(t)
	defer peer.ln.Close()
	dir := t.TempDir()
	base := "http://" + peer.ln.Addr().String()
	n := verifh.N(260, 3000)
	var cl *Client
	reqs := 0
	fails := 0
	for c := 0; c < n && fails < 8; c++ { // a broken transport fails (and may stall) every case: stop early
		if cl == nil || r.Intn(12) == 0 {
			if cl != nil {
				cl.GetTransport().CloseIdleConnections()
			}
			cl = C().SetTimeout(10 * time.Second)
			if r.Intn(3) == 0 {
				cl.GetTransport().DisableAutoDecode()
			}
		}
		if k := c02Earlier(s, cl, func(path string, esp *c02Spec) {
			ew, _, eclose := c02H1Serialize(s, esp)
			peer.mu.Lock()
			peer.cases[path] = &c02H1Wire{segs: []string{ew}, closeAfter: eclose}
			peer.mu.Unlock()
		}, func(path string) {
			peer.mu.Lock()
			delete(peer.cases, path)
			peer.mu.Unlock()
		}, base, c, 0); k != "" {
			s.Count("earlier:" + k)
		}
		sp := c02GenSpec(s, false, true)
		mode := c02GenMode(s)
		wire, framing, closeAfter := c02H1Serialize(s, sp)
		segs := c02Split(s, wire)
		if len(wire) > 200000 && len(segs) > 2000 {
			segs = []string{wire}
		}
		path := "/c" + strconv.Itoa(c)
		peer.mu.Lock()
		peer.cases[path] = &c02H1Wire{segs: segs, closeAfter: closeAfter, pause: len(segs) < 40 && r.Intn(3) == 0}
		peer.mu.Unlock()
		var view string
		extraOK := true
		// name the input being processed, should the whole process die (a panic in the
		// transport's read loop goroutine cannot be caught here)
		s.Begin(path, fmt.Sprintf("h1 %s head=%v interim=%d status=%d fields=%d body=%d trailers=%d segs=%d mode=%s/%d closeAfter=%v wire[:120]=%q", framing, sp.head, len(sp.interim), sp.status, len(sp.fields), len(sp.body), len(sp.trailers), len(segs), mode.name, mode.k, closeAfter, wire[:c02MinInt(120, len(wire))]))
		ptxt, panicked := verifh.Safely(func() {
			view, extraOK = c02Fetch(cl, sp, mode, base+path, dir, c)
		})
		reqs++
		peer.mu.Lock()
		delete(peer.cases, path)
		peer.mu.Unlock()
		human := fmt.Sprintf("h1 %s head=%v interim=%d status=%d fields=%d body=%d trailers=%d segs=%d mode=%s/%d", framing, sp.head, len(sp.interim), sp.status, len(sp.fields), len(sp.body), len(sp.trailers), len(segs), mode.name, mode.k)
		if panicked {
			s.Crash(human, human, ptxt, "")
			continue
		}
		want := sp.expectedView(true)
		ok := view == want && extraOK
		if !ok {
			fails++
		}
		s.Count("framing:" + framing)
		s.Count("mode:" + mode.name)
		if sp.head {
			s.Count("HEAD")
		}
		if len(sp.interim) > 0 {
			s.Count("interim-1xx")
		}
		if sp.status == 204 || sp.status == 304 {
			s.Count("status-204/304")
		}
		if len(sp.trailers) > 0 && framing == "chunked" && sp.bodyAllowed() {
			s.Count("trailers")
		}
		if len(sp.body) >= 1<<20-1 {
			s.Count("body>=1MiB")
		}
		nontriv := sp.bodyAllowed() && len(sp.body) > 0
		if len(wire) <= 75000 {
			hd := "0"
			if sp.head {
				hd = "1"
			}
			s.Case("c02h1msg "+hd+" eof "+verifh.Hex(wire), view, ok, "", nontriv, human)
			// the reader of theorem h1_response_roundtrip_*: C04's byte-exact head reader + the
			// C02 body automata over the segmentation the peer wrote, drained with this read size
			k := mode.k
			if k <= 0 {
				k = verifh.Pick(r, []int{1, 7, 512, 4096, 65536})
			}
			if len(wire) > 3000 && k < 512 {
				k = 4096 // keep the model's drain loop cheap on long bodies
			}
			s.Case(fmt.Sprintf("c02h1full %s eof 4096 %s %d", hd, verifh.HexList(segs), k), view, ok, "", nontriv, human+" [full]")
		} else {
			detail := view
			if len(detail) > 300 {
				detail = detail[:300] + "…"
			}
			s.Observe(human+" #"+strconv.Itoa(c), ok, "", nontriv, human, detail)
		}
	}
	cl.GetTransport().CloseIdleConnections()
	peer.mu.Lock()
	if peer.conns < reqs {
		s.Count("conn-reused")
	}
	peer.mu.Unlock()
	s.Finish()
}
