//go:build verif

package req

// C19 round-5 lanes, both MODEL-judged (driver lane `c19prog`, Scope.runScope):
//
//   - `override`: every keyed two-level setting (canonical / non-canonical headers, path, query
//     set / add / add-many, form set / add) with the SAME key at client level and at request level,
//     systematically: every Go spelling of the client-level setter x every Go spelling of the
//     request-level setter x value classes (ordinary, EMPTY string) x target (original, clone,
//     clone of clone) x order (client setter before / after R()). Observed: the request the origin
//     receives for the overriding request, for a fresh request of the same client afterwards (no
//     trace), for a fresh request of every other client (no effect), and a settings probe.
//   - `preserve`: "Clone leaves the ORIGINAL unchanged", judged behaviourally: a configured original
//     that has stored cookies from responses is observed (GetCookies, probe, a fresh request),
//     cloned one to three times (also clone of clone), observed again, the copies are changed,
//     and it is observed a third time.

import (
	"fmt"
	"math/rand"
	urlpkg "net/url"
	"strings"
	"testing"

	"github.com/imroc/req/v3/internal/verifh"
)

// c19Keyed is one keyed two-level settings family.
type c19Keyed struct {
	code     string
	keys     []int
	vals     [][]int // value classes (one value list per class; add-many uses the whole list)
	cVariant int     // number of client-level spellings
	rVariant int     // number of request-level spellings
	method   int     // method of the observing execution
	marshal  bool    // round 7: every observed request carries a value to marshal (SetBody(struct))
}

func c19KeyedFamilies() []c19Keyed {
	return []c19Keyed{
		{"hs", []int{1, 4, c19HUserAgent}, [][]int{{3}, {c19VEmpty}}, 3, 2, 0, false},
		// round 7, family ct: Content-Type KIND (XML / JSON / neither) at both levels with a value to marshal
		{"hs", []int{c19HContentType}, [][]int{{c19VCtXML}, {c19VCtJSON}, {3}}, 3, 3, 1, true},
		{"ha", []int{7, 9}, [][]int{{3}, {c19VEmpty}}, 2, 2, 0, false},
		{"ps", []int{1, 3}, [][]int{{3}}, 2, 2, 0, false},
		{"qs", []int{1, 4}, [][]int{{3}}, 2, 2, 0, false},
		{"qa", []int{1, 4}, [][]int{{3}}, 2, 2, 0, false},
		{"qm", []int{2}, [][]int{{}, {3, 5}}, 1, 1, 0, false},
		{"fs", []int{1, 4}, [][]int{{3}}, 1, 1, 1, false},
		{"fa", []int{1, 4}, [][]int{{3}}, 1, 1, 1, false},
	}
}

// keyedOp builds ONE call of family `code` on owner o with the given spelling.
func (g *c19Gen) keyedOp(o int, code string, variant, k int, vs []int) c19Op {
	isReq := g.isReq[o]
	v := 0
	if len(vs) > 0 {
		v = vs[0]
	}
	text := fmt.Sprintf("S%d:%s,%d,%d", o, code, k, v)
	var f func(c *Client, q *Request)
	switch code {
	case "hs":
		name, val := c19HeaderName(k), c19HeaderValue(v)
		f = func(c *Client, q *Request) {
			switch {
			case isReq && variant == 0:
				q.SetHeader(name, val)
			case isReq && variant == 2 && k == c19HContentType:
				q.SetContentType(val)
			case isReq:
				q.SetHeaders(map[string]string{name: val})
			case variant == 0:
				c.SetCommonHeader(name, val)
			case variant == 1:
				c.SetCommonHeaders(map[string]string{name: val})
			case k == c19HUserAgent:
				c.SetUserAgent(val)
			case k == c19HContentType:
				c.SetCommonContentType(val)
			default:
				c.SetCommonHeader(name, val)
			}
		}
	case "ha":
		name, val := c19HeaderName(k), c19HeaderValue(v)
		f = func(c *Client, q *Request) {
			switch {
			case isReq && variant == 0:
				q.SetHeaderNonCanonical(name, val)
			case isReq:
				q.SetHeadersNonCanonical(map[string]string{name: val})
			case variant == 0:
				c.SetCommonHeaderNonCanonical(name, val)
			default:
				c.SetCommonHeadersNonCanonical(map[string]string{name: val})
			}
		}
	case "ps":
		name, val := fmt.Sprintf("p%d", k), fmt.Sprintf("y%d", v)
		f = func(c *Client, q *Request) {
			switch {
			case isReq && variant == 0:
				q.SetPathParam(name, val)
			case isReq:
				q.SetPathParams(map[string]string{name: val})
			case variant == 0:
				c.SetCommonPathParam(name, val)
			default:
				c.SetCommonPathParams(map[string]string{name: val})
			}
		}
	case "qs":
		name, val := fmt.Sprintf("q%d", k), fmt.Sprintf("w%d", v)
		f = func(c *Client, q *Request) {
			switch {
			case isReq && variant == 0:
				q.SetQueryParam(name, val)
			case isReq:
				q.SetQueryParams(map[string]string{name: val})
			case variant == 0:
				c.SetCommonQueryParam(name, val)
			default:
				c.SetCommonQueryParams(map[string]string{name: val})
			}
		}
	case "qa":
		name, val := fmt.Sprintf("q%d", k), fmt.Sprintf("w%d", v)
		f = func(c *Client, q *Request) {
			switch {
			case isReq && variant == 0:
				q.AddQueryParam(name, val)
			case isReq:
				q.SetQueryString(name + "=" + val)
			case variant == 0:
				c.AddCommonQueryParam(name, val)
			default:
				c.SetCommonQueryString(name + "=" + val)
			}
		}
	case "qm":
		text = fmt.Sprintf("S%d:qm,%d,%s", o, k, c19List(vs))
		name := fmt.Sprintf("q%d", k)
		var vals []string
		for _, x := range vs {
			vals = append(vals, fmt.Sprintf("w%d", x))
		}
		f = func(c *Client, q *Request) {
			if isReq {
				q.AddQueryParams(name, vals...)
			} else {
				c.AddCommonQueryParams(name, vals...)
			}
		}
	case "fs":
		m := map[string]string{fmt.Sprintf("QQf%d", k): fmt.Sprintf("QQg%d", v)}
		f = func(c *Client, q *Request) {
			if isReq {
				q.SetFormData(m)
			} else {
				c.SetCommonFormData(m)
			}
		}
	case "fa":
		f = func(c *Client, q *Request) {
			vals := urlpkg.Values{fmt.Sprintf("QQf%d", k): {fmt.Sprintf("QQg%d", v)}}
			if isReq {
				q.SetFormDataFromValues(vals)
			} else {
				c.SetCommonFormDataFromValues(vals)
			}
		}
	default:
		panic("keyedOp: " + code)
	}
	g.hist["set:"+code]++
	return c19Op{[]string{text}, func(w *c19World) []string {
		ow := w.owners[o]
		f(ow.c, ow.r)
		return c19Quiet(1)
	}}
}

// execFixed: an execution with a given method and path.
func (g *c19Gen) execFixed(ri, method int, path []c19Seg, sc int) c19Op {
	g.used[ri] = true
	var ps []string
	for _, s := range path {
		if s.param {
			ps = append(ps, fmt.Sprintf("p%d", s.n))
		} else {
			ps = append(ps, fmt.Sprintf("l%d", s.n))
		}
	}
	pt := "_"
	if len(ps) > 0 {
		pt = strings.Join(ps, ".")
	}
	g.hist["exec"]++
	return c19Op{[]string{fmt.Sprintf("E%d:%d,0,%s,%d", ri, method, pt, sc)}, func(w *c19World) []string {
		return []string{w.exec(w.owners[ri], method, 0, path, sc)}
	}}
}

// TestVerif_C19_override: request-level vs client-level value of the SAME key, every keyed family.
func TestVerif_C19_override(t *testing.T) {
	s := verifh.New(t, "C19", "override",
		"systematic: every keyed two-level settings family (canonical header incl. User-Agent and, with a struct / pointer / slice given to SetBody on every observed request, Content-Type of kind XML / JSON / neither at both levels: the request's picks the marshaller, non-canonical header, path / query set / query add / query add-many / form set / form add) with the SAME key set at client level and at request level: every spelling of the client setter (single, map, named) x every spelling of the request setter x value class (ordinary, EMPTY string, no values) x equal or different values x target client (original, clone, clone of clone) x client setter before or after R(); observed through the origin: the overriding request, a fresh request of the same client afterwards (no trace), a fresh request of every other client (no effect), settings probes; judged by the value model (Scope.runScope); non-trivial = all of them")
	w := c19NewWorld()
	defer w.close()
	hist := map[string]int{}
	for _, fam := range c19KeyedFamilies() {
		for _, k := range fam.keys {
			for cv := 0; cv < fam.cVariant; cv++ {
				for rv := 0; rv < fam.rVariant; rv++ {
					for ci, cvals := range fam.vals {
						for ri, rvals := range fam.vals {
							for depth := 0; depth < 3; depth++ {
								for order := 0; order < 2; order++ {
									// rotate the dimensions that only matter pairwise to keep the lane small
									if (cv+rv+ci+ri+depth+order+k)%2 == 1 && depth > 0 {
										continue
									}
									g := &c19Gen{r: rand.New(rand.NewSource(1)), cookie: 9, hist: hist}
									var ops []c19Op
									ops = append(ops, g.opNew())
									for d := 0; d < depth; d++ {
										ops = append(ops, g.opClone(d))
									}
									tgt := depth
									// the client's value differs from the request's unless both are the empty class
									cval := append([]int(nil), cvals...)
									if len(cval) > 0 && cval[0] != c19VEmpty && !fam.marshal {
										cval[0] = 5
									}
									nbody := 0
									body := func(rq int) {
										if fam.marshal {
											nbody++
											b, variant := c19MarshalFrom+nbody, cv+rv+depth+nbody
											ops = append(ops, c19Op{[]string{fmt.Sprintf("S%d:bd,%d", rq, b)}, func(w *c19World) []string {
												c19MarshalBody(w.owners[rq].r, b, variant)
												return c19Quiet(1)
											}})
										}
									}
									other := fam.keys[0]
									if other == k {
										other = fam.keys[len(fam.keys)-1]
									}
									rq := -1
									if order == 1 {
										rq = len(g.isReq)
										ops = append(ops, g.opNewReq(tgt))
									}
									ops = append(ops, g.keyedOp(tgt, fam.code, cv, k, cval))
									if other != k {
										ops = append(ops, g.keyedOp(tgt, fam.code, 0, other, []int{2}))
									}
									if order == 0 {
										rq = len(g.isReq)
										ops = append(ops, g.opNewReq(tgt))
									}
									ops = append(ops, g.keyedOp(rq, fam.code, rv, k, rvals))
									body(rq)
									path := []c19Seg{{false, 1}}
									if fam.code == "ps" {
										path = []c19Seg{{true, k}, {false, 2}, {true, other}}
									}
									ops = append(ops, g.execFixed(rq, fam.method, path, 0))
									for c := 0; c <= depth; c++ {
										c2 := (tgt + c) % (depth + 1) // the target first
										fr := len(g.isReq)
										ops = append(ops, g.opNewReq(c2))
										body(fr)
										ops = append(ops, g.execFixed(fr, fam.method, path, 0))
										ops = append(ops, g.opProbe(c2))
									}
									text := c19Text(ops)
									trace, ptxt, panicked := w.runProgram(ops)
									if fam.marshal {
										s.Count("family:ct-marshal")
										if ci != ri {
											s.Count("content-type-kinds-differ")
										}
									}
									s.Count("family:" + fam.code)
									s.Count(fmt.Sprintf("depth:%d", depth))
									if len(rvals) > 0 && rvals[0] == c19VEmpty {
										s.Count("request-value-empty")
									}
									if len(cvals) > 0 && cvals[0] == c19VEmpty {
										s.Count("client-value-empty")
									}
									if panicked {
										s.Crash("c19prog "+text, text, ptxt, "")
										continue
									}
									s.Case("c19prog "+text, trace, true, w.class, true, text)
								}
							}
						}
					}
				}
			}
		}
	}
	for _, fam := range c19KeyedFamilies() {
		if hist["set:"+fam.code] == 0 {
			t.Errorf("family %s never exercised", fam.code)
		}
	}
	s.Finish()
}

// TestVerif_C19_preserve: Clone leaves the original as it was, observed behaviourally.
func TestVerif_C19_preserve(t *testing.T) {
	s := verifh.New(t, "C19", "preserve",
		"an original client configured by 2-8 random settings calls (all setter groups of lane prog; jar from the default factory, a custom factory, or after ClearCookies) stores 1-3 cookies from responses, is observed (GetCookies, probe, fresh request), then cloned 1-3 times (clone of the original and clone of a clone, possibly with further cookie-storing requests of the original in between), observed again, the copies are changed by 1-4 settings calls and fire requests that store cookies of their own, and the original is observed a third time; every copy is observed too; judged by the value model (Scope.runScope: Clone reads its source only; a new jar from the factory for the copy); non-trivial = all of them")
	w := c19NewWorld()
	defer w.close()
	r := s.Rand()
	n := verifh.N(150, 3000)
	hist := map[string]int{}
	for i := 0; i < n; i++ {
		g := &c19Gen{r: r, cookie: 9, hist: hist}
		var ops []c19Op
		cnt := 0
		push := func(op c19Op) { ops = append(ops, op); cnt += len(op.texts) }
		observeClient := func(c int) {
			push(g.opGet(c))
			push(g.opProbe(c))
			ri := len(g.isReq)
			push(g.opNewReq(c))
			push(g.execFixed(ri, r.Intn(2), []c19Seg{{true, 1 + r.Intn(3)}, {false, 1}}, 0))
		}
		store := func(c int) {
			ri := len(g.isReq)
			push(g.opNewReq(c))
			g.cookie++
			push(g.execFixed(ri, 0, nil, g.cookie))
		}
		push(g.opNew())
		switch i % 3 {
		case 1:
			fid := 1 + r.Intn(3)
			push(c19Op{[]string{fmt.Sprintf("S0:jf,%d", fid)}, func(w *c19World) []string {
				w.owners[0].c.SetCookieJarFactory(w.mkJarFactory(fid))
				return c19Quiet(1)
			}})
			s.Count("jar:custom-factory")
		case 2:
			store(0)
			push(c19Op{[]string{"S0:cc"}, func(w *c19World) []string { w.owners[0].c.ClearCookies(); return c19Quiet(1) }})
			s.Count("jar:after-ClearCookies")
		default:
			s.Count("jar:default-factory")
		}
		for k := 2 + r.Intn(7); k > 0; k-- {
			push(g.setter(0))
		}
		for k := 1 + r.Intn(3); k > 0; k-- {
			store(0)
		}
		observeClient(0)
		nc := 1 + r.Intn(3)
		for k := 0; k < nc; k++ {
			src := 0
			if cl := g.clients(); k > 0 && r.Intn(2) == 0 {
				src = cl[len(cl)-1]
			}
			push(g.opClone(src))
			if r.Intn(3) == 0 {
				store(0)
			}
		}
		observeClient(0)
		for _, c := range g.clients()[1:] {
			for k := 1 + r.Intn(4); k > 0; k-- {
				push(g.setter(c))
			}
			store(c)
			observeClient(c)
		}
		observeClient(0)
		text := c19Text(ops)
		trace, ptxt, panicked := w.runProgram(ops)
		s.Count(fmt.Sprintf("clones:%d", nc))
		if panicked {
			s.Crash("c19prog "+text, text, ptxt, w.class)
			continue
		}
		s.Case("c19prog "+text, trace, true, w.class, true, text)
	}
	for _, need := range []string{"clone", "clone-of-clone", "exec"} {
		if hist[need] == 0 {
			t.Errorf("generator never reached bucket %q", need)
		}
	}
	s.Finish()
}
