//go:build verif

package req

import (
	"context"
	"fmt"
	"net"
	"strings"
	"sync"
	"sync/atomic"
	"syscall"
	"testing"
	"time"

	"github.com/imroc/req/v3/internal/verifh"
)

// =========================================================================================
// C08 lane `dial` (round 6): the context ends DURING THE DIAL — the peer is silent at the stage
// the dial has reached:
//   connect   = the SYN is never answered (a loopback listener whose accept queue is full),
//   handshake = the TCP connection is accepted and then nothing is said (no ServerHello); HTTP/3: a
//               UDP socket that never answers the QUIC Initial
// x protocol path {h1 (clear text), h1tls (https, HTTP/1.1 forced), auto (https, protocol left to
// ALPN: the HTTP/1 dialer), h2 (forced: the http2 connection pool's shared dialCall), h3 (forced)}
// x role {first = the only request | starter = it started the dial, a second request has joined |
//         joiner = it joined the dial another request started}
// x kind {cancel, event-driven deadline, Client.SetTimeout}.
// The request whose context ended must return its context's error within the bound whatever the
// dial does; the OTHER request must neither return nor inherit the error (the dial goes on, or is
// restarted, for it) and must itself be cancellable afterwards.  Forced HTTP/2 is model-judged
// (driver lane c08dial, Req/Pool/CancelDial.lean); every case is judged by the oracle.
// =========================================================================================

// c08SilentTCP accepts connections and never says a word.
type c08SilentTCP struct {
	ln       net.Listener
	mu       sync.Mutex
	conns    []net.Conn
	accepted int32
}

func newC08SilentTCP() (*c08SilentTCP, error) {
	ln, err := net.Listen("tcp", "127.0.0.1:0")
	if err != nil {
		return nil, err
	}
	p := &c08SilentTCP{ln: ln}
	go func() {
		for {
			c, err := ln.Accept()
			if err != nil {
				return
			}
			p.mu.Lock()
			p.conns = append(p.conns, c)
			p.mu.Unlock()
			atomic.AddInt32(&p.accepted, 1)
		}
	}()
	return p, nil
}

func (p *c08SilentTCP) close() {
	p.ln.Close()
	p.mu.Lock()
	for _, c := range p.conns {
		c.Close()
	}
	p.mu.Unlock()
}

// c08Blackhole is a loopback TCP port whose SYNs go unanswered: a listening socket with backlog 0 whose
// accept queue has been filled and is never drained. ok=false: this kernel does not behave like that.
type c08Blackhole struct {
	fd      int
	addr    string
	fillers []net.Conn
}

func newC08Blackhole() (*c08Blackhole, bool) {
	fd, err := syscall.Socket(syscall.AF_INET, syscall.SOCK_STREAM, 0)
	if err != nil {
		return nil, false
	}
	b := &c08Blackhole{fd: fd}
	if err := syscall.Bind(fd, &syscall.SockaddrInet4{Addr: [4]byte{127, 0, 0, 1}}); err != nil {
		b.close()
		return nil, false
	}
	if err := syscall.Listen(fd, 0); err != nil {
		b.close()
		return nil, false
	}
	sa, err := syscall.Getsockname(fd)
	if err != nil {
		b.close()
		return nil, false
	}
	b.addr = fmt.Sprintf("127.0.0.1:%d", sa.(*syscall.SockaddrInet4).Port)
	for i := 0; i < 8; i++ {
		c, err := net.DialTimeout("tcp", b.addr, 250*time.Millisecond)
		if err != nil {
			if ne, ok := err.(net.Error); ok && ne.Timeout() {
				return b, true // the queue is full: connects hang from now on
			}
			break
		}
		b.fillers = append(b.fillers, c)
	}
	b.close()
	return nil, false
}

func (b *c08Blackhole) close() {
	for _, c := range b.fillers {
		c.Close()
	}
	syscall.Close(b.fd)
}

type c08DialBody struct {
	closes int32
	reads  int32
}

func (b *c08DialBody) Read(p []byte) (int, error) {
	atomic.AddInt32(&b.reads, 1)
	if atomic.LoadInt32(&b.closes) > 0 {
		return 0, fmt.Errorf("c08: read on closed request body")
	}
	for i := range p {
		p[i] = 'x'
	}
	return len(p), nil
}
func (b *c08DialBody) Close() error { atomic.AddInt32(&b.closes, 1); return nil }

type c08DialObs struct {
	note        string
	res         string
	elapsed     time.Duration
	pending     bool
	closes      int
	hasBody     bool
	other       string // "" = no other request; pending | returned:<class>
	otherCancel string // what the other request returned when it was cancelled in its turn ("" = none / ok)
	leak        []string
}

func c08DialExec(path, stage, role, kind string, upload bool) (o c08DialObs) {
	base := len(c08Census())
	var addr string
	var closePeer func()
	var tcp *c08SilentTCP
	switch {
	case path == "h3":
		udp, err := net.ListenUDP("udp", &net.UDPAddr{IP: net.IPv4(127, 0, 0, 1)})
		if err != nil {
			o.note = "udp: " + err.Error()
			return
		}
		addr, closePeer = udp.LocalAddr().String(), func() { udp.Close() }
	case stage == "connect":
		b, ok := newC08Blackhole()
		if !ok {
			o.note = "blackhole-unavailable"
			return
		}
		addr, closePeer = b.addr, b.close
	default:
		p, err := newC08SilentTCP()
		if err != nil {
			o.note = "tcp: " + err.Error()
			return
		}
		tcp, addr, closePeer = p, p.ln.Addr().String(), p.close
	}
	closed := false
	defer func() {
		if !closed {
			closePeer()
		}
	}()

	c := C().EnableInsecureSkipVerify().DisableAutoReadResponse()
	url := "https://" + addr + "/"
	switch path {
	case "h1":
		url = "http://" + addr + "/"
	case "h1tls":
		c.EnableForceHTTP1()
	case "h2":
		c.EnableForceHTTP2()
	case "h3":
		c.EnableForceHTTP3()
		if c.GetTransport().t3 == nil {
			o.note = "HTTP/3 not available"
			return
		}
		defer c.GetTransport().t3.Close()
	}
	clientTimeout := 400 * time.Millisecond
	if kind == "client-timeout" {
		c.SetTimeout(clientTimeout)
	}

	type result struct {
		err  error
		when time.Time
	}
	send := func(ctx context.Context, body *c08DialBody) chan result {
		ch := make(chan result, 1)
		go func() {
			rq := c.R().SetContext(ctx)
			var err error
			if body != nil {
				_, err = rq.SetBody(body).Post(url)
			} else {
				var resp *Response
				resp, err = rq.Get(url)
				if err == nil {
					resp.Body.Close()
				}
			}
			ch <- result{err, time.Now()}
		}()
		return ch
	}
	inFlight := func(n int32) {
		if tcp != nil {
			c08WaitFor(c08Bound, func() bool { return atomic.LoadInt32(&tcp.accepted) >= n })
		}
		time.Sleep(70 * time.Millisecond) // SYN / ClientHello / QUIC Initial on its way, the waiter parked
	}
	perReqDial := path == "h1" || path == "h1tls" || path == "auto" // one dial per request (HTTP/1 dialer)

	var ctx context.Context
	var inject func()
	switch kind {
	case "canceled":
		cc, cancel := context.WithCancel(context.Background())
		ctx, inject = cc, cancel
	case "deadline":
		d := newC08DeadlineCtx()
		child, stop := context.WithCancel(d)
		defer stop()
		ctx, inject = child, func() { d.expire(); <-child.Done() }
	default:
		ctx, inject = context.Background(), func() {}
	}
	octx, ocancel := context.WithCancel(context.Background())
	defer ocancel()

	var body *c08DialBody
	if upload {
		body, o.hasBody = &c08DialBody{}, true
	}
	var me, other chan result
	started := time.Now()
	switch role {
	case "first":
		me = send(ctx, body)
		inFlight(1)
	case "starter":
		me = send(ctx, body)
		inFlight(1)
		other = send(octx, nil)
		if perReqDial {
			inFlight(2)
		} else {
			inFlight(1)
		}
	case "joiner":
		other = send(octx, nil)
		inFlight(1)
		me = send(ctx, body)
		if perReqDial {
			inFlight(2)
		} else {
			inFlight(1)
		}
	}
	at := time.Now()
	inject()
	if kind == "client-timeout" {
		at = started.Add(clientTimeout)
	}
	select {
	case r := <-me:
		o.res = c08Class(r.err)
		o.elapsed = r.when.Sub(at)
	case <-time.After(time.Until(at) + c08Bound + time.Second):
		o.pending, o.res = true, "hung"
		o.elapsed = time.Since(at)
	}
	if body != nil {
		c08WaitFor(c08Bound/4, func() bool { return atomic.LoadInt32(&body.closes) > 0 })
		o.closes = int(atomic.LoadInt32(&body.closes))
	}
	if other != nil {
		// the other request: still waiting for ITS connection a little later, and cancellable in its turn
		select {
		case r := <-other:
			o.other = "returned:" + c08Class(r.err)
		case <-time.After(200 * time.Millisecond):
			o.other = "pending"
			oat := time.Now()
			ocancel()
			select {
			case r := <-other:
				if cl := c08Class(r.err); cl != "canceled" {
					o.otherCancel = "error-class=" + cl
				} else if d := r.when.Sub(oat); d > c08Bound {
					o.otherCancel = fmt.Sprintf("not-prompt(%v)", d.Round(time.Millisecond))
				}
			case <-time.After(c08HardLimit / 2):
				o.otherCancel = "hung"
			}
		}
	}
	// wind down: the silent peer hangs up (a dial still in flight ends), nothing of the library may stay
	closePeer()
	closed = true
	c.GetTransport().CloseIdleConnections()
	if path == "h3" {
		c.GetTransport().t3.Close()
	}
	if o.pending || o.otherCancel == "hung" {
		return // (reported as wedged; its goroutines are still there, of course)
	}
	if l := c08Settle(base, c08Bound+time.Second); len(l) > 0 {
		if l = c08Settle(base, 2*c08Bound); len(l) > 0 {
			o.leak = l
		}
	}
	return
}

func TestVerif_C08_dial(t *testing.T) {
	c08Mu.Lock()
	defer c08Mu.Unlock()
	lane := "dial"
	s := verifh.New(t, "C08", lane,
		"the context ends DURING THE DIAL against a silent peer: stage {connect: SYN never answered (loopback listener with a full accept queue) | handshake: TCP accepted, no ServerHello / QUIC Initial never answered} x path {h1, h1tls, auto (ALPN), forced h2 (the http2 pool's shared dialCall), forced h3} x role {only request, starter of the dial with a second request joined, joiner of another request's dial} x {cancel, event-driven deadline, Client.SetTimeout} x {GET, upload}; the request returns its context's error within 2 s, its body is closed, the OTHER request neither returns nor inherits the error and is cancellable in its turn, nothing is left running once the peer hangs up; forced h2 compared with the dialCall model (driver lane c08dial); non-trivial = the dial was in flight when the context ended")
	s.OracleIndependent = false
	rnd := s.Rand()
	cnt := map[string]int{}
	count := func(k string) { cnt[k]++; s.Count(k) }
	type tc struct{ path, stage, role, kind string }
	var cases []tc
	paths := []string{"h1", "h1tls", "auto", "h2", "h3"}
	for _, p := range paths {
		stages := []string{"connect", "handshake"}
		if p == "h1" {
			stages = []string{"connect"}
		}
		if p == "h3" {
			stages = []string{"handshake"}
		}
		for _, st := range stages {
			for _, role := range []string{"first", "starter", "joiner"} {
				for _, kind := range []string{"canceled", "deadline", "client-timeout"} {
					if kind == "client-timeout" && role != "first" {
						continue // the client's timeout is every request's: no "other" to look at
					}
					cases = append(cases, tc{p, st, role, kind})
				}
			}
		}
	}
	if !verifh.Thorough() {
		// quick: every (path, stage) at least once, every role on every path; the shared dials (forced h2, h3)
		// with all three roles, the stage / kind of the rest drawn from the seed
		var pick []tc
		kinds := []string{"canceled", "deadline", "client-timeout"}
		g := rnd.Intn(6)
		for _, p := range paths {
			stages := []string{"connect", "handshake"}
			if p == "h1" {
				stages = []string{"connect"}
			}
			if p == "h3" {
				stages = []string{"handshake"}
			}
			shared := p == "h2" || p == "h3"
			sel := rnd.Intn(len(stages))
			for i, st := range stages {
				g++
				pick = append(pick, tc{p, st, "first", kinds[g%3]})
				if shared && i == sel {
					pick = append(pick, tc{p, st, "starter", kinds[(g+1)%2]}, tc{p, st, "joiner", kinds[g%2]})
				} else if !shared && i == sel {
					pick = append(pick, tc{p, st, "joiner", kinds[g%2]})
				}
			}
		}
		cases = pick
	}
	for n, c := range cases {
		upload := n%2 == 1
		id := fmt.Sprintf("dial/%s/%s/%s/%s/up=%v", c.path, c.stage, c.role, c.kind, upload)
		o := c08DialExec(c.path, c.stage, c.role, c.kind, upload)
		if o.note != "" {
			count("not-run:" + o.note)
			continue
		}
		slow := func(o c08DialObs) bool { return o.pending || o.elapsed > c08Bound || o.otherCancel != "" }
		if slow(o) {
			// a late return has to show twice (shared, loaded machine)
			count("slow-case-run-again")
			if o2 := c08DialExec(c.path, c.stage, c.role, c.kind, upload); o2.note == "" && !slow(o2) {
				o = o2
			}
		}
		want := c.kind
		if want == "client-timeout" {
			want = "deadline"
		}
		var failed []string
		if o.pending {
			failed = append(failed, fmt.Sprintf("WEDGED: the request had not returned %v after its context ended", o.elapsed.Round(time.Millisecond)))
		} else {
			if o.res != want {
				failed = append(failed, "error-class="+o.res)
			}
			if o.elapsed > c08Bound {
				failed = append(failed, fmt.Sprintf("not-prompt(%v)", o.elapsed.Round(time.Millisecond)))
			}
		}
		if o.hasBody && o.closes == 0 && !o.pending {
			failed = append(failed, "request-body-not-closed")
		}
		if o.closes > 1 {
			failed = append(failed, fmt.Sprintf("request-body-closes=%d", o.closes))
		}
		if strings.HasPrefix(o.other, "returned:") {
			failed = append(failed, "other-request-"+o.other)
		}
		if o.otherCancel != "" {
			failed = append(failed, "other-request-cancelled-in-its-turn:"+o.otherCancel)
		}
		if len(o.leak) > 0 {
			failed = append(failed, "goroutines-left:"+c08TopFrames(o.leak))
		}
		class := ""
		if c.path == "h2" && c.role == "joiner" && len(failed) > 0 {
			onlyWait := true
			for _, f := range failed {
				if !strings.HasPrefix(f, "WEDGED") && !strings.HasPrefix(f, "not-prompt") && !strings.HasPrefix(f, "goroutines-left") {
					onlyWait = false
				}
			}
			if onlyWait {
				class = "h2-dial-joiner-waits-bare"
			}
		}
		if c.path == "h2" && len(failed) == 1 && failed[0] == "request-body-not-closed" {
			class = "h2-dial-error-leaves-body-open"
		}
		count("path=" + c.path)
		count("stage=" + c.stage)
		count("role=" + c.role)
		count("kind=" + c.kind)
		count("res=" + o.res)
		human := fmt.Sprintf("%s, peer silent at %s, %s, %s, upload=%v -> %s %v after the context ended, body closes=%d, other=%s",
			c.path, c.stage, c.role, c.kind, upload, o.res, o.elapsed.Round(time.Millisecond), o.closes, o.other)
		if len(failed) > 0 {
			human += " FAILED: " + strings.Join(failed, ", ")
		}
		if c.path == "h2" {
			starter := "1"
			if c.role == "joiner" {
				starter = "0"
			}
			oth := "?"
			switch {
			case o.other == "pending":
				oth = "pending"
			case strings.HasPrefix(o.other, "returned:"):
				oth = "err"
			}
			impl := fmt.Sprintf("me=%s;other=%s", o.res, oth)
			count("model-judged")
			s.Case(fmt.Sprintf("c08dial %s %s %s %s", starter, c.stage, want, impl), impl, len(failed) == 0, class, true, human)
			continue
		}
		s.Observe(id, len(failed) == 0, class, true, human, strings.Join(failed, ", "))
	}
	must := []string{"path=h1", "path=h1tls", "path=auto", "path=h2", "path=h3", "stage=connect", "stage=handshake",
		"role=first", "role=starter", "role=joiner", "kind=canceled", "kind=deadline", "kind=client-timeout", "model-judged"}
	for _, want := range must {
		if cnt[want] == 0 {
			t.Errorf("lane %s: bucket %q not reached", lane, want)
		}
	}
	s.Finish()
}
