//go:build verif

package req

import (
	"bytes"
	"fmt"
	"io"
	"math/rand"
	"net/url"
	"os"
	"path/filepath"
	"strconv"
	"strings"
	"sync"
	"testing"
	"time"

	"github.com/imroc/req/v3/internal/verifh"
	htmlcharset "golang.org/x/net/html/charset"
)

// c17StageScenario: which readers the transport stacks on the response body besides the progress
// reader — decided by the client's auto-decode options, the response's Content-Type and the text.
type c17StageScenario struct {
	name    string
	mode    string // client option: default / disable / all / custom
	ct      string // Content-Type of the response ("none" = header absent)
	charset string // the charset the TEXT is written in (label for x/net/html/charset.Lookup; "" = random bytes)
	prefix  string // ASCII text in front of the body (a <meta> declaration, …)
	bom     string // byte-order mark in front of everything
	// expect: "identity" (no charset decoder, or one that changes nothing), "declared" (decoder of a
	// charset declared in Content-Type: the whole body is transcoded), "sniffed" (the sniffing
	// reader: transcoded when the declaration lies in the first read, else untouched)
	expect string
}

var c17StageScenarios = []c17StageScenario{
	{"binary", "default", "application/octet-stream", "", "", "", "identity"},
	{"no-content-type", "default", "none", "", "", "", "identity"},
	{"utf8-declared", "default", "text/plain; charset=utf-8", "utf-8", "", "", "identity"},
	{"gbk-declared", "default", "text/plain; charset=gbk", "gbk", "", "", "declared"},
	{"gbk-declared-html", "default", "text/html; charset=GBK", "gbk", "<html><body>", "", "declared"},
	{"gb18030-declared", "default", "application/json; charset=gb18030", "gb18030", "", "", "declared"},
	{"big5-declared", "default", "text/plain; charset=big5", "big5", "", "", "declared"},
	{"shift_jis-declared", "default", "text/xml; charset=shift_jis", "shift_jis", "", "", "declared"},
	{"euc-kr-declared", "default", "text/plain; charset=euc-kr", "euc-kr", "", "", "declared"},
	{"latin1-declared", "default", "text/plain; charset=iso-8859-1", "iso-8859-1", "", "", "declared"},
	{"cp1252-declared", "default", "text/csv; charset=windows-1252", "windows-1252", "", "", "declared"},
	{"koi8r-declared", "default", "text/plain; charset=koi8-r", "koi8-r", "", "", "declared"},
	{"utf16le-declared", "default", "text/plain; charset=utf-16le", "utf-16le", "", "", "declared"},
	{"unsupported-declared", "default", "text/plain; charset=x-c17-unknown", "gbk", "", "", "identity"},
	{"gbk-meta", "default", "text/html", "gbk", `<html><head><meta charset="gbk"></head><body>`, "", "sniffed"},
	{"sjis-meta-pragma", "default", "text/html", "shift_jis", `<meta http-equiv="Content-Type" content="text/html; charset=shift_jis">`, "", "sniffed"},
	{"latin1-meta", "default", "application/xhtml+xml", "iso-8859-1", `<meta charset=iso-8859-1>`, "", "sniffed"},
	{"utf16le-bom", "default", "text/plain", "utf-16le", "", "\xff\xfe", "sniffed"},
	{"utf16be-bom", "default", "application/json", "utf-16be", "", "\xfe\xff", "sniffed"},
	{"undetermined-text", "default", "text/plain", "utf-8", "", "", "identity"},
	{"gbk-not-text-type", "default", "application/octet-stream; charset=gbk", "gbk", "", "", "identity"},
	{"gbk-disabled", "disable", "text/plain; charset=gbk", "gbk", "", "", "identity"},
	{"gbk-meta-disabled", "disable", "text/html", "gbk", `<meta charset="gbk">`, "", "identity"},
	{"gbk-all-types", "all", "application/octet-stream; charset=gbk", "gbk", "", "", "declared"},
	{"gbk-meta-all-types", "all", "image/x-c17", "gbk", `<meta charset="gbk">`, "", "sniffed"},
	{"gbk-custom-selected", "custom", "application/x-c17; charset=gbk", "gbk", "", "", "declared"},
	{"gbk-custom-not-selected", "custom", "text/plain; charset=gbk", "gbk", "", "", "identity"},
}

// c17TextIn returns about `size` bytes of text written in `label` (only characters the charset can
// represent, mixed with ASCII) and its UTF-8 form.
func c17TextIn(r *rand.Rand, label string, size int) (encoded, utf8 []byte) {
	enc, _ := htmlcharset.Lookup(label)
	if enc == nil {
		panic("c17: no encoding " + label)
	}
	ranges := [][2]rune{{0x20, 0x7e}, {0xa0, 0xff}, {0x410, 0x44f}, {0x3041, 0x3093}, {0x4e00, 0x9fa5}, {0xac00, 0xd7a3}, {0x20ac, 0x20ac}}
	e := enc.NewEncoder()
	var eb, ub bytes.Buffer
	for eb.Len() < size {
		rg := ranges[r.Intn(len(ranges))]
		ru := rg[0] + rune(r.Intn(int(rg[1]-rg[0])+1))
		if r.Intn(12) == 0 {
			ru = '\n'
		}
		s := string(ru)
		b, err := e.Bytes([]byte(s))
		if err != nil || len(b) == 0 {
			e = enc.NewEncoder()
			continue
		}
		if back, derr := enc.NewDecoder().Bytes(b); derr != nil || string(back) != s {
			continue // not a character this charset round-trips on its own
		}
		if eb.Len()+len(b) > size && eb.Len() > 0 {
			// fill up with ASCII in that charset
			b, _ = e.Bytes([]byte("."))
			s = "."
			if eb.Len()+len(b) > size {
				break
			}
		}
		eb.Write(b)
		ub.WriteString(s)
	}
	return eb.Bytes(), ub.Bytes()
}

// TestVerif_C17_e2edlstages: download progress × the readers the transport stacks on the response
// body: content decoding, charset decoding, dumping — the totals judged against the WIRE byte count.
func TestVerif_C17_e2edlstages(t *testing.T) {
	s := verifh.New(t, "C17", "e2edlstages",
		"downloads over HTTP/1.1, HTTP/2, HTTP/3 of text in gbk / gb18030 / big5 / shift_jis / euc-kr / iso-8859-1 / windows-1252 / koi8-r / utf-16 / utf-8 and of random bytes (0 B … 100 KB), the charset declared in Content-Type, in a <meta> tag, by a byte-order mark, not at all, or unsupported × auto-decode options (default, DisableAutoDecode, SetAutoDecodeAllContentType, SetAutoDecodeContentTypeFunc) × Content-Encoding identity / gzip (transparent or AutoDecompress) / deflate / br / zstd × dumping (off / client / request / without response body) × Content-Length or chunked × SetOutput / SetOutputFile × callback interval 0 or 1 h. Model-judged (`c17dlstages` = Stages.stackOf + observed + deliver): the last report is the number of bytes on the WIRE (not the decompressed, not the transcoded size) and the caller receives the decoded, transcoded text. Oracle: reports strictly increasing, never above the wire size, ending at it (1 h: exactly one report); the delivered bytes are the UTF-8 form of the text (declared charset), the UTF-8 form or the original (sniffed), the original (no decoding). non-trivial = the delivered byte count differs from the wire byte count")
	r := s.Rand()
	dir := t.TempDir()
	origins := map[string]*c17Origin{"h1": c17NewOrigin("h1"), "h2": c17NewOrigin("h2"), "h3": c17NewOrigin("h3")}
	defer origins["h1"].stop()
	defer origins["h2"].stop()
	defer origins["h3"].stop()
	n := verifh.N(150, 4000)
	for i := 0; i < n; i++ {
		proto := []string{"h1", "h2", "h3"}[i%3]
		o := origins[proto]
		c := c17Client(proto)
		// the first len(scenarios) cases walk the table, the rest draw from it
		sc := c17StageScenarios[i%len(c17StageScenarios)]
		if i >= len(c17StageScenarios) {
			sc = c17StageScenarios[r.Intn(len(c17StageScenarios))]
		}
		switch sc.mode {
		case "disable":
			c.DisableAutoDecode()
		case "all":
			c.SetAutoDecodeAllContentType()
		case "custom":
			c.SetAutoDecodeContentTypeFunc(func(ct string) bool { return strings.Contains(ct, "x-c17") })
		}
		enc := verifh.Pick(r, []string{"", "", "", "gzip", "gzip", "deflate", "br", "zstd"})
		if enc != "" && enc != "gzip" || r.Intn(2) == 0 {
			c.EnableAutoDecompress()
		}
		size := verifh.Pick(r, []int{0, 1, 100, 100, 4000, 4096, 32768, 100000})
		var data, want []byte
		if sc.charset == "" {
			data = []byte(verifh.RandBytes(r, size, ""))
			want = data
		} else {
			tb, ub := c17TextIn(r, sc.charset, size)
			px := []byte(sc.prefix)
			if sc.prefix != "" && strings.HasPrefix(sc.charset, "utf-16") {
				panic("c17: ASCII prefix in a UTF-16 scenario")
			}
			data = append(append([]byte(sc.bom), px...), tb...)
			want = append(append([]byte(nil), px...), ub...) // (the BOM's fate is left to the reference decoder below)
			if size == 0 {
				data, want = nil, nil
			}
		}
		// reference transcoding of the whole body
		transcoded := data
		if sc.charset != "" && len(data) > 0 {
			if e, _ := htmlcharset.Lookup(sc.charset); e != nil {
				if tb, err := e.NewDecoder().Bytes(data); err == nil {
					transcoded = tb
				}
			}
			if sc.bom == "" && !bytes.Equal(transcoded, want) && sc.charset != "utf-8" {
				t.Fatalf("c17 generator: the reference decoder does not give back the text (%s)", sc.name)
			}
		}
		wire := len(c17Encode(enc, data))
		id := "s" + strconv.Itoa(i)
		o.mu.Lock()
		o.dl[id] = data
		o.mu.Unlock()
		chunked := r.Intn(2) == 0
		u := o.base + "/dl?id=" + id + "&ct=" + url.QueryEscape(sc.ct)
		if chunked {
			u += "&chunked=1"
		}
		if enc != "" {
			u += "&enc=" + enc
		}
		interval := verifh.Pick(r, []time.Duration{0, time.Hour, time.Hour})
		var mu sync.Mutex
		var emitted []int64
		var out bytes.Buffer
		req := c.R().SetDownloadCallbackWithInterval(func(info DownloadInfo) {
			mu.Lock()
			emitted = append(emitted, info.DownloadedSize)
			mu.Unlock()
		}, interval)
		dumpMode := verifh.Pick(r, []string{"off", "off", "client", "request", "no-resp-body"})
		switch dumpMode {
		case "client":
			c.EnableDumpAllTo(io.Discard)
		case "request":
			req.EnableDumpTo(io.Discard)
		case "no-resp-body":
			c.EnableDumpAllTo(io.Discard)
			c.EnableDumpAllWithoutResponseBody()
		}
		output := verifh.Pick(r, []string{"writer", "writer", "file"})
		fp := filepath.Join(dir, "st"+id)
		if output == "file" {
			req.SetOutputFile(fp)
		} else {
			req.SetOutput(&out)
		}
		resp, err := req.Get(u)
		got := out.Bytes()
		if output == "file" {
			got, _ = os.ReadFile(fp)
			os.Remove(fp)
		}
		ok := err == nil && resp != nil && resp.StatusCode == 200
		detail := ""
		if !ok {
			detail = fmt.Sprintf("err=%v", err)
		}
		// what the caller received
		tr := len(transcoded)
		switch sc.expect {
		case "identity":
			tr = len(data)
			if ok && !bytes.Equal(got, data) {
				ok, detail = false, fmt.Sprintf("delivered %d bytes, not the %d original bytes (no charset decoding applies)", len(got), len(data))
			}
		case "declared":
			if ok && !bytes.Equal(got, transcoded) {
				ok, detail = false, fmt.Sprintf("delivered %d bytes, not the %d bytes of the UTF-8 form of the text", len(got), len(transcoded))
			}
		case "sniffed":
			// detection looks at the first read only (C15's subject): either outcome is right here
			switch {
			case bytes.Equal(got, transcoded):
				s.Count("sniffed-transcoded")
			case bytes.Equal(got, data):
				s.Count("sniffed-untouched")
				tr = len(data)
			default:
				s.Count("sniffed-other")
				tr = len(got)
			}
		}
		mu.Lock()
		var last int64
		for _, e := range emitted {
			if e <= last || e > int64(wire) {
				ok = false
				detail = fmt.Sprintf("count %d after %d (the download has %d bytes on the wire; %d after content decoding, %d delivered)", e, last, wire, len(data), len(got))
				break
			}
			last = e
		}
		if ok && wire > 0 && (len(emitted) == 0 || emitted[len(emitted)-1] != int64(wire)) {
			ok = false
			detail = fmt.Sprintf("last report %d, %d bytes were downloaded", last, wire)
		}
		if ok && interval == time.Hour && len(emitted) > 1 {
			ok, detail = false, fmt.Sprintf("%d reports within an hour's interval", len(emitted))
		}
		lastS := "-"
		if len(emitted) > 0 {
			lastS = strconv.FormatInt(emitted[len(emitted)-1], 10)
		}
		reps := c17Ints64(emitted)
		mu.Unlock()
		s.Count(proto)
		s.Count("enc:" + enc)
		s.Count("scenario:" + sc.name)
		s.Count("expect:" + sc.expect)
		s.Count("dump:" + dumpMode)
		if enc != "" && len(got) != len(data) {
			s.Count("content-decoding+charset-decoding")
		}
		b := func(x bool) string {
			if x {
				return "1"
			}
			return "0"
		}
		cs := sc.expect != "identity" || (sc.name == "undetermined-text")
		line := fmt.Sprintf("c17dlstages %s 1 %s %s %d %d %d", b(enc != ""), b(cs), b(dumpMode == "client" || dumpMode == "request"), wire, len(data), tr)
		impl := fmt.Sprintf("last=%s out=%d", lastS, len(got))
		human := fmt.Sprintf("download %s scenario=%s (Content-Type %q, auto-decode %s) enc=%q wire=%dB content-decoded=%dB delivered=%dB chunked=%v dump=%s output=%s interval=%v -> reports %s %s",
			proto, sc.name, sc.ct, sc.mode, enc, wire, len(data), len(got), chunked, dumpMode, output, interval, c17Trunc(reps, 80), detail)
		s.Case(line, impl, ok, "", len(got) != wire, human)
		o.mu.Lock()
		delete(o.dl, id)
		o.mu.Unlock()
		c17Done(c)
	}
	s.Finish()
}
